"""Shared machinery of ./check: builds, line-protocol execution of model and implementation,
diffing, verdicts, evidence."""
import fcntl, hashlib, json, os, random, re, shutil, subprocess, sys, time

VERIF = os.path.dirname(os.path.dirname(os.path.abspath(__file__)))
REPO = os.environ.get("VERIF_REPO", "/repo")
LEAN = os.path.join(VERIF, "lean")
HARNESS = os.path.join(VERIF, "harness")
WORK = os.path.join(VERIF, ".work")
DRIVER = os.path.join(LEAN, ".lake", "build", "bin", "driver")
HARNESS_BIN = os.path.join(HARNESS, "target", "debug", "harness")
ALLOWED_AXIOMS = {"propext", "Classical.choice", "Quot.sound"}
ENV = dict(os.environ, CARGO_NET_OFFLINE="true")

TRUSTED_BASE = [
    "Lean 4.33.0 kernel (lake build; thorough tier re-checks the .olean with leanchecker)",
    "axioms: subset of {propext, Classical.choice, Quot.sound}, printed per theorem by `#print axioms` on this run; no native_decide, no sorry",
    "theorem statements in lean/Tftp/Props/*.lean (they, not the proofs, must be read)",
    "tools/extract.py (constants and tables regenerated from /repo on this run)",
    "correspondence harness (/verif/harness, checklib generators, Lean driver parsing) ties the hand-written model to the Rust code on the sampled inputs only",
    "Rust std behaviour modelled, not verified: String::from_utf8, str::to_lowercase, str::parse, to_string, File read/write on regular files, std::path, UdpSocket, mpsc, thread::spawn",
]


def log(msg):
    sys.stderr.write(msg + "\n")
    sys.stderr.flush()


class BuildLock:
    def __enter__(self):
        os.makedirs(WORK, exist_ok=True)
        self.f = open(os.path.join(WORK, "build.lock"), "w")
        fcntl.flock(self.f, fcntl.LOCK_EX)
        return self

    def __exit__(self, *a):
        fcntl.flock(self.f, fcntl.LOCK_UN)
        self.f.close()


def sh(cmd, cwd=None, timeout=3600):
    p = subprocess.run(cmd, cwd=cwd, env=ENV, stdout=subprocess.PIPE, stderr=subprocess.STDOUT,
                       text=True, timeout=timeout)
    return p.returncode, p.stdout


def build(prop_id, lean_targets, bins=False):
    """Regenerate Generated.lean from /repo, build the Lean driver + the property's theorem module,
    build the harness against the current /repo tree. Returns a dict of statuses (never raises)."""
    res = {}
    with BuildLock():
        t0 = time.time()
        rc, out = sh([sys.executable, os.path.join(VERIF, "tools", "extract.py")])
        res["extract_rc"] = rc
        res["extract_out"] = out.strip()
        try:
            with open(os.path.join(WORK, "extract_report.json")) as f:
                res["extract"] = json.load(f)
        except OSError:
            res["extract"] = {}
        rc, out = sh(["lake", "build", "driver"], cwd=LEAN)
        res["driver_rc"] = rc
        res["driver_log"] = out[-4000:]
        rc, out = sh(["lake", "build"] + lean_targets, cwd=LEAN)
        res["props_rc"] = rc
        res["props_log"] = out[-6000:]
        rc, out = sh(["cargo", "build", "--offline"], cwd=HARNESS)
        res["harness_rc"] = rc
        res["harness_log"] = out[-6000:]
        if bins and rc == 0:
            # the real tftpd / tftpc binaries, built from the current tree into /verif (not into /repo)
            rc2, out2 = sh(["cargo", "build", "--offline", "--features", "client", "--bins", "--manifest-path",
                            os.path.join(REPO, "Cargo.toml"), "--target-dir", os.path.join(HARNESS, "target", "repo-bins")])
            res["bins_rc"] = rc2
            if rc2 != 0:
                res["harness_rc"] = rc2
                res["harness_log"] = out2[-6000:]
        res["build_s"] = round(time.time() - t0, 1)
    return res


SCAN_RE = re.compile(r"sorry|admit|^\s*axiom |native_decide|bv_decide|implemented_by|unsafe |maxHeartbeats 0")


def scan_sources():
    """Rejects escape hatches in the Lean sources (outside comments)."""
    hits = []
    for root, _, files in os.walk(os.path.join(LEAN, "Tftp")):
        for fn in files:
            if not fn.endswith(".lean"):
                continue
            p = os.path.join(root, fn)
            text = open(p).read()
            # strip block comments and line comments
            text = re.sub(r"/-.*?-/", lambda m: "\n" * m.group(0).count("\n"), text, flags=re.S)
            for i, line in enumerate(text.split("\n"), 1):
                line = line.split("--")[0]
                if SCAN_RE.search(line):
                    hits.append("%s:%d: %s" % (os.path.relpath(p, VERIF), i, line.strip()))
    return hits


def audit(prop_id, module, theorems, workdir):
    """`#print axioms` for every obligation; returns (discharged list, failures dict, axioms dict)."""
    path = os.path.join(workdir, "Audit_%s.lean" % prop_id)
    with open(path, "w") as f:
        f.write("import %s\n" % module)
        for t in theorems:
            f.write("#print axioms %s\n" % t)
    rc, out = sh(["lake", "env", "lean", path], cwd=LEAN)
    axioms = {}
    for m in re.finditer(r"'([^']+)' depends on axioms: \[([^\]]*)\]", out, re.S):
        axioms[m.group(1)] = [a.strip() for a in m.group(2).replace("\n", " ").split(",") if a.strip()]
    for m in re.finditer(r"'([^']+)' does not depend on any axioms", out):
        axioms[m.group(1)] = []
    ok, bad = [], {}
    for t in theorems:
        if t not in axioms:
            bad[t] = "not found in the built environment (module failed to build or theorem missing)"
        elif not set(axioms[t]) <= ALLOWED_AXIOMS:
            bad[t] = "depends on disallowed axioms: %s" % axioms[t]
        else:
            ok.append(t)
    return ok, bad, axioms, out[-3000:]


def _run_file(cmd_of, lines, workdir, tag):
    cases = os.path.join(workdir, "%s_cases.txt" % tag)
    outp = os.path.join(workdir, "%s_out.txt" % tag)
    with open(cases, "w") as f:
        for l in lines:
            f.write(l + "\n")
    if os.path.exists(outp):
        os.remove(outp)
    rc = cmd_of(cases, outp)
    outs = []
    if os.path.exists(outp):
        with open(outp, errors="replace") as f:
            outs = [l.rstrip("\n") for l in f]
    return rc, outs


def run_model(lines, workdir):
    """Runs the Lean driver on the cases. The driver flushes one answer per line; a case on which it does not answer within the
    budget (possible only when the model regenerated from a changed source accepts sizes no datagram can carry) is reported as
    `model-timeout` and a fresh driver continues with the next case; a crash (stack overflow) is isolated by bisection."""
    def cmd_with(budget):
        def cmd(cases, outp):
            with open(cases) as fi, open(outp, "w") as fo:
                try:
                    p = subprocess.run([DRIVER], stdin=fi, stdout=fo, stderr=subprocess.PIPE, env=ENV, timeout=budget)
                except subprocess.TimeoutExpired:
                    return "timeout"
            return p.returncode
        return cmd
    result = []
    rest = list(lines)
    while rest:
        budget = 30 + 1.0 * len(rest) + (270 if len(rest) > 50 else 0)
        rc, outs = _run_file(cmd_with(budget), rest, workdir, "model")
        if rc == 0 and len(outs) == len(rest):
            return result + outs
        if rc == "timeout":
            raw = ""
            try:
                with open(os.path.join(workdir, "model_out.txt"), errors="replace") as f:
                    raw = f.read()
            except OSError:
                pass
            done = raw.split("\n")[:-1]          # complete answers only
            done = done[:max(0, len(rest) - 1)]
            result += done + ["model-timeout"]
            rest = rest[len(done) + 1:]
            continue
        # isolate a crashing line (stack overflow etc.)
        if len(rest) == 1:
            return result + ["model-crash"]
        mid = len(rest) // 2
        return result + run_model(rest[:mid], workdir) + run_model(rest[mid:], workdir)
    return result


def run_impl(lines, workdir, extra_env=None):
    """Runs the implementation on the cases. The harness flushes one answer per line; when the process
    dies (allocation abort, stack overflow) the case it was working on is reported as `abort` and a fresh
    harness process continues with the next one."""
    env = dict(ENV)
    if extra_env:
        env.update(extra_env)

    def cmd(cases, outp):
        p = subprocess.run([HARNESS_BIN, "exec", cases, outp], stdout=subprocess.DEVNULL,
                           stderr=subprocess.DEVNULL, env=env, cwd=workdir)
        return p.returncode
    result = []
    rest = list(lines)
    guard = 0
    while rest:
        rc, outs = _run_file(cmd, rest, workdir, "impl")
        if rc == 0 and len(outs) == len(rest):
            result += outs
            break
        done = outs[:len(rest)]
        # a partially written last line cannot occur: answers are written and flushed whole
        result += done
        if len(done) < len(rest):
            # killed by a signal (abort) or a call to process::exit(rc)
            result.append("abort" if rc < 0 or rc > 127 else "exit:%d" % rc)
            rest = rest[len(done) + 1:]
        else:
            rest = []
        guard += 1
        if guard > 2000:
            result += ["abort"] * len(rest)
            break
    return result


def run_impl_parallel(lines, workdir, extra_env, nproc, chunk_of):
    """runs disjoint groups of cases in concurrent harness processes (each with its own directory)"""
    import threading
    groups = {}
    for idx, l in enumerate(lines):
        groups.setdefault(chunk_of(l) % nproc, []).append(idx)
    outs = [None] * len(lines)

    def work(k, idxs):
        d = os.path.join(workdir, "p%d" % k)
        os.makedirs(d, exist_ok=True)
        res = run_impl([lines[i] for i in idxs], d, extra_env)
        for i, r in zip(idxs, res):
            outs[i] = r
    ths = [threading.Thread(target=work, args=(k, idxs)) for k, idxs in groups.items()]
    for t in ths:
        t.start()
    for t in ths:
        t.join()
    return outs


class Result:
    """Accumulates what one check run saw."""

    def __init__(self, prop_id, tier, seed):
        self.prop_id, self.tier, self.seed = prop_id, tier, seed
        self.t0 = time.time()
        self.evaluations = 0
        self.distinct = set()
        self.samples = []
        self.dist = {}
        self.disagreements = []   # (line, model, impl)
        self.violations = []      # (line, impl, clause, key)
        self.known = []
        self.extra = {}

    def count(self, key, n=1):
        self.dist[key] = self.dist.get(key, 0) + n


def write_replay(prop_id, seed, payload):
    os.makedirs(os.path.join(VERIF, "replays"), exist_ok=True)
    h = hashlib.sha1(json.dumps(payload, sort_keys=True).encode()).hexdigest()[:8]
    path = os.path.join(VERIF, "replays", "%s-%s-%s.json" % (prop_id, seed, h))
    with open(path, "w") as f:
        json.dump(payload, f, indent=1)
    return path


def load_known():
    try:
        with open(os.path.join(VERIF, "known_findings.json")) as f:
            return json.load(f)
    except OSError:
        return {"findings": [], "fixed": []}


def write_evidence(res, obligations, discharged, axioms, buildinfo, rule, assumptions, violations, checker_cmd):
    cov = {
        "obligations": len(obligations),
        "discharged": len(discharged),
        "checker_cmd": checker_cmd,
        "trusted_base": TRUSTED_BASE,
        "theorems": obligations,
        "axioms_printed": axioms,
        "evaluations": res.evaluations,
        "distinct_nontrivial": len(res.distinct),
        "traces_validated_against_impl": res.evaluations,
        "rule": rule,
        "samples": res.samples[:12],
        "input_distribution": res.dist,
        "model_impl_disagreements": len(res.disagreements),
        "impl_spec_failures": len(res.violations),
        "known_findings_matched": len(res.known),
        "extraction": buildinfo.get("extract", {}).get("degraded", []),
        "build_s": buildinfo.get("build_s"),
    }
    cov.update(res.extra)
    ev = {
        "property_id": res.prop_id,
        "tier": res.tier,
        "seed": res.seed,
        "level": "proof",
        "coverage": cov,
        "assumptions": assumptions,
        "wall_s": round(time.time() - res.t0, 2),
        "violations": violations,
    }
    os.makedirs(os.path.join(VERIF, "evidence"), exist_ok=True)
    with open(os.path.join(VERIF, "evidence", "%s.json" % res.prop_id), "w") as f:
        json.dump(ev, f, indent=1)
