"""C11 (round trip / layout) and C10 (decoder totality)."""
import itertools
from .runner import Prop
from . import rfc

ASSUME = ["String::from_utf8 / to_lowercase / parse::<usize> / to_string are modelled (validUtf8, lowerName, parseUsize, toDec) and tied by differential execution only"]


_SRC_LITERALS = None


def source_literals():
    """every plain string literal of /repo/src/*.rs (as it stands on this run): texts the code itself treats specially - placeholders,
    option names, mode names, messages - are the values most likely to be special-cased, so they are used as field values too"""
    global _SRC_LITERALS
    if _SRC_LITERALS is None:
        import glob, os, re
        from . import core
        lits = set()
        for f in sorted(glob.glob(os.path.join(core.REPO, "src", "*.rs"))):
            try:
                text = open(f, errors="replace").read()
            except OSError:
                continue
            for m in re.finditer(r'"([^"\\\n]{1,48})"', text):
                lits.add(m.group(1))
        _SRC_LITERALS = sorted(lits) or ["octet"]
    return _SRC_LITERALS


def rand_string(rng, maxlen=24):
    r = rng.random()
    if r < 0.1:
        return b""
    if r < 0.2:
        lit = rng.choice(source_literals())
        v = rng.random()
        if v < 0.7:
            return lit.encode()
        if v < 0.8:
            return (lit + " ").encode()
        if v < 0.9:
            return lit[:-1].encode()
        return lit.swapcase().encode()
    if r < 0.6:
        n = rng.randint(1, maxlen)
        return bytes(rng.choice(b"abcdefghijklmnopqrstuvwxyzABCDEFXYZ0123456789._-/\\ +") for _ in range(n))
    if r < 0.85:
        chars = ["é", "ß", "İ", "K", "中", "\U0001F600", "Σ", "a", "Z", "/", "߿", "ࠀ", "￿", "\U00010000", "\U0010ffff", "퟿", "", "\x7f", "\x01"]
        n = rng.randint(1, 8)
        return "".join(rng.choice(chars) for _ in range(n)).encode("utf-8")
    n = rng.randint(300, 700)
    return bytes(rng.choice(b"abcXYZ/._") for _ in range(n))


def rand_value(rng):
    r = rng.random()
    if r < 0.35:
        return rng.choice([0, 1, 7, 8, 9, 10, 99, 100, 255, 256, 512, 1428, 65464, 65465, 65535, 65536,
                           2 ** 31, 2 ** 32 - 1, 2 ** 32, 2 ** 63, 2 ** 64 - 2, 2 ** 64 - 1])
    if r < 0.7:
        return rng.randint(0, 70000)
    if r < 0.85:
        # stratified by the number of decimal digits (uniform 64-bit values almost always have 19 or 20)
        d = rng.randint(1, 20)
        lo, hi = (0 if d == 1 else 10 ** (d - 1)), min(10 ** d - 1, 2 ** 64 - 1)
        return rng.choice([lo, hi, rng.randint(lo, hi)])
    return rng.randint(0, 2 ** 64 - 1)


def rand_opts(rng):
    # mostly short lists; now and then far more entries than there are option kinds (repeats are legal on the wire)
    n = rng.choice([0, 0, 1, 1, 2, 3, 4, 5, 8, 8, 15, 16, 17, 18, 31, 32, 33, 40])
    return [(rng.choice(rfc.OPT_NAMES), rand_value(rng)) for _ in range(n)]


def rand_payload(rng, tier):
    r = rng.random()
    if r < 0.15:
        return b""
    if r < 0.8:
        return bytes(rng.getrandbits(8) for _ in range(rng.randint(1, 40)))
    top = 65464 if tier == "thorough" else 4000
    n = rng.choice([511, 512, 513, 1428, top, rng.randint(1, top)])
    return bytes((i * 7 + n) & 0xff for i in range(n))


def rand_packet(rng, tier):
    k = rng.choice(["rrq", "wrq", "data", "ack", "error", "oack"])
    if k in ("rrq", "wrq"):
        return (k, rand_string(rng), rng.choice([b"octet", b"netascii", b"", b"OCTET", rand_string(rng, 6)]), rand_opts(rng))
    if k == "data":
        return (k, rng.choice([0, 1, 255, 256, 65535, rng.randint(0, 65535)]), rand_payload(rng, tier))
    if k == "ack":
        return (k, rng.choice([0, 1, 255, 256, 65535, rng.randint(0, 65535)]))
    if k == "error":
        return (k, rng.randint(0, 7), rand_string(rng))
    return (k, rand_opts(rng))


class C11(Prop):
    id = "C11"
    module = "Tftp.Props.C11"
    theorems = []  # filled by registry from obligations.json
    rule = ("grammar-generated Packet values (strings empty/ASCII/non-ASCII UTF-8/300-700 bytes, option values incl. 0 and 2^64-1, "
            "all payload sizes up to the tier bound) encoded by the implementation and compared with an independent RFC encoder, "
            "decoded back; plus opcode/error-code conversions over the whole u16 range (exhaustive) and option-name/number helpers; "
            "non-trivial = distinct case line whose implementation result is not bad-op")
    assumptions = ASSUME

    def generate(self, tier, rng):
        n = 4000 if tier == "quick" else 200000
        lines = []
        for _ in range(n):
            p = rand_packet(rng, tier)
            lines.append("enc " + rfc.canon(p))
            lines.append("dec " + rfc.hx(rfc.encode(p)))
        for k in range(65536):
            lines.append("opc %d" % k)
            lines.append("erc %d" % k)
        for v in [0, 1, 9, 10, 11, 99, 100, 101, 65535, 2 ** 32, 2 ** 64 - 1] + [rng.randint(0, 2 ** 64 - 1) for _ in range(300)]:
            lines.append("todec %d" % v)
        # directed: every option kind x every decimal length 1..20 (lowest, highest, one random value of that length), in a request
        # and in an OACK - the value must be written in full and read back
        for d in range(1, 21):
            lo, hi = (0 if d == 1 else 10 ** (d - 1)), min(10 ** d - 1, 2 ** 64 - 1)
            for v in sorted({lo, hi, rng.randint(lo, hi)}):
                lines.append("todec %d" % v)
                for name in rfc.OPT_NAMES:
                    for p in (("oack", [(name, v)]), ("rrq", b"f", b"octet", [(name, v)]), ("wrq", b"f", b"octet", [("blksize", 512), (name, v)])):
                        lines.append("enc " + rfc.canon(p))
                        lines.append("dec " + rfc.hx(rfc.encode(p)))
        # directed: every string literal of the source (placeholders, option and mode names, messages) as the text of every string field
        for lit in source_literals():
            b = lit.encode()
            for p in (("error", rng.randint(0, 7), b), ("rrq", b, b"octet", []), ("wrq", b"f", b, [("blksize", 512)])):
                lines.append("enc " + rfc.canon(p))
                lines.append("dec " + rfc.hx(rfc.encode(p)))
        return lines

    def oracle(self, line, impl):
        t = line.split(" ")
        if impl in ("panic", "abort"):
            return ("codec panics", "panic")
        if t[0] == "enc":
            p = parse_canon(t[1:])
            want = rfc.hx(rfc.encode(p))
            if impl != want:
                return ("encoding differs from the RFC 1350/2347 layout: want %s" % want[:200], "layout")
        elif t[0] == "dec":
            # every C11 'dec' case is the RFC encoding of a well-formed packet
            buf = rfc.unhx(t[1])
            p = self.expected.get(t[1]) if hasattr(self, "expected") else None
            if not impl.startswith("ok "):
                return ("RFC encoding of a well-formed packet is rejected", "roundtrip")
            f = impl.split(" enc=")
            if len(f) != 2 or f[1] != "%s re=same" % t[1]:
                return ("decode(encode p) re-encodes differently", "roundtrip")
        elif t[0] in ("opc", "erc"):
            k = int(t[1])
            lo, hi = (1, 6) if t[0] == "opc" else (0, 7)
            if lo <= k <= hi:
                names = {1: "rrq", 2: "wrq", 3: "data", 4: "ack", 5: "error", 6: "oack"}
                want = "some %s %04x" % (names[k] if t[0] == "opc" else str(k), k)
                if impl != want:
                    return ("conversion of %d is not the inverse pair" % k, "enum")
            elif impl != "none":
                return ("value %d outside the valid range is accepted" % k, "enum")
        elif t[0] == "todec":
            if impl != rfc.hx(str(int(t[1])).encode()):
                return ("decimal rendering wrong", "todec")
        return None

    def nontrivial(self, line, impl):
        return impl != "bad-op"

    def classify(self, line, impl, res):
        t = line.split(" ", 2)
        res.count("cmd:" + t[0])
        if t[0] == "enc":
            res.count("kind:" + t[1])


def parse_canon(t):
    def opts(s):
        if s == "-":
            return []
        return [(a.split(":")[0], int(a.split(":")[1])) for a in s.split(",")]
    k = t[0]
    if k in ("rrq", "wrq"):
        return (k, rfc.unhx(t[1]), rfc.unhx(t[2]), opts(t[3]))
    if k == "data":
        return (k, int(t[1]), rfc.unhx(t[2]))
    if k == "ack":
        return (k, int(t[1]))
    if k == "error":
        return (k, int(t[1]), rfc.unhx(t[2]))
    return (k, opts(t[1]))


ALPHA = [0x00, 0x01, 0x03, 0x05, 0x06, 0x2b, 0x35, 0x62, 0xff]


def mutate(rng, b):
    b = bytearray(b)
    for _ in range(rng.randint(1, 3)):
        r = rng.random()
        if r < 0.25 and b:
            del b[rng.randrange(len(b))]
        elif r < 0.5:
            b.insert(rng.randint(0, len(b)), rng.choice([0, 0, 0x2b, 0x2d, 0x30, 0x39, 0x41, 0xe2, 0x84, 0xaa, 0xff, 0xc0, rng.getrandbits(8)]))
        elif r < 0.7 and b:
            b[rng.randrange(len(b))] = rng.choice([0, 0, 1, 0xff, 0x80, rng.getrandbits(8)])
        elif r < 0.85 and b:
            del b[rng.randint(0, len(b)):]
        else:
            b += bytes(rng.getrandbits(8) for _ in range(rng.randint(1, 4)))
    return bytes(b)


def odd_requests(rng):
    """Requests with hand-made option sections (case variants, signs, unknown options, junk)."""
    names = [b"blksize", b"BLKSIZE", b"BlkSize", b"bl\xe2\x84\xaasize", b"tsize", b"TSIZE", b"timeout", b"tImeOut", b"t\xc4\xb0meout",
             b"windowsize", b"WINDOWSIZE", b"foo", b"", b"blksize ", b"blk", b"\xff", b"multicast",
             b"windowsize2", b"WindowSizeHint", b"windowsize ", b"windowsiz", b"timeoutms", b"tsize64", b"xblksize", b"blksize\xc3\xa9", b"windowsize-max",
             # letters whose lower-case form has a different UTF-8 length (U+0130, U+023A, U+023E grow; Kelvin, Ohm, Angstrom, capital sharp s shrink)
             b"\xc4\xb0", b"\xc4\xb0\xc4\xb0", b"\xc4\xb0\xc4\xb0\xc4\xb0\xc4\xb0", b"bl\xc4\xb0size", b"\xc8\xba", b"\xc8\xbe\xc8\xba", b"\xe1\xba\x9e",
             b"\xe2\x84\xa6", b"\xe2\x84\xab", b"T\xc4\xb0MEOUT", b"\xe2\x84\xaa\xe2\x84\xaa"]
    vals = [b"0", b"1", b"512", b"+5", b"-1", b"-0", b"", b"+", b"++1", b"1e3", b"0x10", b" 1", b"1 ", b"007",
            b"18446744073709551615", b"18446744073709551616", b"99999999999999999999999", b"abc", b"\xff", b"\xc3\xa9", b"1\xef\xbc\x91"]
    out = []
    for _ in range(1):
        op = rng.choice([b"\0\1", b"\0\2", b"\0\6"])
        buf = op
        if op != b"\0\6":
            buf += rng.choice([b"a.txt", b"", b"x/y", b"\xc3\xa9"]) + b"\0" + rng.choice([b"octet", b"", b"mail"]) + b"\0"
        for _ in range(rng.randint(0, 4)):
            buf += rng.choice(names) + b"\0" + rng.choice(vals) + b"\0"
        r = rng.random()
        if r < 0.15:
            buf = buf[:-1]
        elif r < 0.25:
            buf += rng.choice(names)
        elif r < 0.3:
            buf += b"\0"
        out.append(buf)
    return out


class C10(Prop):
    id = "C10"
    module = "Tftp.Props.C10"
    theorems = []
    rule = ("byte strings: exhaustive up to length L (5 quick, 6 thorough) over the 9-byte structural alphabet "
            "{00,01,03,05,06,'+','5','b',ff}; all 65536 two-byte prefixes x short tails; hand-made option sections; mutations of valid "
            "encodings; random datagrams up to 64 KiB (thorough); every deserialize under catch_unwind; "
            "non-trivial = distinct datagram (every one exercises the decoder)")
    assumptions = ASSUME

    def generate(self, tier, rng):
        L = 5 if tier == "quick" else 6
        seen = set()
        lines = []

        def add(b):
            if b not in seen:
                seen.add(b)
                lines.append("dec " + rfc.hx(b))
        for n in range(L + 1):
            for t in itertools.product(ALPHA, repeat=n):
                add(bytes(t))
        tails = [b"", b"\0", b"\0\0", b"\0\1a\0", b"a\0b\0", b"\0\7", b"\0\10x\0", b"blksize\0" + b"8\0"]
        for k in range(65536):
            pre = k.to_bytes(2, "big")
            for t in (tails if tier == "thorough" else tails[:4]):
                add(pre + t)
        nmut = 6000 if tier == "quick" else 400000
        for _ in range(nmut):
            p = rand_packet(rng, "quick")
            add(mutate(rng, rfc.encode(p)))
        for _ in range(3000 if tier == "quick" else 100000):
            for b in odd_requests(rng):
                add(b)
        for _ in range(300 if tier == "quick" else 3000):
            n = rng.choice([rng.randint(0, 64), rng.randint(0, 2000)] + ([rng.randint(2000, 65507)] if tier == "thorough" else []))
            add(rng.choice([b"", b"\0\1", b"\0\3", b"\0\5", b"\0\6"]) + bytes(rng.getrandbits(8) for _ in range(n)))
        # directed: byte strings longer than any UDP datagram ("of any length": Packet::deserialize is public) - field boundaries and
        # terminators at offsets around and beyond 2^16, well-formed and cut short
        for total in [65534, 65535, 65536, 65537, 65538, 65600, 70000] + ([131071, 131073, 200000] if tier == "thorough" else [131073]):
            k = total - 9
            add(b"\0\1" + b"a" * k + b"\0octet\0")
            add(b"\0\2" + b"a" * k + b"\0octet")                  # terminator missing at the very end
            add(b"\0\1f\0octet\0" + b"x" * (total - 12) + b"\0" + b"1\0")
            add(b"\0\5\0\1" + b"m" * (total - 5) + b"\0")
            add(b"\0\6" + b"blksize\x00512\x00" * ((total - 2) // 12) + b"tsize\0" + b"7\0")
            add(b"\0\2f\0octet\0" + b"windowsize\0004\0" * ((total - 10) // 15) + b"timeout\0" + b"9")
            add(b"\0\3\0\1" + bytes((i * 5) & 255 for i in range(total - 4)))
        # directed: long, valid, non-ASCII UTF-8 strings in every string field (ERROR message, file name, mode, option name/value), with a
        # 2-, 3- or 4-byte character straddling every offset around the lengths at which an implementation might cut or bound a string
        limits = [8, 16, 32, 64, 80, 100, 127, 128, 200, 255, 256, 400, 500, 508, 512] + ([1000, 1024, 2048, 4096] if tier == "thorough" else [])
        chars = ["\u00e9".encode(), "\u20ac".encode(), "\U0001d11e".encode()]
        for lim in limits:
            for ch in chars:
                for off in range(max(0, lim - 4), lim + 1):
                    msg = b"a" * off + ch * 2 + b"z" * 3
                    add(b"\0\5\0" + bytes([rng.randint(0, 7)]) + msg + b"\0")
                    if tier == "thorough" or off % 2 == 0:
                        add(b"\0\1" + msg + b"\0octet\0")
                        add(b"\0\2f\0" + msg + b"\0")
                        add(b"\0\6" + msg + b"\0" + b"1\0")
                        add(b"\0\1f\0octet\0blksize\0" + msg + b"\0")
        return lines

    def search(self, rng, around):
        return self.generate("quick", rng)[-15000:]

    def oracle(self, line, impl):
        t = line.split(" ")
        if t[0] != "dec":
            return None
        if impl in ("panic", "abort"):
            return ("decoder panics", "panic")
        buf = rfc.unhx(t[1])
        why = rfc.must_reject(buf)
        if impl.startswith("ok "):
            if why is not None:
                return ("datagram accepted although: " + why, "accepts:" + why)
            if not impl.endswith(" re=same"):
                return ("accepted datagram is not stable under re-encoding", "unstable")
        elif impl != "err":
            return ("decoder returned neither a packet nor an error: " + impl[:80], "other")
        return None

    def classify(self, line, impl, res):
        if impl.startswith("ok "):
            res.count("accepted:" + impl.split(" ")[1])
        else:
            buf = rfc.unhx(line.split(" ")[1])
            res.count("rejected:" + (rfc.must_reject(buf) or "other"))

    def shrink(self, line):
        b = rfc.unhx(line.split(" ")[1])
        out = []
        for i in range(len(b)):
            out.append("dec " + rfc.hx(b[:i] + b[i + 1:]))
        if len(b) > 8:
            out.append("dec " + rfc.hx(b[:len(b) // 2]))
        return out
