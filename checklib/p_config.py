"""C17: command-line configuration (server and client parsers)."""
import itertools, os
from .runner import Prop

VALID_IPS = ["0.0.0.0", "192.168.1.7", "10.0.0.1", "::1", "::", "fe80::1"]
BAD_IPS = ["localhost", "256.1.1.1", "1.2.3", "", "1.2.3.4.5", "-1"]


def hx(s):
    b = s.encode()
    return b.hex() if b else "-"


def parse_uint(s, bound):
    t = s[1:] if s.startswith("+") else s
    if not t or not all(c in "0123456789" for c in t):
        return None
    v = int(t)
    return v if v < bound else None


DASH_DIRS = ["-srv", "--in", "-s"]


class C17(Prop):
    id = "C17"
    module = "Tftp.Props.C17"
    assumptions = ["IpAddr::from_str and Path::exists are oracles: IP tokens come from a table of canonical valid / plainly invalid spellings, directories from a sandbox created by the check",
                   "`-h` terminates the process with status 0 (observed as the harness exiting)"]
    rule = ("argument vectors built from flag groups (long and short spellings, valid and invalid values, unknown flags, a value-taking flag at the end, help): all permutations of subsets "
            "of up to 4 (thorough 5) distinct groups plus repeated flags, for the server parser and the client parser; results compared with the statement 'error, or the configuration "
            "given by the last occurrence of each flag with documented defaults', and across permutations of the same groups; non-trivial = distinct vector with at least one flag")

    def dirs(self):
        base = self.sandbox
        os.makedirs(os.path.join(base, "d1"), exist_ok=True)
        os.makedirs(os.path.join(base, "d2", "in"), exist_ok=True)
        with open(os.path.join(base, "d1", "plain.txt"), "w") as fh:
            fh.write("x")
        # directories whose names begin with a dash, relative to the working directory of the implementation run
        for dn in DASH_DIRS:
            os.makedirs(os.path.join(os.path.dirname(base), dn), exist_ok=True)
        # the last one is the working directory of the implementation run, spelled out: it must count as given
        return [os.path.join(base, "d1"), os.path.join(base, "d2"), os.path.join(base, "d2", "in"), "/", ".", os.path.dirname(base)], \
               [os.path.join(base, "nope"), "", os.path.join(base, "d1", "x", "y"),
                # non-existent in ways other than "no such file": below a regular file, an over-long component, a NUL inside
                os.path.join(base, "d1", "plain.txt", "sub"), os.path.join(base, "n" * 300), os.path.join(base, "d1") + "\0x"]

    def server_groups(self, rng):
        good, bad = self.dirs()
        g = []
        # a value is whatever follows the flag, also when it begins with a dash (existing directories -srv, --in)
        for dn in DASH_DIRS:
            g.append(("dir", rng.choice(["-d", "--directory"]), dn))
            g.append(("rd", rng.choice(["-rd", "--receive-directory"]), dn))
            g.append(("sd", rng.choice(["-sd", "--send-directory"]), dn))
        for ip in VALID_IPS[:3] + BAD_IPS[:3]:
            g.append(("ip", rng.choice(["-i", "--ip-address"]), ip))
        for p in ["0", "1234", "65535", "65536", "+7", "abc", "", "-1"]:
            g.append(("port", rng.choice(["-p", "--port"]), p))
        for d in good[:3] + good[5:] + bad[:2] + bad[3:]:
            g.append(("dir", rng.choice(["-d", "--directory"]), d))
            g.append(("rd", rng.choice(["-rd", "--receive-directory"]), d))
            g.append(("sd", rng.choice(["-sd", "--send-directory"]), d))
        for n in ["0", "1", "254", "255", "256", "x", "+3"]:
            g.append(("dup", "--duplicate-packets", n))
        g += [("single", rng.choice(["-s", "--single-port"])), ("ro", rng.choice(["-r", "--read-only"])), ("ow", "--overwrite"),
              ("keep", "--keep-on-error"), ("help", rng.choice(["-h", "--help"])), ("bad", "-x"), ("bad", "--bogus"), ("bad", "file.txt"), ("bad", "")]
        return g

    def client_groups(self, rng):
        good, bad = self.dirs()
        g = []
        for ip in VALID_IPS[:3] + BAD_IPS[:2]:
            g.append(("ip", rng.choice(["-i", "--ip-address"]), ip))
        for p in ["69", "65535", "65536", "x"]:
            g.append(("port", rng.choice(["-p", "--port"]), p))
        for b in ["8", "512", "65464", "18446744073709551615", "18446744073709551616", "-1", ""]:
            g.append(("b", rng.choice(["-b", "--blocksize"]), b))
        for w in ["1", "65535", "65536", "0", "w"]:
            g.append(("w", rng.choice(["-w", "--windowsize"]), w))
        for t in ["1", "255", "0", "4294967296", "t"]:
            g.append(("t", rng.choice(["-t", "--timeout"]), t))
        for d in good[:2] + bad[:1] + bad[3:]:
            g.append(("rd", rng.choice(["-rd", "--receive-directory"]), d))
        g += [("up", rng.choice(["-u", "--upload"])), ("down", rng.choice(["-d", "--download"])), ("keep", "--keep-on-error"),
              ("help", rng.choice(["-h", "--help"])), ("file", "a.txt"), ("file", "/abs\\path/x"), ("file", "\\\\srv\\f"), ("file", "-z"), ("file", ""),
              # letters of either case are part of the name; upper-case look-alikes of flags are names too
              ("file", "Firmware.BIN"), ("file", "README"), ("file", "-U"), ("file", "--PORT"), ("file", "-RD")]
        return g

    def line(self, kind, groups, dangling=None):
        good, bad = self.dirs()
        toks = ["prog"] if kind == "S" else []
        for gr in groups:
            toks += list(gr[1:])
        if dangling:
            toks.append(dangling)
        orc = (["I" + ip.encode().hex() for ip in VALID_IPS] + ["P" + d.encode().hex() for d in good[:5] if d] +
               ["P" + d.encode().hex() for d in DASH_DIRS] + ["W" + good[5].encode().hex()])
        return "cfg %s %s %s" % (kind, ",".join(orc), " ".join(hx(t) for t in toks))

    def generate(self, tier, rng):
        lines = []
        K = 3 if tier == "quick" else 4
        for kind in ("S", "C"):
            pool = self.server_groups(rng) if kind == "S" else self.client_groups(rng)
            nsub = 1500 if tier == "quick" else 20000
            for _ in range(nsub):
                k = rng.randint(0, K + 1)
                sub = [rng.choice(pool) for _ in range(k)]
                perms = list(itertools.permutations(sub)) if k <= 3 else [tuple(rng.sample(sub, k)) for _ in range(6)]
                rng.shuffle(perms)
                for pm in perms[:4]:
                    lines.append(self.line(kind, pm))
                if rng.random() < 0.15:
                    lines.append(self.line(kind, sub, dangling=rng.choice(["-p", "-i", "-d", "-rd", "--duplicate-packets", "-b", "-w", "-t", "-sd"])))
            lines.append(self.line(kind, []))
            # directed: every value group (valid and invalid values) against every value-less flag, in every order - an invalid value is an
            # error wherever it stands, a valid one gives the same configuration wherever it stands
            valued = [g for g in pool if len(g) == 3]
            plain = [g for g in pool if len(g) == 2 and g[0] not in ("help", "bad", "file")]
            filegrp = [("file", "a.txt")] if kind == "C" else []
            for v in valued:
                for fl in plain:
                    for pm in itertools.permutations(filegrp + [v, fl]):
                        lines.append(self.line(kind, pm))
                if tier == "thorough" or rng.random() < 0.3:
                    two = rng.sample(plain, 2)
                    for pm in itertools.permutations(filegrp + [v] + two):
                        lines.append(self.line(kind, pm))
            if kind == "S":
                # directed: the three directory flags with coinciding and differing values (every assignment of three directories to
                # -d / -rd / -sd, in every order; and every pair of them without the third): a value shared by two flags changes nothing
                good, _ = self.dirs()
                ds = [good[0], good[1], good[5]]
                names = [("dir", "-d"), ("rd", "-rd"), ("sd", "-sd")]
                for vals in itertools.product(ds, repeat=3):
                    grp = [(n[0], n[1], v) for n, v in zip(names, vals)]
                    perms = list(itertools.permutations(grp))
                    for pm in (perms if tier == "thorough" else rng.sample(perms, 2)):
                        lines.append(self.line(kind, pm))
                    for skip in range(3):
                        two = [g for i, g in enumerate(grp) if i != skip]
                        lines.append(self.line(kind, two if rng.random() < 0.5 else two[::-1]))
        return list(dict.fromkeys(lines))

    # --- the property statement, evaluated independently
    def expected(self, line):
        t = line.split(" ")
        kind = t[1]
        orc = t[2].split(",") if t[2] != "-" else []
        ips = set(bytes.fromhex(x[1:]).decode() for x in orc if x[0] == "I")
        paths = set(bytes.fromhex(x[1:]).decode() for x in orc if x[0] in "PW")
        cwds = set(bytes.fromhex(x[1:]).decode() for x in orc if x[0] == "W")
        args = [bytes.fromhex(x).decode() if x != "-" else "" for x in t[3:]]
        if kind == "S":
            args = args[1:]
            c = dict(ip="-", port=69, dir="CWD", rd=None, sd=None, single=0, ro=0, dup=0, ow=0, clean=1)
        else:
            c = dict(ip="-", port=69, b=512, w=1, t=5, up=0, rd="-", file="-", clean=1)
        i = 0
        VAL = {"S": {"-i": "ip", "--ip-address": "ip", "-p": "port", "--port": "port", "-d": "dir", "--directory": "dir", "-rd": "rd",
                     "--receive-directory": "rd", "-sd": "sd", "--send-directory": "sd", "--duplicate-packets": "dup"},
               "C": {"-i": "ip", "--ip-address": "ip", "-p": "port", "--port": "port", "-b": "b", "--blocksize": "b", "-w": "w", "--windowsize": "w",
                     "-t": "t", "--timeout": "t", "-rd": "rd", "--receive-directory": "rd"}}[kind]
        FLAG = {"S": {"-s": ("single", 1), "--single-port": ("single", 1), "-r": ("ro", 1), "--read-only": ("ro", 1), "--overwrite": ("ow", 1),
                      "--keep-on-error": ("clean", 0)},
                "C": {"-u": ("up", 1), "--upload": ("up", 1), "-d": ("up", 0), "--download": ("up", 0), "--keep-on-error": ("clean", 0)}}[kind]
        while i < len(args):
            a = args[i]
            if a in VAL:
                if i + 1 >= len(args):
                    return "err"
                v = args[i + 1]
                k = VAL[a]
                if k == "ip":
                    if v not in ips:
                        return "err"
                    c["ip"] = hx(v)
                elif k == "port":
                    n = parse_uint(v, 65536)
                    if n is None:
                        return "err"
                    c["port"] = n
                elif k in ("dir", "rd", "sd"):
                    if v not in paths:
                        return "err"
                    # the implementation's configuration cannot tell its working directory, spelled out, from the default
                    c[k] = "CWD" if (v in cwds and kind == "S") else hx(v)
                elif k == "dup":
                    n = parse_uint(v, 256)
                    if n is None or n >= 255:
                        return "err"
                    c["dup"] = n
                elif k == "b":
                    n = parse_uint(v, 2 ** 64)
                    if n is None:
                        return "err"
                    c["b"] = n
                elif k == "w":
                    n = parse_uint(v, 65536)
                    if n is None:
                        return "err"
                    c["w"] = n
                elif k == "t":
                    n = parse_uint(v, 2 ** 64)
                    if n is None:
                        return "err"
                    c["t"] = n
                i += 2
            elif a in FLAG:
                c[FLAG[a][0]] = FLAG[a][1]
                i += 1
            elif a in ("-h", "--help"):
                return "help"
            elif kind == "C":
                s = a.lstrip("/\\").replace("\\", "/")
                c["file"] = hx(s)
                i += 1
            else:
                return "err"
        if kind == "S":
            rd = c["rd"] if c["rd"] is not None else c["dir"]
            sd = c["sd"] if c["sd"] is not None else c["dir"]
            return "ok ip=%s,port=%d,dir=%s,rd=%s,sd=%s,single=%d,ro=%d,dup=%d,ow=%d,clean=%d" % (
                c["ip"], c["port"], c["dir"], rd, sd, c["single"], c["ro"], c["dup"], c["ow"], c["clean"])
        return "ok ip=%s,port=%d,b=%d,w=%d,t=%d,up=%d,rd=%s,file=%s,clean=%d" % (
            c["ip"], c["port"], c["b"], c["w"], c["t"], c["up"], c["rd"], c["file"], c["clean"])

    def canon(self, impl):
        return "help" if impl == "exit:0" else impl

    def compare(self, line, model, impl):
        return model == self.canon(impl)

    def oracle(self, line, impl):
        impl = self.canon(impl)
        if impl in ("abort", "panic") or impl.startswith("exit:"):
            return ("configuration parsing crashed: " + impl, "crash")
        want = self.expected(line)
        if impl != want:
            if want == "err":
                return ("argument vector that must be rejected was accepted: " + impl[:80], "accepts-invalid")
            if impl == "err":
                return ("valid argument vector rejected", "rejects-valid")
            # name the first differing setting
            a, b = impl.split(","), want.split(",")
            for x, y in zip(a, b):
                if x != y:
                    return ("setting %s, expected %s (last occurrence / documented default)" % (x, y), "setting:" + y.split("=")[0].replace("ok ", ""))
            return ("configuration differs", "setting")
        return None

    def nontrivial(self, line, impl):
        return len(line.split(" ")) > 4

    def classify(self, line, impl, res):
        res.count(line.split(" ")[1] + ":" + self.canon(impl).split(" ")[0])

    def shrink(self, line):
        t = line.split(" ")
        return [" ".join(t[:i] + t[i + 1:]) for i in range(3, len(t))]

    def search(self, rng, around):
        return self.generate("quick", rng)
