"""C04 (loss tolerance) and C14 (bundled client and server interoperate): closed-loop properties."""
import itertools, os, shutil, socket, subprocess, time
from .runner import Prop
from .wutil import fnv, content, gen_bytes
from . import core

A_LOOP = [
    "closed loop = the real Worker::send and Worker::receive connected by an in-memory FIFO network with a fault schedule (drop/duplicate per datagram ordinal); "
    "time-outs are delivered at quiescence only (no timer skew), the sender's clock is the virtual clock hook",
    "reordering and delay-past-time-out are not expressible in the FIFO loop; they are covered by the open-system theorems (all arrival orders) and by the scripted runs of C01/C02/C08",
]


def loop_line(b, w, tmo, rep, f, dd=(), ud=(), da=(), ua=()):
    j = lambda l: ",".join(str(x) for x in sorted(l)) if l else "-"
    return "loop %d %d %d %d %s %s %s %s %s" % (b, w, tmo, rep, f, j(dd), j(ud), j(da), j(ua))


def parse_loop(line):
    t = line.split(" ")
    pl = lambda s: [] if s == "-" else [int(x) for x in s.split(",")]
    return dict(b=int(t[1]), w=int(t[2]), tmo=int(t[3]), rep=int(t[4]), file=content(t[5]), dd=pl(t[6]), ud=pl(t[7]), da=pl(t[8]), ua=pl(t[9]))


def parse_obs(impl):
    try:
        return dict(kv.split("=") for kv in impl.split(" "))
    except ValueError:
        return None


def wrap_loop_lines(tier, rng):
    """transfers of more than 65536 one-byte blocks with one fault on the datagrams numbered 65535, 0, 1 (DATA and the ACKs that name them)"""
    L = []
    for w in ([1, 4] if tier == "quick" else [1, 2, 3, 4, 7, 8, 64]):
        flen = 65536 + 2 * w + 3
        f = "gen:%d:%d" % (flen, w)
        # without earlier faults DATA k has ordinal k-1; the ACK that names block k (k a multiple of w) has ordinal k/w - 1
        ack_of = lambda k: (k + w - 1) // w - 1
        for k in (65535, 65536, 65537):
            L.append(loop_line(1, w, 5000, 1, f, dd=[k - 1]))
            L.append(loop_line(1, w, 5000, 1, f, da=[ack_of(k)]))
            if tier == "thorough":
                L.append(loop_line(1, w, 5000, 1, f, ud=[k - 1]))
                L.append(loop_line(1, w, 5000, 1, f, ua=[ack_of(k)]))
    return list(dict.fromkeys(L))


def wrap_cli_lines():
    """the bundled client uploading files of 65535..65540 blocks (and twice that): its first window after the OACK"""
    L = []
    name = "f.bin".encode().hex()
    for nblocks in (65535, 65536, 65537, 65540, 131072, 131073):
        for w in (1, 4):
            L.append("cli u 8 %d 5 1 %s gen:%d:%d oack:blksize:8,windowsize:%d -" % (w, name, 8 * (nblocks - 1), nblocks % 251, w))
    return L


class LoopProp(Prop):
    assumptions = A_LOOP
    parallel = 8
    budget = 5     # fewer than the retry budget (6) of losses

    def chunk_of(self, line):
        t = line.split(" ")
        if t[0] in ("timing", "staleretx", "req", "multi", "abort", "storm"):
            # server-level lines share a sandbox tree per root: all lines of one root go to one harness process
            return sum(bytes.fromhex(t[1])) & 0xffff
        return sum(line.encode()) & 0xffff

    def nontrivial(self, line, impl):
        return impl.startswith("s=") or line.startswith(("timing ", "staleretx ", "multi ", "rcv ", "snd "))

    def classify(self, line, impl, res):
        if line.startswith("timing ") or line.startswith("staleretx "):
            res.count("server-level-retransmission:" + impl[:40])
            return
        if line.startswith("multi "):
            res.count("server-level-lossy-upload:flags=" + line.split(" ")[2])
            return
        if line.startswith("rcv "):
            res.count("receiver-alone:windowsize=" + line.split(" ")[2])
            return
        if line.startswith("snd "):
            res.count("sender-alone:timeout-ms=" + line.split(" ")[3])
            return
        if not line.startswith("loop "):
            return
        c = parse_loop(line)
        res.count("w=%d" % c["w"] if c["w"] < 10 else "w=big")
        res.count("faults=%d" % (len(c["dd"]) + len(c["ud"]) + len(c["da"]) + len(c["ua"])))
        o = parse_obs(impl)
        if o:
            res.count("outcome:s=%s,r=%s" % (o.get("s"), o.get("r")))

    def oracle(self, line, impl):
        if line.startswith("timing "):
            from .p_server import C09
            return C09.timing_oracle(self, line, impl)
        if line.startswith("rcv "):
            from .p_worker import receiver_oracle
            return receiver_oracle(line, impl, ("budget", "fidelity"))
        if line.startswith("snd "):
            from .p_worker import sender_oracle
            return sender_oracle(line, impl, ("budget", "slice"))
        if line.startswith("multi "):
            # a lost ACK per window never fails the upload: the file is stored with exactly its content and the client is told so
            from .p_server import C12
            return C12.oracle(self, line, impl)
        if line.startswith("staleretx "):
            # two consecutive failed receive attempts (the stale ACK is not one) are far below the budget of 6
            if not impl.startswith("first=oack"):
                return ("download with timeout=1 not started (%s)" % impl, "staleretx-start")
            if "done=ok" not in impl:
                return ("DATA 2 lost, a stale duplicate ACK 1 late in the interval, the first retransmission lost: two consecutive failed receive "
                        "attempts, yet the download does not complete (%s)" % impl, "staleretx-abandoned")
            return None
        if not line.startswith("loop "):
            return None
        o = parse_obs(impl)
        if o is None or "s" not in o:
            return ("no observation / harness died: " + impl[:60], "died")
        if "panic" in (o["s"], o["r"]):
            return ("a worker panicked", "panic")
        c = parse_loop(line)
        if len(c["dd"]) + len(c["da"]) > self.budget:
            return None
        want = "%d:%d" % (len(c["file"]), fnv(c["file"]))
        if o["over"] != "1":
            return ("the transfer never ends (100000 time-outs)", "livelock")
        if o["r"] != "ok" or o["file"] != want:
            what = "lost" if c["dd"] or c["da"] else "repeated"
            return ("with %d %s datagram(s) the receiving side does not end with a byte-identical copy (r=%s file=%s)" % (
                len(c["dd"]) + len(c["da"]) + len(c["ud"]) + len(c["ua"]), what, o["r"], o["file"]), "receiver-fails")
        if o["s"] != "ok":
            # the only permitted exception: every copy of the very last ACK was lost
            na = int(o["acks"])
            last = set(range(na - c["rep"], na))
            if not last or not last <= set(c["da"]):
                return ("the sending side fails although the final ACK was not lost", "sender-fails")
        return None

    def shrink(self, line):
        t = line.split(" ")
        out = []
        if t[0] != "loop" or len(t) != 10:
            return out
        for i in (6, 7, 8, 9):
            if t[i] != "-":
                xs = t[i].split(",")
                for k in range(len(xs)):
                    ys = xs[:k] + xs[k + 1:]
                    out.append(" ".join(t[:i] + [",".join(ys) if ys else "-"] + t[i + 1:]))
        return out

    def search(self, rng, around):
        return self.generate("quick", rng)


class C04(LoopProp):
    id = "C04"
    module = "Tftp.Props.C04"
    rule = ("closed-loop transfers between the real sender and the real receiver: every single fault (drop or duplicate, DATA or ACK) at every datagram position for windowsize 1..4 and "
            "file lengths up to 2w+2 blocks around block/window boundaries; all pairs of faults for short transfers; seeded random schedules with up to 5 losses and 3 duplications, "
            "w up to 13; transfers of more than 65536 blocks with one fault on the datagrams numbered 65535/0/1; lock-step schedules with 1..5 losses clustered on one block / spread / around the final block (the domain of c04_lockstep_loss_tolerance); the same schedules through the Lean closed-loop simulator (outcome, datagram counts and number of quiescent time-outs compared); "
            "non-trivial = distinct schedule with at least one fault")

    def generate(self, tier, rng):
        lines = []
        b = 8
        W = [1, 2, 3, 4] if tier == "quick" else [1, 2, 3, 4, 5, 8]
        for w in W:
            for nb in sorted(set([1, 2, w, w + 1, 2 * w, 2 * w + 1, 2 * w + 2])):
                for tail in ([0, 5] if tier == "quick" else [0, 1, 5, 7]):
                    flen = (nb - 1) * b + tail
                    f = "gen:%d:%d" % (flen, (w * 7 + nb) % 256)
                    lines.append(loop_line(b, w, 5000, 1, f))
                    ndata = nb + 3
                    nack = nb + 3
                    for k in range(ndata):
                        lines.append(loop_line(b, w, 5000, 1, f, dd=[k]))
                        lines.append(loop_line(b, w, 5000, 1, f, ud=[k]))
                    for k in range(nack):
                        lines.append(loop_line(b, w, 5000, 1, f, da=[k]))
                        lines.append(loop_line(b, w, 5000, 1, f, ua=[k]))
        # pairs of faults on short transfers
        for w in ([1, 2, 3] if tier == "quick" else [1, 2, 3, 4]):
            nb = w + 2
            f = "gen:%d:%d" % ((nb - 1) * b + 3, w)
            kinds = ["dd", "ud", "da", "ua"]
            rngk = range(nb + 2)
            for (k1, p1), (k2, p2) in itertools.combinations([(k, p) for k in kinds for p in rngk], 2):
                if tier == "quick" and rng.random() > 0.25:
                    continue
                d = {"dd": [], "ud": [], "da": [], "ua": []}
                d[k1].append(p1)
                d[k2].append(p2)
                lines.append(loop_line(b, w, 5000, 1, f, **{k: v for k, v in d.items()}))
        # random schedules
        n = 600 if tier == "quick" else 30000
        for _ in range(n):
            w = rng.choice([1, 1, 2, 3, 4, 5, 8, 13])
            bb = rng.choice([8, 8, 9, 16])
            nb = rng.randint(1, 3 * w + 3)
            flen = (nb - 1) * bb + rng.choice([0, 1, bb - 1])
            rep = rng.choice([1, 1, 1, 2])
            hi = (nb + 6) * rep
            drops = rng.randint(0, 5)
            dd = rng.sample(range(hi), min(rng.randint(0, drops), hi))
            da = rng.sample(range(hi), min(drops - len(dd), hi))
            ud = rng.sample(range(hi), rng.randint(0, 2))
            ua = rng.sample(range(hi), rng.randint(0, 2))
            lines.append(loop_line(bb, w, 5000, rep, "gen:%d:%d" % (flen, rng.randint(0, 255)), dd, ud, da, ua))
        # the domain of c04_lockstep_loss_tolerance: windowsize 1, up to 5 losses in total - clustered on one block (consecutive
        # retransmissions of the same datagram and of its acknowledgement), spread out, and around the final block; any duplications
        for _ in range(150 if tier == "quick" else 6000):
            bb = rng.choice([8, 9])
            nb = rng.randint(1, 6)
            flen = (nb - 1) * bb + rng.choice([0, 1, bb - 1])
            total = rng.randint(1, 5)
            start = rng.randint(0, nb + 2)
            cl = list(range(start, start + total))
            mode = rng.choice(["data", "ack", "mixed", "spread"])
            if mode == "data":
                dd, da = cl, []
            elif mode == "ack":
                dd, da = [], cl
            elif mode == "mixed":
                k = rng.randint(0, total)
                dd, da = cl[:k], list(range(start, start + total - k))
            else:
                k = rng.randint(0, total)
                dd = rng.sample(range(nb + 8), k)
                da = rng.sample(range(nb + 8), total - k)
            ud = rng.sample(range(nb + 8), rng.randint(0, 3))
            ua = rng.sample(range(nb + 8), rng.randint(0, 3))
            lines.append(loop_line(bb, 1, 5000, 1, "gen:%d:%d" % (flen, rng.randint(0, 255)), dd, ud, da, ua))
        lines += wrap_loop_lines(tier, rng)
        # through the server, in real time: a peer that falls silent after DATA 1 (its ACK "lost") sees DATA 1 again after the retransmission
        # interval - also when no timeout option was negotiated (default 5 s), in both port modes
        from .p_server import rq
        for k, flags in enumerate(["-", "s"]):
            root = (self.sandbox + "/k%d" % k).encode().hex()
            lines.append("timing %s %s srv/f=gen:20:1 %s first" % (root, flags, rq("rrq", b"f", (("blksize", 8),)).hex()))
            lines.append("timing %s %s srv/f=gen:20:1 %s first" % (root, flags, rq("rrq", b"f", (("tsize", 0), ("timeout", 1))).hex()))
            # ... and a stale duplicate ACK late in the interval neither postpones nor cancels the retransmissions that follow
            lines.append("staleretx %s %s srv/f=gen:40:3 %s" % (root, flags, rq("rrq", b"f", (("timeout", 1), ("blksize", 8))).hex()))
        # through the server: an uploading client that "loses" the first acknowledgement of every window and sends the window again - also in
        # single-port mode and in duplicate-packets mode, where the listener routes and every datagram is repeated
        for k, flags in enumerate(["s", "-", "s1", "s2", "1"]):
            root = (self.sandbox + "/m%d" % k).encode().hex()
            lines.append("multi %s %s srv/c=gen:16:3 01 U:up1:8:1:gen:30:1 d:c:8:1" % (root, flags))
            lines.append("multi %s %s srv/c=gen:16:3 0 U:up1:512:2:gen:2100:8 U:up2:8:3:gen:70:2" % (root, flags))
        # the sending worker alone on the virtual clock, with every legal interval up to 255 s: two to five failed attempts in a row (each a whole
        # interval) and then progress - the budget is a count of attempts, not an amount of time
        for tmo in (1, 5, 59, 60, 75, 100, 150, 255):
            for nfail in (2, 3, 5):
                lines.append("snd 8 %d %d 1 0 gen:20:1 A1@0 %s A2@0 %s A3@0" % (rng.choice([1, 2]), tmo * 1000, " ".join(["T"] * nfail), " ".join(["T"] * (nfail - 1))))
        # the receiving worker alone against a scripted peer (the two real workers share one budget and one timer, so they give up together):
        # runs of failed attempts shorter than the budget, separated by blocks that are accepted without filling the window
        for w in (2, 3, 4, 8):
            blk = "0102030405060708"
            for pat in [[3, 3], [1, 5], [5, 1], [2, 2, 2], [5, 5, 5], [4, 4]]:
                evs = ["D1:" + blk]
                k = 2
                for fails in pat:
                    evs += ["T"] * fails + ["D%d:%s" % (k, blk)]
                    k += 1
                evs += ["D%d:%s" % (j, blk) for j in range(k, k + w)] + ["D%d:01" % (k + w)]
                lines.append("rcv 8 %d 1 %d full %s" % (w, rng.choice([0, 1]), " ".join(evs)))
        # the same datagram lost six times in a row: beyond the budget, must end (no livelock)
        lines.append(loop_line(8, 1, 5000, 1, "gen:20:1", dd=[1, 2, 3, 4, 5, 6]))
        return list(dict.fromkeys(lines))


def free_port():
    s = socket.socket(socket.AF_INET, socket.SOCK_DGRAM)
    s.bind(("127.0.0.1", 0))
    p = s.getsockname()[1]
    s.close()
    return p


class C14(LoopProp):
    id = "C14"
    module = "Tftp.Props.C14"
    needs_bins = True
    assumptions = A_LOOP + ["process level: the real tftpd and tftpc binaries (built from /repo on this run) on loopback; kernel socket buffers and real timers are outside the model"]
    rule = ("(a) fault-free closed-loop transfers real sender -> real receiver for file sizes around block/window boundaries x blksize {8,9,512,1428,65464} x windowsize {1,2,3,8,64,65535} x repeat {1,2}, "
            "compared with the Lean closed-loop simulator; (b) the real tftpc against the real tftpd: download/upload x {multi,single port} x {IPv4, IPv6} x sizes x (blksize, windowsize, timeout) choices x "
"{plain, nested, Windows-style path} and refusal kinds, comparing both files byte for byte, file names, and that a refused request creates no file; "
            "(c) the real tftpd::Client in-process against a scripted peer on loopback: its request datagram, what it adopts from the first reply (OACK with any subset/order of options, "
            "plain ACK, ERROR, DATA), ACK 0, the acknowledgement pattern / first burst of the data phase and where the download is stored, compared with Model/Client + the worker models; "
            "non-trivial = distinct transfer")

    def generate(self, tier, rng):
        lines = []
        for b in [8, 9, 512, 1428] + ([65464] if tier == "thorough" else []):
            for w in [1, 2, 3, 8, 64] + ([65535] if tier == "thorough" else []):
                for size in [0, 1, b - 1, b, b + 1, w * b, w * b + 1, (2 * w + 1) * b + 3]:
                    if size > 300000 and tier == "quick":
                        continue
                    if size > 1200000 or (w == 65535 and size > 70000):
                        continue   # the list-based simulator is quadratic in the number of datagrams in flight: keep runs finite
                    for rep in [1, 2]:
                        lines.append(loop_line(b, w, 5000, rep, "gen:%d:%d" % (size, (b + w) % 256)))
        lines.append(loop_line(8, 65535, 5000, 1, "gen:4000:3"))
        lines += self.cli_cases(tier, rng)
        return list(dict.fromkeys(lines))

    # --- the real bundled client (tftpd::Client) against a scripted peer: request, adoption of the first reply, first exchange
    def cli_cases(self, tier, rng):
        L = []
        hx = lambda s: s.encode().hex()
        names = ["f.bin", "sub/f.bin", "a b.txt", "sub/deep/x"]
        n = 250 if tier == "quick" else 6000
        for _ in range(n):
            mode = rng.choice("du")
            b = rng.choice([8, 9, 16, 100, 511, 512, 513, 1428, 4096])
            w = rng.choice([1, 1, 2, 3, 4, 8])
            t = rng.choice([1, 2, 5, 255])
            clean = rng.choice([0, 1])
            name = rng.choice(names)
            r = rng.random()
            # the peer's first reply: mostly what a conformant server would say, sometimes something else
            ob, ow = rng.choice([b, b, b, 8, 512, max(8, b // 2)]), rng.choice([w, w, w, 1, 2])
            if r < 0.55:
                opts = [("blksize", ob), ("windowsize", ow)]
                rng.shuffle(opts)
                if rng.random() < 0.5:
                    opts.append(("timeout", t))
                if rng.random() < 0.5:
                    opts.append(("tsize", rng.choice([0, 77])))
                if rng.random() < 0.2:
                    opts = opts[:1]
                reply = "oack:" + ",".join("%s:%d" % o for o in opts)
            elif r < 0.65:
                reply, ob, ow = "oack:-", b, w
            elif r < 0.8:
                reply, ob, ow = "ack:%d" % rng.choice([0, 0, 1]), 512, 1
            elif r < 0.92:
                reply = "err:%d" % rng.randint(0, 7)
            else:
                reply = "data:1:%d" % rng.choice([0, 5, 512])
            if mode == "u":
                size = rng.choice([0, 1, ob - 1, ob, ob + 1, ow * ob, ow * ob + 3, 3 * ow * ob + 1])
                L.append("cli u %d %d %d %d %s gen:%d:%d %s -" % (b, w, t, clean, hx(name), size, rng.randint(0, 255), reply))
            else:
                nfull = rng.choice([0, 1, ow - 1, ow, ow + 1, 2 * ow])
                lens = [ob] * max(0, nfull) + ([rng.choice([0, 1, ob - 1])] if rng.random() < 0.8 else [])
                L.append("cli d %d %d %d %d %s - %s %s" % (b, w, t, clean, hx(name), reply, ",".join(map(str, lens)) or "-"))
        L += wrap_cli_lines()
        # directed: a download of a deeply nested path (longer than 255 bytes, still inside a 512-byte request): stored under its basename
        long_name = "/".join(["a" * 100, "b" * 100, "c" * 100, "deep.bin"])
        for (b, w) in [(512, 1), (8, 2)]:
            L.append("cli d %d %d 5 1 %s - oack:blksize:%d,windowsize:%d %s" % (b, w, hx(long_name), b, w, ",".join([str(b)] * w + ["3"])))
        # directed: a peer that acknowledges fewer options than asked and then sends DATA longer than the block size the client is left with:
        # the client's receive buffer cuts them (recv_with_size), it neither fails nor stores the excess
        for line in ["cli d 511 4 1 0 %s - oack:windowsize:4 512,512,512,512,512,511", "cli d 16 3 5 0 %s - oack:windowsize:2 512,512,1",
                     "cli d 8 3 5 1 %s - oack:windowsize:2 512,0", "cli d 100 3 255 1 %s - oack:windowsize:2 512,1"]:
            L.append(line % hx("sub/f.bin"))
        # directed: the client retransmits after ITS negotiated timeout (real time, 1 s): the peer acknowledges the options and falls silent
        for (b, w) in [(512, 1), (8, 3)]:
            L.append("cli u %d %d 1 1 %s gen:%d:7 oack:blksize:%d,windowsize:%d,timeout:1 R" % (b, w, hx("f.bin"), 2 * w * b + 5, b, w))
        return L

    def cli_oracle(self, line, impl):
        t = line.split(" ")
        if impl in ("abort", "panic") or not impl.startswith("req="):
            return ("the client panicked / no observation: " + impl[:60], "cli-died")
        o = dict(x.split("=", 1) for x in impl.split(" ; "))
        upload = t[1] == "u"
        b, w, tm = int(t[2]), int(t[3]), int(t[4])
        name = bytes.fromhex(t[6])
        size = len(content(t[7])) if t[7] != "-" else 0
        from . import rfc
        opts = [("blksize", b), ("windowsize", w), ("timeout", tm), ("tsize", size if upload else 0)]
        want = ("wrq", name.split(b"/")[-1], b"octet", opts) if upload else ("rrq", name, b"octet", opts)
        if o["req"] != rfc.hx(rfc.encode(want)):
            return ("the client's request is not %s of %s with blksize, windowsize, timeout, tsize in this order and these values" % (
                "WRQ" if upload else "RRQ", (name.split(b"/")[-1] if upload else name).decode()), "cli-request")
        reply = t[8]
        if upload and t[9] == "R":
            last = o["conv"].split(" ")[-1]
            if not last.startswith("R") or int(last[1:]) == 0:
                return ("the client does not send its window again within the timeout it negotiated (%d s) while the peer is silent" % tm, "cli-retransmission-interval")
        if reply.startswith("err:"):
            if o["res"] != "err":
                return ("the server's ERROR is not reported by the client", "cli-error-not-reported")
            if o["file"] != "none" or o["extra"] != "-":
                return ("a refused request left a file on the client: %s %s" % (o["file"], o["extra"]), "cli-refusal-creates-file")
            if o["conv"] != "-":
                return ("the client answers the server's ERROR with %s" % o["conv"], "cli-answers-error")
        if upload and reply.startswith("oack:") and t[9] == "-":
            # the first window of the upload: blocks 1..min(windowsize, N) of the acknowledged block size, cut from the file in order
            ob, ow = b, w
            if reply != "oack:-":
                for kv in reply[5:].split(","):
                    k, v = kv.split(":")
                    if k == "blksize":
                        ob = int(v)
                    if k == "windowsize":
                        ow = int(v)
            if 8 <= ob <= b and 1 <= ow <= w:
                f = content(t[7]) if t[7] != "-" else b""
                nblocks = len(f) // ob + 1
                want_burst = ["D%d:%d:%d" % (k % 65536, len(f[(k - 1) * ob:k * ob]), fnv(f[(k - 1) * ob:k * ob])) for k in range(1, min(ow, nblocks) + 1)]
                got = [x for x in o["conv"].split(" ") if x.startswith("D")]
                if got[:len(want_burst)] != want_burst:
                    return ("after the OACK (blksize %d, windowsize %d) the client's first window is not blocks 1..%d of its %d-block file (%s)" % (
                        ob, ow, min(ow, nblocks), nblocks, " ".join(got[:6]) or "nothing sent"), "cli-upload-first-window")
        if not upload and reply.startswith("oack:"):
            # values of the OACK are the ones the transfer uses: the blocks we sent are full blocks of the acknowledged size followed by
            # (possibly) one short block; a completed download is stored under the basename, byte-identical
            ob, ow = b, w
            if reply != "oack:-":
                for kv in reply[5:].split(","):
                    k, v = kv.split(":")
                    if k == "blksize":
                        ob = int(v)
                    if k == "windowsize":
                        ow = int(v)
            lens = [int(x) for x in t[9].split(",")] if t[9] != "-" else []
            data = b"".join(gen_bytes(l, k + 1) for k, l in enumerate(lens))
            complete = bool(lens) and lens[-1] < ob and all(l == ob for l in lens[:-1])
            if complete:
                if o["file"] != "%d:%d" % (len(data), fnv(data)):
                    return ("a completed download is not stored byte-identically under <receive-directory>/<basename> (file=%s extra=%s)" % (o["file"], o["extra"]), "cli-download-file")
                if o["extra"] != "-":
                    return ("the download created other files: " + o["extra"], "cli-download-extra")
                acks = o["conv"].split(" ")
                if acks[0] != "A0":
                    return ("the OACK is not answered with ACK 0", "cli-no-ack0")
                if acks[-1] != "A%d" % (len(lens) % 65536):
                    return ("the final block is not acknowledged", "cli-final-ack")
        return None

    def oracle(self, line, impl):
        if line.startswith("cli "):
            return self.cli_oracle(line, impl)
        return LoopProp.oracle(self, line, impl)

    def nontrivial(self, line, impl):
        return impl.startswith("req=") if line.startswith("cli ") else LoopProp.nontrivial(self, line, impl)

    def classify(self, line, impl, res):
        if line.startswith("cli "):
            t = line.split(" ")
            res.count("cli:%s:%s" % (t[1], t[8].split(":")[0]))
        else:
            LoopProp.classify(self, line, impl, res)

    def shrink(self, line):
        return [] if line.startswith("cli ") else LoopProp.shrink(self, line)

    retry_env = {"HARNESS_SLOW": "1"}

    def extra_checks(self, res, workdir, tier, rng):
        """real binaries"""
        bins = os.path.join(core.HARNESS, "target", "repo-bins", "debug")
        tftpd, tftpc = os.path.join(bins, "tftpd"), os.path.join(bins, "tftpc")
        viol = []
        if not (os.path.exists(tftpd) and os.path.exists(tftpc)):
            return [("process-level", "binaries missing", "tftpd/tftpc were not built from /repo", "no-binaries")]
        root = os.path.join(workdir, "bin")
        cases = []
        sizes = [0, 1, 511, 512, 513, 2048, 70001]
        opts = [(512, 1, 5), (8, 4, 1), (1428, 8, 5), (65464, 2, 255), (512, 64, 1)]
        if tier == "thorough":
            sizes += [8 * 65537 + 3]
            opts += [(8, 1, 1), (16, 512, 1), (512, 65535, 1), (8, 65535, 1)]
        for mode in ["multi", "single"]:
            for ip in ["127.0.0.1", "::1"]:
                for direction in ["down", "up"]:
                    for (b, w, t) in opts:
                        for size in sizes:
                            if tier == "quick" and rng.random() > 0.12 and not (size in (0, 512) and b == 512 and w == 1 and ip == "127.0.0.1"):
                                continue
                            if size > 100000 and b > 8 and tier == "quick":
                                continue
                            if w >= 512 and size // b > 2000:
                                # a burst of thousands of datagrams overflows the kernel's socket buffer; the transfer recovers one buffer-full
                                # per 5 s time-out and would take many minutes: outside what this check waits for (kernel behaviour, see DESIGN)
                                continue
                            name = rng.choice(["f.bin", "sub/f.bin", "sub\\f.bin"]) if direction == "down" else rng.choice(["", "sub/"])
                            cases.append((mode, ip, direction, b, w, t, size, name))
        # directed: nested paths in both directions and both port modes are always exercised
        for mode in ["multi", "single"]:
            cases.append((mode, "127.0.0.1", "up", 512, 1, 5, 700, "sub/"))
            cases.append((mode, "127.0.0.1", "down", 512, 1, 5, 700, "sub/f.bin"))
        # directed: the file named on the command line is a symbolic link - it is uploaded under the name the user gave
        cases.append(("multi", "127.0.0.1", "up", 512, 1, 5, 900, "@link"))
        # directed: a server listening on the IPv6 wildcard (`-i ::`, dual stack) reached over ::1 and over 127.0.0.1
        for mode in ["multi", "single"]:
            cases.append((mode, "::|::1", "down", 512, 1, 5, 700, "f.bin"))
            cases.append((mode, "::|127.0.0.1", "up", 512, 2, 5, 1300, ""))
            # a server on the IPv4 wildcard addressed through another address of the same host: the replies come from the address the
            # kernel picks (127.0.0.1), not from the one the client used - a transfer is identified by the port pair
            cases.append((mode, "0.0.0.0|127.0.0.2", "down", 512, 1, 5, 600, "f.bin"))
            cases.append((mode, "0.0.0.0|127.0.0.2", "up", 8, 2, 5, 50, ""))
        if tier == "thorough":
            for w in (8, 64):
                cases.append(("multi", "127.0.0.1", "down", 8, w, 1, 8 * 65537 + 3, "f.bin"))
        ran = 0
        servers = {}
        try:
            for (mode, ip, direction, b, w, t, size, name) in cases:
                # "bind|client": the server binds the first address, the client talks to the second
                bind_ip, ip = (ip.split("|") + [ip])[:2] if "|" in ip else (ip, ip)
                key = (mode, bind_ip)
                if key not in servers:
                    sdir = os.path.join(root, "srv-%s-%s" % (mode, "any6" if bind_ip == "::" else ("any4" if bind_ip == "0.0.0.0" else ("6" if ":" in bind_ip else "4"))))
                    os.makedirs(os.path.join(sdir, "sub"), exist_ok=True)
                    ok = False
                    for _ in range(20):
                        port = free_port()
                        args = [tftpd, "-i", bind_ip, "-p", str(port), "-d", sdir, "--overwrite"] + (["-s"] if mode == "single" else [])
                        p = subprocess.Popen(args, stdout=subprocess.DEVNULL, stderr=subprocess.DEVNULL)
                        time.sleep(0.15)
                        if p.poll() is None:
                            ok = True
                            break
                    if not ok:
                        if ":" in bind_ip:
                            continue   # no IPv6 loopback in this sandbox: not a verdict
                        viol.append(("process-level " + str(key), "server did not start", "tftpd does not start", "server-start"))
                        continue
                    servers[key] = (p, port, sdir)
                p, port, sdir = servers[key]
                cdir = os.path.join(root, "cli")
                shutil.rmtree(cdir, ignore_errors=True)
                os.makedirs(os.path.join(cdir, "rd"))
                os.makedirs(os.path.join(cdir, "sub"))
                data = gen_bytes(size, (b + w + size) % 256)
                desc = "tftpc %s %s %s b=%d w=%d t=%d size=%d name=%s" % (direction, mode, ip, b, w, t, size, name)
                common = ["-i", ip, "-p", str(port), "-b", str(b), "-w", str(w), "-t", str(t)]
                try:
                    if direction == "down":
                        real = name.replace("\\", "/")
                        with open(os.path.join(sdir, real), "wb") as fh:
                            fh.write(data)
                        r = subprocess.run([tftpc, name, "-d", "-rd", os.path.join(cdir, "rd")] + common, cwd=cdir,
                                           stdout=subprocess.PIPE, stderr=subprocess.STDOUT, timeout=120)
                        got_path = os.path.join(cdir, "rd", os.path.basename(real))
                        got = open(got_path, "rb").read() if os.path.exists(got_path) else None
                        others = [x for x in os.listdir(os.path.join(cdir, "rd")) if x != os.path.basename(real)]
                        if got != data:
                            viol.append((desc, "client file %s" % ("missing" if got is None else "differs (%d bytes)" % len(got)),
                                         "download does not leave a byte-identical file at <receive-directory>/<basename>", "download-differs"))
                        elif others:
                            viol.append((desc, "extra files %s" % others, "download stored under a wrong name", "download-name"))
                    else:
                        if name == "@link":
                            with open(os.path.join(cdir, "real-target-%d.bin" % size), "wb") as fh:
                                fh.write(data)
                            rel = "link-%d.bin" % size
                            local = os.path.join(cdir, rel)
                            os.symlink("real-target-%d.bin" % size, local)
                            wrong = os.path.join(sdir, "real-target-%d.bin" % size)
                            if os.path.exists(wrong):
                                os.remove(wrong)
                        else:
                            rel = name + "up-%d.bin" % size          # name is "" or "sub/" for uploads
                            local = os.path.join(cdir, rel)
                            with open(local, "wb") as fh:
                                fh.write(data)
                        target = os.path.join(sdir, os.path.basename(local))
                        stray = os.path.join(sdir, rel)
                        for old in {target, stray}:
                            if os.path.exists(old):
                                os.remove(old)
                        # relative path: the client passes the name through convert_file_path, which strips a leading '/'
                        r = subprocess.run([tftpc, rel, "-u"] + common, cwd=cdir, stdout=subprocess.PIPE, stderr=subprocess.STDOUT, timeout=120)
                        # the server worker writes after the client has finished sending: allow it a moment
                        got = None
                        for _ in range(40):
                            if os.path.exists(target):
                                got = open(target, "rb").read()
                                if got == data:
                                    break
                            time.sleep(0.05)
                        if got != data:
                            viol.append((desc, "server file %s" % ("missing" if got is None else "differs (%d bytes)" % len(got)),
                                         "upload does not leave a byte-identical file under its basename in the receive directory", "upload-differs"))
                        elif stray != target and os.path.exists(stray):
                            viol.append((desc, "also stored as %s" % rel, "upload stored under a name other than its basename", "upload-name"))
                        elif name == "@link" and os.path.exists(os.path.join(sdir, "real-target-%d.bin" % size)):
                            viol.append((desc, "stored as real-target-%d.bin" % size, "upload of a symbolic link stored under the name of its target", "upload-name"))
                except subprocess.TimeoutExpired:
                    viol.append((desc, "timeout", "client did not finish within 120 s", "client-hangs"))
                ran += 1
                if p.poll() is not None:
                    viol.append((desc, "server exited", "tftpd terminated during the run", "server-died"))
                    del servers[key]
            # refusals: missing file, read-only server
            key = ("multi", "127.0.0.1")
            if key in servers:
                p, port, sdir = servers[key]
                cdir = os.path.join(root, "cli")
                shutil.rmtree(cdir, ignore_errors=True)
                os.makedirs(os.path.join(cdir, "rd"))
                r = subprocess.run([tftpc, "no-such-file", "-d", "-rd", os.path.join(cdir, "rd"), "-i", "127.0.0.1", "-p", str(port)], cwd=cdir,
                                   stdout=subprocess.PIPE, stderr=subprocess.STDOUT, timeout=60)
                if os.listdir(os.path.join(cdir, "rd")):
                    viol.append(("tftpc download of a missing file", "files: %s" % os.listdir(os.path.join(cdir, "rd")), "a refused request created a file on the client", "refusal-creates-file"))
                if b"rror" not in r.stdout:
                    viol.append(("tftpc download of a missing file", r.stdout[-200:].decode("latin1"), "the client does not report the server's ERROR", "refusal-not-reported"))
                ran += 1
        finally:
            for (p, port, sdir) in servers.values():
                p.kill()
                p.wait()
        res.extra["process_level_transfers"] = ran
        res.evaluations += ran
        for i in range(ran):
            res.distinct.add("bin-%d" % i)
        return viol[:5]
