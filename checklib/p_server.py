"""Request-level server properties: C03 (confinement), C06 (access policy), C09 (option negotiation), C05 (listener availability)."""
import itertools
import re, os, posixpath
from .runner import Prop
from .wutil import fnv, hx, gen_bytes, content
from . import rfc, core

A_SERVER = [
    "in-process Server::listen on loopback; replies classified only as from-listening-port / from-another-port",
    "sandbox tree without symlinks; the modelled fragment of std::path / POSIX resolution (join of a relative path, skipping empty and '.' components)",
    "real time: a missing reply is only believed after a retry with 20x longer waits",
]
OPTN = ["blksize", "tsize", "timeout", "windowsize"]


def rq(kind, name, opts=(), mode=b"octet", tail=b""):
    b = (b"\0\1" if kind == "rrq" else b"\0\2") + name + b"\0" + mode + b"\0"
    for n, v in opts:
        b += (n if isinstance(n, bytes) else n.encode()) + b"\0" + (v if isinstance(v, bytes) else str(v).encode()) + b"\0"
    return b + tail


def parse_rq(d):
    """independent reading of a request datagram: (kind, name, [(name, value)]) or None"""
    if len(d) < 4 or d[0] != 0 or d[1] not in (1, 2):
        return None
    parts = d[2:].split(b"\0")
    if len(parts) < 3 or parts[-1] != b"":
        return None
    parts = parts[:-1]
    if len(parts) % 2 != 0:
        return None
    name, mode = parts[0], parts[1]
    opts = []
    for i in range(2, len(parts), 2):
        opts.append((parts[i], parts[i + 1]))
    return ("rrq" if d[1] == 1 else "wrq", name, opts)


def recognised(opts):
    """[(lower-case name, int value)] of the recognised options, or 'bad' if one has a non-numeric value"""
    out = []
    for n, v in opts:
        try:
            ln = n.decode("utf-8").lower()
        except UnicodeDecodeError:
            return "bad"
        if ln in OPTN:
            vv = v[1:] if v[:1] == b"+" else v
            if not vv or not all(48 <= c <= 57 for c in vv) or int(vv) >= 2 ** 64:
                return "bad"
            out.append((ln, int(vv)))
    return out


def enc(p):
    out = ""
    for b in p.encode("utf-8", "surrogateescape"):
        c = chr(b)
        if c == "/" or (b < 128 and (c.isalnum() or c in "._-")):
            out += c
        else:
            out += "%%%02x" % b
    return out


class SparseZeros:
    """a file of n zero bytes that is never materialised (sizes beyond 4 GiB)"""
    def __init__(self, n):
        self.n = n

    def __len__(self):
        return self.n

    def __getitem__(self, sl):
        lo, hi, _ = sl.indices(self.n)
        return bytes(max(0, hi - lo))


def untilde(p):
    """`~xx` in a path of the sandbox spec stands for the byte xx"""
    return re.sub(r"~([0-9a-fA-F]{2})", lambda m: chr(int(m.group(1), 16)), p)


class Case:
    def __init__(self, line):
        t = line.split(" ")
        self.cmd = t[0]
        self.root = bytes.fromhex(t[1]).decode()
        self.flags = t[2]
        self.single = "s" in t[2]
        self.ro = "r" in t[2]
        self.ow = "o" in t[2]
        self.keep = "k" in t[2]
        self.split = "x" in t[2]
        digits = "".join(c for c in t[2] if c.isdigit())
        self.dup = int(digits) if digits else 0
        self.files = {}
        self.dirs = set()
        if t[3] != "-":
            for item in t[3].split(","):
                if item.endswith("/"):
                    self.dirs.add(untilde(item.rstrip("/")))
                else:
                    p, h = item.split("=")
                    p = untilde(p)
                    if h.startswith("!"):
                        continue                 # a dangling symbolic link: nothing is there
                    if h.startswith("sparse:"):
                        self.files[p] = SparseZeros(int(h.split(":")[1]))
                    elif h == "|":
                        self.files[p] = b""     # a FIFO (hostile batches only)
                    elif h.startswith("@"):
                        # a symbolic link to a file of the same directory, named earlier: reads follow it
                        self.files[p] = self.files[(p.rsplit("/", 1)[0] + "/" if "/" in p else "") + h[1:]]
                    else:
                        self.files[p] = content(h)
        self.send = "send" if self.split else "srv"
        self.recv = "recv" if self.split else "srv"
        self.dirs.add(self.send)
        self.dirs.add(self.recv)
        for p in list(self.files) + list(self.dirs):
            while "/" in p:
                p = p.rsplit("/", 1)[0]
                self.dirs.add(p)
        self.dgram = bytes.fromhex(t[4]) if t[4] != "-" else b""
        self.extra = t[5:]

    def listing(self):
        items = ["%s/" % enc(d) for d in self.dirs] + ["%s:%d:%d" % (enc(p), len(c), fnv(c)) for p, c in self.files.items()]
        return ",".join(sorted(items)) if items else "-"

    def resolve(self, kind, name):
        """where the POSIX kernel would take <dir>/<converted name>: path relative to the sandbox root
        (may start with '..' = outside the sandbox), and whether the string forces a directory"""
        try:
            s = name.decode("utf-8")
        except UnicodeDecodeError:
            return None
        s = s.lstrip("/\\").replace("\\", "/")
        base = self.send if kind == "rrq" else self.recv
        full = posixpath.normpath(posixpath.join("/R", base, s)) if s else "/R/" + base
        rel = posixpath.relpath(full, "/R")
        return rel, (s.endswith("/") or s.endswith("/.") or s == "." or s == "")

    def inside(self, kind, rel):
        base = self.send if kind == "rrq" else self.recv
        return rel == base or rel.startswith(base + "/")


def upload_plan(rec):
    """(nfull, block size, window size, uploaded bytes) of the scripted upload that follows an accepted WRQ"""
    d = dict(rec) if rec != "bad" else {}
    b, w = d.get("blksize", 512), d.get("windowsize", 1)
    nfull = min(min(w, 300), max(1, 49152 // max(b, 1)))
    if 1000000 < b * w <= 1250000 and w <= 2100:
        nfull = w      # a whole window of just over 1 MiB is uploaded in full (paced)
    data = b"".join(gen_bytes(b, k) for k in range(1, nfull + 1)) + b"abc"
    return nfull, b, w, data


def upload_stored_oracle(line, impl):
    """a `req` line whose write request was accepted and whose scripted upload was acknowledged to the end: the file at the target holds
    exactly the bytes sent - whatever the request said about sizes"""
    if impl in ("abort", "panic") or not impl.startswith("r1="):
        return ("server died or no observation: " + impl[:60], "died")
    c = Case(line)
    r1, conv, fs = parse_req_obs(impl)
    kind, name, opts = parse_rq(c.dgram)
    if kind != "wrq" or not (r1.endswith("ack 0") or " oack " in r1):
        return None
    rec = recognised(opts)
    nfull, b, w, data = upload_plan(rec)
    acks = [t for t in conv.split(" ") if t.startswith("A")]
    if not acks or acks[-1] != "A%d" % ((nfull + 1) % 65536):
        return None
    res = c.resolve(kind, name)
    if res is None:
        return None
    rel = res[0]
    want = "%s:%d:%d" % (enc(rel), len(data), fnv(data))
    if want not in lst(fs):
        mine = [x for x in lst(fs) if x.startswith(enc(rel) + ":")]
        return ("the upload was acknowledged to its last block, but the stored file is not the %d bytes sent (%s)" % (len(data), ",".join(mine) or "no file"),
                "upload-not-stored")
    return None


def parse_req_obs(impl):
    p = impl.split(" ; ")
    if len(p) != 3:
        return None
    return p[0][3:], p[1][5:], p[2][3:]


def lst(s):
    return set() if s == "-" else set(s.split(","))


# ---------------------------------------------------------------------------------------------
class ServerProp(Prop):
    assumptions = A_SERVER
    nroots = 8
    retry_env = {"HARNESS_SLOW": "1"}
    parallel = 8

    def root(self, i):
        return (self.sandbox + "/k%d" % (i % self.nroots)).encode().hex()

    def chunk_of(self, line):
        r = bytes.fromhex(line.split(" ")[1]).decode()
        return int(r.rsplit("k", 1)[1])

    def corpus(self):
        out = []
        for l in Prop.corpus(self):
            t = l.split(" ")
            if t[1].startswith("@R"):
                t[1] = self.root(int(t[1][2:]))
            out.append(" ".join(t))
        return out

    def nontrivial(self, line, impl):
        if line.startswith("timing "):
            return True
        return impl.startswith("r1=") and not impl.startswith("r1=- none ; conv=- ")

    def classify(self, line, impl, res):
        if line.startswith("timing "):
            res.count("timing:" + impl[:40])
            return
        o = parse_req_obs(impl)
        if o:
            res.count("r1:" + " ".join(o[0].split(" ")[:3])[:24])
        res.count("flags:" + line.split(" ")[2])

    def shrink(self, line):
        return []

    def search(self, rng, around):
        return self.generate("quick", rng)


DECOY = "secret=%s,srv-secret/s=%s,send-secret/s=%s,recvx/s=%s" % (hx(b"TOPSECRET-1"), hx(b"TOPSECRET-2"), hx(b"TOPSECRET-3"), hx(b"TOPSECRET-4"))
BASEFS = {
    False: "srv/a=%s,srv/sub/b=%s,srv/sub/deep/c=%s,%s" % (hx(b"file-a-content"), hx(b"file-b"), hx(b"cc"), DECOY),
    True: "send/a=%s,send/sub/b=%s,recv/a=%s,recv/sub/=,%s" % (hx(b"file-a-content"), hx(b"file-b"), hx(b"recv-a-old"), DECOY),
}
BASEFS[True] = BASEFS[True].replace("recv/sub/=", "recv/sub/")
SEGS = [b"/", b"\\", b".", b"..", b"a", b"sub", b"srv", b"secret", b"srv-secret", b"%2e", b"\xc3\xa9", b"s", b"send", b"recv"]


class C03(ServerProp):
    id = "C03"
    module = "Tftp.Props.C03"
    rule = ("request file names built from the path-segment alphabet {/, \\, ., .., a, sub, srv, secret, srv-secret, %2e, é, s, send, recv}: exhaustive up to length L "
            "(3 quick, 4 thorough) plus random/mutated names up to the request limit, as RRQ and WRQ, against the in-process server in {shared, split dirs} x {overwrite on/off} "
            "x {multi, single port}; the sandbox surrounds the served directories with decoy files; a before/after listing of the whole tree is compared; "
            "non-trivial = distinct case that received a reply or started a transfer")

    def names(self, tier, rng):
        L = 3 if tier == "quick" else 4
        out = []
        for n in range(1, L + 1):
            for t in itertools.product(SEGS, repeat=n):
                out.append(b"".join(t))
        out = list(dict.fromkeys(out))
        if tier == "quick":
            rng.shuffle(out)
            out = out[:700]
        for _ in range(200 if tier == "quick" else 5000):
            n = rng.randint(1, 9)
            out.append(b"".join(rng.choice(SEGS + [b"/", b"/", b"..", b"x", b"...", b". .", b"..."]) for _ in range(n)))
        out += [b"/etc/passwd", b"../secret", b"..\\secret", b"sub/../../secret", b"/../secret", b"a/../../srv-secret/s", b"../srv-secret/s",
                b"..", b"a..b", b"a/..b", b"sub/..", b"sub/./b", b"sub//b", b"./a", b"a/", b"a/.", b"", b"/", b"\\\\a", b"//a", b"sub\\b",
                b"x" * 400, b"../" * 100 + b"secret", b"srv/../secret", self.sandbox.encode() + b"/k0/secret",
                "sub\u042fb".encode(), "\u042fa".encode(), "sub\u015cb".encode(), "..\u042fsecret".encode(), "sub\u042f..\u042f..\u042fsecret".encode(),
                "\u062fa".encode(), "sub\u4e5cdeep\u4e5cc".encode()]
        # directed: climb out through an EXISTING sub-directory, with every kind of separator run between the components (single, doubled,
        # tripled, mixed, with '.' in between) - the kernel collapses separator runs, a hand-written depth count may not
        seps = [b"/", b"//", b"///", b"\\", b"\\\\", b"\\/", b"/\\", b"/./", b"//.//"]
        pres = [b"sub", b"sub/deep", b"./sub", b"/sub", b"sub/.", b"sub\\deep"]
        targets = [b"secret", b"srv-secret/s", b"a", b"recv/a", b"send/a", b"planted"]
        fam = []
        for pre in pres:
            for sp in seps:
                for nup in (1, 2, 3, 4):
                    for tg in targets:
                        fam.append(pre + sp + (b".." + sp) * nup + tg)
        rng.shuffle(fam)
        out += fam[:(260 if tier == "quick" else len(fam))]
        return out

    def generate(self, tier, rng):
        lines = []
        i = 0
        for name in self.names(tier, rng):
            for kind in ("rrq", "wrq"):
                flags = rng.choice(["-", "o", "x", "xo", "s", "so", "sxo", "k", "1", "v", "sxv", "t", "ot", "xt", "sxot"])
                d = rq(kind, name)
                if len(d) > 510:
                    continue
                lines.append("req %s %s %s %s" % (self.root(i), flags, BASEFS["x" in flags], d.hex()))
                i += 1
        return lines

    def oracle(self, line, impl):
        if impl in ("abort", "panic") or not impl.startswith("r1="):
            return ("server died or no observation: " + impl[:60], "died")
        c = Case(line)
        o = parse_req_obs(impl)
        if o is None:
            return ("unparsable observation", "obs")
        r1, conv, fs = o
        rqp = parse_rq(c.dgram)
        if rqp is None:
            return None
        kind, name, opts = rqp
        before, after = lst(c.listing()), lst(fs)
        changed = before ^ after
        res = c.resolve(kind, name)
        # write effects only inside the receive directory; reads cause no effect at all
        for item in changed:
            p = item.split(":")[0].rstrip("/")
            if kind == "rrq":
                return ("a read request changed the file system: " + item, "rrq-effect")
            if not (p == c.recv or p.startswith(c.recv + "/")):
                return ("file system changed outside the receive directory: " + item, "write-outside")
        if res is not None:
            rel, _ = res
            if not c.inside(kind, rel):
                if not r1.startswith("L error"):
                    return ("request resolving to %s (outside) not answered by an ERROR" % rel, "outside-not-refused")
                if changed or conv != "-":
                    return ("refused request had an effect", "refusal-effect")
        # data leak: every DATA payload must come from a file inside the send directory
        if kind == "rrq" and conv not in ("-", "."):
            inside_sigs = set((len(v), fnv(v)) for p, v in c.files.items() if p.startswith(c.send + "/"))
            for tok in conv.split(" "):
                if tok[0] == "D":
                    _, ln, h = tok[1:].split(":")
                    if (int(ln), int(h)) not in inside_sigs:
                        return ("DATA carries bytes that are not a file of the send directory", "leak")
        return None


class C06(ServerProp):
    id = "C06"
    module = "Tftp.Props.C06"
    rule = ("decision table {read-only, overwrite, keep/clean, single/multi port, shared/split dirs} x {RRQ, WRQ} x target {missing, existing shorter/longer/empty, in sub-directory, missing parent} "
            "x option sets, against the in-process server with before/after listings; non-trivial = distinct case that received a reply or started a transfer")

    def generate(self, tier, rng):
        lines = []
        i = 0
        flagsets = ["".join(x) for x in itertools.product(["", "r"], ["", "o"], ["", "k"], ["", "s"], ["", "x"])]
        flagsets += [f + "v" for f in flagsets[::3]]      # the same cells with the server on ::1
        flagsets += [f + "p" for f in flagsets[1:32:4]]   # the client's transfer identifier is a port <= 1024 (any port is a valid TID)
        flagsets += [f + "t" for f in flagsets[2:32:4]]   # the served directories are configured with a trailing separator
        flagsets += [f + "2" for f in flagsets[3:32:5]]   # duplicate-packets mode: a refusal is still one datagram
        names = [b"a", b"new", b"sub/b", b"sub/new", b"nodir/x", b"long", b"short", b"/a", b"sub\\b", b"empty", b"sub/empty",
                 # letters whose code point, cut to one byte, is '/' or '\\' (U+042F, U+015C, U+4E5C): they are letters, not separators
                 "sub\u042fb".encode(), "\u042fa".encode(), "sub\u015cb".encode(), "\u4e5clong".encode(),
                 # control characters are ordinary name bytes (an existing file, a new file, next to a printable look-alike)
                 b"c\td", b"n\x1bw", b"sub/c\x7fd",
                 # dangling symbolic links (read requests only: the name is missing)
                 b"dangling", b"sub/dangling2"]
        optsets = [(), (("blksize", 8),), (("tsize", 7), ("windowsize", 2)), (("timeout", 1), ("blksize", 1428), ("foo", "1")),
                   # values the server cannot honour: a request that is refused anyway must still get its refusal
                   (("blksize", 7),), (("timeout", 0), ("blksize", 512)), (("windowsize", 0),), (("blksize", 65465), ("tsize", 1))]
        reps = 1 if tier == "quick" else 4
        for _ in range(reps):
            for fl in flagsets:
                for kind in ("rrq", "wrq"):
                    for name in names:
                        if kind == "wrq" and b"dangling" in name:
                            continue
                        opts = rng.choice(optsets)
                        split = "x" in fl
                        base = "send" if split else "srv"
                        rbase = "recv" if split else "srv"
                        fs = ["%s/a=%s" % (base, hx(b"file-a-content")), "%s/sub/b=%s" % (base, hx(b"bb")),
                              "%s/long=%s" % (rbase, "gen:900:3"), "%s/short=%s" % (rbase, hx(b"s")), "%s/sub/" % rbase, "secret=%s" % hx(b"TOP"),
                              "%s/empty=-" % rbase, "%s/sub/empty=-" % rbase]
                        fs += ["%s/c~09d=%s" % (base, hx(b"tab-file")), "%s/c?d=%s" % (base, hx(b"question-mark-file")),
                               "%s/sub/c~7fd=%s" % (rbase, hx(b"del")), "%s/sub/c?d=%s" % (rbase, hx(b"qm"))]
                        fs += ["%s/dangling=!nowhere" % base, "%s/sub/dangling2=!../gone/x" % base]
                        if split:
                            fs += ["send/empty=-"]
                        if split:
                            fs += ["recv/a=%s" % hx(b"old-recv-a"), "recv/sub/b=%s" % hx(b"old-b")]
                        lines.append("req %s %s %s %s" % (self.root(i), fl or "-", ",".join(fs), rq(kind, name, opts).hex()))
                        i += 1
        if tier == "quick":
            rng.shuffle(lines)
            lines = lines[:900]
        return lines

    def oracle(self, line, impl):
        if impl in ("abort", "panic") or not impl.startswith("r1="):
            return ("server died or no observation: " + impl[:60], "died")
        c = Case(line)
        r1, conv, fs = parse_req_obs(impl)
        kind, name, opts = parse_rq(c.dgram)
        before, after = lst(c.listing()), lst(fs)
        rel, mustdir = c.resolve(kind, name)
        exists_file = rel in c.files
        exists = exists_file or rel in c.dirs
        if kind == "wrq" and c.ro:
            if r1 != "L error 2" or conv != "-" or before != after:
                return ("write request in read-only mode not refused with ERROR 2 without effect: %s" % r1, "read-only")
            return None
        if kind == "wrq" and exists and not c.ow:
            if r1 != "L error 6" or conv != "-" or before != after:
                return ("write request for an existing file without overwrite not refused with ERROR 6 without effect: %s" % r1, "no-overwrite")
            return None
        if kind == "rrq" and not exists:
            if r1 != "L error 1" or conv != "-" or before != after:
                return ("read request for a missing file not refused with ERROR 1: %s" % r1, "not-found")
            return None
        if r1.startswith("L error") or r1.startswith("T error"):
            if not r1.startswith("L ") or conv != "-" or before != after:
                return ("refusal not from the listening port / with effect", "refusal-source")
        if r1 == "- none" and conv == "-" and before != after:
            # a request the server did not accept (it was not even answered: an option value it cannot honour) has no effect on any file -
            # least of all on the completed upload that already has the name
            gone = sorted(before - after)
            return ("a request that was never accepted changed the file system (%s)" % ("removed/changed: " + ",".join(gone)[:120] if gone else "new entries"),
                    "unaccepted-request-effect")
        if kind == "wrq" and exists_file and c.ow and conv.startswith("A"):
            data = upload_plan(recognised(opts))[3]
            want = "%s:%d:%d" % (enc(rel), len(data), fnv(data))
            if want not in after or any(x.startswith(enc(rel) + ":") and x != want for x in after):
                return ("completed upload with overwrite did not replace the old content entirely", "overwrite-replace")
        return None


BOUND = [0, 1, 7, 8, 9, 511, 512, 513, 1428, 65464, 65465, 65535, 65536, 2 ** 31, 2 ** 32, 2 ** 40, 2 ** 63, 2 ** 64 - 2, 2 ** 64 - 1,
         # values that become valid when cut to 32, 16 or 8 bits
         2 ** 32 + 8, 2 ** 32 + 512, 3 * 2 ** 32 + 1428, 2 ** 16 + 8, 2 ** 16 + 512, 2 ** 40 + 65464, 2 ** 63 + 9]


def case_variants(rng, name):
    r = rng.random()
    if r < 0.5:
        return name.encode()
    if r < 0.7:
        return name.upper().encode()
    if r < 0.9:
        return "".join(ch.upper() if rng.random() < 0.5 else ch for ch in name).encode()
    return name.replace("k", "K").encode() if "k" in name else name.capitalize().encode()


def rand_optlist(rng, hostile=False):
    n = rng.choice([0, 1, 1, 2, 2, 3, 4, 5])
    opts = []
    pool = list(OPTN)
    rng.shuffle(pool)
    for i in range(n):
        r = rng.random()
        if r < 0.75 and pool:
            nm = pool.pop() if rng.random() < 0.85 else rng.choice(OPTN)
            if nm == "blksize":
                v = rng.choice([8, 8, 9, 16, 512, 1428, 65464] + BOUND) if rng.random() < 0.6 else rng.randint(8, 2000)
            elif nm == "timeout":
                v = rng.choice([1, 1, 2, 5, 255, 0, 256, 2 ** 32, 2 ** 64 - 1, 2 ** 64 - 2, 2 ** 32 + 1, 2 ** 8 + 1, 2 ** 16 + 2, 2 ** 32 + 255])
            elif nm == "windowsize":
                v = rng.choice([1, 2, 3, 4, 8, 64, 65, 100, 128, 300, 1000, 65535, 0, 65536, 2 ** 32, 2 ** 32 + 2, 2 ** 16 + 2, 2 ** 32 + 65535, 2 ** 17 + 3])
            else:
                v = rng.choice([0, 1, 12345, 2 ** 32, 2 ** 64 - 1])
            val = str(v).encode()
            if hostile and rng.random() < 0.2:
                val = rng.choice([b"-1", b"+5", b"", b"abc", b"1e3", b"18446744073709551616", b"0x10", b"99999999999999999999999"])
            opts.append((case_variants(rng, nm), val))
        else:
            # unknown names, among them names that extend, truncate or decorate a recognised one
            opts.append((rng.choice([b"foo", b"multicast", b"blksize2", b"", b"tsizee", b"windowsize2", b"WindowSizeHint", b"windowsize ", b"windowsiz",
                                     b"timeoutms", b"tsize64", b"blk", b"xblksize", b"blksize\xc3\xa9", b"windowsize-max",
                                     b"\xc4\xb0", b"\xc4\xb0\xc4\xb0", b"bl\xc4\xb0size", b"\xc8\xba", b"\xe1\xba\x9e", b"\xe2\x84\xa6"]),
                         rng.choice([b"1", b"x", b"", b"4", b"16", b"0", b"70000"])))
    return opts


class C09(ServerProp):
    id = "C09"
    module = "Tftp.Props.C09"
    rule = ("subsets and orders of {blksize, timeout, tsize, windowsize} with values at and around every boundary (0,1,7,8,65464,65465,65535,65536,2^31,2^32,2^40,2^63,2^64-1), "
            "upper/lower/mixed-case and KELVIN-SIGN names, interleaved unknown options, x {RRQ, WRQ} x {single, multi port} x file sizes; observed: first reply, DATA lengths and burst length; "
            "non-trivial = distinct case that received a reply or started a transfer")

    def generate(self, tier, rng):
        lines = []
        n = 900 if tier == "quick" else 20000
        for i in range(n):
            kind = rng.choice(["rrq", "rrq", "wrq"])
            flags = rng.choice(["-", "s", "o", "so", "1", "sx", "v", "sv", "ov", "p", "sp"])   # v: the server listens on ::1
            flen = rng.choice([0, 1, 7, 8, 9, 16, 17, 100, 511, 512, 513, 1024, 3000])
            split = "x" in flags
            base = "send" if split else "srv"
            fs = "%s/f=gen:%d:%d" % (base, flen, rng.randint(0, 255))
            opts = rand_optlist(rng, hostile=rng.random() < 0.15)
            name = b"f" if kind == "rrq" else rng.choice([b"up", b"f"])
            if kind == "rrq" and rng.random() < 0.2:
                # the requested name is a symbolic link to the file (tsize must be the size of what is sent, not of the link)
                fs += ",%s/lnk=@f" % base
                name = b"lnk"
            # the transfer mode is carried but does not change what is sent (the server treats every mode as octet)
            mode = rng.choice([b"octet"] * 6 + [b"netascii", b"OCTET", b"NetAscii", b"mail", b"", b"binary"])
            lines.append("req %s %s %s %s" % (self.root(i), flags, fs, rq(kind, name, opts, mode=mode).hex()))
        # directed: large blksize x windowsize products (a window of just over 1 MiB, uploaded in full and paced) and the
        # products just below; option order varied; both port modes
        big = [(1468, 715), (1468, 714), (512, 2049), (512, 2047), (16384, 65), (16384, 63), (65464, 17), (65464, 15), (8192, 128)]
        i = n
        for (bb, ww) in big if tier == "thorough" else big[:7:2] + [(65464, 15)]:
            for flags in (["-", "s"] if tier == "thorough" else [rng.choice(["-", "s"])]):
                o = [("blksize", bb), ("windowsize", ww)]
                if rng.random() < 0.5:
                    o.reverse()
                if rng.random() < 0.3:
                    o.append(("tsize", bb * ww + 3))
                lines.append("req %s %s srv/f=gen:5:1 %s" % (self.root(i), flags, rq("wrq", b"bigup", tuple(o)).hex()))
                i += 1
        # real time: the retransmission interval is the acknowledged timeout (one run per port mode, in parallel)
        tv = [1] if tier == "quick" else [1, 2]
        j = 0
        for flags in ["-", "s"]:
            for t in tv:
                lines.append("timing %s %s srv/f=gen:20:1 %s" % (self.root(j), flags, rq("rrq", b"f", (("timeout", t), ("blksize", 8))).hex()))
                j += 1
            # no timeout option: the default interval (5 s) applies - observed up to the first retransmission only
            lines.append("timing %s %s srv/f=gen:20:1 %s first" % (self.root(j), flags, rq("rrq", b"f", (("blksize", 8),)).hex()))
            j += 1
        return lines

    def timing_oracle(self, line, impl):
        c = Case(line)
        kind, name, opts = parse_rq(c.dgram)
        t = dict(recognised(opts)).get("timeout", 5)
        kv = dict(x.split("=") for x in impl.split(" ")) if "=" in impl else {}
        if kv.get("first") != "oack":
            return ("request with a valid timeout option not acknowledged", "timing-no-oack")
        if kv.get("interval") != str(t):
            return ("retransmission after %s s although timeout %d was acknowledged" % (kv.get("interval"), t), "retransmission-interval")
        n = int(kv.get("transmissions", "0"))
        if n < 2 or n > 6:
            return ("DATA 1 transmitted %d times to a silent peer (retry budget 6)" % n, "retransmission-count")
        return None

    def oracle(self, line, impl):
        if line.startswith("timing "):
            if impl in ("abort", "panic"):
                return ("server died", "died")
            return self.timing_oracle(line, impl)
        if impl in ("abort", "panic") or not impl.startswith("r1="):
            return ("server died or no observation: " + impl[:60], "died")
        c = Case(line)
        r1, conv, fs = parse_req_obs(impl)
        p = parse_rq(c.dgram)
        if p is None:
            return None
        kind, name, opts = p
        if line.startswith("req ") and kind == "wrq":
            # "the transfer then uses precisely the acknowledged values": whatever was declared, what is stored is what was sent
            v = upload_stored_oracle(line, impl)
            if v:
                return v
        rec = recognised(opts)
        if rec == "bad":
            if "oack" in r1 or conv not in ("-",):
                return ("request with a non-numeric value for a recognised option was served", "bad-value-served")
            return None
        rel, _ = c.resolve(kind, name)
        fsize = len(c.files.get(rel, b""))
        accepted_possible = (kind == "rrq" and rel in c.files) or (kind == "wrq" and (rel not in c.files or c.ow) and not c.ro)
        invalid = [(n, v) for n, v in rec if (n == "timeout" and v == 0) or (n == "windowsize" and (v == 0 or v > 65535)) or
                   (n == "blksize" and (v < 8 or v > 65464))]
        if invalid:
            if "oack" in r1:
                return ("value the server cannot honour acknowledged: %s=%d" % invalid[0], "invalid-acked:" + invalid[0][0])
            if conv != "-":
                return ("transfer started although %s=%d cannot be honoured" % invalid[0], "invalid-transfer:" + invalid[0][0])
            return None
        if not accepted_possible:
            return None
        toks = r1.split(" ")
        if rec:
            if len(toks) < 3 or toks[1] != "oack":
                # timeout > 255 etc. may legitimately be refused; only complain when every value is plainly valid
                if all((n != "timeout" or v <= 255) for n, v in rec):
                    return ("request with recognised options not answered by an OACK: %s" % r1, "no-oack")
                return None
            acked = [(a.split(":")[0], int(a.split(":")[1])) for a in toks[2].split(",")] if toks[2] != "-" else []
            if [a[0] for a in acked] != [r[0] for r in rec]:
                return ("OACK does not list exactly the requested recognised options in order", "oack-set")
            for (an, av), (rn, rv) in zip(acked, rec):
                if an == "tsize":
                    want = fsize if kind == "rrq" else rv
                    if av != want:
                        return ("OACK tsize %d, expected %d" % (av, want), "oack-tsize")
                elif av > rv:
                    return ("OACK %s=%d exceeds the requested %d" % (an, av, rv), "oack-exceeds")
        else:
            if "oack" in r1:
                return ("OACK although no recognised option was requested", "spurious-oack")
            if kind == "wrq" and r1.split(" ", 1)[1] != "ack 0":
                return ("WRQ without options not answered by ACK 0: %s" % r1, "no-ack0")
        # the transfer uses exactly the acknowledged values (duplicate-free option lists)
        names = [r[0] for r in rec]
        if len(set(names)) == len(names) and kind == "wrq" and conv not in ("-", "."):
            nfull, b, w, data = upload_plan(rec)
            want = (["A%d" % (w % 65536)] if nfull == w else []) + ["A%d" % ((nfull + 1) % 65536)]
            got = []
            for t in conv.split(" "):
                if not got or got[-1] != t:
                    got.append(t)
            if got != want:
                return ("upload with windowsize %d: acknowledgements %s, expected %s (one per %d in-order blocks and on the final block)" % (
                    w, " ".join(got)[:60], " ".join(want), w), "wrq-window")
        if len(set(names)) == len(names) and kind == "rrq" and conv not in ("-",):
            d = dict(rec)
            b = d.get("blksize", 512)
            w = d.get("windowsize", 1)
            nblocks = fsize // b + 1
            seen = [t for t in (conv.split(" ") if conv != "." else []) if t[0] == "D"]
            rep = c.dup + 1
            uniq = []
            for t in seen:
                if not uniq or uniq[-1] != t:
                    uniq.append(t)
            want_n = min(w, nblocks)
            if len(uniq) != want_n:
                return ("first burst has %d blocks, negotiated windowsize %d (file has %d blocks)" % (len(uniq), w, nblocks), "burst-len")
            f = c.files[rel]
            for i, t in enumerate(uniq):
                num, ln, h = t[1:].split(":")
                blk = f[i * b:(i + 1) * b]
                if int(num) != i + 1 or int(ln) != len(blk) or int(h) != fnv(blk):
                    return ("DATA %s does not have the negotiated block length %d" % (num, b), "block-len")
            if len(seen) != want_n * rep:
                return ("each block should be sent %d times" % rep, "dup-count")
        return None


class C05(ServerProp):
    id = "C05"
    module = "Tftp.Props.C05"
    nroots = 8
    rule = ("hostile batches (random bytes; mutations of valid packets; all packet kinds; option values 0,1,7,8,65464,65465,2^16,2^31,2^32,2^40,2^63,2^64-1,2^64,-1,+5,non-numeric,empty; "
            "oversize datagrams) sent from several sources to the in-process server in {multi, single} x {read-only, writable}, each batch followed by a probe RRQ that must be served "
            "byte-exactly; any case with option values above 2^32 is executed in a child harness process so that an abort is observed, not suffered; "
            "the real tftpd process with relative directories (-d ., -sd . -rd ., -d ./) under a fixed hostile batch (requests for the served directory itself, empty and "
            "garbage datagrams) followed by a probe, exit status observed; "
            "non-trivial = distinct batch containing at least one datagram that decodes")

    def hostile(self, rng):
        from .p_codec import rand_packet, mutate
        r = rng.random()
        if r < 0.2:
            return bytes(rng.getrandbits(8) for _ in range(rng.choice([0, 1, 2, 3, 4, 10, 100, 600, 2000])))
        if r < 0.45:
            return mutate(rng, rfc.encode(rand_packet(rng, "quick")))[:3000]
        if r < 0.6:
            return rfc.encode(rand_packet(rng, "quick"))[:3000]
        kind = rng.choice(["rrq", "wrq"])
        # names that make the file-system calls themselves fail (ENAMETOOLONG, ENOTDIR, EISDIR), not only ENOENT
        name = rng.choice([b"f", b"f", b"missing", b"pipe", b"pipe", b"../x", b"up%d" % rng.randint(0, 9), b"a" * 255, b"a" * 256, b"b" * 400,
                           b"f/x", b"f/", b"f/.", b"", b"/", b".", b"sub/" + b"c" * 300, b"\xc3\xa9" * 130])
        vals = [b"0", b"1", b"7", b"8", b"65464", b"65465", b"65536", b"2147483648", b"4294967296", b"4294967304", b"4294967297", b"65538", b"1099511627776", b"9223372036854775808",
                b"18446744073709551615", b"18446744073709551616", b"18446744073709551614", b"-1", b"+5", b"abc", b""]
        opts = [(rng.choice([b"blksize", b"BLKSIZE", b"timeout", b"windowsize", b"tsize", b"foo", b"\xc4\xb0", b"\xc4\xb0\xc4\xb0\xc4\xb0", b"\xc8\xba", b"bl\xc4\xb0size"]),
                 rng.choice(vals)) for _ in range(rng.randint(1, 3))]
        return rq(kind, name, opts)

    def generate(self, tier, rng):
        lines = []
        n = 260 if tier == "quick" else 6000
        for i in range(n):
            flags = rng.choice(["-", "s", "r", "sr", "v", "sv"])
            fs = "srv/f=gen:%d:%d" % (rng.choice([0, 5, 512, 1300]), rng.randint(0, 255))
            if rng.random() < 0.25:
                fs += ",srv/pipe=|"      # a FIFO without a writer in the served directory (the hostile names include it)
            probe_opts = rng.choice([(), (("blksize", 8),), (("blksize", 1024), ("windowsize", 3)), (("tsize", 0),)])
            probe = rq("rrq", b"f", probe_opts)
            batch = [self.hostile(rng) for _ in range(rng.randint(1, 12))]
            lines.append("storm %s %s %s %s %s" % (self.root(i), flags, fs, probe.hex(), " ".join(hx(b) for b in batch)))
        # directed: the boundary grid, one value per batch
        i = n
        for flags in ["-", "s"]:
            for nm in [b"blksize", b"timeout", b"windowsize", b"tsize"]:
                for v in [b"0", b"7", b"8", b"65464", b"65465", b"65536", b"4294967296", b"1099511627776", b"9223372036854775808",
                          b"18446744073709551615", b"18446744073709551614", b"18446744073709551616", b"-1", b"+5", b"x", b""]:
                    for kind in (["rrq"] if tier == "quick" else ["rrq", "wrq"]):
                        probe = rq("rrq", b"f", (("blksize", 16),))
                        lines.append("storm %s %s srv/f=gen:40:9 %s %s" % (self.root(i), flags, probe.hex(), rq(kind, b"f" if kind == "rrq" else b"up", ((nm, v),)).hex()))
                        i += 1
        # directed: a backlog for one endpoint: its transfer's worker never reads (it is stuck opening a FIFO) while the endpoint sends more than
        # a thousand further datagrams - the listener must go on serving everybody else (both port modes; in single-port mode those
        # datagrams are routed to the stuck worker)
        for flags in ["s", "-", "sv"]:
            for cnt in ([1500] if tier == "quick" else [1100, 3000, 20000]):
                for pkt in [rfc.encode(("ack", 1)), rfc.encode(("data", 1, b"xyz"))]:
                    batch = [rq("rrq", b"pipe", ()).hex(), rq("rrq", b"f", ()).hex(), rq("rrq", b"missing", ()).hex(), "%d*%s" % (cnt, pkt.hex())]
                    probe = rq("rrq", b"f", (("blksize", 16),))
                    lines.append("storm %s %s srv/f=gen:40:9,srv/pipe=| %s %s" % (self.root(i), flags, probe.hex(), " ".join(batch)))
                    i += 1
        # directed: a refusal the kernel cannot send: in single-port mode an accepted request with the largest block size widens the listener's
        # receive buffer; a later request for a missing (or escaping) name of about 65 KB then earns an ERROR text beyond any UDP datagram
        for flags in ["s", "sv"]:
            for big in [b"n" * 65459, b"../" + b"m" * 65450, b"sub/" + b"k" * 65000]:
                batch = [rq("rrq", b"f", (("blksize", 65464),)), rq("rrq", big, ()), rq("wrq", big, ())]
                probe = rq("rrq", b"f", (("blksize", 16),))
                lines.append("storm %s %s srv/f=gen:40:9,srv/sub/ %s %s" % (self.root(i), flags, probe.hex(), " ".join(hx(b) for b in batch)))
                i += 1
        # directed: "from any number of sources" - a long run of accepted requests, each from its own endpoint (per-client state of
        # the listener - the single-port routing table - grows with every one of them), then the probe from yet another endpoint
        for flags in ["sm", "m", "smr"]:
            for (cnt, mix) in ([(150, False)] if tier == "quick" else [(150, False), (400, True), (1200, False)]):
                batch = []
                for j in range(cnt):
                    if mix and j % 3 == 1 and "r" not in flags:
                        batch.append(rq("wrq", b"up%d" % (j % 7), ()))
                    elif mix and j % 3 == 2:
                        batch.append(rq("rrq", b"f", (("blksize", rng.choice([8, 512, 1024, 65464])),)))
                    else:
                        batch.append(rq("rrq", b"f", ()))
                probe = rq("rrq", b"f", (("blksize", 16),))
                lines.append("storm %s %s srv/f=gen:40:9 %s %s" % (self.root(i), flags, probe.hex(), " ".join(hx(b) for b in batch)))
                i += 1
        return lines

    def nontrivial(self, line, impl):
        return True

    def classify(self, line, impl, res):
        t = line.split(" ")
        res.count("flags:" + t[2])
        res.count("batch:%s" % (min(len(t) - 5, 12) if len(t) - 5 <= 12 else ">=100-distinct-sources"))
        for h in t[5:]:
            d = rfc.unhx(h.split("*")[-1])
            res.count("dgram:" + ("rq" if len(d) > 1 and d[0] == 0 and d[1] in (1, 2) else "other"))

    def oracle(self, line, impl):
        if impl in ("abort", "panic") or not impl.startswith("r1="):
            return ("the server process died (abort/panic) during or after the batch: " + impl[:40], "died")
        c = Case(line)
        o = impl.split(" ; ")
        r1, conv = o[0][3:], o[1][5:]
        kind, name, opts = parse_rq(c.dgram)
        rec = recognised(opts)
        f = c.files["srv/f"]
        d = dict(rec)
        b, w = d.get("blksize", 512), d.get("windowsize", 1)
        nb = len(f) // b + 1
        want = " ".join("D%d:%d:%d" % (i + 1, len(f[i * b:(i + 1) * b]), fnv(f[i * b:(i + 1) * b])) for i in range(min(w, nb)))
        if conv != want:
            return ("after the batch a valid read request is not served correctly (got r1=%s conv=%s)" % (r1, conv[:60]), "probe-not-served")
        if rec and "oack" not in r1:
            return ("after the batch the probe is not acknowledged", "probe-not-served")
        return None

    needs_bins = True

    def extra_checks(self, res, workdir, tier, rng):
        """the real tftpd process, started the way an administrator would: relative directories (`-d .`), its own working directory"""
        import socket, subprocess, time
        bins = os.path.join(core.HARNESS, "target", "repo-bins", "debug")
        tftpd = os.path.join(bins, "tftpd")
        if not os.path.exists(tftpd):
            return [("process-level", "binary missing", "tftpd was not built from /repo", "no-binaries")]
        viol = []
        ran = 0
        content = bytes((i * 7 + 3) & 255 for i in range(40))
        hostile = [rq(k, n, o) for k in ("rrq", "wrq") for n in (b"", b"/", b"\\", b"//", b".", b"./", b"..", b"sub", b"sub/")
                   for o in ((), (("blksize", 8),))] + [b"", b"\0", b"\0\1", b"\0\5\0\1x\0", bytes(range(200)), b"\0\1f.bin\0octet\0blksize\0" + b"9" * 30 + b"\0"]
        for mode in ([], ["-s"]):
            # (not `-d sub/..`: a served directory whose own path contains ".." refuses every name with ERROR 2 - the confinement check of
            # C03 looks for ".." in the joined path; an observation, not a violation of this property)
            for dirargs in (["-d", "."], ["-sd", ".", "-rd", "."], ["-d", "./"]):
                sdir = os.path.join(workdir, "proc", "d%d" % ran)
                os.makedirs(os.path.join(sdir, "sub"), exist_ok=True)
                with open(os.path.join(sdir, "f.bin"), "wb") as fh:
                    fh.write(content)
                s0 = socket.socket(socket.AF_INET, socket.SOCK_DGRAM)
                s0.bind(("127.0.0.1", 0))
                port = s0.getsockname()[1]
                s0.close()
                p = subprocess.Popen([tftpd, "-i", "127.0.0.1", "-p", str(port)] + dirargs + mode + ["--overwrite"], cwd=sdir,
                                     stdout=subprocess.DEVNULL, stderr=subprocess.DEVNULL)
                time.sleep(0.2)
                desc = "tftpd %s %s (cwd = the served directory) under a hostile batch" % (" ".join(dirargs), " ".join(mode))
                try:
                    if p.poll() is not None:
                        viol.append((desc, "did not start", "tftpd does not start with a relative directory", "process-start"))
                        continue
                    c = socket.socket(socket.AF_INET, socket.SOCK_DGRAM)
                    c.settimeout(0.05)
                    for d in hostile:
                        c.sendto(d, ("127.0.0.1", port))
                        try:
                            while True:
                                data, frm = c.recvfrom(70000)
                                if data[:2] in (b"\0\3", b"\0\6", b"\0\4"):
                                    c.sendto(b"\0\5\0\0stop\0", frm)      # end whatever it started
                        except (socket.timeout, ConnectionError):
                            pass
                    time.sleep(0.1)
                    alive = p.poll() is None
                    pr = socket.socket(socket.AF_INET, socket.SOCK_DGRAM)
                    pr.settimeout(1.5)
                    pr.sendto(rq("rrq", b"f.bin", ()), ("127.0.0.1", port))
                    got = None
                    try:
                        data, frm = pr.recvfrom(70000)
                        got = data
                        pr.sendto(b"\0\4\0\1", frm)
                    except (socket.timeout, ConnectionError):
                        pass
                    ran += 1
                    if not alive or p.poll() is not None:
                        viol.append((desc, "exit status %s" % p.poll(), "the server process terminated", "process-died"))
                    elif got != b"\0\3\0\1" + content:
                        viol.append((desc, "probe answered with %r" % (got[:20] if got else None), "after the batch a valid read request is not served correctly", "process-probe"))
                finally:
                    p.kill()
                    p.wait()
        res.extra["process_level_batches"] = ran
        res.evaluations += ran
        for k in range(ran):
            res.distinct.add("proc-%d" % k)
        return viol[:5]

    def shrink(self, line):
        t = line.split(" ")
        if "m" in t[2]:
            # many-sources batches are about state the listener accumulates: candidates run against one server per harness
            # process would inherit it, so the batch is reported as it is (it replays from a fresh harness)
            return []
        return [" ".join(t[:i] + t[i + 1:]) for i in range(5, len(t))] if len(t) > 6 else []


class C12(ServerProp):
    id = "C12"
    module = "Tftp.Props.C12"
    nroots = 8
    rule = ("K scripted clients (K = 2..4 quick, up to 9 thorough) against the in-process server — downloads, uploads to distinct names, intruders sending ACK/DATA/ERROR/OACK to the "
            "listening port from endpoints that own no transfer, strangers sending undecodable and well-formed datagrams to the endpoint (port) that serves another client's running transfer — interleaved turn by turn under a schedule: all schedules of length 6 for K = 2 short transfers, seeded random schedules "
            "beyond, in both port modes; per client the outcome (bytes received / file stored / ERROR code) and the source-port class of every server datagram are compared with the "
            "solo prediction; non-trivial = distinct (clients, schedule) with at least two clients")

    def gen_clients(self, rng, k):
        cl = []
        files = {"a": "gen:100:1", "b": "gen:3000:2", "c": "gen:16:3", "e": "-", "sub/d": "gen:700:4"}
        ups = 0
        for i in range(k):
            r = rng.random()
            if r < 0.45:
                name = rng.choice(list(files) + ["missing"])
                db = rng.choice([512, 1024, 2048]) if name in ("b", "sub/d") else rng.choice([8, 16, 512, 1024, 2048])
                cl.append("d:%s:%d:%d" % (name, db, rng.choice([1, 2, 3, 8])))
            elif r < 0.8:
                ups += 1
                ub = rng.choice([8, 16, 512, 1024, 1428, 4096])
                # at most ~24 blocks: every turn of a scripted client costs a quiet-wait
                usz = rng.choice([0, 5, ub - 1, ub, 2 * ub + 3, 5 * ub, 12 * ub + 1, 24 * ub - 1])
                cl.append("u:up%d:%d:%d:gen:%d:%d" % (ups, ub, rng.choice([1, 2, 4]), usz, rng.randint(0, 255)))
            elif r < 0.93 or i == 0:
                cl.append("i:" + rng.choice(["ack", "data", "err", "oack", "data512", "data600", "data1024", "data511"]))
            else:
                cl.append("x:%d:%s" % (rng.randint(0, i - 1), rng.choice(["empty", "one", "opcode", "shortack", "noise", "unterminated", "ack", "data", "err"])))
        fs = ",".join("srv/%s=%s" % (n, c) for n, c in files.items())
        return cl, fs

    def generate(self, tier, rng):
        lines = []
        i = 0
        # K = 2: every schedule of length 6
        import itertools
        cl = ["d:c:8:1", "u:up1:8:2:gen:20:9"]
        fs = "srv/c=gen:16:3"
        scheds = ["".join(s) for s in itertools.product("01", repeat=6)]
        if tier == "quick":
            scheds = scheds[::2]
        for flags in ["-", "s"]:
            for s in scheds:
                lines.append("multi %s %s %s %s %s" % (self.root(i), flags, fs, s, " ".join(cl)))
                i += 1
        for flags in ["-", "s"]:
            for sched in ["0101010101", "0011001100", "1000000000", "0100000000", "0010000000"]:
                for second in ["d:c:8:1", "u:up2:8:1:gen:30:1", "d:c:512:1"]:
                    lines.append("multi %s %s srv/c=gen:16:3 %s u:up1:1024:1:gen:2148:7 %s" % (self.root(i), flags, sched, second))
                    i += 1
                    lines.append("multi %s %s srv/c=gen:16:3,srv/big=gen:9000:5 %s d:big:4096:2 %s" % (self.root(i), flags, sched, second))
                    i += 1
        # directed: a stranger (an endpoint that owns no transfer) sends seven datagrams - undecodable ones and well-formed ones - to the very
        # endpoint that serves a running transfer (its own port in multi-port mode), at different moments of that transfer
        whats = ["empty", "one", "opcode", "shortack", "noise", "unterminated", "ack", "data", "err"]
        for flags in ["-", "s"]:
            for what in (whats if tier == "thorough" else whats[:6:2] + [rng.choice(whats[6:])] + [rng.choice(whats[1:6:2])]):
                for victim in ["d:big:512:1", "d:big:1024:2", "u:up1:512:1:gen:3000:7", "u:up1:512:2:gen:2100:8"]:
                    for sched in (["01", "001", "00001"] if tier == "thorough" else [rng.choice(["01", "001", "0001"])]):
                        lines.append("multi %s %s srv/big=gen:3000:5 %s %s x:0:%s" % (self.root(i), flags, sched, victim, what))
                        i += 1
        # directed: a client whose request datagram arrives twice (its first reply "lost") and that is slower than the negotiated timeout
        # once: the worker started by the first copy ends while the transfer started by the second is running
        for flags in ["s", "-"]:
            lines.append("multi %s %s srv/c=gen:16:3,srv/big=gen:3000:5 0 D:big:512:1 d:c:8:1" % (self.root(i), flags))
            i += 1
            lines.append("multi %s %s srv/c=gen:16:3,srv/big=gen:3000:5 01 D:big:1024:2 u:up1:512:1:gen:700:3" % (self.root(i), flags))
            i += 1
        # directed: a retransmitted DATA must be acknowledged again (the client "lost" the first ACK of every window) - also in single-port mode
        # and in duplicate-packets mode, where the listener routes / the workers repeat every datagram
        for flags in ["s", "-", "s1", "s2", "1"]:
            lines.append("multi %s %s srv/c=gen:16:3 01 U:up1:8:1:gen:30:1 d:c:8:1" % (self.root(i), flags))
            i += 1
            lines.append("multi %s %s srv/c=gen:16:3 0 U:up1:512:2:gen:2100:8 U:up2:8:3:gen:70:2" % (self.root(i), flags))
            i += 1
        # directed: a served file is replaced on disk between two downloads of it: the second download (and its tsize) is the new file
        for flags in ["s", "-"]:
            lines.append("multi %s %s srv/c=gen:16:3,srv/big=gen:3000:5 %s d:c:8:1 m:c:gen:50:9 d:c:8:1" % (self.root(i), flags, "0" * 6 + "1" + "2" * 9))
            i += 1
            lines.append("multi %s %s srv/c=gen:16:3,srv/big=gen:3000:5 %s d:big:512:2 m:big:gen:700:1 d:big:512:2 d:big:1024:1" % (self.root(i), flags, "0" * 8 + "1" + "2" * 6 + "3" * 4))
            i += 1
        # directed: after its transfer has finished, the same endpoint sends a stray non-request packet: it owns no transfer any more and
        # gets an ERROR (the first such packet too)
        for flags in ["s", "-"]:
            for sq in ["d:c:8:1+i:ack", "u:up1:8:2:gen:30:1+i:data", "d:c:8:1+i:err+i:ack", "d:missing:8:1+i:oack"]:
                lines.append("multi %s %s srv/c=gen:16:3,srv/big=gen:3000:5 %s %s d:big:512:1" % (self.root(i), flags, rng.choice(["0", "01", "0011"]), sq))
                i += 1
        # directed: the largest block sizes (a DATA datagram of 65468 bytes) in both port modes - through the listener's channel in single-port
        # mode - downloads and uploads side by side
        for flags in ["-", "s", "s1"]:
            for bsz in (65464, 32768, 16384):
                lines.append("multi %s %s srv/huge=gen:140000:5 %s d:huge:%d:1 u:up1:%d:2:gen:%d:9" % (self.root(i), flags, rng.choice(["01", "0011", "10"]), bsz, bsz, 2 * bsz + 17))
                i += 1
        # directed: stray DATA packets to the listening port that fill (or overflow) its receive buffer are answered like any other
        for flags in ["-", "s"]:
            for kind in ["data512", "data1024", "data513", "data65000"]:
                lines.append("multi %s %s srv/c=gen:16:3,srv/big=gen:3000:5 %s d:big:1024:1 i:%s d:c:8:1+i:%s" % (self.root(i), flags, rng.choice(["0012", "0120", "1002"]), kind, kind))
                i += 1
        # directed: in the middle of its download an endpoint sends requests the server cannot accept (option values out of range): they start
        # nothing, and the running transfer - the endpoint's own and everybody else's - goes on
        for flags in ["s", "-", "s1"]:
            for second in ["d:c:8:1", "u:up1:512:1:gen:700:3"]:
                lines.append("multi %s %s srv/c=gen:16:3,srv/big=gen:3000:5 %s J:big:512:1 %s" % (self.root(i), flags, rng.choice(["0101", "0011", "0"]), second))
                i += 1
                lines.append("multi %s %s srv/c=gen:16:3,srv/big=gen:3000:5 %s J:big:256:3 %s" % (self.root(i), flags, rng.choice(["0101", "001"]), second))
                i += 1
        # directed (real time, 11 s): a client that is silent for more than ten seconds - well inside the retry budget of its worker (6 x 5 s) -
        # while another client is served, and then goes on: its transfer is not disturbed by the other one (both port modes, both directions)
        for flags in ["s", "-"]:
            for first in [rq("rrq", b"big", ()), rq("wrq", b"upq", ())]:
                lines.append("quiet %s %s srv/c=gen:16:3,srv/big=gen:3000:5 %s 10600 %s" % (self.root(i), flags, first.hex(), rq("rrq", b"c", (("blksize", 8),)).hex()))
                i += 1
        # directed: one endpoint performs two transfers, one after the other, from the same port (a client need not change its port)
        seqs = ["d:c:8:1+d:big:512:1", "d:big:512:2+u:up1:512:1:gen:700:3", "u:up1:8:2:gen:30:1+d:c:8:1", "u:up1:512:1:gen:1500:4+u:up2:512:1:gen:600:5",
                "d:missing:512:1+d:c:8:1", "d:c:8:1+d:c:8:1"]
        for flags in ["-", "s"]:
            for sq in seqs:
                for other in ["d:big:1024:1", "i:ack"]:
                    lines.append("multi %s %s srv/c=gen:16:3,srv/big=gen:3000:5 %s %s %s" % (self.root(i), flags, rng.choice(["0", "01", "0011", "1000"]), sq, other))
                    i += 1
        n = 250 if tier == "quick" else 6000
        for _ in range(n):
            k = rng.randint(2, 4 if tier == "quick" else 9)
            cl, fs = self.gen_clients(rng, k)
            sched = "".join(rng.choice("0123456789"[:k]) for _ in range(rng.randint(0, 6 * k)))
            flags = rng.choice(["-", "s", "-", "s", "r", "sr", "v", "sv", "p", "sp"])
            lines.append("multi %s %s %s %s %s" % (self.root(i), flags, fs, sched or "0", " ".join(cl)))
            i += 1
        return lines

    def nontrivial(self, line, impl):
        return impl.startswith("c0=") or impl.startswith("first=")

    def classify(self, line, impl, res):
        t = line.split(" ")
        if t[0] == "quiet":
            res.count("quiet-client:flags=" + t[2])
            return
        res.count("K=%d" % (len(t) - 5))
        res.count("flags:" + t[2])
        for c in t[5:]:
            res.count("client:" + c[0] + ("+" if "+" in c else ""))

    def oracle(self, line, impl):
        if line.startswith("quiet "):
            if impl in ("abort", "panic") or not impl.startswith("first="):
                return ("server died or no observation: " + impl[:60], "died")
            kv = dict(x.split("=", 1) for x in impl.split(" ") if "=" in x)
            if kv.get("first") not in ("data", "ack0"):
                return ("the first transfer did not start (%s)" % impl, "quiet-start")
            if kv.get("b") != "ok":
                return ("the second client was not served while the first was silent (%s)" % impl, "quiet-other-not-served")
            if kv.get("resumed") != "ok" or kv.get("done") != "ok":
                return ("a transfer whose client was silent for 10.6 s (within its worker's retry budget) did not go on after another client had "
                        "been served in the meantime (%s)" % impl, "quiet-transfer-disturbed")
            return None
        if impl in ("abort", "panic") or not impl.startswith("c0="):
            return ("server died or no observation: " + impl[:60], "died")
        t = line.split(" ")
        c = Case(" ".join(t[:4] + ["-"]))
        single = "s" in t[2]
        outs = dict(x.split("=", 1) for x in impl.split(" ; ")[0].split(" "))
        subs = []
        for k, spec in enumerate(t[5:]):
            parts = spec.split("+")
            gots = outs.get("c%d" % k, "").split("|")
            gots += [""] * (len(parts) - len(gots))
            subs += [(k, sp, g) for sp, g in zip(parts, gots)]
        files = dict(c.files)
        for k, spec, got in subs:
            p = spec.split(":")
            if p[0] == "D":
                p[0] = "d"       # a download whose request datagram was sent twice: the same outcome is due
            if p[0] == "J":
                p[0] = "d"       # a download whose endpoint sends unacceptable requests in the middle of it: the same outcome is due
            if p[0] == "U":
                p[0] = "u"       # an upload whose client lost the first acknowledgement of every window: the same outcome is due
            if p[0] == "V":
                p[0] = "u"       # an upload whose endpoint also sends undecodable look-alikes of DATA blocks: the same outcome is due
            if p[0] == "m":
                # the served file was replaced behind the server's back (such scenarios run strictly in list order)
                files["srv/" + p[1]] = content(":".join(p[2:]))
                continue
            if p[0] == "d":
                f = files.get("srv/" + p[1])
                if f is not None:
                    want = "ok:%d:%d" % (len(f), fnv(f))
                    if not got.startswith(want):
                        return ("client %d downloading %s did not receive exactly its own file (%s)" % (k, p[1], got), "download-wrong")
                    if got.split(":")[4:5] != ["t%d" % len(f)]:
                        return ("client %d: the OACK announced tsize %s for a download of %d bytes" % (k, got.split(":")[4:5], len(f)), "download-tsize")
                    cls = got.split(":")[3]
                    if single and cls != "L":
                        return ("single-port mode: a server datagram did not originate from the listening port", "single-port-source")
                    if not single and cls != "T":
                        return ("multi-port mode: the transfer was not served from its own port", "multi-port-source")
                elif not got.startswith("err:1"):
                    return ("download of a missing file not refused with ERROR 1 (%s)" % got, "missing")
            elif p[0] == "u":
                if "r" in t[2]:
                    if not got.startswith("err:2"):
                        return ("upload in read-only mode not refused", "read-only")
                    continue
                data = content(":".join(p[4:]))
                item = "srv/%s:%d:%d" % (p[1], len(data), fnv(data))
                if not got.startswith("ok") or item not in impl.split(" ; fs=")[1].split(","):
                    return ("client %d's upload %s is not stored with exactly its own content (%s)" % (k, p[1], got), "upload-wrong")
            elif p[0] == "i":
                if not got.startswith("E"):
                    return ("a non-request packet from an endpoint that owns no transfer was not answered with an ERROR (%s)" % got, "intruder-no-error")
        return None
