"""Worker-level properties: C18 (window), C01/C07/C08/C15/C16 (sender), C02 (receiver)."""
from .runner import Prop
from .wutil import *
from .wutil import gen_bytes

A_WORKER = [
    "the scripted Socket delivers exactly the scripted receive events; socket.send never fails",
    "File::read on a regular file returns min(n, remaining) bytes (short read <=> end of file)",
    "virtual clock hook (feature verif): send_file sees simulated time advanced inside recv",
]

# ---------------------------------------------------------------------------------------------
# generators


def gen_file(rng, b, w):
    pick = rng.choice([0, 1, max(0, b - 1), b, b + 1, max(0, w * b - 1), w * b, w * b + 1, (w + 1) * b,
                       2 * w * b, rng.randint(0, 4 * w * b + 3), rng.randint(0, 6 * b)])
    pick = min(pick, 6000)
    if pick <= 48 and rng.random() < 0.5:
        return hx(bytes(rng.getrandbits(8) for _ in range(pick))), pick
    return "gen:%d:%d" % (pick, rng.randint(0, 255)), pick


def conformant_acks(rng, nblocks, w, faults=0.25):
    """ACK script of a conformant client against an ideal sender, with occasional faults."""
    evs = []
    base = 1  # first unacked block
    budget = 0
    while base <= nblocks and len(evs) < 400:
        top = min(base + w - 1, nblocks)
        r = rng.random()
        if r < faults and budget < 4:
            budget += 1
            kind = rng.choice(["T", "dup", "stale", "partial", "G", "future", "O", "near"])
            if kind == "T":
                evs.append("T")
            elif kind == "dup":
                evs.append("A%d@%d" % ((base - 1) % 65536, rng.choice([0, 1, 10])))
            elif kind == "stale":
                evs.append("A%d@%d" % ((base - 1 - rng.randint(1, 3)) % 65536, rng.choice([0, 5])))
            elif kind == "partial" and top > base:
                k = rng.randint(base, top - 1)
                evs.append("A%d@%d" % (k % 65536, rng.choice([0, 3])))
                base = k + 1
            elif kind == "G":
                evs.append("G@%d" % rng.choice([0, 1, 100]))
            elif kind == "future":
                evs.append("A%d@0" % ((top + rng.randint(1, 3)) % 65536))
            elif kind == "O":
                evs.append("O@%d" % rng.choice([0, 7]))
            else:
                evs.append("G@%d" % rng.choice([4999, 5000]))
            continue
        budget = 0
        evs.append("A%d@%d" % (top % 65536, rng.choice([0, 0, 1, 20])))
        base = top + 1
    return evs


def gen_sender(rng, tier, force_w=None, rep=None):
    b = rng.choice([1, 2, 8, 8, 9, 16, 512] if tier == "quick" else [1, 2, 8, 9, 16, 512, 1428])
    w = force_w if force_w is not None else rng.choice([1, 1, 2, 2, 3, 4, 5, 7, 8, 64, 65534, 65535])
    tmo = rng.choice([5000, 5000, 1000, 1])
    rp = rep if rep is not None else rng.choice([1, 1, 1, 1, 2, 3])
    chk = rng.choice([0, 0, 1])
    f, flen = gen_file(rng, b, min(w, 9))
    nblocks = flen // b + 1
    mode = rng.random()
    evs = []
    if chk:
        evs.append(rng.choice(["A0@0", "A0@0", "A0@0", "A0@3", "A1@0", "A5@0", "E@0", "T", "G@0", "O@0", "A65535@0"]))
    if mode < 0.7:
        evs += [e.replace("4999", str(max(tmo - 1, 0))).replace("5000", str(tmo)) for e in conformant_acks(rng, nblocks, w)]
    elif mode < 0.85:
        # adversarial: random acks
        for _ in range(rng.randint(1, 14)):
            r = rng.random()
            if r < 0.6:
                evs.append("A%d@%d" % (rng.choice([0, 1, 2, 3, nblocks % 65536, (nblocks + 1) % 65536, 65535, rng.randint(0, 65535)]),
                                       rng.choice([0, 1, tmo - 1 if tmo > 0 else 0, tmo])))
            elif r < 0.75:
                evs.append("T")
            elif r < 0.85:
                evs.append("E%s@0" % rng.choice(["", "1", "2", "3", "4", "5", "6", "7"]))
            else:
                evs.append(rng.choice(["G@0", "O@1", "G@%d" % tmo]))
    else:
        # silence / error at a chosen point of a conformant run
        base = conformant_acks(rng, nblocks, w, faults=0.0)
        cut = rng.randint(0, len(base))
        evs += base[:cut]
        last = int(base[cut - 1][1:].split("@")[0]) if cut > 0 else 0
        dup = "A%d@0" % last
        stale = "A%d@0" % ((last - 1) % 65536)
        k = rng.randint(0, 5)
        evs += rng.choice([["T"] * 7, ["E%s@0" % rng.choice(["", "1", "2", "3", "4", "5", "6", "7"])], ["T", "T", "G@0", "T", "O@0", "T", "T"], ["T"] * 3 + base[cut:cut + 1] + ["T"] * 7,
                           ["T"] * k + [dup] + ["T"] * 8, [dup] * 6 + ["T"] * 8, ["T"] * k + [stale] * (6 - k) + ["T"] * 8,
                           [rng.choice(["T", dup, stale, "G@0", "O@0"]) for _ in range(8)] + ["T"] * 8])
    if rng.random() < 0.2:
        # sending takes time on the simulated clock (in duplicate mode 1 ms per copy for real): the retransmission timer counts from the
        # END of a transmission, so this must change nothing
        evs = ["S%d" % rng.choice([1, 50, tmo // 4, tmo // 2, tmo])] + evs
    return "snd %d %d %d %d %d %s %s" % (b, w, tmo, rp, chk, f, " ".join(evs))


PATTERNS = ["ff", "0d0a", "0d00", "0a", "1a", "00", "0003000100040001", "0005000446696c65", "00060000", "e28099", "ffd8ffe0", "2e2e2f", "7f454c46"]


def directed_sender():
    """boundary cases that must always run (the design-review reproductions among them)"""
    L = []
    # D1: partial-window ACK at end of file
    L.append("snd 8 2 5000 1 0 070707070707070707070707 A1@0 A2@0 T T T T T T T")
    L.append("snd 8 2 5000 1 0 070707070707070707070707 A1@0 A1@10 G@5 T A2@0")
    L.append("snd 8 4 5000 1 0 gen:20:3 A1@0 A2@0 A3@0")
    L.append("snd 8 3 5000 1 0 gen:16:3 A1@0 A2@0 A3@0 T T T T T T T")
    # D2: reply to the OACK
    for first in ["E@0", "A5@0", "A1@0", "T", "G@0", "O@0", "A0@0"]:
        L.append("snd 8 1 5000 1 1 gen:20:1 %s A1@0 A2@0 A3@0 T T T T T T T" % first)
    # D4: windowsize 65535, duplicate and stale ACKs
    L.append("snd 8 65535 5000 1 0 gen:20:5 A1@0 A1@0 A1@1 A0@0 A2@0 A3@0")
    L.append("snd 8 65535 5000 1 0 gen:100:5 A0@0 A0@0 A65535@0 A13@0")
    L.append("snd 8 65534 5000 1 0 gen:20:5 A1@0 A1@0 A0@0 A65535@0 A3@0")
    L.append("snd 1 65535 5000 1 0 gen:3:5 A5@0 A4@0")
    # time-out boundary
    L.append("snd 8 2 5000 1 0 gen:40:9 G@4999 G@1 A2@0 G@4999 A2@0 G@1 A4@0 A6@0")
    # exact multiples / empty file
    L.append("snd 8 2 5000 1 0 - A1@0")
    L.append("snd 8 2 5000 1 0 gen:16:1 A2@0 A3@0")
    L.append("snd 8 1 5000 3 0 gen:8:1 A1@0 A2@0")
    # files that are all zero bytes, or end / begin with page-sized runs of zeros (content must never matter)
    for b, w in [(512, 1), (4096, 1), (4096, 2), (8192, 3)]:
        n = 4
        acks = " ".join("A%d@0" % k for k in range(w, n + 2, w)) + " A%d@0" % (n + 1)
        L.append("snd %d %d 5000 1 0 zero:%d %s" % (b, w, n * b, acks))
        L.append("snd %d %d 5000 1 0 zero:%d %s" % (b, w, n * b + 100, acks))
    # content that looks like something else: runs of one byte value, line ends (netascii is not implemented: octet only), bytes that read
    # as TFTP headers at the start of every block, text - the data is opaque
    for pat in PATTERNS:
        L.append("snd 8 2 5000 1 0 pat:%s:44 A2@0 A4@0 A6@0" % pat)
        L.append("snd 512 1 5000 1 0 pat:%s:1100 A1@0 A2@0 A3@0" % pat)
    # a peer ERROR ends the transfer whatever its code
    for code in range(8):
        L.append("snd 8 2 5000 1 0 gen:40:9 A2@0 E%d@0 T T T A4@0" % code)
        L.append("snd 8 1 5000 1 1 gen:20:1 A0@0 A1@0 E%d@0 T A2@0" % code)
    # a burst that takes longer than the retransmission interval to send, then duplicate/stale ACKs: nothing may be retransmitted
    L.append("snd 8 8 1000 4 1 gen:60:1 S100 A0@0 A0@0 A0@5 A8@0")
    L.append("snd 8 4 1000 1 0 gen:30:3 S300 A0@0 A0@0 A2@5 A2@0 A4@0")
    L.append("snd 8 2 5000 2 0 gen:40:9 S2500 A1@0 A1@0 A0@10 A3@0 A5@0 A6@0")
    # windows wider than one vectored read/write takes (IOV_MAX = 1024): refills and bursts of more than 1024 blocks
    L.append("snd 8 1500 5000 1 0 gen:20003:5 A1500@0 A2501@0")
    L.append("snd 8 1025 5000 1 0 gen:16400:6 A1025@0 A2050@0 A2051@0")
    L.append("snd 2 2048 5000 1 0 gen:9001:7 A2048@0 A2050@0 A4098@0 A4501@0")
    L.append("snd 8 4000 5000 1 0 gen:12000:8 A10@0 A1501@0")
    return L


def gen_receiver(rng, tier, rep=None):
    b = rng.choice([1, 2, 8, 8, 9, 16, 512, 512, 4096, 8192])
    w = rng.choice([1, 1, 2, 2, 3, 4, 5, 8, 64, 65535])
    rp = rep if rep is not None else rng.choice([1, 1, 1, 2, 3])
    zeros = rng.random() < 0.25      # some scripts carry runs of zero bytes
    clean = rng.choice([0, 1])
    nb = rng.choice([1, 1, 2, 3, w, w + 1, 2 * w, 2 * w + 1, rng.randint(1, 12)])
    nb = min(nb, 40)
    last = rng.choice([0, 0, 1, max(b - 1, 0), rng.randint(0, max(b - 1, 0))])
    evs = []
    k = 1
    guard = 0
    while k <= nb and guard < 200:
        guard += 1
        n = (k % 65536)
        ln = b if k < nb else last
        payload = "gen:%d:%d" % (ln, k % 251) if ln > 24 else hx(bytes((k * 17 + i) % 256 for i in range(ln)))
        if zeros and ln > 0 and rng.random() < 0.6:
            payload = "zero:%d" % ln
        r = rng.random()
        if r < 0.72:
            evs.append("D%d:%s" % (n, payload))
            k += 1
        elif r < 0.80 and k > 1:
            j = rng.randint(max(1, k - 3), k - 1)   # duplicate of an earlier block
            evs.append("D%d:%s" % (j % 65536, hx(bytes((j * 17 + i) % 256 for i in range(b))) if b <= 24 else "gen:%d:%d" % (b, j % 251)))
        elif r < 0.86:
            evs.append("D%d:%s" % ((k + rng.randint(1, 3)) % 65536, hx(bytes(rng.getrandbits(8) for _ in range(min(b, 8))))))  # from the future
        elif r < 0.92:
            evs.append("T")
        elif r < 0.96:
            evs.append(rng.choice(["A%d" % rng.randint(0, 5), "O"]))
        else:
            evs.append(rng.choice(["E" + rng.choice(["", "1", "2", "3", "4", "5", "6", "7"]), "T T T T T T", "D%d:%s" % (n, hx(b"\x01" * min(b + 3, 30)))]))
    if rng.random() < 0.2:
        evs.append(rng.choice(["T T T T T T T", "E" + rng.choice(["", "3", "5"]), "D1:-"]))
    return "rcv %d %d %d %d full %s" % (b, w, rp, clean, " ".join(evs))


def directed_receiver():
    L = []
    # D3: lost ACK -> retransmitted block must be re-acknowledged
    L.append("rcv 8 1 1 1 full D1:0102030405060708 D1:0102030405060708 D1:0102030405060708 D2:0102")
    L.append("rcv 8 2 1 1 full D1:0102030405060708 D2:0102030405060708 D1:0102030405060708 D2:0102030405060708 D3:01")
    L.append("rcv 8 4 1 1 full D1:0102030405060708 D3:0102030405060708 D4:0102030405060708 T D2:0102030405060708 D3:- ")
    # D7: failures spread over one window with progress in between
    L.append("rcv 2 8 1 1 full D1:0101 T D2:0101 T D3:0101 T D4:0101 T D5:0101 T D6:0101 T D7:0101 D8:0101 D9:01")
    L.append("rcv 8 1 1 1 full T T T T T T T")
    L.append("rcv 8 1 1 0 full D1:0102030405060708 T T T T T T T")
    L.append("rcv 8 1 1 1 full D1:0102030405060708 E D2:00")
    L.append("rcv 8 2 1 0 full D1:0102030405060708 E")
    L.append("rcv 8 1 1 1 full D1:-")
    L.append("rcv 8 3 2 1 full D1:0102030405060708 D2:0102030405060708 D3:0102030405060708 D4:01")
    for code in range(8):
        L.append("rcv 8 2 1 1 full D1:0102030405060708 E%d D2:0102030405060708 D3:01" % code)
    # windows wider than one vectored write takes (IOV_MAX = 1024): a flush of more than 1024 buffered blocks
    def run(lo, hi, b):
        return " ".join("D%d:%s" % (k % 65536, "".join("%02x" % ((k * 7 + i) & 255) for i in range(b))) for k in range(lo, hi + 1))
    L.append("rcv 8 1100 1 1 full %s D1101:0102" % run(1, 1100, 8))
    L.append("rcv 2 1025 1 1 full %s D2051:-" % run(1, 2050, 2))
    L.append("rcv 2 4000 1 1 full %s D1501:07" % run(1, 1500, 2))
    L.append("rcv 2 2000 1 1 full %s D5:0101 %s D1301:-" % (run(1, 1200, 2), run(1201, 1300, 2)))
    # blocks that are all zero bytes (page-sized and larger, too): in the middle of a window, last in a window, last block of the file, the
    # whole file; with an abort after them under keep-on-error (what was acknowledged must be in the file)
    for b in (512, 4096, 8192):
        for w in (1, 2, 3):
            L.append("rcv %d %d 1 1 full D1:gen:%d:1 D2:zero:%d D3:zero:%d D4:zero:100" % (b, w, b, b, b))
            L.append("rcv %d %d 1 1 full D1:zero:%d D2:gen:%d:2 D3:zero:%d D4:-" % (b, w, b, b, b))
            L.append("rcv %d %d 1 1 full D1:zero:%d D2:zero:%d D3:zero:%d D4:zero:%d D5:zero:%d" % (b, w, b, b, b, b, b - 1))
            L.append("rcv %d %d 1 0 full D1:zero:%d D2:zero:%d D2:zero:%d E" % (b, w, b, b, b))
    for pat in PATTERNS:
        L.append("rcv 8 2 1 1 full D1:pat:%s:8 D2:pat:%s:8 D3:pat:%s:8 D4:pat:%s:5" % (pat, pat, pat, pat))
        L.append("rcv 512 1 1 1 full D1:pat:%s:512 D2:pat:%s:512 D3:pat:%s:76" % (pat, pat, pat))
    return [" ".join(l.split()) for l in L]


# ---------------------------------------------------------------------------------------------
# trace oracles (implementation observation against the property statement)


def check_data_tokens(c, groups):
    """C01 clause 1 + C07 'never beyond the final block': every DATA is (k mod 65536, blk k) for some 1<=k<=N."""
    blks = blocks(c.file, c.b) if c.b >= 1 else None
    if blks is None:
        return None
    n = len(blks)
    sig = {}
    for g in groups:
        for tok in g:
            if tok[0] != "D":
                continue
            num, ln, h = dtok(tok)
            ok = False
            k = num if num >= 1 else 65536
            while k <= n:
                key = k
                if key not in sig:
                    sig[key] = (len(blks[k - 1]), fnv(blks[k - 1]))
                if sig[key] == (ln, h):
                    ok = True
                    break
                k += 65536
            if not ok:
                kk = num if num >= 1 else 65536
                if kk > n:
                    return ("DATA %d emitted beyond the final block %d" % (num, n), "beyond-final")
                return ("DATA %d does not carry the file bytes of block %d" % (num, num), "wrong-slice")
    return None


def reassemble(c, stream):
    """in-order reassembling client over a stream of DATA tokens: (complete?, accepted blocks ok?)"""
    blks = blocks(c.file, c.b)
    exp = 1
    for tok in stream:
        num, ln, h = dtok(tok)
        if num == exp % 65536:
            if exp > len(blks) or (ln, h) != (len(blks[exp - 1]), fnv(blks[exp - 1])):
                return ("in-order client accepts a corrupted block %d" % exp, "corrupt-copy")
            exp += 1
            if ln < c.b:
                if exp - 1 != len(blks):
                    return ("in-order client completes after %d of %d blocks" % (exp - 1, len(blks)), "short-copy")
                break
    return None


def sender_oracle(line, impl, clauses):
    if impl in ("panic", "abort", "bad-op") or impl.endswith("=> panic"):
        return ("worker panics", "panic")
    o = parse_obs(impl)
    if o is None:
        return ("unparsable observation", "obs")
    groups, st = o
    c = SCase(line)
    if c.b < 1:
        return None
    if "slice" in clauses:
        r = check_data_tokens(c, groups)
        if r:
            return r
    if "reassembly" in clauses:
        stream = [t for g in groups for t in g if t[0] == "D"]
        # derived family: in order, each single drop, each single duplication, reversed
        nblocks = len(c.file) // c.b + 1
        # beyond 65535 blocks TFTP itself cannot tell block k from k+65536 under arbitrary reordering or loss:
        # there the clause is checked on the stream as emitted (the closed-loop theorem covers loss/duplication)
        fam = [stream, stream[::-1]] if nblocks <= 65535 else [stream]
        if len(stream) <= 40 and nblocks <= 65535:
            fam += [stream[:i] + stream[i + 1:] for i in range(len(stream))]
            fam += [stream[:i] + [stream[i]] + stream[i:] for i in range(len(stream))]
        for s in fam:
            r = reassemble(c, s)
            if r:
                return r
    nblk = len(c.file) // c.b + 1
    consumed = len(groups) - 1
    if "budget" in clauses and st == "failed":
        # the sender may give up only after MAX_RETRIES consecutive failed receive attempts (or on the peer's ERROR / a bad reply to its OACK):
        # a run that saw fewer failed attempts altogether cannot contain such a streak, whatever the negotiated interval
        evs = c.events[:consumed]
        hs_bad = c.chk and evs and ((evs[0][0] == "error") or (evs[0][0] == "ack" and evs[0][1] != 0) or evs[0][0] == "fail")
        if not hs_bad and not any(k == "error" for k, n, dt in evs):
            fails = sum(1 for k, n, dt in evs if k in ("fail", "other"))
            if fails < MAX_RETRIES:
                return ("the sender gave up after %d failed receive attempt(s) in all (budget: %d consecutive ones), time-out %d ms" % (fails, MAX_RETRIES, c.tmo),
                        "gave-up-within-budget")
    if "termination" in clauses:
        # ERROR ends at once
        for i, (k, n, dt) in enumerate(c.events[:consumed]):
            if k == "error":
                if consumed != i + 1 or st != "failed" or groups[i + 1]:
                    return ("transfer goes on after the peer's ERROR", "after-error")
                break
        # handshake
        if c.chk and c.events:
            k, n, dt = c.events[0]
            bad = (k == "error") or (k == "ack" and n != 0) or k == "fail"
            if bad and consumed >= 1:
                if any(t[0] == "D" for g in groups for t in g) or st != "failed" or consumed != 1:
                    return ("DATA sent / transfer continued after a bad reply to the OACK", "handshake")
                if k == "ack" and groups[1] != ["E4"]:
                    return ("ACK != 0 in reply to the OACK is not answered by a single ERROR 4", "handshake-error")
        # bounded silence: never more than MAX_RETRIES-1 consecutive failed attempts are survived
        run = 0
        for i, (k, n, dt) in enumerate(c.events[:consumed]):
            if c.chk and i == 0:
                continue
            if k in ("fail", "other"):
                run += 1
                if run >= MAX_RETRIES and (consumed > i + 1 or st == "running"):
                    return ("worker survives %d consecutive failed receive attempts" % run, "unbounded-retry")
            elif k == "ack":
                # only an ACK that makes progress resets; being lenient here (any ACK resets) keeps the oracle sound
                run = 0
        # final ACK ends the transfer
        last_burst = []
        for i in range(consumed + 1):
            g = groups[i]
            if i > 0:
                k, n, dt = c.events[i - 1]
                if k == "ack" and last_burst:
                    fin = [t for t in last_burst if dtok(t)[1] < c.b]
                    if fin and dtok(fin[-1])[0] == n:
                        if consumed != i or st != "ok" or g:
                            return ("transfer does not end when the final block is acknowledged", "no-stop-on-final-ack")
                        break
            if any(t[0] == "D" for t in g):
                last_burst = [t for t in g if t[0] == "D"]

    if ("termination" in clauses or "slice" in clauses) and st == "ok":
        if not any(t[0] == "D" and dtok(t)[1] < c.b for g in groups for t in g):
            return ("transfer reported complete although its last block — the first one shorter than blksize, empty for an exact multiple — was never sent", "ok-without-final")
    if "window" in clauses:
        r = window_clauses(c, groups, st)
        if r:
            return r
    if "repeat" in clauses:
        for gi, g in enumerate(groups):
            toks = [t for t in g if t[0] == "D"]
            i = 0
            while i < len(toks):
                j = i
                while j < len(toks) and toks[j] == toks[i]:
                    j += 1
                if j - i != c.rep:
                    return ("DATA emitted %d times back to back instead of %d" % (j - i, c.rep), "repeat-count")
                i = j
            if [t for t in g if t[0] == "E"] and len([t for t in g if t[0] == "E"]) != 1:
                return ("handshake ERROR repeated", "repeat-handshake")
    return None


def dedup(toks, rep):
    out = []
    for t in toks:
        if not out or out[-1] != t:
            out.append(t)
    return out


def window_clauses(c, groups, st):
    """C08 (sender side) on the trace: bursts <= w consecutive blocks; a burst only at start, after an
    in-window ACK (resuming at n+1), or when the timeout has elapsed since the last transmission;
    duplicate / stale ACKs cause neither a transmission nor an abort."""
    last = None          # numbers of the last burst
    last_abs = None      # absolute index (1-based, not reduced modulo 65536) of the first block of the last burst
    nblk = len(c.file) // c.b + 1 if c.b >= 1 else None
    since = None
    consumed = len(groups) - 1
    start = 1 if c.chk else 0
    for i in range(consumed + 1):
        g = dedup([t for t in groups[i] if t[0] == "D"], c.rep)
        nums = [dtok(t)[0] for t in g]
        if len(nums) > c.w:
            return ("burst of %d blocks with windowsize %d" % (len(nums), c.w), "burst-too-long")
        for a, b2 in zip(nums, nums[1:]):
            if b2 != (a + 1) % 65536:
                return ("burst is not a run of consecutive block numbers", "burst-gap")
        if i >= 1 and i > start:
            k, n, dt = c.events[i - 1]
            since = (since or 0) + dt
            inwin = k == "ack" and last is not None and n in last
            acked_abs = (last_abs + last.index(n)) if (inwin and last_abs is not None) else None
            if inwin and not nums and acked_abs is not None and nblk is not None and acked_abs < nblk and st != "failed":
                # an acknowledgement for a block of the outstanding window that is not the last block of the file: the window slides and
                # transmission resumes - it is never taken for a stale one, whatever number it carries
                return ("ACK %d acknowledges block %d of the outstanding window (%d blocks in all), but nothing was transmitted in response" % (n, acked_abs, nblk),
                        "in-window-ack-ignored")
            if nums:
                if inwin:
                    if nums[0] != (n + 1) % 65536:
                        return ("after ACK %d transmission resumes at %d, not %d" % (n, nums[0], (n + 1) % 65536), "not-cumulative")
                elif since < c.tmo:
                    what = "duplicate/stale ACK" if k == "ack" else "failed receive"
                    return ("retransmission after a %s although only %d of %d ms elapsed" % (what, since, c.tmo), "early-retransmit:" + k)
                elif last is not None and nums != last:
                    return ("time-out retransmission differs from the outstanding window", "retransmit-differs")
            elif k == "ack" and not inwin and i == consumed and st == "failed":
                return ("duplicate/stale ACK aborts the transfer", "stale-ack-abort")
        if nums:
            if last is None:
                last_abs = 1
            elif i >= 1 and i > start and c.events[i - 1][0] == "ack" and c.events[i - 1][1] in last and last_abs is not None:
                last_abs = last_abs + last.index(c.events[i - 1][1]) + 1
            # (a time-out retransmission repeats the window: last_abs unchanged)
            last = nums
            since = 0
    return None


def receiver_oracle(line, impl, clauses):
    if impl in ("panic", "abort", "bad-op") or impl.endswith("=> panic") or " => panic " in impl:
        return ("worker panics", "panic")
    if " => " not in impl:
        return ("unparsable observation", "obs")
    left, right = impl.rsplit(" => ", 1)
    st, fin = right.split(" file=")
    groups = [] if left == "-" else [[] if p == "." else p.split(" ") for p in left.split(" | ")]
    c = RCase(line)
    acc = b""
    k = 0
    pend = 0
    final_seen = False
    accepted_events = []
    for i, g in enumerate(groups):
        kind, n, payload = c.events[i]
        accepted_now = False
        final_now = False
        if kind == "data" and n == (k + 1) % 65536:
            k += 1
            acc += payload
            pend += 1
            accepted_now = True
            final_now = len(payload) < c.b
            final_seen = final_seen or final_now
        acks = [t for t in g if t[0] == "A"]
        for t in acks:
            p = t[1:].split(":")
            an, ln, h = int(p[0]), int(p[1]), int(p[2])
            if "fidelity" in clauses:
                if an != k % 65536:
                    return ("ACK %d emitted while %d blocks have been received in sequence" % (an, k), "ack-not-in-sequence")
                if (ln, h) != (len(acc), fnv(acc)):
                    return ("at ACK %d the file does not hold blocks 1..%d" % (an, k), "ack-before-stored")
        # (an ACK 0 re-sent before any block was accepted acknowledges no data block: the property does not fix its multiplicity)
        if "repeat" in clauses and acks and k >= 1:
            if len(acks) % c.rep != 0 or any(a != acks[0] for a in acks):
                return ("ACK emitted %d times instead of %d" % (len(acks), c.rep), "repeat-count")
            if len(acks) != c.rep:
                return ("ACK emitted %d times instead of %d" % (len(acks), c.rep), "repeat-count")
        pend_before = pend - 1 if accepted_now else pend
        if acks:
            pend = 0
        if "window" in clauses and accepted_now and c.w >= 1:
            if (final_now or pend_before + 1 >= c.w) and not acks:
                return ("no ACK after %s" % ("the final block" if final_now else "windowsize in-order blocks"), "missing-ack")
            if (final_now or pend_before + 1 >= c.w) and acks and int(acks[0][1:].split(":")[0]) != k % 65536:
                return ("the acknowledgement due after %s names block %s, not the last in-order block %d" % (
                    "the final block" if final_now else "windowsize in-order blocks", acks[0][1:].split(":")[0], k % 65536), "ack-wrong-block")
        if "reack" in clauses and kind == "data" and not accepted_now and i < len(groups) and st != "x":
            # a retransmitted (already accepted) block must be re-acknowledged so that a sender whose ACK was lost can go on
            if 1 <= k and n == k % 65536 and not acks and not (i == len(groups) - 1 and st == "failed"):
                return ("retransmitted block %d is not re-acknowledged (a lost ACK can never be repaired)" % n, "no-reack")
        if final_now:
            if "termination" in clauses and (i != len(groups) - 1 or st != "ok"):
                return ("receiver goes on after the final block", "no-stop-on-final")
    if "fidelity" in clauses and st == "ok":
        if fin != "%d:%d" % (len(acc), fnv(acc)):
            return ("stored file differs from the in-order blocks", "final-file")
    if "cleanup" in clauses and st in ("failed", "ok") and not final_seen:
        # the upload ended without its final block (peer ERROR, silence): whatever the worker reports, it failed
        if st == "ok" and c.clean and fin != "none":
            return ("an upload that ended without its final block is reported as complete and its partial file is left behind", "failure-swallowed")
        if c.clean and fin != "none":
            return ("failed upload not removed although clean-on-error", "not-cleaned")
        if not c.clean:
            if fin == "none":
                return ("failed upload removed although keep-on-error", "removed")
            ln = int(fin.split(":")[0])
            if ln > len(acc) or fin != "%d:%d" % (ln, fnv(acc[:ln])):
                return ("kept partial file is not a prefix of the bytes received", "not-prefix")
    if "budget" in clauses and st == "failed":
        # "fewer than the retry budget of consecutive receive attempts fail": the receiver may give up only after MAX_RETRIES failed attempts
        # with no block accepted in between (or on the peer's ERROR)
        run, worst, kk, err = 0, 0, 0, False
        for kind, n, p in c.events[:len(groups)]:
            if kind == "error":
                err = True
                break
            if kind == "data":
                if n == (kk + 1) % 65536:
                    kk += 1
                    run = 0
            else:
                run += 1
                worst = max(worst, run)
        if not err and worst < MAX_RETRIES:
            return ("the receiver gave up although at most %d consecutive receive attempts failed (budget %d)" % (worst, MAX_RETRIES), "gave-up-within-budget")
    if "termination" in clauses:
        run = 0
        for i, (kind, n, p) in enumerate(c.events[:len(groups)]):
            if kind == "fail":
                run += 1
                if run >= MAX_RETRIES and (len(groups) > i + 1 or st == "running"):
                    return ("receiver survives %d consecutive failed attempts" % run, "unbounded-retry")
            else:
                run = 0
            if kind == "error" and (len(groups) != i + 1 or st != "failed"):
                return ("receiver goes on after the peer's ERROR", "after-error")
            if kind == "error" and groups[i]:
                return ("receiver answers the peer's ERROR with %s instead of ending at once" % " ".join(groups[i]), "reply-to-error")
    return None


# ---------------------------------------------------------------------------------------------


class WorkerProp(Prop):
    assumptions = A_WORKER
    sender_clauses = ()
    receiver_clauses = ()
    n_quick = 2500
    n_thorough = 60000

    def oracle(self, line, impl):
        if line.startswith("snd "):
            return sender_oracle(line, impl, self.sender_clauses)
        if line.startswith("rcv "):
            return receiver_oracle(line, impl, self.receiver_clauses)
        return None

    def nontrivial(self, line, impl):
        return " | " in impl

    def classify(self, line, impl, res):
        t = line.split(" ")
        res.count(t[0] + ":w=" + (t[2] if int(t[2]) < 10 else ("big" if int(t[2]) < 60000 else t[2])))
        res.count(t[0] + ":status=" + impl.rsplit("=> ", 1)[-1].split(" ")[0])
        if t[0] == "snd":
            for e in t[7:]:
                res.count("ev:" + (e[0]))

    def shrink(self, line):
        t = line.split(" ")
        if len(t) > 300:
            return []
        k = 7 if t[0] == "snd" else 6
        out = []
        for i in range(k, len(t)):
            out.append(" ".join(t[:i] + t[i + 1:]))
        for i in range(k, len(t)):
            out.append(" ".join(t[:i + 1]))
        return out


class C01(WorkerProp):
    id = "C01"
    module = "Tftp.Props.C01"
    sender_clauses = ("slice", "reassembly")
    rule = ("sender scripts through the real Worker::send over a scripted socket: file sizes around block/window boundaries, b in {1,2,8,9,16,512,..}, "
            "w in {1..8,64,65534,65535}, conformant ACK scripts with injected dup/stale/partial/future ACKs, time-outs, garbage, and adversarial random ACKs; "
            "non-trivial = distinct case with at least one receive attempt consumed")

    def compare(self, line, model, impl):
        # `skip`: a sandbox the model cannot hold (sparse files beyond 4 GiB) - the statement is evaluated on the observation alone
        return model == "skip" or WorkerProp.compare(self, line, model, impl)

    def generate(self, tier, rng):
        n = self.n_quick if tier == "quick" else self.n_thorough
        L = directed_sender() + [gen_sender(rng, tier) for _ in range(n)]
        # volume: files of several megabytes with windows of several megabytes, block sizes that are not powers of two (buffering and
        # read-ahead thresholds inside the sender must not change what a block carries)
        L.append("snd 65464 128 5000 1 0 gen:9437184:3 A128@0 A145@0")
        # through the server: the blocks of a download are the bytes of the file that was NAMED - also when a neighbour's name differs from
        # it only by a letter that some byte-wise shortcut could take for a separator or drop (U+042F, U+015C, U+4E5C, U+012F), by case, or by
        # a trailing dot/space
        from .p_server import rq
        root = (self.sandbox + "/k0").encode().hex()
        pairs = [("\u042fa", "a"), ("sub\u042fb", "sub/b"), ("\u015ca", "a"), ("x\u4e5cy", "x/y"), ("\u012fa", "a"), ("A", "a"), ("a.", "a"), ("a", "a.")]
        for k, (asked, other) in enumerate(pairs):
            fs = "srv/%s=gen:%d:%d,srv/%s=gen:%d:%d" % (asked, 21 + k, 3 + k, other, 27 + k, 100 + k)
            for flags in ["-", "s"]:
                L.append("req %s %s %s %s" % (root, flags, fs, rq("rrq", asked.encode(), rng.choice([(), (("blksize", 8),)])).hex()))
        # ... or by a control character where the neighbour has a printable stand-in (TAB, ESC, DEL, U+0001; `~xx` is the spec's escape)
        for k, (ctl, standin) in enumerate([("\t", "?"), ("\x1b", "?"), ("\x7f", "?"), ("\x01", "_"), ("\t", " "[:0] + "-"), ("\x0b", ".")]):
            asked = "fw" + ctl + "x.bin"
            spec = "fw~%02xx.bin" % ord(ctl)
            for other in ("fw" + standin + "x.bin", "fwx.bin"):
                fs = "srv/%s=gen:%d:%d,srv/%s=gen:%d:%d" % (spec, 31 + k, 5 + k, other, 37 + k, 120 + k)
                for flags in ["-", "s"]:
                    L.append("req %s %s %s %s" % (root, flags, fs, rq("rrq", asked.encode(), rng.choice([(), (("blksize", 8),), (("tsize", 0),)])).hex()))
        # block sizes that divide no power of two, files longer than any plausible read buffer (8 KiB, 64 KiB): a short read from a buffer's
        # remainder is not the end of the file
        for (b, w, n) in [(1000, 2, 20000), (1428, 3, 20000), (9, 4, 9000), (1468, 1, 70000)]:
            nb = n // b + 1
            acks = " ".join("A%d@0" % (k % 65536) for k in list(range(w, nb, w)) + [nb])
            L.append("snd %d %d 5000 1 0 gen:%d:%d %s" % (b, w, n, b % 251, acks))
        # files of 4 GiB and more (sparse: they cost nothing): the first window of the download carries full blocks of the file's first bytes,
        # whatever the length is modulo 2^32 (the model cannot hold such a file: implementation-side statement only)
        for j, n in enumerate([2 ** 32, 2 ** 32 + 1000, 2 ** 32 + 512, 2 ** 33 + 5, 2 ** 32 - 1]):
            for flags in ["-", "s"]:
                opts = [(), (("blksize", 1024), ("windowsize", 2)), (("tsize", 0), ("windowsize", 3))][j % 3]
                L.append("req %s %s srv/huge=sparse:%d %s" % (root, flags, n, rq("rrq", b"huge", opts).hex()))
        if tier == "thorough":
            L.append("snd 1428 4000 5000 1 0 gen:9437184:5 A4000@0 A6609@0")
            L.append("snd 9000 1000 5000 1 0 gen:20000003:9 A1000@0 A2000@0 A2223@0")
            L.append("snd 512 65535 5000 1 0 gen:40000000:11 A65535@0 A12590@0")
        return L


    retry_env = {"HARNESS_SLOW": "1"}

    def oracle(self, line, impl):
        if line.startswith("req "):
            from .p_server import Case, parse_req_obs, parse_rq, recognised
            if impl in ("abort", "panic") or not impl.startswith("r1="):
                return ("server died or no observation: " + impl[:60], "died")
            c = Case(line)
            r1, conv, fs = parse_req_obs(impl)
            kind, name, opts = parse_rq(c.dgram)
            rel, _ = c.resolve(kind, name)
            f = c.files.get(rel)
            if f is None:
                return None
            rec = recognised(opts)
            b = dict(rec).get("blksize", 512) if rec != "bad" else 512
            toks = [t for t in (conv.split(" ") if conv not in ("-", ".") else []) if t[0] == "D"]
            if not toks:
                return ("a read request for the existing file %r is not served" % rel, "download-not-served")
            for t in toks:
                num, ln, h = t[1:].split(":")
                blk = f[(int(num) - 1) * b:int(num) * b]
                if int(ln) != len(blk) or int(h) != fnv(blk):
                    return ("DATA %s of the download of %r does not carry that file's bytes" % (num, rel), "download-wrong-file")
            return None
        return WorkerProp.oracle(self, line, impl)

    def nontrivial(self, line, impl):
        return line.startswith("req ") or WorkerProp.nontrivial(self, line, impl)

    def classify(self, line, impl, res):
        if line.startswith("req "):
            res.count("server-level-download")
        else:
            WorkerProp.classify(self, line, impl, res)

    def shrink(self, line):
        return [] if line.startswith("req ") else WorkerProp.shrink(self, line)


class C07(WorkerProp):
    id = "C07"
    module = "Tftp.Props.C07"
    sender_clauses = ("slice", "termination")
    receiver_clauses = ("termination",)
    rule = ("sender and receiver scripts with silence / ERROR (every code) at every kind of point, partial-window ACK patterns at end of file, OACK handshake replies; "
            "through the in-process server in real time: downloads aborted by ERROR of every code in both port modes must fall silent; "
            "non-trivial = distinct case with at least one receive attempt consumed")

    parallel = 8

    def chunk_of(self, line):
        t = line.split(" ")
        return (1 + sum(bytes.fromhex(t[1])) % 7) if t[0] in ("errstop", "wrqsilent") else 0

    def generate(self, tier, rng):
        n = self.n_quick if tier == "quick" else self.n_thorough
        L = (directed_sender() + directed_receiver() + [gen_sender(rng, tier) for _ in range(n)] +
             [gen_receiver(rng, tier) for _ in range(n // 2)])
        # through the server, in real time: a download aborted by the client's ERROR (every code, both port modes - in single-port mode the
        # ERROR reaches the worker through the listener) must fall silent at once
        from .p_server import rq
        k = 0
        for flags in ["-", "s"]:
            for code in (range(8) if tier == "thorough" else [0, 5, rng.choice([1, 2, 3, 4, 6, 7])]):
                root = (self.sandbox + "/k%d" % (k % 7)).encode().hex()
                k += 1
                L.append("errstop %s %s srv/f=gen:40:3 %s %d" % (root, flags, rq("rrq", b"f", (("timeout", 1), ("blksize", 8), ("windowsize", 2))).hex(), code))
            # ... whatever the length of its text: longer than a default block, longer than the sender's receive buffer (516 bytes)
            for n in ([511, 512, 513, 600, 1400] if tier == "thorough" else [512, rng.choice([513, 600, 1400])]):
                root = (self.sandbox + "/k%d" % (k % 7)).encode().hex()
                k += 1
                L.append("errstop %s %s srv/f=gen:40:3 %s %d:%d" % (root, flags, rq("rrq", b"f", (("timeout", 1), ("blksize", 8), ("windowsize", 2))).hex(), rng.randint(0, 7), n))
        # through the server, in real time: an upload whose client falls silent is given up after MAX_RETRIES acknowledged time-outs (the
        # partial file disappears then, not earlier and not never), in both port modes
        for flags in ["-", "s"]:
            root = (self.sandbox + "/k%d" % (k % 7)).encode().hex()
            k += 1
            L.append("wrqsilent %s %s srv/f=gen:40:3 %s %d" % (root, flags, rq("wrq", b"up", (("timeout", 1), ("blksize", 8))).hex(), rng.choice([0, 1, 3])))
        return L

    def oracle(self, line, impl):
        if line.startswith("wrqsilent "):
            want = "first=ok gone_after=%d" % MAX_RETRIES       # timeout=1 in these cases
            if impl != want:
                return ("an upload whose client fell silent: %s (expected the partial file to be removed after %d time-outs of 1 s)" % (impl, MAX_RETRIES), "silent-upload-not-given-up")
            return None
        if line.startswith("errstop "):
            if impl != "first=data after=0":
                return ("after the client's ERROR %s the server still sent datagrams (%s)" % (line.split(" ")[5], impl), "server-goes-on-after-error")
            return None
        return WorkerProp.oracle(self, line, impl)

    def nontrivial(self, line, impl):
        return line.startswith(("errstop ", "wrqsilent ")) or WorkerProp.nontrivial(self, line, impl)

    def classify(self, line, impl, res):
        if line.startswith(("errstop ", "wrqsilent ")):
            res.count("server-level-%s:flags=%s" % (line.split(" ")[0], line.split(" ")[2]))
        else:
            WorkerProp.classify(self, line, impl, res)

    def shrink(self, line):
        return [] if line.startswith(("errstop ", "wrqsilent ")) else WorkerProp.shrink(self, line)


class C08(WorkerProp):
    id = "C08"
    module = "Tftp.Props.C08"
    sender_clauses = ("window",)
    receiver_clauses = ("window",)
    rule = ("sender scripts with w in {1..8,64,65534,65535}, stale/duplicate/partial/future ACKs, dt just below and at the timeout; receiver scripts for the ACK-by-windowsize clause; "
            "non-trivial = distinct case with at least one receive attempt consumed")

    def generate(self, tier, rng):
        n = self.n_quick if tier == "quick" else self.n_thorough
        L = directed_sender() + directed_receiver()
        for _ in range(n):
            L.append(gen_sender(rng, tier, force_w=rng.choice([None, None, 65535, 65534, 1, 2, 3])))
        L += [gen_receiver(rng, tier) for _ in range(n // 3)]
        # volume: windows of many megabytes (byte-count thresholds inside the workers must not change when the acknowledgement falls due)
        for (b, w) in ([(65464, 150)] if tier == "quick" else [(65464, 150), (8192, 2000), (65464, 1100)]):
            evs = ["D%d:gen:%d:%d" % (k % 65536, b, k) for k in range(1, w + 1)] + ["D%d:gen:5:%d" % ((w + 1) % 65536, w + 1)]
            L.append("rcv %d %d 1 1 len %s" % (b, w, " ".join(evs)))
        # ... and one window beyond 64 MiB in every tier (zero bytes: cheap to describe; the model answers `skip` above 30 MB, the statement -
        # an ACK exactly when the window is full, over a file that holds it all - is evaluated on the implementation)
        b, w = 65464, 1100
        evs = ["D%d:zero:%d" % (k, b) for k in range(1, w + 1)] + ["D%d:zero:5" % (w + 1)]
        L.append("rcv %d %d 1 1 len %s" % (b, w, " ".join(evs)))
        return L

    def compare(self, line, model, impl):
        return model == "skip" or WorkerProp.compare(self, line, model, impl)

    def oracle(self, line, impl):
        if line.startswith("rcv ") and line.split(" ")[5] == "len":
            r = receiver_len_oracle(line, impl)
            if r:
                return r
            # the acknowledgement falls due with the w-th in-order block
            c = RCase(line)
            left = impl.rsplit(" => ", 1)[0]
            groups = [[] if p == "." else p.split(" ") for p in left.split(" | ")]
            k = 0
            since = 0
            for i, g in enumerate(groups):
                kind, n, payload = c.events[i]
                if kind == "data" and n == (k + 1) % 65536:
                    k += 1
                    since += 1
                    due = since >= c.w or len(payload) < c.b
                    if due and not g:
                        return ("no acknowledgement after %s" % ("windowsize in-order blocks" if since >= c.w else "the final block"), "missing-ack")
                if g:
                    since = 0
            return None
        return WorkerProp.oracle(self, line, impl)


class C02(WorkerProp):
    id = "C02"
    module = "Tftp.Props.C02"
    receiver_clauses = ("fidelity",)
    rule = ("receiver scripts through the real Worker::receive on a real file, file snapshot read from disk at every ACK: in-order blocks with duplicates, blocks from the future, "
            "stray ACK/OACK, failures, oversize payloads; through the in-process server: overlapping uploads with different block sizes in both port modes; "
            "non-trivial = distinct case with at least one receive attempt consumed")

    def generate(self, tier, rng):
        n = self.n_quick if tier == "quick" else self.n_thorough
        L = directed_receiver() + [gen_receiver(rng, tier) for _ in range(n)]
        # through the server: what an upload stores must not depend on other transfers the server is handling at the same time (the single-port
        # listener receives the DATA of every running upload): uploads with different block sizes, overlapping, in both port modes
        root = (self.sandbox + "/k0").encode().hex()
        for flags in ["s", "-"]:
            for (b1, b2) in [(1024, 512), (2048, 8), (1428, 16), (512, 1024), (4096, 1024)]:
                for sched in ["0101010101", "0011001100", "0100000000", "0010000000"] if tier == "thorough" else [rng.choice(["0101010101", "0010000000"]), "0100000000"]:
                    second = rng.choice(["u:up2:%d:1:gen:%d:3" % (b2, 3 * b2 + 5), "d:c:%d:1" % b2])
                    L.append("multi %s %s srv/c=gen:16:3 %s u:up1:%d:1:gen:%d:7 %s" % (root, flags, sched, b1, 2 * b1 + 100, second))
        # through the server: block sizes just above and below what a fixed-size receive buffer would hold (Ethernet payload, pages, powers of
        # two +- the 4-byte header), in single-port mode - where the listener receives the DATA - and after a larger transfer
        root = (self.sandbox + "/k2").encode().hex()
        for flags in ["s", "-"]:
            for bsz in [1468, 1469, 1470, 1471, 1472, 1473, 2044, 2048, 4092, 4096]:
                L.append("multi %s %s srv/c=gen:16:3 %s u:up1:%d:%d:gen:%d:7 d:c:8:1" % (root, flags, rng.choice(["0", "01"]), bsz, rng.choice([1, 2]), 2 * bsz + 11))
            for (b1, b2) in [(4096, 4098), (4096, 4100), (1024, 1027), (8192, 8195)]:
                L.append("multi %s %s srv/c=gen:16:3 %s u:up1:%d:1:gen:%d:3+u:up2:%d:1:gen:%d:5 d:c:8:1" % (root, flags, "0" * 12 + "1", b1, b1 + 5, b2, 2 * b2 + 1))
        # through the server: datagrams from the uploading endpoint itself that are no TFTP packets but look like the next DATA block apart
        # from the high byte of the opcode never reach the file (the worker's own socket in multi-port mode, the listener in single-port mode)
        root = (self.sandbox + "/k1").encode().hex()
        for flags in ["-", "s", "1"]:
            for spec in ["V:up1:8:1:gen:30:1", "V:up1:512:2:gen:2100:8", "V:up1:16:3:gen:100:4"]:
                L.append("multi %s %s srv/c=gen:16:3 %s %s d:c:8:1" % (root, flags, rng.choice(["0", "01", "0011"]), spec))
        # through the server: what the write request declares (tsize larger / smaller / equal / absurd, other options) has no bearing on what
        # is stored: the bytes that were sent and acknowledged
        from .p_server import rq, upload_plan
        for j, flags in enumerate(["-", "s", "o", "so", "k"]):
            root = (self.sandbox + "/t%d" % j).encode().hex()
            for base_opts in [(), (("blksize", 8),), (("blksize", 1024), ("windowsize", 2)), (("windowsize", 3),)]:
                sent = len(upload_plan(base_opts)[3])
                for ts in [0, 1, sent - 1, sent, sent + 1, 4096, 2049, 1000000, 2 ** 32 + 5]:
                    opts = base_opts + (("tsize", ts),) if rng.random() < 0.5 else (("tsize", ts),) + base_opts
                    L.append("req %s %s srv/old=0102 %s" % (root, flags, rq("wrq", rng.choice([b"up", b"sub/up", b"old"]), opts).hex()))
        return L

    retry_env = {"HARNESS_SLOW": "1"}

    def oracle(self, line, impl):
        if line.startswith("multi "):
            from .p_server import C12
            return C12.oracle(self, line, impl)
        if line.startswith("req "):
            from .p_server import upload_stored_oracle
            return upload_stored_oracle(line, impl)
        return WorkerProp.oracle(self, line, impl)

    def nontrivial(self, line, impl):
        if line.startswith("req "):
            return impl.startswith("r1=")
        return impl.startswith("c0=") if line.startswith("multi ") else WorkerProp.nontrivial(self, line, impl)

    def classify(self, line, impl, res):
        if line.startswith("multi "):
            res.count("server-level:overlapping-uploads:flags=" + line.split(" ")[2])
        elif line.startswith("req "):
            res.count("server-level:upload-with-declared-size:flags=" + line.split(" ")[2])
        else:
            WorkerProp.classify(self, line, impl, res)

    def shrink(self, line):
        return [] if line.startswith(("multi ", "req ")) else WorkerProp.shrink(self, line)


class C16(WorkerProp):
    id = "C16"
    module = "Tftp.Props.C16"
    sender_clauses = ("repeat", "slice")
    receiver_clauses = ("repeat", "fidelity")
    rule = ("sender/receiver scripts with repeat amount N+1 for N in {0,1,2,3,254}; multiplicity of identical consecutive datagrams; "
            "--duplicate-packets 254/255/256 against Config::new; non-trivial = distinct case with at least one receive attempt consumed")

    def generate(self, tier, rng):
        n = (self.n_quick if tier == "quick" else self.n_thorough) // 2
        L = directed_sender() + directed_receiver()
        for _ in range(n):
            r = rng.choice([1, 2, 3, 4])
            L.append(gen_sender(rng, tier, rep=r))
            L.append(gen_receiver(rng, tier, rep=r))
        # N = 254 (repeat amount 255; the 1 ms delay between copies is real time, so only a few tiny transfers)
        L += ["snd 8 2 5000 255 0 gen:12:1 A2@0", "snd 8 1 5000 255 1 gen:3:1 A0@0 A1@0", "snd 8 1 5000 255 1 gen:3:1 A4@0",
              "rcv 8 2 255 1 full D1:0102030405060708 D2:01", "rcv 8 1 255 1 full D1:0102030405060708 D1:0102030405060708 D2:-"]
        # every residue of the repeat amount modulo 8 and 16, and the powers of two (the 1 ms pause per copy is real time: tiny transfers)
        for rp in (5, 6, 7, 8, 9, 15, 16, 17, 24, 32, 64, 128, 248):
            L.append("snd 8 2 5000 %d 0 gen:12:1 A2@0" % rp)
            L.append("rcv 8 2 %d 1 full D1:0102030405060708 D2:01" % rp)
        # across the block-number wrap in duplicate mode: the acknowledgement of block 65536 carries the number 0 and is an acknowledgement of a
        # data block like any other (1-byte blocks, windows of 4096 and 1024: the ACK lands exactly on 65536)
        for w, rp in [(4096, 2), (1024, 3)]:
            toks = " ".join("D%d:%02x" % (k % 65536, (k * 7) & 255) for k in range(1, 65537))
            L.append("rcv 1 %d %d 1 full %s D1:%02x D2:-" % (w, rp, toks, 0x11))
        # through the server: --duplicate-packets N must reach the worker of every kind of request (with and without options,
        # every window size, both port modes, downloads and uploads)
        from .p_server import rq
        root = (self.sandbox + "/k0").encode().hex()
        for flags in ["1", "2", "s1", "s3", "o2", "7", "s15"]:
            for opts in [(), (("blksize", 8),), (("windowsize", 2),), (("blksize", 8), ("windowsize", 4)), (("windowsize", 3), ("timeout", 2)),
                         (("tsize", 0),), (("windowsize", 1),)]:
                L.append("req %s %s srv/f=gen:40:3 %s" % (root, flags, rq("rrq", b"f", opts).hex()))
                L.append("req %s %s srv/f=gen:40:3 %s" % (root, flags, rq("wrq", b"up", opts).hex()))
        # "(the initial OACK, ACK 0 or ERROR reply is sent once)": refusals of every kind in duplicate mode
        for flags in ["1", "2", "s1", "s3", "r2", "sr1"]:
            for kind, name in [("rrq", b"missing"), ("rrq", b"../f"), ("wrq", b"f"), ("wrq", b"../up"), ("rrq", b"sub/missing")]:
                for opts in [(), (("blksize", 8), ("windowsize", 2))]:
                    L.append("req %s %s srv/f=gen:40:3,srv/sub/ %s" % (root, flags, rq(kind, name, opts).hex()))
        return L

    retry_env = {"HARNESS_SLOW": "1"}

    def oracle(self, line, impl):
        if line.startswith("req "):
            return self.req_oracle(line, impl)
        return WorkerProp.oracle(self, line, impl)

    def nontrivial(self, line, impl):
        return line.startswith("req ") or WorkerProp.nontrivial(self, line, impl)

    def classify(self, line, impl, res):
        if line.startswith("req "):
            res.count("server-level:flags=" + line.split(" ")[2])
        else:
            WorkerProp.classify(self, line, impl, res)

    def shrink(self, line):
        return [] if line.startswith("req ") else WorkerProp.shrink(self, line)

    def req_oracle(self, line, impl):
        from .p_server import Case, parse_req_obs
        if impl in ("abort", "panic") or not impl.startswith("r1="):
            return ("server died or no observation: " + impl[:60], "died")
        c = Case(line)
        r1, conv, fs = parse_req_obs(impl)
        toks = [] if conv in ("-", ".") else conv.split(" ")
        if " error " in r1:
            # a refusal: "the initial OACK, ACK 0 or ERROR reply is sent once"
            extra = [t for t in toks if t.startswith("+")]
            if extra:
                return ("with --duplicate-packets %d the refusal (%s) was followed by %d more datagram(s): %s" % (c.dup, r1, len(extra), " ".join(extra[:4])),
                        "refusal-repeated")
            return None
        want = c.dup + 1
        runs = []
        for t in toks:
            if runs and runs[-1][0] == t:
                runs[-1][1] += 1
            else:
                runs.append([t, 1])
        if not runs:
            return ("accepted request produced no DATA/ACK at all", "server-no-conversation")
        for t, n in runs:
            if t[0] in "DA" and n != want:
                return ("with --duplicate-packets %d the server's worker sent %s %d time(s), not %d" % (c.dup, t.split(":")[0], n, want), "server-repeat-count")
        return None


def wrap_cases(tier, rng):
    """transfers beyond 65535 blocks, b = 1 (worker level), windows before/at/after the wrap, faults in the wrap window"""
    L = []
    # windows wider than half the number space: after a full-window ACK S and a partial ACK, the slid window contains block S + 65536 -
    # its ACK carries the number S again and is an ACK for a block of THIS window
    L.append("snd 1 65535 5000 1 0 gen:131075:1 A65535@0 A0@0 A65535@0 A4@0")
    L.append("snd 1 40000 5000 1 0 gen:120003:7 A40000@0 A40000@0 A40001@0 A40000@0 A14464@0 A54464@0")
    sizes = [65534, 65535, 65536, 65537] if tier == "quick" else [65533, 65534, 65535, 65536, 65537, 65538, 131071, 131072]
    for flen in sizes:
        nblocks = flen + 1
        for w in ([1, 7, 64] if tier == "quick" else [1, 2, 7, 8, 64, 1000, 65535]):
            evs = []
            base = 1
            while base <= nblocks:
                top = min(base + w - 1, nblocks)
                near = (base <= 65536 <= top + w) or (base <= 65535 <= top)
                if near and rng.random() < 0.6:
                    kind = rng.choice(["dup", "partial", "T", "stale"])
                    if kind == "dup":
                        evs.append("A%d@0" % ((base - 1) % 65536))
                    elif kind == "partial" and top > base:
                        k = rng.randint(base, top - 1)
                        evs.append("A%d@0" % (k % 65536))
                        base = k + 1
                        continue
                    elif kind == "T":
                        evs.append("T")
                    else:
                        evs.append("A%d@0" % ((base - 2) % 65536))
                evs.append("A%d@0" % (top % 65536))
                base = top + 1
            L.append("snd 1 %d 5000 1 0 gen:%d:7 %s" % (w, flen, " ".join(evs)))
    # receiver across the wrap
    for nb in ([65537] if tier == "quick" else [65535, 65536, 65537, 131073]):
        for w in ([1, 7] if tier == "quick" else [1, 7, 64]):
            evs = []
            for k in range(1, nb + 1):
                ln = 1 if k < nb else 0
                p = "%02x" % (k % 251) if ln else "-"
                evs.append("D%d:%s" % (k % 65536, p))
                if 65530 <= k <= 65540 and rng.random() < 0.4:
                    evs.append(rng.choice(["D%d:%s" % (k % 65536, p), "T", "D%d:00" % ((k + 2) % 65536), "D%d:00" % ((k - 1) % 65536)]))
            L.append("rcv 1 %d 1 1 len %s" % (w, " ".join(evs)))
    # directed: the block numbered 0 (absolute 65536) is lost or overtaken - the blocks numbered 1, 2 of the same window arrive
    # first (they are out of sequence and must not be taken for its successors), then the window is sent again
    for w in ([3, 7] if tier == "quick" else [1, 2, 3, 5, 6, 7, 64]):
        nb = 65536 + w + 2
        pay = lambda k: ("%02x" % (k % 251)) if k < nb else "-"
        evs = ["D%d:%s" % (k % 65536, pay(k)) for k in range(1, 65536)]
        ahead = ["D%d:%s" % (k % 65536, pay(k)) for k in range(65537, min(65536 + w, nb) + 1)]
        evs += ahead[: max(1, w - 1)]
        evs += ["D%d:%s" % (k % 65536, pay(k)) for k in range(65536, nb + 1)]
        L.append("rcv 1 %d 1 1 len %s" % (w, " ".join(evs)))
    return L


class C15(WorkerProp):
    id = "C15"
    module = "Tftp.Props.C15"
    sender_clauses = ("slice", "reassembly", "window", "termination")
    receiver_clauses = ("termination",)
    rule = ("worker-level transfers of 65534..65538 (thorough: up to 131073) blocks at blksize 1, windows ending before/at/after the wrap, "
            "dup/partial/stale ACK and time-out faults in the windows around block 65535/0; receiver across the wrap with duplicates and with block 0 overtaken; "
            "the real closed loop of two workers over > 65536 blocks with one lost DATA or ACK on the datagrams numbered 65535/0/1; "
            "non-trivial = distinct case with at least one receive attempt consumed")

    def generate(self, tier, rng):
        from .p_loop import wrap_loop_lines, wrap_cli_lines
        return wrap_cases(tier, rng) + wrap_loop_lines(tier, rng) + wrap_cli_lines()

    def compare(self, line, model, impl):
        return model == impl

    def oracle(self, line, impl):
        if line.startswith("loop "):
            from .p_loop import LoopProp
            return LoopProp.oracle(self, line, impl)
        if line.startswith("cli "):
            from .p_loop import C14
            return C14.cli_oracle(self, line, impl)
        if line.startswith("rcv ") and line.split(" ")[5] == "len":
            return receiver_len_oracle(line, impl)
        return WorkerProp.oracle(self, line, impl)

    budget = 5

    def nontrivial(self, line, impl):
        if line.startswith("cli "):
            return impl.startswith("req=")
        return impl.startswith("s=") if line.startswith("loop ") else WorkerProp.nontrivial(self, line, impl)

    def classify(self, line, impl, res):
        if line.startswith("loop "):
            res.count("closed-loop-at-the-wrap")
        elif line.startswith("cli "):
            res.count("client-upload-beyond-65535-blocks")
        else:
            WorkerProp.classify(self, line, impl, res)

    def shrink(self, line):
        return [] if line.startswith(("loop ", "cli ")) else WorkerProp.shrink(self, line)


def receiver_len_oracle(line, impl):
    if " => " not in impl or "panic" in impl.rsplit(" => ", 1)[1]:
        return ("worker panics / no observation", "panic")
    left, right = impl.rsplit(" => ", 1)
    st, fin = right.split(" file=")
    groups = [[] if p == "." else p.split(" ") for p in left.split(" | ")]
    c = RCase(line)
    k = 0
    total = 0
    acc = bytearray()
    for i, g in enumerate(groups):
        kind, n, payload = c.events[i]
        if kind == "data" and n == (k + 1) % 65536:
            k += 1
            total += len(payload)
            acc += payload
        for t in g:
            p = t[1:].split(":")
            if int(p[0]) != k % 65536:
                return ("ACK %s attributed to the wrong block (expected %d)" % (p[0], k % 65536), "ack-not-in-sequence")
            if int(p[1]) != total:
                return ("at ACK %s the file holds %s bytes, not %d" % (p[0], p[1], total), "ack-before-stored")
    if st == "ok" and fin != "%d:%d" % (len(acc), fnv(bytes(acc))):
        return ("stored file differs from the in-order blocks across the wrap", "final-file")
    return None


# ---------------------------------------------------------------------------------------------
# C18: window buffer contract


def win_ops(rng, mode, size, n):
    ops = []
    for _ in range(n):
        if mode == "r":
            o = rng.choice(["f", "f", "f", "r0", "r1", "r1", "r2", "rL", "rX", "l", "F", "E", "g", "g"])
        elif mode == "w":
            o = rng.choice(["a", "a", "a", "e", "e", "l", "F", "E", "g", "r1", "rL"])
        else:
            o = rng.choice(["f", "f", "a", "e", "r1", "rL", "l", "F", "g", "g"])
        ops.append(o)
    return ops


def concretise(ops, rng, size):
    """replace symbolic amounts (rL = remove(len), rX = remove(len+1)) — the harness is not adaptive, so track an ideal length"""
    return ops


class WinSpec:
    """the contract of C18 as an abstract queue (independent of the Lean model)"""

    def __init__(self, size, chunk, mode, content):
        self.size, self.chunk, self.mode = size, chunk, mode
        self.unread = content if mode in ("r", "a") else b""
        self.initial = content if mode in ("r", "a") else b""
        self.written = b""
        self.q = []
        self.done = False

    def fill(self):
        if self.done:
            return "f:ok0"
        if self.size - len(self.q) <= 0:
            return "f:ok1"
        if self.mode == "w":
            return "f:err"
        while len(self.q) < self.size:
            piece, self.unread = self.unread[:self.chunk], self.unread[self.chunk:]
            self.q.append(piece)
            if len(piece) != self.chunk:
                self.done = True
                return "f:ok0"
        return "f:ok1"

    def remove(self, k):
        if k > len(self.q):
            return "r:err"
        del self.q[:k]
        return "r:ok"

    def add(self, d):
        if len(self.q) == self.size:
            return "a:err"
        self.q.append(d)
        return "a:ok"

    def empty(self):
        if self.mode == "r" and any(len(d) > 0 for d in self.q):
            return "e:err"       # read-only handle: the first non-empty write fails, nothing is cleared
        for d in self.q:
            self.written += d
            if d:
                self.unread = b""
        self.q = []
        return "e:ok"

    def file(self):
        return self.initial + self.written


def run_spec(line):
    t = line.split(" ")
    size, chunk, mode, cont = int(t[1]), int(t[2]), t[3], content(t[4])
    s = WinSpec(size, chunk, mode, cont)
    outs = []
    for op in t[5:]:
        k = op[0]
        if k == "f":
            outs.append(s.fill())
        elif k == "e":
            outs.append(s.empty())
        elif k == "r":
            outs.append(s.remove(int(op[1:])))
        elif k == "a":
            outs.append(s.add(content(op[1:])))
        elif k == "l":
            outs.append("l:%d" % len(s.q))
        elif k == "F":
            outs.append("F:%d" % (1 if len(s.q) == s.size else 0))
        elif k == "E":
            outs.append("E:%d" % (1 if not s.q else 0))
        elif k == "g":
            outs.append("g:" + (",".join(hx(c) for c in s.q) if s.q else "."))
    return " ".join(outs) + " | file=" + hx(s.file())


def gen_window(rng, exhaustive_len=None):
    mode = rng.choice(["r", "r", "r", "w", "w", "a"])
    size = rng.choice([1, 1, 2, 2, 3, 4, 5])
    chunk = rng.choice([1, 2, 3, 5, 8])
    flen = rng.choice([0, 1, chunk - 1, chunk, chunk + 1, size * chunk, size * chunk + 1, 2 * size * chunk, rng.randint(0, 40)])
    cont = hx(bytes(rng.getrandbits(8) for _ in range(max(flen, 0))))
    n = rng.randint(1, 14)
    ops = []
    ideal = 0
    for _ in range(n):
        if mode == "r":
            o = rng.choice(["f", "f", "f", "r0", "r1", "r1", "r2", "rL", "rX", "l", "F", "E", "g", "g", "e"])
        elif mode == "w":
            o = rng.choice(["a", "a", "a", "a", "e", "e", "l", "F", "E", "g", "r1", "rL", "f"])
        else:
            o = rng.choice(["f", "f", "a", "e", "r1", "rL", "l", "F", "g", "g"])
        if o == "a":
            o = "a" + hx(bytes(rng.getrandbits(8) for _ in range(rng.choice([0, 1, chunk, chunk, 3]))))
        ops.append(o)
    # resolve rL / rX against the spec
    line = "win %d %d %s %s" % (size, chunk, mode, cont)
    s = WinSpec(size, chunk, mode, content(cont))
    res = []
    for o in ops:
        if o == "rL":
            o = "r%d" % len(s.q)
        elif o == "rX":
            o = "r%d" % (len(s.q) + 1)
        k = o[0]
        if k == "f":
            s.fill()
        elif k == "e":
            s.empty()
        elif k == "r":
            s.remove(int(o[1:]))
        elif k == "a":
            s.add(content(o[1:]))
        res.append(o)
    return line + " " + " ".join(res)


def exhaustive_window(L):
    import itertools
    out = []
    f = hx(bytes(range(1, 8)))          # 7 bytes
    for size, chunk in [(2, 3), (1, 7), (3, 2)]:
        for ops in itertools.product(["f", "r0", "r1", "r2", "l", "F", "g"], repeat=L):
            out.append("win %d %d r %s %s" % (size, chunk, f, " ".join(ops)))
    for size, chunk in [(2, 3)]:
        for ops in itertools.product(["a0102", "a03", "a-", "e", "l", "F", "r1"], repeat=L):
            out.append("win %d %d w - %s" % (size, chunk, " ".join(ops)))
    return out


class C18(Prop):
    id = "C18"
    module = "Tftp.Props.C18"
    assumptions = A_WORKER[1:2]
    rule = ("operation sequences on the real Window over real temporary files: exhaustive sequences of length L (4 quick, 5 thorough) over "
            "{fill, remove 0/1/2, len, is_full, get_elements} (read side) and {add x3, empty, len, is_full, remove 1} (write side), model-based random sequences "
            "(files around chunk/window boundaries, three open modes) beyond; results compared with an abstract-queue statement of the contract; "
            "non-trivial = distinct sequence containing at least one fill/add/remove/empty")

    def generate(self, tier, rng):
        L = exhaustive_window(4 if tier == "quick" else 5)
        L += [gen_window(rng) for _ in range(3000 if tier == "quick" else 100000)]
        # the largest sizes: the length is reported as a 16-bit number, a window of 65535 pieces is legal and a full one refuses one more
        # (the list-based model appends in linear time: a window filled by 65535 single adds costs it half a minute, so that one is thorough-only)
        for size in (255, 256, 257, 65534, 65535):
            L.append("win %d 1 r gen:%d:3 f l F a01 l F E r1 l F a02 l F a03 l f l F" % (size, size + 10))
            if size < 1000 or (tier == "thorough" and size == 65535):
                L.append("win %d 1 w - %s l F a08 l F E a09 l r1 l a0a l e l E a0b l" % (size, " ".join(["a07"] * size)))
                L.append("win %d 2 a 0102030405 %s l F a08 l F f l" % (size, " ".join(["a0707"] * size)))
        L += ["win 2 5 r 48656c6c6f2c20776f726c6421 f g r1 g f g f g l f g",
              "win 3 5 a - a48656c6c6f a2c20776f72 a6c6421 g e g l",
              "win 2 4 r 0102030405060708 f g r2 f g r1 f g r1 f g"]
        return L

    def oracle(self, line, impl):
        if impl in ("panic", "abort"):
            return ("window operation panics", "panic")
        want = run_spec(line)
        if impl != want:
            a, b = impl.split(" "), want.split(" ")
            for i, (x, y) in enumerate(zip(a, b)):
                if x != y:
                    return ("operation %d: implementation %s, contract %s" % (i, x, y), "contract:" + y.split(":")[0])
            return ("observation differs from the contract", "contract")
        return None

    def nontrivial(self, line, impl):
        return any(o[0] in "fare" for o in line.split(" ")[5:])

    def classify(self, line, impl, res):
        t = line.split(" ")
        res.count("mode:" + t[3])
        for o in t[5:]:
            res.count("op:" + o[0])

    def shrink(self, line):
        t = line.split(" ")
        return [" ".join(t[:i] + t[i + 1:]) for i in range(5, len(t))] + [" ".join(t[:i + 1]) for i in range(5, len(t))]


class C13(WorkerProp):
    id = "C13"
    module = "Tftp.Props.C13"
    receiver_clauses = ("cleanup", "fidelity")
    rule = ("receiver scripts through the real Worker::receive with an abort (peer ERROR, silence, stray garbage) at every kind of point — after j blocks, inside or at the edge of a window — "
            "x {clean, keep} x windowsize, checking what is left at the path; plus the duplicate-WRQ history (two real workers on one path, the second completes, the stale first one times out) "
            "in both clean modes; non-trivial = distinct case with at least one receive attempt consumed")

    def generate(self, tier, rng):
        n = self.n_quick if tier == "quick" else self.n_thorough
        L = directed_receiver()
        for _ in range(n):
            l = gen_receiver(rng, tier)
            t = l.split(" ")
            # force an abort at a random point of the script
            k = rng.randint(6, len(t))
            t = t[:k] + rng.choice([["E" + rng.choice(["", "1", "2", "3", "4", "5", "6", "7"])], ["T"] * 6, ["T", "A1", "T", "T", "O", "T", "T"]])
            L.append(" ".join(t))
        for b, w in [(8, 1), (8, 2), (8, 4), (512, 3)]:
            for clean in (0, 1):
                for flen in (0, 5, 8, 20, 1500):
                    L.append("dupwrq %d %d %d gen:%d:%d" % (b, w, clean, flen, b + w))
        # write errors: the target is a link to /dev/full (creatable, every non-empty write fails with ENOSPC)
        for w in (1, 2, 4):
            for clean in (0, 1):
                L.append("rcv 8 %d 1 %d nospace D1:0102030405060708 D2:0102030405060708 D3:0102030405060708 D4:0102030405060708 D5:01" % (w, clean))
                L.append("rcv 8 %d 1 %d nospace D1:010203" % (w, clean))
                L.append("rcv 8 %d 1 %d nospace D1:-" % (w, clean))
                L.append("rcv 8 %d 1 %d nospace D1:0102030405060708 D1:0102030405060708 D3:01 T D2:01" % (w, clean))
                L.append("rcv 8 %d 1 %d nospace E" % (w, clean))
                L.append("rcv 512 %d 1 %d nospace D1:gen:512:1 D2:gen:512:2 D3:gen:100:3" % (w, clean))
        # write errors in the middle of an upload: the process may not grow a file beyond q bytes while the worker runs (RLIMIT_FSIZE): the
        # write that crosses the limit is cut, the next one fails
        for b, w, q, lens in [(512, 1, 1300, [512, 512, 512, 100]), (512, 2, 1300, [512, 512, 512, 100]), (512, 3, 1024, [512, 512, 100]),
                              (512, 3, 1124, [512, 512, 100]), (512, 1, 4096, [512, 100]), (1024, 2, 2048, [1024, 1024, 1024, 1024, 5]),
                              (512, 4, 1536, [512, 512, 512, 512, 512, 1]), (4096, 1, 5000, [4096, 4096, 10]), (512, 1, 1024, [512, 512, 0])]:
            for clean in (0, 1):
                evs = " ".join("D%d:gen:%d:%d" % (k + 1, l, k + 1) if l else "D%d:-" % (k + 1) for k, l in enumerate(lens))
                L.append("rcv %d %d 1 %d quota:%d %s" % (b, w, clean, q, evs))
        for _ in range(40 if tier == "quick" else 600):
            b = rng.choice([512, 512, 1024, 1428])
            w = rng.choice([1, 1, 2, 3, 4])
            nb = rng.randint(1, 8)
            lens = [b] * nb + [rng.choice([0, 1, b - 1])]
            q = max(1024, rng.choice([sum(lens), sum(lens) - 1, sum(lens) + 1, rng.randint(1024, max(1025, sum(lens))), (nb // 2) * b, (nb // 2) * b + 7]))
            evs = []
            for k, l in enumerate(lens):
                evs.append("D%d:gen:%d:%d" % (k + 1, l, k + 1) if l else "D%d:-" % (k + 1))
                if rng.random() < 0.15:
                    evs.append(rng.choice(["T", "D%d:gen:%d:%d" % (max(1, k), b, max(1, k))]))
            L.append("rcv %d %d 1 %d quota:%d %s" % (b, w, rng.choice([0, 1]), q, " ".join(evs)))
        # through the server: --keep-on-error must reach the worker, in both port modes, with and without options
        from .p_server import rq
        root = (self.sandbox + "/k0").encode().hex()
        for flags in ["-", "k", "s", "sk", "o", "ok", "xk", "x"]:
            base = "recv" if "x" in flags else "srv"
            for opts in [(), (("blksize", 8),), (("blksize", 16), ("windowsize", 2)), (("windowsize", 3), ("tsize", 99))]:
                for nb in ([1, 2, 3] if tier == "quick" else [0, 1, 2, 3, 4, 5, 7]):
                    fs = "%s/old=%s" % (base, rng.choice(["0102", "gen:100:9", "gen:100:9"]))
                    L.append("abort %s %s %s %s %d" % (root, flags, fs, rq("wrq", rng.choice([b"up", b"sub/up", b"old"]), opts).hex(), nb))
                    if "o" in flags:
                        # --overwrite: the aborted upload replaces a file that existed before (it is truncated at once)
                        L.append("abort %s %s %s %s %d" % (root, flags, fs, rq("wrq", b"old", opts).hex(), nb))
        # a later write request for the name of a completed upload that is NOT accepted (an option value the server cannot honour) leaves the
        # completed upload alone - with --overwrite too, in both clean modes and port modes
        for flags in ["o", "ok", "so", "sok", "-", "k"]:
            for bad in [(("blksize", 7),), (("timeout", 0),), (("windowsize", 0),), (("blksize", 65465), ("windowsize", 2)), (("timeout", 256), ("tsize", 5))]:
                for nm in [b"old", b"sub/old2"]:
                    L.append("req %s %s srv/old=gen:100:9,srv/sub/old2=gen:300:4 %s" % (root, flags, rq("wrq", nm, bad).hex()))
        # the code of the aborting ERROR packet must not matter, in either port mode (in single-port mode it travels through the listener)
        for flags in ["-", "s", "k", "sk"]:
            for code in range(8):
                L.append("abort %s %s srv/old=0102 %s %d c%d" % (root, flags, rq("wrq", b"up", rng.choice([(), (("blksize", 8),), (("windowsize", 2),)])).hex(), rng.choice([1, 2, 3]), code))
        # the text of the aborting ERROR packet must not matter: long messages, multi-byte characters around plausible length limits
        for flags in ["-", "s"]:
            for lim in [16, 32, 64, 80, 100, 128, 200, 255, 256] if tier == "thorough" else [32, 64, 128, 255]:
                for ch in ["\u00e4", "\u20ac"]:
                    off = lim - rng.choice([0, 1])
                    msg = ("a" * off + ch * 2 + "z").encode().hex()
                    L.append("abort %s %s srv/old=0102 %s %d %s" % (root, flags, rq("wrq", b"up", (("blksize", 512),)).hex(), rng.choice([1, 2]), msg))
        return list(dict.fromkeys(L))

    retry_env = {"HARNESS_SLOW": "1"}

    def oracle(self, line, impl):
        if line.startswith("abort "):
            return self.abort_oracle(line, impl)
        if line.startswith("req "):
            from .p_server import Case, parse_req_obs, lst
            if impl in ("abort", "panic") or not impl.startswith("r1="):
                return ("server died or no observation: " + impl[:60], "died")
            c = Case(line)
            r1, conv, fs = parse_req_obs(impl)
            if " oack " in r1 or r1.endswith("ack 0"):
                return None
            gone = sorted(lst(c.listing()) - lst(fs))
            if gone:
                return ("a write request that was not accepted (%s) removed or changed a completed upload: %s" % (r1, ",".join(gone)[:100]),
                        "unaccepted-request-harms-completed-upload")
            return None
        if line.startswith("dupwrq "):
            t = line.split(" ")
            f = content(t[4])
            sig = "%d:%d" % (len(f), fnv(f))
            kv = dict(x.split("=") for x in impl.split(" ")) if "=" in impl else {}
            if kv.get("second") != "ok" or kv.get("after-second") != sig:
                return ("the most recently accepted upload does not complete with its content", "dupwrq-second")
            if kv.get("after-stale-timeout") != sig:
                return ("a stale earlier transfer of the same name removed or altered the completed upload when it timed out "
                        "(left: %s)" % kv.get("after-stale-timeout"), "dup-wrq-stale-timeout-removes-completed")
            return None
        if line.startswith("rcv ") and line.split(" ")[5] == "nospace":
            return self.nospace_oracle(line, impl)
        if line.startswith("rcv ") and line.split(" ")[5].startswith("quota:"):
            return self.quota_oracle(line, impl)
        return WorkerProp.oracle(self, line, impl)

    def quota_oracle(self, line, impl):
        """the target takes q bytes: every ACK is emitted over a file that holds all blocks received in sequence (so no block beyond the
        room is ever acknowledged), an upload larger than the room fails, a failed upload is removed (clean) or what is kept is a prefix
        of the bytes received, not longer than the room; an upload that fits succeeds with exactly its bytes"""
        if impl in ("panic", "abort", "bad-op") or " => " not in impl or "panic" in impl:
            return ("worker panics or no observation: " + impl[:60], "panic")
        v = receiver_oracle(line, impl, ("fidelity",))
        if v:
            return v
        q = int(line.split(" ")[5].split(":")[1])
        st, fin = impl.rsplit(" => ", 1)[1].split(" file=")
        c = RCase(line)
        k, data, final = 0, b"", False
        for kind, n, payload in c.events:
            if final:
                break
            if kind == "error":
                break
            if kind == "data" and n == (k + 1) % 65536:
                k += 1
                data += payload
                final = len(payload) < c.b
        if st == "ok":
            if len(data) > q:
                return ("upload of %d bytes reported complete although the target takes only %d" % (len(data), q), "write-error-swallowed")
            if fin != "%d:%d" % (len(data), fnv(data)):
                return ("completed upload does not hold exactly the bytes received", "final-file")
        if st == "failed":
            if c.clean and fin != "none":
                return ("upload failed (write error after %d bytes of room) and its partial file is left behind although clean-on-error is in force" % q,
                        "write-error-not-cleaned")
            if not c.clean:
                if fin == "none":
                    return ("upload failed with a write error and its file was removed although keep-on-error", "write-error-removed")
                ln = int(fin.split(":")[0])
                if ln > q or ln > len(data) or fin != "%d:%d" % (ln, fnv(data[:ln])):
                    return ("kept partial file is not a prefix (within the room) of the bytes received", "not-prefix")
        return None

    def nospace_oracle(self, line, impl):
        """the target cannot take a single byte: an upload that carries data fails with a write error, and a failed upload is removed
        under clean-on-error / kept under keep-on-error; only the empty upload succeeds."""
        if impl in ("panic", "abort", "bad-op") or " => " not in impl or "panic" in impl:
            return ("worker panics or no observation: " + impl[:60], "panic")
        st, fin = impl.rsplit(" => ", 1)[1].split(" file=")
        c = RCase(line)
        k, data = 0, b""
        for kind, n, payload in c.events:
            if kind == "data" and n == (k + 1) % 65536:
                k += 1
                data += payload
        if st == "ok" and data:
            return ("upload reported complete although not one of its %d bytes could be written" % len(data), "write-error-swallowed")
        if st == "running":
            return None
        if st == "failed":
            if c.clean and fin != "none":
                return ("upload failed with a write error (no space) and its partial file is left behind although clean-on-error is in force",
                        "write-error-not-cleaned")
            if not c.clean and fin == "none":
                return ("upload failed with a write error and its file was removed although keep-on-error", "write-error-removed")
        return None

    def abort_oracle(self, line, impl):
        from .p_server import Case, parse_rq, recognised, parse_req_obs, lst, enc
        if impl in ("abort", "panic") or not impl.startswith("r1="):
            return ("server died or no observation: " + impl[:60], "died")
        t = line.split(" ")
        c = Case(" ".join(t[:5]))
        r1, conv, fs = parse_req_obs(impl)
        kind, name, opts = parse_rq(c.dgram)
        if not (r1.endswith("ack 0") or " oack " in r1):
            return None          # refused (e.g. existing file without --overwrite): nothing to clean up
        rel, _ = c.resolve(kind, name)
        rec = recognised(opts)
        b = dict(rec).get("blksize", 512) if rec != "bad" else 512
        sent = b"".join(gen_bytes(b, k) for k in range(1, int(t[5]) + 1))
        after = lst(fs)
        mine = [x for x in after if x.split(":")[0] == enc(rel)]
        if not c.keep:
            if mine:
                return ("aborted upload (peer ERROR after %s blocks) left its partial file although clean-on-error is in force" % t[5], "abort-not-cleaned")
        else:
            if not mine:
                if rel in c.dirs or rel.rsplit("/", 1)[0] not in c.dirs and "/" in rel:
                    return None   # the file could never be created (missing parent)
                return ("aborted upload removed its partial file although --keep-on-error was given", "abort-removed-despite-keep")
            ln = int(mine[0].split(":")[1])
            if ln > len(sent) or mine[0] != "%s:%d:%d" % (enc(rel), ln, fnv(sent[:ln])):
                return ("kept partial file is not a prefix of the bytes sent", "abort-not-prefix")
        return None

    def nontrivial(self, line, impl):
        return line.startswith(("dupwrq", "abort", "req ")) or " | " in impl

    def classify(self, line, impl, res):
        if line.startswith("abort"):
            res.count("server-abort:flags=" + line.split(" ")[2])
        elif line.startswith("dupwrq"):
            res.count("dupwrq:clean=" + line.split(" ")[3])
        elif line.startswith("req "):
            res.count("unaccepted-request:flags=" + line.split(" ")[2])
        else:
            WorkerProp.classify(self, line, impl, res)

    def shrink(self, line):
        return [] if line.startswith(("dupwrq", "abort", "req ")) else WorkerProp.shrink(self, line)
