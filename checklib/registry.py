import json, os
from . import core


def _all():
    from . import p_codec, p_worker, p_server, p_config, p_loop
    return [p_codec.C11(), p_codec.C10(), p_worker.C18(), p_worker.C01(), p_worker.C07(), p_worker.C08(),
            p_worker.C02(), p_worker.C15(), p_worker.C16(), p_worker.C13(),
            p_server.C03(), p_server.C06(), p_server.C09(), p_server.C05(), p_server.C12(), p_config.C17(), p_loop.C04(), p_loop.C14()]


def get(pid):
    with open(os.path.join(core.LEAN, "obligations.json")) as f:
        obl = json.load(f)
    for p in _all():
        if p.id == pid:
            p.theorems = obl.get(pid, [])
            return p
    return None
