import json, os
from . import core


def _all():
    from . import p_codec
    return [p_codec.C11(), p_codec.C10()]


def get(pid):
    with open(os.path.join(core.LEAN, "obligations.json")) as f:
        obl = json.load(f)
    for p in _all():
        if p.id == pid:
            p.theorems = obl.get(pid, [])
            return p
    return None
