"""Independent reference codec written from RFC 1350 / 2347 (used as oracle, never as model)."""
OPT_NAMES = ["blksize", "tsize", "timeout", "windowsize"]


def hx(b):
    return b.hex() if b else "-"


def unhx(s):
    return b"" if s == "-" else bytes.fromhex(s)


def opts_text(opts):
    return ",".join("%s:%d" % (n, v) for n, v in opts) if opts else "-"


def canon(p):
    k = p[0]
    if k in ("rrq", "wrq"):
        return "%s %s %s %s" % (k, hx(p[1]), hx(p[2]), opts_text(p[3]))
    if k == "data":
        return "data %d %s" % (p[1], hx(p[2]))
    if k == "ack":
        return "ack %d" % p[1]
    if k == "error":
        return "error %d %s" % (p[1], hx(p[2]))
    if k == "oack":
        return "oack %s" % opts_text(p[1])
    raise ValueError(k)


def enc_opts(opts):
    out = b""
    for n, v in opts:
        out += n.encode() + b"\0" + str(v).encode() + b"\0"
    return out


def encode(p):
    k = p[0]
    if k == "rrq":
        return b"\0\1" + p[1] + b"\0" + p[2] + b"\0" + enc_opts(p[3])
    if k == "wrq":
        return b"\0\2" + p[1] + b"\0" + p[2] + b"\0" + enc_opts(p[3])
    if k == "data":
        return b"\0\3" + p[1].to_bytes(2, "big") + p[2]
    if k == "ack":
        return b"\0\4" + p[1].to_bytes(2, "big")
    if k == "error":
        return b"\0\5" + p[1].to_bytes(2, "big") + p[2] + b"\0"
    if k == "oack":
        return b"\0\6" + enc_opts(p[1])
    raise ValueError(k)


def is_utf8(b):
    try:
        b.decode("utf-8")
        return True
    except UnicodeDecodeError:
        return False


def must_reject(buf):
    """Reason string when the RFCs (and property C10) require the datagram to be rejected, else None.
    Only the rejection classes the property names are decided here."""
    if len(buf) < 2:
        return "shorter than opcode"
    op = int.from_bytes(buf[:2], "big")
    if op < 1 or op > 6:
        return "unknown opcode"
    if op in (3, 4, 5) and len(buf) < 4:
        return "shorter than fixed header"
    if op == 5 and int.from_bytes(buf[2:4], "big") > 7:
        return "unknown error code"
    if op in (1, 2, 6):
        rest = buf[2:]
        fields = []
        if op in (1, 2):
            for _ in range(2):
                i = rest.find(b"\0")
                if i < 0:
                    return "missing NUL terminator"
                fields.append(rest[:i])
                rest = rest[i + 1:]
        while rest:
            i = rest.find(b"\0")
            if i < 0:
                return "missing NUL terminator"
            name, rest = rest[:i], rest[i + 1:]
            i = rest.find(b"\0")
            if i < 0:
                return "missing NUL terminator"
            val, rest = rest[:i], rest[i + 1:]
            if not (is_utf8(name) and is_utf8(val)):
                return None  # strings that are not text: outside the clauses decided here
            if name.decode().lower() in OPT_NAMES:
                v = val[1:] if val[:1] == b"+" else val
                if not v or not all(48 <= c <= 57 for c in v):
                    return "non-numeric value for recognised option"
                if int(v) >= 2 ** 64:
                    return "option value out of range"
    return None
