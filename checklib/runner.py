"""Generic decision procedure of one check run (DESIGN.md section 4)."""
import json, os, random, shutil, sys, time
from . import core
from .core import log


class Prop:
    """Base class of a property check."""
    id = "C00"
    module = "Tftp.Props.C00"      # Lean module holding the property theorems
    theorems = []                  # fully qualified theorem names (proof obligations)
    rule = ""
    assumptions = []
    impl_env = None
    retry_env = None        # set for real-time (UDP) observations: suspicious cases are re-run with this env
    parallel = 1
    sandbox = None
    needs_bins = False
    search_seconds = 60

    def chunk_of(self, line):
        return 0

    def corpus(self):
        """Directed / past-failure cases, run first."""
        p = os.path.join(core.VERIF, "corpus", self.id)
        lines = []
        if os.path.isdir(p):
            for fn in sorted(os.listdir(p)):
                if fn.endswith(".case"):
                    with open(os.path.join(p, fn)) as f:
                        for l in f:
                            l = l.strip()
                            if l and not l.startswith("#"):
                                lines.append(l)
        return lines

    def generate(self, tier, rng):
        return []

    def search(self, rng, around):
        """Deeper generators used when an obligation or the correspondence broke."""
        return self.generate("thorough", rng)

    def oracle(self, line, impl):
        """implcheck: None if the implementation's observation satisfies the property on this case,
        else (clause, key)."""
        return None

    def nontrivial(self, line, impl):
        return True

    def classify(self, line, impl, res):
        pass

    def shrink(self, line):
        return []

    def compare(self, line, model, impl):
        """True when model and implementation agree on this case."""
        return model == impl

    def extra_checks(self, res, workdir, tier, rng):
        """Hook for checks that do not fit the line protocol (process level). Returns list of
        (line, impl, clause, key) violations."""
        return []


def run_impl_for(prop, lines, workdir, env):
    if prop.parallel > 1 and len(lines) > 1:
        return core.run_impl_parallel(lines, workdir, env, prop.parallel, prop.chunk_of)
    return core.run_impl(lines, workdir, env)


def evaluate(prop, lines, res, workdir, record=True):
    model = core.run_model(lines, workdir)
    impl = run_impl_for(prop, lines, workdir, prop.impl_env)
    if prop.retry_env:
        # real-time observations: anything that looks wrong is observed again with generous waits, sequentially
        sus = [k for k, (l, m, i) in enumerate(zip(lines, model, impl)) if prop.oracle(l, i) is not None or not prop.compare(l, m, i)]
        sus = sus[:60]   # beyond that something is broken anyway; keep the run short
        if sus:
            env = dict(prop.impl_env or {})
            env.update(prop.retry_env)
            again = core.run_impl([lines[k] for k in sus], workdir, env)
            for k, r in zip(sus, again):
                impl[k] = r
            if record:
                res.count("retried-with-long-waits", len(sus))
    viol, dis = [], []
    for l, m, i in zip(lines, model, impl):
        if record:
            res.evaluations += 1
            if prop.nontrivial(l, i):
                res.distinct.add(l)
            prop.classify(l, i, res)
        o = prop.oracle(l, i)
        if o is not None:
            viol.append((l, i, o[0], o[1], m))
        elif not prop.compare(l, m, i):
            dis.append((l, m, i))
    return viol, dis


def shrink_violation(prop, v, res, workdir, rounds=40):
    line, impl, clause, key, model = v
    for _ in range(rounds):
        cands = [c for c in prop.shrink(line) if c != line][:200]
        if not cands:
            break
        env = dict(prop.impl_env or {})
        if prop.retry_env:
            env.update(prop.retry_env)
        outs = core.run_impl(cands, workdir, env)
        found = None
        for c, o in zip(cands, outs):
            r = prop.oracle(c, o)
            if r is not None and r[1] == key:
                found = (c, o, r[0], r[1], None)
                break
        if found is None:
            break
        line, impl, clause, key, model = found
    if model is None:
        model = core.run_model([line], workdir)[0]
    return (line, impl, clause, key, model)


def run_property(prop, tier, seed, replay=None):
    res = core.Result(prop.id, tier, seed)
    rng = random.Random(seed)
    workdir = os.path.join(core.WORK, "%s-%d" % (prop.id, os.getpid()))
    shutil.rmtree(workdir, ignore_errors=True)
    os.makedirs(workdir)
    prop.sandbox = os.path.join(workdir, "sb")
    exit_code = 0
    out_lines = []
    try:
        info = core.build(prop.id, [prop.module], bins=prop.needs_bins)
        if info["driver_rc"] != 0 or info["harness_rc"] != 0:
            # the model driver or the harness does not build against the current tree: nothing can be compared
            which = "lean driver" if info["driver_rc"] != 0 else "harness (cargo build against /repo)"
            path = core.write_replay(prop.id, seed, {
                "property": prop.id, "kind": "build-failure", "what": which,
                "log": info["driver_log"] if info["driver_rc"] != 0 else info["harness_log"]})
            core.write_evidence(res, prop.theorems, [], {}, info, prop.rule, prop.assumptions, 1,
                                "lake build %s" % prop.module)
            print("VIOLATION property=%s replay=%s no-failing-input-found" % (prop.id, os.path.relpath(path, core.VERIF)))
            return 1

        # --- proof obligations
        scan = core.scan_sources()
        ok, bad, axioms, auditlog = core.audit(prop.id, prop.module, prop.theorems, workdir)
        if info["props_rc"] != 0:
            for t in prop.theorems:
                bad.setdefault(t, "module %s does not build" % prop.module)
            ok = [t for t in ok if t not in bad]
        if scan:
            bad["source-scan"] = "; ".join(scan[:5])
        if tier == "thorough" and not bad:
            rc, out = core.sh(["lake", "env", "leanchecker", prop.module], cwd=core.LEAN)
            res.extra["leanchecker_rc"] = rc
            if rc != 0:
                bad["leanchecker"] = out[-1500:]
        log("[%s] obligations %d/%d discharged (build %.1fs)" % (prop.id, len(ok), len(prop.theorems), info["build_s"]))

        # --- correspondence + implcheck
        if replay:
            with open(replay) as f:
                rp = json.load(f)
            lines = rp.get("cases") or [rp["case"]]
        else:
            lines = prop.corpus()
            res.extra["corpus_cases"] = len(lines)
            if not os.environ.get("VERIF_ONLY_CORPUS"):
                lines = lines + prop.generate(tier, rng)
        t1 = time.time()
        viol, dis = [], []
        CH = 20000
        for k in range(0, len(lines), CH):
            v, d = evaluate(prop, lines[k:k + CH], res, workdir)
            viol += v
            dis += d
        viol += [(l, i, c, k, "") for (l, i, c, k) in prop.extra_checks(res, workdir, tier, rng)]
        # (an empty model observation marks a process-level finding: reported as is)
        res.extra["correspondence_s"] = round(time.time() - t1, 1)
        for l in lines[:3] + lines[len(lines) // 2: len(lines) // 2 + 3] + lines[-3:]:
            res.samples.append(l if len(l) < 400 else l[:400] + "...")
        res.disagreements = dis
        log("[%s] %d cases, %d disagreements, %d implcheck failures (%.1fs)" % (
            prop.id, res.evaluations, len(dis), len(viol), time.time() - t1))

        # --- search when something broke without a concrete failing input so far
        if (bad or dis) and not viol and not replay:
            log("[%s] searching for a failing input (cap %ds)" % (prop.id, prop.search_seconds))
            t2 = time.time()
            around = [d[0] for d in dis[:20]]
            srng = random.Random(seed + 7919)
            while time.time() - t2 < prop.search_seconds and not viol:
                more = prop.search(srng, around)
                if not more:
                    break
                v, _ = evaluate(prop, more, res, workdir, record=False)
                res.evaluations += len(more)
                viol += v
            res.extra["search_s"] = round(time.time() - t2, 1)

        # --- verdict
        known = core.load_known()
        kn = {(k["property"], k["key"]): k for k in known.get("findings", [])}
        reported = set()
        nviol = 0
        for v in viol:
            key = v[3]
            if (prop.id, key) in kn:
                if key not in reported:
                    reported.add(key)
                    res.known.append(key)
                    out_lines.append("KNOWN-FINDING: property=%s %s" % (prop.id, kn[(prop.id, key)]["what"]))
                continue
            if key in reported:
                continue
            reported.add(key)
            sv = shrink_violation(prop, v, res, workdir) if v[4] != "" else v
            path = core.write_replay(prop.id, seed, {
                "property": prop.id, "kind": "implementation-violates-property",
                "case": sv[0], "implementation_observation": sv[1], "model_observation": sv[4],
                "violated_clause": sv[2], "key": sv[3], "original_case": v[0],
                "replay_cmd": "./check %s --replay <this file>" % prop.id})
            res.violations.append(sv)
            out_lines.append("VIOLATION property=%s replay=%s" % (prop.id, os.path.relpath(path, core.VERIF)))
            nviol += 1
            if nviol >= 5:
                break
        if nviol == 0 and (bad or dis):
            payload = {"property": prop.id, "kind": "proof-or-correspondence-broken",
                       "obligations_not_discharged": bad,
                       "correspondence_disagreements": [
                           {"case": d[0], "model": d[1], "implementation": d[2]} for d in dis[:10]],
                       "cases": [d[0] for d in dis[:10]],
                       "lean_log": info["props_log"][-3000:] if info["props_rc"] != 0 else "",
                       "note": "no input on which the implementation itself falsifies the property was found; "
                               "the property is no longer shown to hold"}
            path = core.write_replay(prop.id, seed, payload)
            out_lines.append("VIOLATION property=%s replay=%s no-failing-input-found" % (
                prop.id, os.path.relpath(path, core.VERIF)))
            nviol += 1
        exit_code = 1 if nviol else 0
        core.write_evidence(res, prop.theorems, ok, axioms, info, prop.rule, prop.assumptions, nviol,
                            "cd lean && lake build %s && lake env lean <audit file with #print axioms per theorem>" % prop.module)
    finally:
        shutil.rmtree(workdir, ignore_errors=True)
    for l in out_lines:
        print(l)
    if exit_code == 0:
        print("OK property=%s tier=%s cases=%d obligations=%d" % (prop.id, tier, res.evaluations, len(prop.theorems)))
    return exit_code
