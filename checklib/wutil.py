"""Parsing of worker-level case lines / observations and small protocol helpers (Python side)."""
MAX_RETRIES = 6


def fnv(b):
    h = 2166136261
    for x in b:
        h = ((h ^ x) * 16777619) & 0xFFFFFFFF
    return h


def gen_bytes(n, seed):
    return bytes((i * 31 + i // 251 + seed) % 256 for i in range(n))


def content(s):
    p = s.split(":")
    if p[0] == "gen":
        return gen_bytes(int(p[1]), int(p[2]))
    if p[0] == "zero":
        return bytes(int(p[1]))
    if p[0] == "pat":
        pat, n = bytes.fromhex(p[1]), int(p[2])
        return bytes(pat[i % len(pat)] for i in range(n))
    return b"" if s == "-" else bytes.fromhex(s)


def hx(b):
    return b.hex() if b else "-"


def blocks(f, b):
    """list of blocks 1..N (index 0 = block 1); b >= 1"""
    n = len(f) // b + 1
    return [f[i * b:(i + 1) * b] for i in range(n)]


class SCase:
    def __init__(self, line):
        t = line.split(" ")
        self.b, self.w, self.tmo, self.rep = int(t[1]), int(t[2]), int(t[3]), int(t[4])
        self.chk = t[5] == "1"
        self.file = content(t[6])
        self.events = []
        for e in t[7:]:
            if e[0] == "S" and e[1:].isdigit():
                continue       # cost of one send on the simulated clock: not an event
            if e == "T":
                self.events.append(("fail", None, self.tmo))
            else:
                k, dt = e.split("@")
                dt = int(dt)
                if k[0] == "A":
                    self.events.append(("ack", int(k[1:]), dt))
                elif k[0] == "E" and (len(k) == 1 or k[1:].isdigit()):
                    self.events.append(("error", None, dt))
                elif k == "O":
                    self.events.append(("other", None, dt))
                else:
                    self.events.append(("fail", None, dt))


def parse_obs(impl):
    """-> (groups, status, tail) ; groups = list of list of tokens"""
    if " => " not in impl:
        return None
    g, st = impl.rsplit(" => ", 1)
    groups = []
    if g != "-":
        for part in g.split(" | "):
            groups.append([] if part == "." else part.split(" "))
    return groups, st


def dtok(tok):
    """'D5:8:123' -> (5, 8, 123)"""
    p = tok[1:].split(":")
    return int(p[0]), int(p[1]), int(p[2])


class RCase:
    def __init__(self, line):
        t = line.split(" ")
        self.b, self.w, self.rep = int(t[1]), int(t[2]), int(t[3])
        self.clean = t[4] == "1"
        self.full = t[5] == "full"
        self.events = []
        for e in t[6:]:
            if e[0] == "D":
                n, p = e[1:].split(":", 1)
                self.events.append(("data", int(n), content(p)))
            elif e[0] == "E" and (len(e) == 1 or e[1:].isdigit()):
                self.events.append(("error", None, None))
            else:
                self.events.append(("fail", None, None))
