from exp import *
# E1: partial-window ACK at EOF -> extra empty block (C07)
p=start(6101)
open('/tmp/exp/srv/f','wb').write(b'A'*12)   # blksize 8: blocks 8,4
s=sock(1.5)
s.sendto(rq(1,'f',[('blksize',8),('windowsize',2),('timeout',1)]),('127.0.0.1',6101))
b,a=s.recvfrom(70000); print(show(b),a)
s.sendto(ack(0),a)
drain(s,'after ack0',2)
s.sendto(ack(1),a)   # partial ack
drain(s,'after ack1 (partial)',5,0.5)
s.sendto(ack(2),a)   # final ack
drain(s,'after ack2 (final)',10,2.5)
p.kill(); print(p.stdout.read().decode())
