from exp import *
# D7: upload w=8, failures interleaved with accepted blocks (garbage datagram = failed attempt)
p=start(6150)
s=sock(1.0)
s.sendto(rq(2,'up',[('windowsize',8),('timeout',2)]),('127.0.0.1',6150))
b,a=s.recvfrom(70000); print(show(b),a)
for k in range(1,8):
    s.sendto(data(k,b'x'*512),a)
    s.sendto(b'\x00\x09junk',a)      # undecodable -> `_` arm
    time.sleep(0.05)
drain(s,'replies',3,0.5)
print(os.listdir('/tmp/exp/srv'))
p.kill(); print(p.stdout.read().decode())
# D4b: ACK just beyond data sent aborts
p=start(6151)
open('/tmp/exp/srv/f','wb').write(b'A'*30)
s=sock(1.0)
s.sendto(rq(1,'f',[('blksize',8),('windowsize',2),('timeout',1)]),('127.0.0.1',6151))
b,a=s.recvfrom(70000); print(show(b),a)
s.sendto(ack(0),a); drain(s,'win',3,0.3)
s.sendto(ack(3),a); drain(s,'after ACK3 (beyond sent 1,2)',5,2.5)
p.kill(); print(p.stdout.read().decode())
# D5b: blksize=0 endless empties
p=start(6152)
open('/tmp/exp/srv/f','wb').write(b'A'*30)
s=sock(1.0)
s.sendto(rq(1,'f',[('blksize',0),('timeout',1)]),('127.0.0.1',6152))
b,a=s.recvfrom(70000); print(show(b),a)
s.sendto(ack(0),a)
for k in range(1,6):
    r=drain(s,'blk0',1,0.3); s.sendto(ack(k),a)
p.kill()
