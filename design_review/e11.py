from exp import *
import sys
for mode in ([],['-s']):
    p=start(6160,mode)
    open('/tmp/exp/srv/f','wb').write(bytes(range(40)))
    A=sock(0.5); I=sock(0.5)
    A.sendto(rq(1,'f',[('blksize',8),('timeout',2)]),('127.0.0.1',6160))
    b,a=A.recvfrom(70000); print(mode,show(b),a)
    A.sendto(ack(0),a); print(' A got',show(A.recvfrom(70000)[0]))
    # intruder: ACK / ERROR / DATA to transfer port and to listening port
    for tgt in (a,('127.0.0.1',6160)):
        for pkt in (ack(1), struct.pack('>HH',5,0)+b'die\0', data(1,b'zzz'), struct.pack('>H',6)+b'blksize\x008\x00'):
            I.sendto(pkt,tgt)
            try: r=I.recvfrom(70000); print('  intruder->%s %s reply: %s from %s'%(tgt[1],show(pkt),show(r[0]),r[1][1]))
            except (socket.timeout,ConnectionRefusedError) as e: print('  intruder->%s %s reply: none'%(tgt[1],show(pkt)))
    drain(A,' A sees meanwhile',5,0.3)
    got=b''
    for k in range(1,7):
        A.sendto(ack(k),a)
        try: d=A.recvfrom(70000)[0]; print(' A got',show(d)); got+=d[4:]
        except socket.timeout: break
    p.kill()
