from exp import *
p=start(6103)
open('/tmp/exp/srv/f','wb').write(b'A'*12)
s=sock(1.5)
s.sendto(rq(1,'f',[('blksize',8),('timeout',1)]),('127.0.0.1',6103))
b,a=s.recvfrom(70000); print(show(b),a)
s.sendto(struct.pack('>HH',5,0)+b'no\0',a)
drain(s,'after ERROR 0',10,3.5)
p.kill(); print(p.stdout.read().decode())
