from exp import *
# E3: upload; pretend ACK(1) was lost -> retransmit DATA1; does server re-ACK?
p=start(6104)
s=sock(1.2)
s.sendto(rq(2,'up',[('timeout',1)]),('127.0.0.1',6104))
b,a=s.recvfrom(70000); print(show(b),a)
s.sendto(data(1,b'x'*512),a)
b,_=s.recvfrom(70000); print(show(b), '(pretend lost)')
for i in range(7):
    s.sendto(data(1,b'x'*512),a)
    drain(s,'retransmit %d'%i,3,1.2)
print(os.listdir('/tmp/exp/srv'))
p.kill(); print(p.stdout.read().decode())
