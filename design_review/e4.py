from exp import *
import sys
mode=sys.argv[1:]
for val in [0,1,7,65465,70000,2**31,2**32,2**40,2**63,2**64-5,2**64-4,2**64-1]:
    p=start(6105,mode)
    open('/tmp/exp/srv/f','wb').write(b'A'*12)
    s=sock(1.0)
    s.sendto(rq(1,'f',[('blksize',val),('timeout',1)]),('127.0.0.1',6105))
    r=drain(s,'blksize=%d first'%val,1,1.0)
    if r and r[0][0].startswith('OACK'):
        s.sendto(ack(0),('127.0.0.1',r[0][1])); drain(s,'  data',3,0.5)
    time.sleep(0.2)
    s2=sock(1.0)
    s2.sendto(rq(1,'f'),('127.0.0.1',6105))
    drain(s2,'  probe',1,1.0)
    print('  alive' if p.poll() is None else '  DEAD rc=%s'%p.poll())
    p.kill(); out=p.stdout.read().decode(); print('  |'+out.replace('\n','\n  |')[-400:])
