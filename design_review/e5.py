from exp import *
import sys
BINR=sys.argv[1] if len(sys.argv)>1 else None
if BINR:
    import exp; exp.BIN=BINR
p=start(6106)
open('/tmp/exp/srv/f','wb').write(b'A'*20)  # blksize 8 -> 8,8,4
s=sock(1.0)
s.sendto(rq(1,'f',[('blksize',8),('windowsize',65535),('timeout',2)]),('127.0.0.1',6106))
b,a=s.recvfrom(70000); print(show(b),a)
s.sendto(ack(0),a)
drain(s,'window',5,0.4)
s.sendto(ack(1),a)
drain(s,'after ack1',5,0.4)
s.sendto(ack(1),a)   # duplicate ack
drain(s,'after DUP ack1',5,0.4)
s.sendto(ack(1),a)   # duplicate ack
drain(s,'after DUP ack1',5,0.4)
p.kill(); print(p.stdout.read().decode()[-600:])
