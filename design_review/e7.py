from exp import *
import sys
for mode in (['--overwrite'],['--overwrite','-s'],[],['-s']):
    p=start(6107,mode)
    s=sock(1.0)
    w=rq(2,'up',[('timeout',1)])
    s.sendto(w,('127.0.0.1',6107))
    s.sendto(w,('127.0.0.1',6107))   # retransmitted WRQ
    r=drain(s,str(mode)+' replies',3,0.5)
    # talk to the most recently accepted (last OACK)
    oacks=[x for x in r if x[0].startswith('OACK')]
    port=oacks[-1][1]
    s.sendto(data(1,b'hello'),('127.0.0.1',port))
    drain(s,'  final ack',2,0.5)
    print('  now:',os.listdir('/tmp/exp/srv'))
    time.sleep(7.5)
    print('  after stale worker timeout:',os.listdir('/tmp/exp/srv'))
    p.kill(); print('  |'+p.stdout.read().decode().replace('\n','\n  |'))
