from exp import *
import sys
mode=sys.argv[1:]
port=6110
for val in [255,256,2**31,2**32,2**62,2**63-2,2**63,2**64-2,2**64-1]:
    port+=1
    p=start(port,mode)
    open('/tmp/exp/srv/f','wb').write(b'A'*12)
    s=sock(1.0)
    s.sendto(rq(1,'f',[('timeout',val)]),('127.0.0.1',port))
    r=drain(s,'timeout=%d first'%val,1,1.0)
    if r and r[0][0].startswith('OACK'):
        s.sendto(ack(0),('127.0.0.1',r[0][1])); drain(s,'  data',3,0.5)
    time.sleep(0.2)
    s2=sock(1.0)
    s2.sendto(rq(1,'f'),('127.0.0.1',port))
    drain(s2,'  probe',1,1.0)
    print('  alive' if p.poll() is None else '  DEAD rc=%s'%p.poll())
    p.kill(); out=p.stdout.read().decode(); print('  |'+'\n  |'.join([l for l in out.split('\n') if 'rror' in l or 'panick' in l][:4]))
