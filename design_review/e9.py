from exp import *
import sys
mode=sys.argv[1:]
shutil.rmtree('/tmp/exp/root',ignore_errors=True); os.makedirs('/tmp/exp/root/srv/sub'); os.makedirs('/tmp/exp/root/srv-secret')
open('/tmp/exp/root/srv/f','wb').write(b'inside'); open('/tmp/exp/root/srv/sub/g','wb').write(b'sub'); open('/tmp/exp/root/secret','wb').write(b'SECRET'); open('/tmp/exp/root/srv-secret/s','wb').write(b'SECRET2')
p=subprocess.Popen([BIN,'-p','6140','-d','/tmp/exp/root/srv']+mode,stdout=subprocess.PIPE,stderr=subprocess.STDOUT); time.sleep(0.3)
names=['f','/f','\\f','//f','sub/g','sub\\g','sub//g','./f','../secret','/../secret','..\\secret','sub/../../secret','/tmp/exp/root/secret','/tmp/exp/root/srv-secret/s','../srv-secret/s','.','','sub','sub/','f/','a..b','..','...','f\\..\\..\\secret','%2e%2e/secret','~/x','C:\\x','/\\/\\f']
def snap():
    out={}
    for d,_,fs in os.walk('/tmp/exp/root'):
        for x in fs: out[os.path.join(d,x)]=open(os.path.join(d,x),'rb').read()
        out[d]=None
    return out
for op in (1,2):
    for n in names:
        before=snap()
        s=sock(0.3)
        s.sendto(rq(op,n),('127.0.0.1',6140))
        r=drain(s,'%s %r'%('RRQ' if op==1 else 'WRQ',n),1,0.3)
        if op==2 and r and r[0][0].startswith('ACK'):
            s.sendto(data(1,b'new'),('127.0.0.1',r[0][1])); drain(s,'   ',1,0.3)
        time.sleep(0.05)
        after=snap()
        diff={k:(before.get(k),after.get(k)) for k in set(before)|set(after) if before.get(k,'X')!=after.get(k,'X')}
        if diff: print('    FS DIFF',diff)
p.kill()
