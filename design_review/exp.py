import socket, struct, subprocess, time, os, sys, shutil
BIN=os.environ.get('TFTPD_BIN','/tmp/rs-target/debug/tftpd')
def start(port, extra=[]):
    shutil.rmtree('/tmp/exp/srv',ignore_errors=True); os.makedirs('/tmp/exp/srv')
    p=subprocess.Popen([BIN,'-p',str(port),'-d','/tmp/exp/srv']+extra,stdout=subprocess.PIPE,stderr=subprocess.STDOUT)
    time.sleep(0.3); return p
def rq(op,name,opts=[]):
    b=struct.pack('>H',op)+name.encode()+b'\0octet\0'
    for k,v in opts: b+=k.encode()+b'\0'+str(v).encode()+b'\0'
    return b
def ack(n): return struct.pack('>HH',4,n)
def data(n,d): return struct.pack('>HH',3,n)+d
def sock(t=1.0):
    s=socket.socket(socket.AF_INET,socket.SOCK_DGRAM); s.bind(('127.0.0.1',0)); s.settimeout(t); return s
def show(b):
    op=struct.unpack('>H',b[:2])[0]
    if op==3: return 'DATA %d len=%d'%(struct.unpack('>H',b[2:4])[0],len(b)-4)
    if op==4: return 'ACK %d'%struct.unpack('>H',b[2:4])[0]
    if op==5: return 'ERROR %d %r'%(struct.unpack('>H',b[2:4])[0],b[4:])
    if op==6: return 'OACK %r'%b[2:]
    return repr(b)
def drain(s,label,maxn=50,t=None):
    out=[]
    if t: s.settimeout(t)
    try:
        for _ in range(maxn):
            b,a=s.recvfrom(70000); out.append((show(b),a[1]))
    except socket.timeout: pass
    print(label,out); return out
