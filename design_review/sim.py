import itertools, sys
MAXR=6
class Sender:
    def __init__(s,f,b,w):
        s.f=f;s.b=b;s.w=w;s.bn=1;s.base=1;s.elems=[];s.pos=0;s.eof=False;s.status='run';s.retry=0;s.out=[]
        s.new_round()
    def fill(s):
        if s.eof: return False
        while len(s.elems)<s.w:
            c=s.f[s.pos:s.pos+s.b]; s.pos+=len(c)
            s.elems.append(c)
            if len(c)!=s.b: s.eof=True; return False
        return True
    def send_window(s):
        for i,c in enumerate(s.elems): s.out.append(('D',(s.bn+i)%65536,c,s.base+i))
    def new_round(s):
        s.filled=s.fill(); s.retry=0; s.send_window()
    def on(s,ev):   # ev: ('A',n) or 'T' (timeout)
        if s.status!='run': return
        if ev=='T':
            s.retry+=1
            if s.retry==MAXR: s.status='err'; return
            s.send_window(); return
        n=ev[1]; diff=(n-s.bn)%65536
        if diff<len(s.elems):
            s.bn=(n+1)%65536; s.base+=diff+1; del s.elems[:diff+1]
            if not s.filled and not s.elems: s.status='ok'; return
            s.new_round()
class Receiver:
    def __init__(s,b,w):
        s.b=b;s.w=w;s.bn=0;s.k=0;s.pend=[];s.file=b'';s.status='run';s.retry=0;s.out=[]
    def on(s,ev):
        if s.status!='run': return
        if ev=='T':
            s.retry+=1
            if s.retry==MAXR: s.status='err'
            return
        _,n,c,_abs=ev
        if n==(s.bn+1)%65536:
            s.bn=n; s.k+=1; s.pend.append(c)
            if len(c)<s.b or len(s.pend)==s.w:
                s.file+=b''.join(s.pend); s.pend=[]; s.out.append(('A',s.bn)); s.retry=0
                if len(c)<s.b: s.status='ok'
        else:
            s.file+=b''.join(s.pend); s.pend=[]; s.out.append(('A',s.bn))
def run(f,b,w,faults,rfirst=True):
    """faults: dict ordinal->'drop'|'dup'. returns outcome, quiescences, finalAckLost"""
    S=Sender(f,b,w); R=Receiver(b,w); qR=[];qS=[]; n=[0]; q=0; N=len(f)//b+1; finalAckLost=False
    def flush():
        nonlocal finalAckLost
        for (src,dst) in ((S,qR),(R,qS)):
            for p in src.out:
                ft=faults.get(n[0]); n[0]+=1
                if ft=='drop':
                    if p[0]=='A' and src is R and R.k==N: finalAckLost=True
                    continue
                dst.append(p)
                if ft=='dup': dst.append(p)
            src.out=[]
    flush()
    for step in range(100000):
        if S.status!='run' and (R.status!='run'): break
        if S.status!='run' and not qR and R.status=='run' and False: pass
        order=[(qR,R),(qS,S)] if rfirst else [(qS,S),(qR,R)]
        done=False
        for (qq,P) in order:
            if qq:
                ev=qq.pop(0); P.on(ev); flush(); done=True; break
        if not done:
            q+=1; S.on('T'); R.on('T'); flush()
            if S.status!='run' and R.status!='run': break
    return S.status,R.status,R.file==f,q,finalAckLost,n[0]
if __name__=='__main__':
    bad=0;tot=0
    for w in (1,2,3,4):
      for L in range(0,4*(w+2)+1):
        f=bytes((i*7+1)%251 for i in range(L)); b=2
        # count datagrams fault-free
        s=run(f,b,w,{}); assert s[:3]==('ok','ok',True) and s[3]==0,(w,L,s)
        nd=s[5]
        for rfirst in (True,False):
          for k in range(1,3):
            for pos in itertools.combinations(range(nd+6),k):
              for kinds in itertools.product(('drop','dup'),repeat=k):
                fl=dict(zip(pos,kinds)); r=run(f,b,w,fl,rfirst); tot+=1
                drops=sum(1 for x in kinds if x=='drop')
                ok = r[1]=='ok' and r[2] and (r[0]=='ok' or r[4])
                if not ok or (not r[4] and r[3]>drops):
                    bad+=1
                    if bad<10: print('BAD',w,L,fl,rfirst,r)
    print('total',tot,'bad',bad)
