import random
from sim import *
import sim
random.seed(1)
bad=0;tot=0;maxq=0
for it in range(30000):
    w=random.choice([1,2,3,5,8,13]); b=random.choice([1,2,3]); L=random.randrange(0,b*(3*w+3))
    f=bytes(random.randrange(256) for _ in range(L))
    nd=run(f,b,w,{})[5]
    k=random.randrange(0,6); kd=random.randrange(0,4)
    fl={}
    for _ in range(k): fl[random.randrange(nd+20)]='drop'
    for _ in range(kd):
        p=random.randrange(nd+20)
        if p not in fl: fl[p]='dup'
    drops=sum(1 for v in fl.values() if v=='drop')
    r=run(f,b,w,fl,random.random()<0.5); tot+=1; maxq=max(maxq,r[3])
    ok = r[1]=='ok' and r[2] and (r[0]=='ok' or r[4])
    if not ok or (not r[4] and r[3]>drops):
        bad+=1
        if bad<10: print('BAD',w,b,L,fl,r)
print('total',tot,'bad',bad,'maxq',maxq)
# sanity: pre-fix receiver (no re-ACK) fails under a single ACK loss
class OldReceiver(Receiver):
    def on(s,ev):
        if s.status!='run': return
        if ev!='T' and ev[1]!=(s.bn+1)%65536: return
        Receiver.on(s,ev)
sim.Receiver=OldReceiver
f=bytes(range(10)); nd=run(f,2,1,{})[5]
print([ (p,run(f,2,1,{p:'drop'})[:5]) for p in range(nd)])
