//! The library reports the outcome of a worker only by printing ("Sent …"/"Received …" on stdout,
//! "Error …" on stderr). fd 1 and fd 2 of the harness process are redirected to files so that the
//! harness can tell the two apart by the growth of the stderr file.
use std::fs::{File, OpenOptions};
use std::os::fd::AsRawFd;
use std::path::PathBuf;
use std::sync::OnceLock;

extern "C" {
    fn dup2(oldfd: i32, newfd: i32) -> i32;
}

static ERR_PATH: OnceLock<PathBuf> = OnceLock::new();
static OUT_PATH: OnceLock<PathBuf> = OnceLock::new();

pub fn init(dir: &std::path::Path) {
    let e = dir.join("stderr.txt");
    let o = dir.join("stdout.txt");
    let fe: File = OpenOptions::new().create(true).append(true).open(&e).unwrap();
    let fo: File = OpenOptions::new().create(true).append(true).open(&o).unwrap();
    unsafe {
        dup2(fe.as_raw_fd(), 2);
        dup2(fo.as_raw_fd(), 1);
    }
    std::mem::forget(fe);
    std::mem::forget(fo);
    ERR_PATH.set(e).unwrap();
    OUT_PATH.set(o).unwrap();
}

pub fn stderr_lines() -> u64 {
    std::fs::metadata(ERR_PATH.get().unwrap()).map(|m| m.len()).unwrap_or(0)
}

/// what was written to stderr after byte offset `from`
pub fn stderr_tail(from: u64) -> String {
    use std::io::{Read, Seek, SeekFrom};
    let mut f = match File::open(ERR_PATH.get().unwrap()) {
        Ok(f) => f,
        Err(_) => return String::new(),
    };
    let _ = f.seek(SeekFrom::Start(from));
    let mut s = String::new();
    let _ = f.read_to_string(&mut s);
    s
}

#[allow(dead_code)]
pub fn stdout_lines() -> u64 {
    std::fs::metadata(OUT_PATH.get().unwrap()).map(|m| m.len()).unwrap_or(0)
}

/// keeps the capture files from growing without bound
pub fn truncate() {
    let _ = OpenOptions::new().write(true).open(ERR_PATH.get().unwrap()).and_then(|f| f.set_len(0));
    let _ = OpenOptions::new().write(true).open(OUT_PATH.get().unwrap()).and_then(|f| f.set_len(0));
}
