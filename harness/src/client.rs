//! The real bundled client (`tftpd::Client`) against a scripted peer on loopback: the request it sends, what it
//! adopts from the first reply, and the first exchange of the data phase.
//!
//! `cli <d|u> <b> <w> <t> <clean> <name-hex> <content> <reply> <script>`
//!   reply  = oack:<k=v,...|-> | ack:<n> | err:<code> | data:<n>:<len>
//!   script = comma separated DATA lengths sent (numbered 1..) after the handshake of a download, or `-`
use crate::server::recv_packet;
use crate::util::*;
use std::net::{IpAddr, Ipv4Addr, SocketAddr, UdpSocket};
use std::path::PathBuf;
use std::time::Duration;
use tftpd::{Client, ClientConfig, ErrorCode, Mode, Packet};

fn slow() -> bool {
    std::env::var("HARNESS_SLOW").is_ok()
}
fn quiet() -> Duration {
    Duration::from_millis(if slow() { 300 } else { 25 })
}

pub fn cli_line(toks: &[&str]) -> String {
    if toks.len() != 10 {
        return "bad-op".into();
    }
    let upload = toks[1] == "u";
    let (Ok(b), Ok(w), Ok(t)) = (toks[2].parse::<usize>(), toks[3].parse::<u16>(), toks[4].parse::<u64>()) else {
        return "bad-op".into();
    };
    let clean = toks[5] == "1";
    let Some(name_b) = unhex(toks[6]) else { return "bad-op".into() };
    let Ok(name) = String::from_utf8(name_b) else { return "bad-op".into() };
    let content = if toks[7] == "-" { vec![] } else {
        match parse_content(toks[7]) { Some(c) => c, None => return "bad-op".into() }
    };
    // sandbox: <scratch>/cli/{rd/, <name>}; the client resolves its file argument against the current directory
    let root: PathBuf = scratch().join("cli");
    let _ = std::fs::remove_dir_all(&root);
    std::fs::create_dir_all(root.join("rd")).unwrap();
    let file_path = PathBuf::from(&name);
    if upload {
        let local = root.join(&file_path);
        if let Some(parent) = local.parent() {
            std::fs::create_dir_all(parent).unwrap();
        }
        std::fs::write(&local, &content).unwrap();
    }
    let old_cwd = std::env::current_dir().unwrap();
    std::env::set_current_dir(&root).unwrap();

    let peer = UdpSocket::bind("127.0.0.1:0").unwrap();
    let port = peer.local_addr().unwrap().port();
    let cfg = ClientConfig {
        remote_ip_address: IpAddr::V4(Ipv4Addr::LOCALHOST),
        port,
        blocksize: b,
        windowsize: w,
        timeout: Duration::from_secs(t),
        mode: if upload { Mode::Upload } else { Mode::Download },
        receive_directory: PathBuf::from("rd"),
        file_path: file_path.clone(),
        clean_on_error: clean,
    };
    let handle = std::thread::spawn(move || match Client::new(&cfg) {
        Ok(mut c) => match c.run() {
            Ok(()) => "ok",
            Err(_) => "err",
        },
        Err(_) => "noclient",
    });

    let mut out_req = "none".to_string();
    let mut conv: Vec<String> = vec![];
    let mut from: Option<SocketAddr> = None;
    let mut buf = vec![0u8; 70000];
    peer.set_read_timeout(Some(Duration::from_millis(if slow() { 3000 } else { 1500 }))).unwrap();
    if let Ok((n, addr)) = peer.recv_from(&mut buf) {
        out_req = hex(&buf[..n]);
        from = Some(addr);
    }
    if let Some(to) = from {
        // the first reply
        let rp: Vec<&str> = toks[8].splitn(2, ':').collect();
        let reply: Option<Packet> = match rp.as_slice() {
            ["oack", o] => parse_opts(o).map(Packet::Oack),
            ["ack", n] => n.parse().ok().map(Packet::Ack),
            ["err", c] => c.parse().ok().and_then(err_of_index).map(|code| Packet::Error { code, msg: "refused".into() }),
            ["data", rest] => {
                let p: Vec<&str> = rest.split(':').collect();
                match p.as_slice() {
                    [n, l] => match (n.parse::<u16>(), l.parse::<usize>()) {
                        (Ok(n), Ok(l)) => Some(Packet::Data { block_num: n, data: gen_bytes(l, n as usize) }),
                        _ => None,
                    },
                    _ => None,
                }
            }
            _ => None,
        };
        let Some(reply) = reply else {
            std::env::set_current_dir(&old_cwd).unwrap();
            return "bad-op".into();
        };
        peer.send_to(&reply.serialize().unwrap(), to).unwrap();
        let mut note = |p: Result<Packet, ()>| match p {
            Ok(Packet::Ack(n)) => conv.push(format!("A{}", n)),
            Ok(Packet::Data { block_num, data }) => conv.push(format!("D{}:{}:{}", block_num, data.len(), fnv(&data))),
            Ok(Packet::Error { code, .. }) => conv.push(format!("E{}", err_index(&code))),
            Ok(other) => conv.push(format!("?{}", show_packet(&other))),
            Err(()) => conv.push("?undecodable".into()),
        };
        // whatever the client sends next (ACK 0 of a download, the first burst of an upload)
        while let Some((p, _, _)) = recv_packet(&peer, quiet()) {
            note(p);
        }
        if !upload && toks[9] != "-" {
            for (i, l) in toks[9].split(',').enumerate() {
                let Ok(l) = l.parse::<usize>() else { continue };
                let k = i + 1;
                let d = Packet::Data { block_num: (k % 65536) as u16, data: gen_bytes(l, k) };
                peer.send_to(&d.serialize().unwrap(), to).unwrap();
                while let Some((p, _, _)) = recv_packet(&peer, quiet()) {
                    note(p);
                }
            }
        }
        if upload && toks[9] == "R" {
            // the peer stays silent: within the negotiated timeout (plus slack) the client must send its window again
            let mut n = 0usize;
            let deadline = std::time::Instant::now() + Duration::from_millis(t * 1000 + 700);
            while std::time::Instant::now() < deadline {
                if let Some((p, _, _)) = recv_packet(&peer, Duration::from_millis(50)) {
                    if let Ok(Packet::Data { .. }) = p {
                        n += 1;
                    }
                }
            }
            conv.push(format!("R{}", n));
        }
        // end whatever is still running
        if !handle.is_finished() {
            let e = Packet::Error { code: ErrorCode::NotDefined, msg: "verif: end".into() };
            let _ = peer.send_to(&e.serialize().unwrap(), to);
        }
    }
    let res = handle.join().unwrap_or("panic");
    std::env::set_current_dir(&old_cwd).unwrap();
    // what is on disk afterwards
    let base = file_path.file_name().map(|s| s.to_string_lossy().to_string()).unwrap_or_default();
    let target = root.join("rd").join(&base);
    let file = if !upload && !base.is_empty() && target.is_file() {
        let c = std::fs::read(&target).unwrap_or_default();
        format!("{}:{}", c.len(), fnv(&c))
    } else {
        "none".to_string()
    };
    // anything else in the receive directory
    let mut extra: Vec<String> = vec![];
    if let Ok(rd) = std::fs::read_dir(root.join("rd")) {
        for e in rd.flatten() {
            let n = e.file_name().to_string_lossy().to_string();
            if file != "none" && n == base {
                continue;
            }
            let len = e.metadata().map(|m| m.len()).unwrap_or(0);
            extra.push(format!("{}:{}", hex(n.as_bytes()), len));
        }
    }
    extra.sort();
    let _ = std::fs::remove_dir_all(&root);
    format!(
        "req={} ; res={} ; conv={} ; file={} ; extra={}",
        out_req,
        res,
        if conv.is_empty() { "-".to_string() } else { conv.join(" ") },
        file,
        if extra.is_empty() { "-".to_string() } else { extra.join(",") }
    )
}
