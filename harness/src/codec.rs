use crate::util::*;
use std::str::FromStr;
use tftpd::{ErrorCode, Opcode, OptionType, Packet};

fn opcode_name(o: &Opcode) -> &'static str {
    match o {
        Opcode::Rrq => "rrq",
        Opcode::Wrq => "wrq",
        Opcode::Data => "data",
        Opcode::Ack => "ack",
        Opcode::Error => "error",
        Opcode::Oack => "oack",
    }
}

pub fn line(toks: &[&str]) -> String {
    match toks {
        ["dec", h] => {
            let Some(b) = unhex(h) else { return "bad-op".into() };
            match Packet::deserialize(&b) {
                Ok(p) => match p.serialize() {
                    Ok(e) => {
                        let re = match Packet::deserialize(&e) {
                            Ok(q) if q == p => "same",
                            _ => "diff",
                        };
                        format!("ok {} enc={} re={}", show_packet(&p), hex(&e), re)
                    }
                    Err(_) => format!("ok {} enc=ERR", show_packet(&p)),
                },
                Err(_) => "err".into(),
            }
        }
        ["enc", rest @ ..] => {
            let Some(p) = parse_packet(rest) else { return "bad-op".into() };
            match p.serialize() {
                Ok(e) => hex(&e),
                Err(_) => "ERR".into(),
            }
        }
        ["opc", n] => {
            let Ok(k) = n.parse::<u32>() else { return "bad-op".into() };
            if k > 65535 {
                return "none".into();
            }
            match Opcode::from_u16(k as u16) {
                Ok(o) => {
                    let name = opcode_name(&o);
                    format!("some {} {}", name, hex(&o.as_bytes()))
                }
                Err(_) => "none".into(),
            }
        }
        ["erc", n] => {
            let Ok(k) = n.parse::<u32>() else { return "bad-op".into() };
            if k > 65535 {
                return "none".into();
            }
            match ErrorCode::from_u16(k as u16) {
                Ok(c) => format!("some {} {}", err_index(&c), hex(&c.as_bytes())),
                Err(_) => "none".into(),
            }
        }
        ["optname", h] => {
            let Some(b) = unhex(h) else { return "bad-op".into() };
            let Ok(s) = String::from_utf8(b) else { return "invalid-utf8".into() };
            match OptionType::from_str(s.to_lowercase().as_str()) {
                Ok(t) => format!("some {} {}", opt_name(&t), hex(t.as_str().as_bytes())),
                Err(_) => "none".into(),
            }
        }
        ["utf8", h] => {
            let Some(b) = unhex(h) else { return "bad-op".into() };
            if String::from_utf8(b).is_ok() { "1".into() } else { "0".into() }
        }
        ["pusize", h] => {
            let Some(b) = unhex(h) else { return "bad-op".into() };
            let Ok(s) = String::from_utf8(b) else { return "invalid-utf8".into() };
            match s.parse::<usize>() {
                Ok(n) => format!("some {}", n),
                Err(_) => "none".into(),
            }
        }
        ["todec", n] => {
            let Ok(k) = n.parse::<usize>() else { return "bad-op".into() };
            hex(k.to_string().as_bytes())
        }
        _ => "bad-op".into(),
    }
}
