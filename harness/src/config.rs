//! `Config::new` / `ClientConfig::new` on argument vectors.
use crate::util::*;
use std::net::IpAddr;
use tftpd::{ClientConfig, Config, Mode};

fn b01(b: bool) -> &'static str {
    if b {
        "1"
    } else {
        "0"
    }
}

fn path_hex(p: &std::path::Path, cwd_name: &str) -> String {
    use std::os::unix::ffi::OsStrExt;
    if let Ok(cwd) = std::env::current_dir() {
        if p == cwd && !cwd_name.is_empty() {
            return cwd_name.to_string();
        }
    }
    hex(p.as_os_str().as_bytes())
}

fn ip_hex(ip: &IpAddr, default: &str) -> String {
    if ip.to_string() == default {
        // the default cannot be told from an explicit 127.0.0.1; the generator never passes it explicitly
        "-".to_string()
    } else {
        hex(ip.to_string().as_bytes())
    }
}

pub fn cfg_line(toks: &[&str]) -> String {
    if toks.len() < 3 {
        return "bad-op".into();
    }
    let mut args = vec![];
    for t in &toks[3..] {
        let Some(b) = unhex(t) else { return "bad-op".into() };
        let Ok(s) = String::from_utf8(b) else { return "bad-op".into() };
        args.push(s);
    }
    if toks[1] == "S" {
        match Config::new(args.into_iter()) {
            Err(_) => "err".into(),
            Ok(c) => format!(
                "ok ip={},port={},dir={},rd={},sd={},single={},ro={},dup={},ow={},clean={}",
                ip_hex(&c.ip_address, "127.0.0.1"),
                c.port,
                path_hex(&c.directory, "CWD"),
                path_hex(&c.receive_directory, "CWD"),
                path_hex(&c.send_directory, "CWD"),
                b01(c.single_port),
                b01(c.read_only),
                c.duplicate_packets,
                b01(c.overwrite),
                b01(c.clean_on_error)
            ),
        }
    } else {
        match ClientConfig::new(args.into_iter()) {
            Err(_) => "err".into(),
            Ok(c) => format!(
                "ok ip={},port={},b={},w={},t={},up={},rd={},file={},clean={}",
                ip_hex(&c.remote_ip_address, "127.0.0.1"),
                c.port,
                c.blocksize,
                c.windowsize,
                c.timeout.as_secs(),
                b01(c.mode == Mode::Upload),
                path_hex(&c.receive_directory, ""),
                path_hex(&c.file_path, ""),
                b01(c.clean_on_error)
            ),
        }
    }
}
