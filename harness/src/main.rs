//! Correspondence harness: runs the real rs-tftpd code on line-protocol cases.
mod codec;
mod util;

use std::fs::File;
use std::io::{BufRead, BufReader, BufWriter, Write};

fn dispatch(line: &str) -> String {
    let toks: Vec<&str> = line.split_whitespace().collect();
    if toks.is_empty() {
        return String::new();
    }
    match toks[0] {
        "dec" | "enc" | "opc" | "erc" | "optname" | "utf8" | "pusize" | "todec" => codec::line(&toks),
        _ => "bad-op".to_string(),
    }
}

fn main() {
    let args: Vec<String> = std::env::args().collect();
    if args.len() < 4 || args[1] != "exec" {
        eprintln!("usage: harness exec <cases> <out>");
        std::process::exit(2);
    }
    // silence the panic messages of caught panics
    std::panic::set_hook(Box::new(|_| {}));
    let input = BufReader::new(File::open(&args[2]).expect("cases"));
    let mut out = BufWriter::new(File::create(&args[3]).expect("out"));
    for line in input.lines() {
        let line = line.expect("line");
        let res = std::panic::catch_unwind(|| dispatch(&line)).unwrap_or_else(|_| "panic".to_string());
        writeln!(out, "{}", res).unwrap();
    }
}
