//! Correspondence harness: runs the real rs-tftpd code on line-protocol cases.
mod capture;
mod client;
mod codec;
mod multi;
mod netloop;
mod config;
mod server;
mod util;
mod worker;

use std::fs::File;
use std::io::{BufRead, BufReader, BufWriter, Write};

fn dispatch(line: &str) -> String {
    let toks: Vec<&str> = line.split_whitespace().collect();
    if toks.is_empty() {
        return String::new();
    }
    match toks[0] {
        "dec" | "enc" | "opc" | "erc" | "optname" | "utf8" | "pusize" | "todec" => codec::line(&toks),
        "win" => worker::win_line(&toks),
        "snd" => {
            tftpd::verif::set_virtual(true);
            let r = worker::snd_line(&toks);
            tftpd::verif::set_virtual(false);
            r
        }
        "rcv" => worker::rcv_line(&toks),
        "dupwrq" => worker::dupwrq_line(&toks),
        "req" => server::req_line(&toks),
        "cfg" => config::cfg_line(&toks),
        "loop" => {
            tftpd::verif::set_virtual(true);
            let r = netloop::loop_line(&toks);
            tftpd::verif::set_virtual(false);
            r
        }
        "storm" => server::storm_line(&toks),
        "abort" => server::abort_line(&toks),
        "timing" => server::timing_line(&toks),
        "errstop" => server::errstop_line(&toks),
        "wrqsilent" => server::wrqsilent_line(&toks),
        "staleretx" => server::staleretx_line(&toks),
        "quiet" => server::quiet_line(&toks),
        "multi" => multi::multi_line(&toks),
        "cli" => client::cli_line(&toks),
        _ => "bad-op".to_string(),
    }
}

fn main() {
    let args: Vec<String> = std::env::args().collect();
    if args.len() < 4 || args[1] != "exec" {
        eprintln!("usage: harness exec <cases> <out>");
        std::process::exit(2);
    }
    // silence the panic messages of caught panics
    std::panic::set_hook(Box::new(|_| {}));
    std::fs::create_dir_all(util::scratch()).unwrap();
    capture::init(&util::scratch());
    let input = BufReader::new(File::open(&args[2]).expect("cases"));
    let mut out = BufWriter::new(File::create(&args[3]).expect("out"));
    for (i, line) in input.lines().enumerate() {
        let line = line.expect("line");
        if i % 2000 == 1999 {
            capture::truncate();
        }
        let res = std::panic::catch_unwind(|| dispatch(&line)).unwrap_or_else(|_| "panic".to_string());
        writeln!(out, "{}", res).unwrap();
        out.flush().unwrap();
    }
    let _ = std::fs::remove_dir_all(util::scratch());
}
