//! Several scripted clients against the in-process server, interleaved turn by turn under a schedule.
use crate::server::*;
use crate::util::*;
use std::net::{SocketAddr, UdpSocket};
use std::path::PathBuf;
use std::time::Duration;
use tftpd::{ErrorCode, OptionType, Packet, TransferOption};

fn slow() -> bool {
    std::env::var("HARNESS_SLOW").is_ok()
}
fn quiet() -> Duration {
    Duration::from_millis(if slow() { 400 } else { 12 })
}

enum Kind {
    Down { name: String, b: usize, w: usize, twice: bool, jam: bool },
    Up { name: String, b: usize, w: usize, content: Vec<u8>, lossy: bool, vandal: bool },
    Intruder { what: String },
    /// sends datagrams (well-formed or not) from its own endpoint to the endpoint that serves client `victim`
    Stranger { victim: usize, what: String },
    /// replaces a served file on disk when its turn comes
    Mutate { name: String, content: Vec<u8> },
}

struct Client {
    kind: Kind,
    sock: UdpSocket,
    peer: Option<SocketAddr>,
    started: bool,
    done: bool,
    result: String,
    // download
    got: Vec<u8>,
    expected: u32,
    // upload
    acked: usize, // blocks acknowledged
    src_class: String,
    idle_turns: u32,
    /// further transfers this client performs from the SAME socket, one after the other
    queue: Vec<Kind>,
    results: Vec<String>,
    /// lossy upload: the window base for which an acknowledgement has already been 'lost'
    lost_at: Option<usize>,
    jammed: bool,
    /// download: the tsize value of the server's OACK
    tsize: Option<usize>,
}

fn opts(b: usize, w: usize) -> Vec<TransferOption> {
    vec![
        TransferOption { option: OptionType::BlockSize, value: b },
        TransferOption { option: OptionType::Windowsize, value: w },
    ]
}

impl Client {
    fn send(&self, p: &Packet, to: SocketAddr) {
        let _ = self.sock.send_to(&p.serialize().unwrap(), to);
    }

    fn note_src(&mut self, from: &SocketAddr, listener: &SocketAddr) {
        let c = if from == listener { "L" } else { "T" };
        if !self.src_class.contains(c) {
            self.src_class.push_str(c);
        }
    }

    /// one turn; a client that has heard nothing for 8 consecutive turns gives up ("stalled": its transfer is dead)
    fn turn(&mut self, listener: SocketAddr) {
        if self.done {
            return;
        }
        if matches!(self.kind, Kind::Stranger { .. } | Kind::Mutate { .. }) {
            // driven by `stranger_turn`; never "stalled"
            return;
        }
        let before = (self.got.len(), self.acked, self.peer.is_some(), self.expected);
        self.turn_inner(listener);
        if self.done {
            if !self.queue.is_empty() {
                // the next transfer of this client, from the same endpoint
                self.results.push(self.result.clone());
                self.kind = self.queue.remove(0);
                self.peer = None;
                self.started = false;
                self.done = false;
                self.result = "unfinished".into();
                self.got.clear();
                self.expected = 1;
                self.acked = 0;
                self.lost_at = None;
                self.tsize = None;
                self.src_class.clear();
                self.idle_turns = 0;
                // whatever the finished transfer still has in flight is not part of the next one
                std::thread::sleep(quiet());
                while recv_packet(&self.sock, Duration::from_millis(1)).is_some() {}
            }
            return;
        }
        let after = (self.got.len(), self.acked, self.peer.is_some(), self.expected);
        if before == after {
            self.idle_turns += 1;
            if self.idle_turns >= 8 {
                self.result = format!("stalled:{}:{}", self.got.len(), self.acked);
                self.done = true;
            }
        } else {
            self.idle_turns = 0;
        }
    }

    /// send what is due, then read everything that arrives until quiet
    fn turn_inner(&mut self, listener: SocketAddr) {
        if self.done {
            return;
        }
        match &self.kind {
            Kind::Stranger { .. } => {}
            Kind::Intruder { what } => {
                let p = match what.as_str() {
                    "ack" => Packet::Ack(7),
                    "data" => Packet::Data { block_num: 3, data: vec![1, 2, 3] },
                    // `dataN`: a DATA packet with N payload bytes (as large as, or larger than, the listener's receive buffer)
                    d if d.starts_with("data") && d[4..].parse::<usize>().is_ok() => {
                        Packet::Data { block_num: 1, data: vec![0x5a; d[4..].parse::<usize>().unwrap()] }
                    }
                    "err" => Packet::Error { code: ErrorCode::NotDefined, msg: "x".into() },
                    _ => Packet::Oack(vec![]),
                };
                self.send(&p, listener);
                let mut res = "none".to_string();
                if let Some((Ok(Packet::Error { code, .. }), from, _)) = recv_packet(&self.sock, quiet() * 4) {
                    let cl = if from == listener { "L" } else { "T" };
                    res = format!("E{}{}", err_index(&code), cl);
                }
                self.result = res;
                self.done = true;
            }
            Kind::Down { name, b, w, twice, jam } => {
                let (b, w, twice, jam) = (*b, *w, *twice, *jam);
                if !self.started {
                    self.started = true;
                    let mut o = opts(b, w);
                    o.push(TransferOption { option: OptionType::TransferSize, value: 0 });
                    if twice {
                        o.push(TransferOption { option: OptionType::Timeout, value: 1 });
                    }
                    let p = Packet::Rrq { filename: name.clone(), mode: "octet".into(), options: o };
                    self.send(&p, listener);
                    if twice {
                        std::thread::sleep(Duration::from_millis(30));
                        self.send(&p, listener);
                    }
                } else if let Some(to) = self.peer {
                    if jam && !self.jammed {
                        // `J`: in the middle of its transfer the endpoint sends requests the server cannot accept (option values out of
                        // range: they are not even answered) - they start nothing and must not touch the running transfer
                        self.jammed = true;
                        for (o, v) in [(OptionType::BlockSize, 7usize), (OptionType::Timeout, 0), (OptionType::Windowsize, 0)] {
                            let bad = Packet::Rrq { filename: name.clone(), mode: "octet".into(), options: vec![TransferOption { option: o, value: v }] };
                            self.send(&bad, listener);
                        }
                        let badw = Packet::Wrq { filename: "jam-up".into(), mode: "octet".into(), options: vec![TransferOption { option: OptionType::BlockSize, value: 7 }] };
                        self.send(&badw, listener);
                        std::thread::sleep(Duration::from_millis(20));
                    }
                    self.send(&Packet::Ack(((self.expected - 1) % 65536) as u16), to);
                } else {
                    self.result = "noreply".into();
                    self.done = true;
                    return;
                }
                while let Some((p, from, _)) = recv_packet(&self.sock, quiet()) {
                    self.note_src(&from, &listener);
                    match p {
                        Ok(Packet::Oack(os)) => {
                            self.peer = Some(from);
                            for o in &os {
                                if o.option == OptionType::TransferSize {
                                    self.tsize = Some(o.value);
                                }
                            }
                        }
                        Ok(Packet::Data { block_num, data }) => {
                            self.peer = Some(from);
                            if block_num as u32 == self.expected % 65536 {
                                if twice && self.expected == 1 {
                                    // longer than the negotiated timeout: the stale worker of the first request copy ends meanwhile
                                    std::thread::sleep(Duration::from_millis(1400));
                                }
                                self.expected += 1;
                                let short = data.len() < b;
                                self.got.extend_from_slice(&data);
                                if short {
                                    self.send(&Packet::Ack(block_num), from);
                                    self.result = format!(
                                        "ok:{}:{}:{}:t{}",
                                        self.got.len(),
                                        fnv(&self.got),
                                        self.src_class,
                                        self.tsize.map(|v| v.to_string()).unwrap_or_else(|| "-".into())
                                    );
                                    self.done = true;
                                    return;
                                }
                            }
                        }
                        Ok(Packet::Error { code, .. }) => {
                            self.result = format!("err:{}:{}", err_index(&code), self.src_class);
                            self.done = true;
                            return;
                        }
                        _ => {}
                    }
                }
            }
            Kind::Mutate { .. } => {}
            Kind::Up { name, b, w, content, lossy, vandal } => {
                let (b, w, lossy, vandal) = (*b, *w, *lossy, *vandal);
                let nblocks = content.len() / b + 1;
                if !self.started {
                    self.started = true;
                    let p = Packet::Wrq { filename: name.clone(), mode: "octet".into(), options: opts(b, w) };
                    self.send(&p, listener);
                } else if let Some(to) = self.peer {
                    if vandal {
                        // `V`: ahead of every window the client's own endpoint sends a datagram that is no TFTP packet (first byte 1, then what
                        // would be a DATA header for the next expected block, three payload bytes): it is undecodable and must be ignored
                        let k = self.acked + 1;
                        let junk = [1u8, 3, ((k >> 8) & 255) as u8, (k & 255) as u8, 0x6a, 0x75, 0x6e];
                        let _ = self.sock.send_to(&junk, to);
                        std::thread::sleep(Duration::from_millis(3));
                    }
                    for k in self.acked..std::cmp::min(self.acked + w, nblocks) {
                        let lo = k * b;
                        let hi = std::cmp::min(lo + b, content.len());
                        self.send(&Packet::Data { block_num: ((k + 1) % 65536) as u16, data: content[lo..hi].to_vec() }, to);
                    }
                } else {
                    self.result = "noreply".into();
                    self.done = true;
                    return;
                }
                while let Some((p, from, _)) = recv_packet(&self.sock, quiet()) {
                    self.note_src(&from, &listener);
                    match p {
                        Ok(Packet::Oack(_)) | Ok(Packet::Ack(0)) if self.peer.is_none() => {
                            self.peer = Some(from);
                        }
                        Ok(Packet::Ack(n)) => {
                            // (never the acknowledgement of the final window: its loss is the one failure RFC 1350 permits)
                            if lossy && self.peer.is_some() && self.lost_at != Some(self.acked) && n != 0 && self.acked + w < nblocks {
                                // this acknowledgement (and its copies) never arrived: the window will be sent again
                                self.lost_at = Some(self.acked);
                                while recv_packet(&self.sock, quiet()).is_some() {}
                                return;
                            }
                            // cumulative: the number of the highest block received in sequence
                            let base = self.acked;
                            for k in base..std::cmp::min(base + w, nblocks) {
                                if ((k + 1) % 65536) as u16 == n {
                                    self.acked = k + 1;
                                }
                            }
                            if self.acked >= nblocks {
                                self.result = format!("ok:{}", self.src_class);
                                self.done = true;
                                return;
                            }
                        }
                        Ok(Packet::Error { code, .. }) => {
                            self.result = format!("err:{}:{}", err_index(&code), self.src_class);
                            self.done = true;
                            return;
                        }
                        _ => {}
                    }
                }
            }
        }
    }
}

/// a stranger's turn: seven datagrams to the endpoint that serves its victim (once that endpoint is known);
/// it gives up when the victim has finished
fn stranger_turn(clients: &mut [Client], i: usize) {
    let (victim, what) = match &clients[i].kind {
        Kind::Stranger { victim, what } => (*victim, what.clone()),
        _ => return,
    };
    if clients[i].done {
        return;
    }
    clients[i].result = "x".into();
    if victim >= clients.len() || victim == i || clients[victim].done {
        clients[i].done = true;
        return;
    }
    if let Some(to) = clients[victim].peer {
        let bytes: Vec<u8> = match what.as_str() {
            "empty" => vec![],
            "one" => vec![0],
            "opcode" => vec![0, 9, 1, 2, 3],
            "shortack" => vec![0, 4, 1],
            "noise" => vec![0xde, 0xad, 0xbe, 0xef, 1, 2, 3, 4, 5],
            "unterminated" => vec![0, 1, b'a', b'b'],
            "ack" => Packet::Ack(1).serialize().unwrap(),
            "data" => Packet::Data { block_num: 1, data: vec![9; 8] }.serialize().unwrap(),
            _ => Packet::Error { code: ErrorCode::NotDefined, msg: "x".into() }.serialize().unwrap(),
        };
        for _ in 0..7 {
            let _ = clients[i].sock.send_to(&bytes, to);
        }
        std::thread::sleep(Duration::from_millis(2));
        // drain whatever the server answered to the stranger (nobody's observation)
        while recv_packet(&clients[i].sock, Duration::from_millis(1)).is_some() {}
        clients[i].done = true;
    }
}

/// the turn of a `m:` entry: the named file of the served directory is replaced behind the server's back
fn mutate_turn(clients: &mut [Client], i: usize, root: &std::path::Path, fl: &Flags) {
    let (name, content) = match &clients[i].kind {
        Kind::Mutate { name, content } => (name.clone(), content.clone()),
        _ => return,
    };
    if clients[i].done {
        return;
    }
    let (sd, _rd) = served_dirs(root, fl);
    let _ = std::fs::write(sd.join(&name), &content);
    clients[i].result = "m".into();
    clients[i].done = true;
}

pub fn multi_line(toks: &[&str]) -> String {
    if toks.len() < 6 {
        return "bad-op".into();
    }
    let Some(root_b) = unhex(toks[1]) else { return "bad-op".into() };
    let root = PathBuf::from(String::from_utf8(root_b).unwrap());
    let fl = parse_flags(toks[2]);
    let port = server_port(&root, toks[2]);
    if !reset_sandbox(&root, &fl, toks[3]) {
        return "bad-op".into();
    }
    let listener: SocketAddr = listener_of(&fl, port);
    let mut clients = vec![];
    fn parse_kind(spec: &str) -> Option<Kind> {
        let p: Vec<&str> = spec.split(':').collect();
        Some(match p.as_slice() {
            ["d", name, b, w] => Kind::Down { name: name.to_string(), b: b.parse().unwrap_or(512), w: w.parse().unwrap_or(1), twice: false, jam: false },
            // `J`: a download whose endpoint sends unacceptable requests in the middle of it
            ["J", name, b, w] => Kind::Down { name: name.to_string(), b: b.parse().unwrap_or(512), w: w.parse().unwrap_or(1), twice: false, jam: true },
            // `D`: the request datagram is sent twice (timeout=1 negotiated) and the client pauses 1.4 s after its first DATA: the
            // worker started by the first copy gives up while the transfer started by the second is still running
            ["D", name, b, w] => Kind::Down { name: name.to_string(), b: b.parse().unwrap_or(512), w: w.parse().unwrap_or(1), twice: true, jam: false },
            ["u", name, b, w, rest @ ..] => {
                let c = parse_content(&rest.join(":"))?;
                Kind::Up { name: name.to_string(), b: b.parse().unwrap_or(512), w: w.parse().unwrap_or(1), content: c, lossy: false, vandal: false }
            }
            // `U`: an upload whose client "loses" the first acknowledgement of every window and sends the window again
            ["U", name, b, w, rest @ ..] => {
                let c = parse_content(&rest.join(":"))?;
                Kind::Up { name: name.to_string(), b: b.parse().unwrap_or(512), w: w.parse().unwrap_or(1), content: c, lossy: true, vandal: false }
            }
            // `V`: an upload whose client sends an undecodable look-alike of the next DATA block ahead of every window
            ["V", name, b, w, rest @ ..] => {
                let c = parse_content(&rest.join(":"))?;
                Kind::Up { name: name.to_string(), b: b.parse().unwrap_or(512), w: w.parse().unwrap_or(1), content: c, lossy: false, vandal: true }
            }
            // `m`: not a client - on its turn the file <name> of the served directory is replaced behind the server's back
            ["m", name, rest @ ..] => {
                let c = parse_content(&rest.join(":"))?;
                Kind::Mutate { name: name.to_string(), content: c }
            }
            ["i", what] => Kind::Intruder { what: what.to_string() },
            ["x", victim, what] => Kind::Stranger { victim: victim.parse().unwrap_or(0), what: what.to_string() },
            _ => return None,
        })
    }
    for spec in &toks[5..] {
        // `a+b`: transfer a, then transfer b from the same socket
        let mut kinds: Vec<Kind> = vec![];
        for sub in spec.split('+') {
            match parse_kind(sub) {
                Some(k) => kinds.push(k),
                None => return "bad-op".into(),
            }
        }
        let kind = kinds.remove(0);
        let queue = kinds;
        clients.push(Client {
            kind,
            sock: bind_client(&fl),
            peer: None,
            started: false,
            done: false,
            result: "unfinished".into(),
            got: vec![],
            expected: 1,
            acked: 0,
            src_class: String::new(),
            idle_turns: 0,
            queue,
            results: vec![],
            lost_at: None,
            jammed: false,
            tsize: None,
        });
    }
    for ch in toks[4].chars() {
        if let Some(i) = ch.to_digit(36) {
            if (i as usize) < clients.len() {
                stranger_turn(&mut clients, i as usize);
                mutate_turn(&mut clients, i as usize, &root, &fl);
                clients[i as usize].turn(listener);
            }
        }
    }
    // let everybody finish, round robin
    for _ in 0..400 {
        if clients.iter().all(|c| c.done) {
            break;
        }
        for i in 0..clients.len() {
            stranger_turn(&mut clients, i);
            mutate_turn(&mut clients, i, &root, &fl);
            clients[i].turn(listener);
        }
    }
    // tell the server to stop whatever is still running
    for c in &clients {
        if !c.done {
            if let Some(to) = c.peer {
                send_error(&c.sock, &to);
            }
        }
    }
    std::thread::sleep(Duration::from_millis(if slow() { 200 } else { 10 }));
    let res: Vec<String> = clients
        .iter()
        .enumerate()
        .map(|(i, c)| {
            let mut all = c.results.clone();
            all.push(c.result.clone());
            format!("c{}={}", i, all.join("|"))
        })
        .collect();
    format!("{} ; fs={}", res.join(" "), listing(&root))
}
