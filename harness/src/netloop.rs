//! Closed loop: the real `Worker::send` and the real `Worker::receive` connected by an in-memory FIFO
//! network with a fault schedule; time-outs are delivered only at quiescence (both sides blocked in
//! `recv`, nothing in flight), with the virtual clock advanced by the timeout on the sender's thread.
use crate::util::*;
use std::collections::VecDeque;
use std::error::Error;
use std::net::SocketAddr;
use std::sync::{Arc, Condvar, Mutex};
use std::time::Duration;
use tftpd::{Packet, Socket, Worker};

#[derive(Default)]
struct Side {
    waiting: bool,
    ended: bool,
    pending_timeout: bool,
}

struct Net {
    dq: VecDeque<Packet>,
    aq: VecDeque<Packet>,
    nd: usize,
    na: usize,
    timeouts: usize,
    s: Side,
    r: Side,
    drop_data: Vec<usize>,
    dup_data: Vec<usize>,
    drop_ack: Vec<usize>,
    dup_ack: Vec<usize>,
    deadlock: bool,
}

type Shared = Arc<(Mutex<Net>, Condvar)>;

struct LoopSock {
    net: Shared,
    is_sender: bool,
    timeout_ms: u64,
}

impl Socket for LoopSock {
    fn send(&self, p: &Packet) -> Result<(), Box<dyn Error>> {
        let (m, cv) = &*self.net;
        let mut n = m.lock().unwrap();
        let copy = |p: &Packet| match p {
            Packet::Data { block_num, data } => Packet::Data { block_num: *block_num, data: data.clone() },
            Packet::Ack(k) => Packet::Ack(*k),
            _ => Packet::Ack(0),
        };
        if self.is_sender {
            if let Packet::Data { .. } = p {
                let ord = n.nd;
                n.nd += 1;
                if !n.r.ended && !n.drop_data.contains(&ord) {
                    n.dq.push_back(copy(p));
                    if n.dup_data.contains(&ord) {
                        n.dq.push_back(copy(p));
                    }
                }
            }
        } else if let Packet::Ack(_) = p {
            let ord = n.na;
            n.na += 1;
            if !n.s.ended && !n.drop_ack.contains(&ord) {
                n.aq.push_back(copy(p));
                if n.dup_ack.contains(&ord) {
                    n.aq.push_back(copy(p));
                }
            }
        }
        cv.notify_all();
        Ok(())
    }
    fn send_to(&self, p: &Packet, _to: &SocketAddr) -> Result<(), Box<dyn Error>> {
        self.send(p)
    }
    fn recv_with_size(&self, _size: usize) -> Result<Packet, Box<dyn Error>> {
        let (m, cv) = &*self.net;
        let mut n = m.lock().unwrap();
        loop {
            // a time-out decided while this side was blocked comes first
            let mine_pending = if self.is_sender { n.s.pending_timeout } else { n.r.pending_timeout };
            if mine_pending {
                if self.is_sender {
                    n.s.pending_timeout = false;
                    n.s.waiting = false;
                    tftpd::verif::advance(Duration::from_millis(self.timeout_ms));
                } else {
                    n.r.pending_timeout = false;
                    n.r.waiting = false;
                }
                cv.notify_all();
                return Err("timeout".into());
            }
            let item = if self.is_sender { n.aq.pop_front() } else { n.dq.pop_front() };
            if let Some(p) = item {
                if self.is_sender {
                    n.s.waiting = false;
                } else {
                    n.r.waiting = false;
                }
                return Ok(p);
            }
            if self.is_sender {
                n.s.waiting = true;
            } else {
                n.r.waiting = true;
            }
            // quiescence: nothing in flight and the other side is blocked too (or gone)
            let other_idle = if self.is_sender {
                (n.r.waiting && !n.r.pending_timeout) || n.r.ended
            } else {
                (n.s.waiting && !n.s.pending_timeout) || n.s.ended
            };
            if n.dq.is_empty() && n.aq.is_empty() && other_idle {
                n.timeouts += 1;
                if n.timeouts > 100000 {
                    n.deadlock = true;
                }
                if n.s.waiting && !n.s.ended {
                    n.s.pending_timeout = true;
                }
                if n.r.waiting && !n.r.ended {
                    n.r.pending_timeout = true;
                }
                cv.notify_all();
                continue;
            }
            let (g, _) = cv.wait_timeout(n, Duration::from_millis(200)).unwrap();
            n = g;
        }
    }
    fn recv_from_with_size(&self, size: usize) -> Result<(Packet, SocketAddr), Box<dyn Error>> {
        Ok((self.recv_with_size(size)?, "127.0.0.1:1".parse().unwrap()))
    }
    fn remote_addr(&self) -> Result<SocketAddr, Box<dyn Error>> {
        Ok("127.0.0.1:1".parse().unwrap())
    }
    fn set_read_timeout(&mut self, _d: Duration) -> Result<(), Box<dyn Error>> {
        Ok(())
    }
    fn set_write_timeout(&mut self, _d: Duration) -> Result<(), Box<dyn Error>> {
        Ok(())
    }
}

fn nat_list(s: &str) -> Option<Vec<usize>> {
    if s == "-" {
        return Some(vec![]);
    }
    s.split(',').map(|x| x.parse().ok()).collect()
}

pub fn loop_line(toks: &[&str]) -> String {
    if toks.len() != 10 {
        return "bad-op".into();
    }
    let (Ok(b), Ok(w), Ok(tmo), Ok(rep), Some(content)) = (
        toks[1].parse::<usize>(),
        toks[2].parse::<u16>(),
        toks[3].parse::<u64>(),
        toks[4].parse::<u8>(),
        parse_content(toks[5]),
    ) else {
        return "bad-op".into();
    };
    let (Some(dd), Some(ud), Some(da), Some(ua)) = (nat_list(toks[6]), nat_list(toks[7]), nat_list(toks[8]), nat_list(toks[9])) else {
        return "bad-op".into();
    };
    let src = scratch().join(format!("loop-src-{}", std::process::id()));
    let dst = scratch().join(format!("loop-dst-{}", std::process::id()));
    let _ = std::fs::remove_file(&dst);
    std::fs::write(&src, &content).unwrap();
    let net: Shared = Arc::new((
        Mutex::new(Net {
            dq: VecDeque::new(),
            aq: VecDeque::new(),
            nd: 0,
            na: 0,
            timeouts: 0,
            s: Side::default(),
            r: Side::default(),
            drop_data: dd,
            dup_data: ud,
            drop_ack: da,
            dup_ack: ua,
            deadlock: false,
        }),
        Condvar::new(),
    ));
    let err_before = crate::capture::stderr_lines();
    let sw = Worker::new(
        Box::new(LoopSock { net: net.clone(), is_sender: true, timeout_ms: tmo }),
        src.clone(),
        true,
        b,
        Duration::from_millis(tmo),
        w,
        rep,
    );
    let rw = Worker::new(
        Box::new(LoopSock { net: net.clone(), is_sender: false, timeout_ms: tmo }),
        dst.clone(),
        true,
        b,
        Duration::from_millis(tmo),
        w,
        rep,
    );
    let hr = rw.receive().unwrap();
    let hs = sw.send(false).unwrap();
    let n1 = net.clone();
    let ts = std::thread::spawn(move || {
        let r = hs.join();
        let (m, cv) = &*n1;
        let mut n = m.lock().unwrap();
        n.s.ended = true;
        n.aq.clear();
        cv.notify_all();
        r.is_ok()
    });
    let n2 = net.clone();
    let tr = std::thread::spawn(move || {
        let r = hr.join();
        let (m, cv) = &*n2;
        let mut n = m.lock().unwrap();
        n.r.ended = true;
        n.dq.clear();
        cv.notify_all();
        r.is_ok()
    });
    let s_nopanic = ts.join().unwrap_or(false);
    let r_nopanic = tr.join().unwrap_or(false);
    let errs = crate::capture::stderr_tail(err_before);
    let s_status = if !s_nopanic { "panic" } else if errs.contains("while sending") { "failed" } else { "ok" };
    let r_status = if !r_nopanic { "panic" } else if errs.contains("while receiving") { "failed" } else { "ok" };
    let file = match std::fs::read(&dst) {
        Ok(c) => format!("{}:{}", c.len(), fnv(&c)),
        Err(_) => "none".to_string(),
    };
    let _ = std::fs::remove_file(&src);
    let _ = std::fs::remove_file(&dst);
    let n = net.0.lock().unwrap();
    format!(
        "s={} r={} file={} data={} acks={} timeouts={} over={}",
        s_status,
        r_status,
        file,
        n.nd,
        n.na,
        n.timeouts,
        if n.deadlock { 0 } else { 1 }
    )
}
