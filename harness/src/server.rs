//! In-process `Server::listen` on loopback with a sandbox tree; scripted request-level conversations.
use crate::util::*;
use std::collections::HashMap;
use std::net::{SocketAddr, UdpSocket};
use std::path::{Path, PathBuf};
use std::sync::Mutex;
use std::time::Duration;
use tftpd::{Config, ErrorCode, Packet, Server};

static SERVERS: Mutex<Option<HashMap<String, u16>>> = Mutex::new(None);

fn slow() -> bool {
    std::env::var("HARNESS_SLOW").is_ok()
}

fn ms(quick: u64, slow_ms: u64) -> Duration {
    Duration::from_millis(if slow() { slow_ms } else { quick })
}

pub struct Flags {
    pub single: bool,
    pub ro: bool,
    pub ow: bool,
    pub keep: bool,
    pub split: bool,
    pub many: bool,
    /// the server listens on ::1 and the scripted clients use ::1
    pub v6: bool,
    /// scripted clients bind a source port in 600..=1024 (a transfer identifier may be any port)
    pub lowport: bool,
    /// the served directories are handed to the server spelled with a trailing separator (`-d /srv/tftp/`)
    pub trailing: bool,
    pub dup: u32,
}

pub fn parse_flags(s: &str) -> Flags {
    let digits: String = s.chars().filter(|c| c.is_ascii_digit()).collect();
    Flags {
        single: s.contains('s'),
        ro: s.contains('r'),
        ow: s.contains('o'),
        keep: s.contains('k'),
        split: s.contains('x'),
        many: s.contains('m'),
        v6: s.contains('v'),
        lowport: s.contains('p'),
        trailing: s.contains('t'),
        dup: digits.parse().unwrap_or(0),
    }
}

pub fn listener_of(fl: &Flags, port: u16) -> SocketAddr {
    if fl.v6 { format!("[::1]:{}", port) } else { format!("127.0.0.1:{}", port) }.parse().unwrap()
}

pub fn bind_client(fl: &Flags) -> UdpSocket {
    let host = if fl.v6 { "[::1]" } else { "127.0.0.1" };
    if fl.lowport {
        // 1024 first (the lowest unprivileged port), then privileged ones; whatever is free
        for p in (600..=1024u16).rev() {
            if let Ok(s) = UdpSocket::bind(format!("{}:{}", host, p)) {
                return s;
            }
        }
    }
    UdpSocket::bind(format!("{}:0", host)).unwrap()
}

fn free_port() -> u16 {
    let s = UdpSocket::bind("127.0.0.1:0").unwrap();
    s.local_addr().unwrap().port()
}

/// starts (once per root+flags) a real Server on a free loopback port and returns the port
pub fn server_port(root: &Path, flags_s: &str) -> u16 {
    let key = format!("{}|{}", root.display(), flags_s);
    let mut guard = SERVERS.lock().unwrap();
    let map = guard.get_or_insert_with(HashMap::new);
    if let Some(p) = map.get(&key) {
        return *p;
    }
    let fl = parse_flags(flags_s);
    let (sd, rd) = served_dirs(root, &fl);
    std::fs::create_dir_all(&sd).unwrap();
    std::fs::create_dir_all(&rd).unwrap();
    for _ in 0..50 {
        let port = free_port();
        let mut args: Vec<String> = vec!["tftpd".into(), "-p".into(), port.to_string()];
        if fl.v6 {
            args.extend(["-i".into(), "::1".into()]);
        }
        let spell = |d: &PathBuf| if fl.trailing { format!("{}/", d.display()) } else { d.display().to_string() };
        if fl.split {
            args.extend(["-sd".into(), spell(&sd), "-rd".into(), spell(&rd)]);
        } else {
            args.extend(["-d".into(), spell(&sd)]);
        }
        if fl.single {
            args.push("-s".into());
        }
        if fl.ro {
            args.push("-r".into());
        }
        if fl.ow {
            args.push("--overwrite".into());
        }
        if fl.keep {
            args.push("--keep-on-error".into());
        }
        if fl.dup > 0 {
            args.extend(["--duplicate-packets".into(), fl.dup.to_string()]);
        }
        let config = Config::new(args.into_iter()).expect("config");
        if let Ok(mut server) = Server::new(&config) {
            std::thread::spawn(move || server.listen());
            map.insert(key, port);
            return port;
        }
    }
    panic!("no free port");
}

pub fn served_dirs(root: &Path, fl: &Flags) -> (PathBuf, PathBuf) {
    if fl.split {
        (root.join("send"), root.join("recv"))
    } else {
        (root.join("srv"), root.join("srv"))
    }
}

fn clear_dir(d: &Path) {
    if let Ok(rd) = std::fs::read_dir(d) {
        for e in rd.flatten() {
            let p = e.path();
            if p.is_dir() && !p.is_symlink() {
                let _ = std::fs::remove_dir_all(&p);
            } else {
                let _ = std::fs::remove_file(&p);
            }
        }
    }
}

/// resets the sandbox: everything under root is removed except the served directories themselves
pub fn reset_sandbox(root: &Path, fl: &Flags, spec: &str) -> bool {
    let (sd, rd) = served_dirs(root, fl);
    std::fs::create_dir_all(root).unwrap();
    if let Ok(rdir) = std::fs::read_dir(root) {
        for e in rdir.flatten() {
            let p = e.path();
            if p == sd || p == rd {
                clear_dir(&p);
            } else if p.is_dir() {
                // other servers' directories (different flag sets share the root): keep them but empty
                let name = p.file_name().unwrap().to_string_lossy().to_string();
                if name == "srv" || name == "send" || name == "recv" {
                    clear_dir(&p);
                    if !(p == sd || p == rd) {
                        // not served by this configuration: must not exist for this case
                        let _ = std::fs::remove_dir_all(&p);
                    }
                } else {
                    let _ = std::fs::remove_dir_all(&p);
                }
            } else {
                let _ = std::fs::remove_file(&p);
            }
        }
    }
    std::fs::create_dir_all(&sd).unwrap();
    std::fs::create_dir_all(&rd).unwrap();
    if spec == "-" {
        return true;
    }
    // `~xx` in a path of the spec stands for the byte xx (control characters and the like cannot travel in the line protocol)
    fn untilde(p: &str) -> PathBuf {
        use std::os::unix::ffi::OsStrExt;
        let b = p.as_bytes();
        let mut out = vec![];
        let mut i = 0;
        while i < b.len() {
            if b[i] == b'~' && i + 2 < b.len() {
                let hexv = |c: u8| (c as char).to_digit(16);
                if let (Some(h), Some(l)) = (hexv(b[i + 1]), hexv(b[i + 2])) {
                    out.push((h * 16 + l) as u8);
                    i += 3;
                    continue;
                }
            }
            out.push(b[i]);
            i += 1;
        }
        PathBuf::from(std::ffi::OsStr::from_bytes(&out))
    }
    for item in spec.split(',') {
        if let Some(d) = item.strip_suffix('/') {
            if std::fs::create_dir_all(root.join(untilde(d))).is_err() {
                return false;
            }
        } else {
            let Some((p, h)) = item.split_once('=') else { return false };
            let path = root.join(untilde(p));
            if let Some(par) = path.parent() {
                let _ = std::fs::create_dir_all(par);
            }
            if h == "|" {
                // a FIFO with no writer: opening it for reading blocks
                extern "C" {
                    fn mkfifo(path: *const std::os::raw::c_char, mode: u32) -> i32;
                }
                use std::os::unix::ffi::OsStrExt;
                let cp = std::ffi::CString::new(path.as_os_str().as_bytes()).unwrap();
                if unsafe { mkfifo(cp.as_ptr(), 0o644) } != 0 {
                    return false;
                }
                continue;
            }
            if let Some(target) = h.strip_prefix('!') {
                // a dangling symbolic link (its target does not exist): for a read request the name is simply missing
                if std::os::unix::fs::symlink(target, &path).is_err() {
                    return false;
                }
                continue;
            }
            if let Some(target) = h.strip_prefix('@') {
                // a symbolic link to a file of the same directory (named earlier in the spec)
                if std::os::unix::fs::symlink(target, &path).is_err() {
                    return false;
                }
                continue;
            }
            if let Some(n) = h.strip_prefix("sparse:").and_then(|x| x.parse::<u64>().ok()) {
                // a file of n zero bytes that occupies no space (sizes beyond 4 GiB)
                match std::fs::File::create(&path) {
                    Ok(f) if f.set_len(n).is_ok() => continue,
                    _ => return false,
                }
            }
            let Some(c) = parse_content(h) else { return false };
            if std::fs::write(&path, c).is_err() {
                return false;
            }
        }
    }
    true
}

fn enc_rel(rel: &Path) -> String {
    use std::os::unix::ffi::OsStrExt;
    let mut parts = vec![];
    for comp in rel.components() {
        let mut s = String::new();
        for b in comp.as_os_str().as_bytes() {
            let c = *b as char;
            if c.is_ascii_alphanumeric() || c == '.' || c == '-' || c == '_' {
                s.push(c);
            } else {
                s.push_str(&format!("%{:02x}", b));
            }
        }
        parts.push(s);
    }
    parts.join("/")
}

fn listing_rec(root: &Path, d: &Path, out: &mut Vec<String>) {
    if let Ok(rd) = std::fs::read_dir(d) {
        for e in rd.flatten() {
            let p = e.path();
            if p.is_symlink() && !p.exists() {
                continue; // a dangling link of the sandbox spec is not a file
            }
            let rel = enc_rel(p.strip_prefix(root).unwrap());
            if p.is_dir() && !p.is_symlink() {
                out.push(format!("{}/", rel));
                listing_rec(root, &p, out);
            } else if std::fs::metadata(&p).map(|m| m.len() > (1 << 30)).unwrap_or(false) {
                // a sparse giant: never read it
                out.push(format!("{}:{}:sparse", rel, std::fs::metadata(&p).map(|m| m.len()).unwrap_or(0)));
            } else {
                let c = std::fs::read(&p).unwrap_or_default();
                out.push(format!("{}:{}:{}", rel, c.len(), fnv(&c)));
            }
        }
    }
}

pub fn listing(root: &Path) -> String {
    let mut v = vec![];
    listing_rec(root, root, &mut v);
    v.sort();
    if v.is_empty() {
        "-".into()
    } else {
        v.join(",")
    }
}

pub fn recv_packet(sock: &UdpSocket, wait: Duration) -> Option<(Result<Packet, ()>, SocketAddr, usize)> {
    sock.set_read_timeout(Some(wait)).unwrap();
    let mut buf = vec![0u8; 70000];
    match sock.recv_from(&mut buf) {
        Ok((n, from)) => Some((Packet::deserialize(&buf[..n]).map_err(|_| ()), from, n)),
        Err(_) => None,
    }
}

pub fn show_reply(p: &Packet) -> String {
    match p {
        Packet::Error { code, .. } => format!("error {}", err_index(code)),
        other => show_packet(other),
    }
}

/// how many full blocks the scripted upload sends before its short final block
pub fn upload_full_blocks(b: usize, w: usize) -> usize {
    // a whole window of just over 1 MiB (and at most 2100 datagrams) is uploaded in full, paced
    if 1_000_000 < b * w && b * w <= 1_250_000 && w <= 2100 {
        return w;
    }
    let by_bytes = std::cmp::max(1, 49152 / std::cmp::max(b, 1));
    std::cmp::min(std::cmp::min(w, 300), by_bytes)
}

pub fn send_error(sock: &UdpSocket, to: &SocketAddr) {
    let p = Packet::Error { code: ErrorCode::NotDefined, msg: "verif: end".into() };
    let _ = sock.send_to(&p.serialize().unwrap(), to);
}

/// one request and its scripted continuation; returns (r1, conv)
pub fn converse(fl: &Flags, listener: SocketAddr, dgram: &[u8]) -> (String, String) {
    let sock = bind_client(fl);
    sock.send_to(dgram, listener).unwrap();
    let cls = |a: &SocketAddr| if *a == listener { "L" } else { "T" };
    let first = recv_packet(&sock, ms(40, 1500));
    let mut r1 = "r1=- none".to_string();
    let mut conv: Vec<String> = vec![];
    let mut have_conv = false;
    let mut peer: Option<SocketAddr> = None;
    let is_wrq = dgram.len() >= 2 && dgram[1] == 2;
    let mut pending_data: Option<(Packet, SocketAddr)> = None;
    match first {
        None => {}
        Some((Err(()), from, _)) => r1 = format!("r1={} undecodable", cls(&from)),
        Some((Ok(p), from, _)) => match p {
            Packet::Data { .. } => {
                peer = Some(from);
                pending_data = Some((p, from));
            }
            Packet::Error { .. } => {
                r1 = format!("r1={} {}", cls(&from), show_reply(&p));
                if fl.dup > 0 {
                    // duplicate-packets mode: a refusal is a single datagram all the same - whatever else arrives is part of the observation
                    while let Some((q, f2, _)) = recv_packet(&sock, ms(25, 300)) {
                        conv.push(match q {
                            Ok(Packet::Error { code, .. }) => format!("+{}E{}", cls(&f2), err_index(&code)),
                            Ok(other) => format!("+{}?{}", cls(&f2), show_packet(&other)),
                            Err(()) => "+?undecodable".into(),
                        });
                    }
                    have_conv = !conv.is_empty();
                }
            }
            other => {
                peer = Some(from);
                r1 = format!("r1={} {}", cls(&from), show_reply(&other));
            }
        },
    }
    if let Some(to) = peer {
        have_conv = true;
        if is_wrq {
            // upload: `nfull` full blocks of the acknowledged block size, then the short block "abc";
            // the sequence of ACK numbers that comes back shows after how many blocks the server acknowledges
            let (mut b, mut w) = (512usize, 1usize);
            if r1.contains(" oack ") {
                for kv in r1.rsplit(' ').next().unwrap_or("").split(',') {
                    if let Some(v) = kv.strip_prefix("blksize:") {
                        b = v.parse().unwrap_or(512);
                    }
                    if let Some(v) = kv.strip_prefix("windowsize:") {
                        w = v.parse().unwrap_or(1);
                    }
                }
            }
            let nfull = upload_full_blocks(b, w);
            let mut unpaced = 0usize;
            for k in 1..=nfull {
                let d = Packet::Data { block_num: (k % 65536) as u16, data: gen_bytes(b, k) };
                sock.send_to(&d.serialize().unwrap(), to).unwrap();
                unpaced += b + 4;
                if k % 16 == 0 || unpaced > 60000 {
                    // pacing: the server's socket buffer must never overflow (a drop would be a fault, not an observation)
                    std::thread::sleep(if slow() { Duration::from_millis(2) } else { Duration::from_micros(300) });
                    unpaced = 0;
                }
            }
            let d = Packet::Data { block_num: ((nfull + 1) % 65536) as u16, data: b"abc".to_vec() };
            sock.send_to(&d.serialize().unwrap(), to).unwrap();
            while let Some((p, _from, _)) = recv_packet(&sock, ms(15, 800)) {
                match p {
                    Ok(Packet::Ack(n)) => conv.push(format!("A{}", n)),
                    Ok(Packet::Error { code, .. }) => conv.push(format!("E{}", err_index(&code))),
                    Ok(other) => conv.push(format!("?{}", show_packet(&other))),
                    Err(()) => conv.push("?undecodable".into()),
                }
            }
            send_error(&sock, &to);
            std::thread::sleep(ms(10, 300));
            // a dead worker (File::create failed): in single-port mode the listener may or may not answer the
            // DATA with ERROR 4 (race with the worker thread) — not an observation
            if !conv.iter().any(|t| t.starts_with('A')) {
                conv.retain(|t| t != "E4");
            }
        } else {
            if pending_data.is_none() {
                // reply to the OACK
                let a = Packet::Ack(0);
                sock.send_to(&a.serialize().unwrap(), to).unwrap();
            }
            let mut next = pending_data.map(|(p, f)| (Ok(p), f, 0usize));
            loop {
                let item = match next.take() {
                    Some(x) => Some(x),
                    None => recv_packet(&sock, ms(15, 800)),
                };
                let Some((p, _from, _)) = item else { break };
                match p {
                    Ok(Packet::Data { block_num, data }) => conv.push(format!("D{}:{}:{}", block_num, data.len(), fnv(&data))),
                    Ok(Packet::Error { code, .. }) => conv.push(format!("E{}", err_index(&code))),
                    Ok(other) => conv.push(format!("?{}", show_packet(&other))),
                    Err(()) => conv.push("?undecodable".into()),
                }
            }
            send_error(&sock, &to);
            std::thread::sleep(ms(3, 100));
        }
    }
    let conv_s = if !have_conv {
        "-".to_string()
    } else if conv.is_empty() {
        ".".to_string()
    } else {
        conv.join(" ")
    };
    (r1, conv_s)
}

pub fn req_line(toks: &[&str]) -> String {
    if toks.len() != 5 {
        return "bad-op".into();
    }
    let (Some(root_b), Some(dgram)) = (unhex(toks[1]), unhex(toks[4])) else { return "bad-op".into() };
    let root = PathBuf::from(String::from_utf8(root_b).unwrap());
    let fl = parse_flags(toks[2]);
    let port = server_port(&root, toks[2]);
    if !reset_sandbox(&root, &fl, toks[3]) {
        return "bad-op".into();
    }
    let listener: SocketAddr = listener_of(&fl, port);
    let (r1, conv) = converse(&fl, listener, &dgram);
    format!("{} ; conv={} ; fs={}", r1, conv, listing(&root))
}

/// an upload that the client aborts: WRQ, `nblocks` full blocks, then an ERROR packet (or silence is not
/// used: real time-outs are too slow); what is left in the sandbox shows clean-on-error / keep-on-error
pub fn abort_line(toks: &[&str]) -> String {
    // optional 7th token: the text of the aborting ERROR packet (hex, UTF-8)
    if toks.len() != 6 && toks.len() != 7 {
        return "bad-op".into();
    }
    // 7th token: `<hex text>` or `c<code>` or `c<code>:<hex text>`
    let mut abort_code = ErrorCode::NotDefined;
    let mut abort_msg: String = "verif: end".to_string();
    if toks.len() == 7 {
        let mut rest = toks[6];
        if let Some(r) = rest.strip_prefix('c') {
            let (c, tail) = r.split_once(':').unwrap_or((r, ""));
            match c.parse::<u16>().ok().and_then(err_of_index) {
                Some(code) => abort_code = code,
                None => return "bad-op".into(),
            }
            rest = tail;
        }
        if !rest.is_empty() {
            match unhex(rest).and_then(|b| String::from_utf8(b).ok()) {
                Some(m) => abort_msg = m,
                None => return "bad-op".into(),
            }
        }
    }
    let (Some(root_b), Some(dgram), Ok(nblocks)) = (unhex(toks[1]), unhex(toks[4]), toks[5].parse::<usize>()) else {
        return "bad-op".into();
    };
    let root = PathBuf::from(String::from_utf8(root_b).unwrap());
    let fl = parse_flags(toks[2]);
    let port = server_port(&root, toks[2]);
    if !reset_sandbox(&root, &fl, toks[3]) {
        return "bad-op".into();
    }
    let listener: SocketAddr = listener_of(&fl, port);
    let sock = bind_client(&fl);
    sock.send_to(&dgram, listener).unwrap();
    let mut r1 = "r1=- none".to_string();
    let mut acks: Vec<String> = vec![];
    if let Some((Ok(p), from, _)) = recv_packet(&sock, ms(40, 1500)) {
        let cls = if from == listener { "L" } else { "T" };
        r1 = format!("r1={} {}", cls, show_reply(&p));
        let mut b = 512usize;
        if let Packet::Oack(opts) = &p {
            for o in opts {
                if o.option == tftpd::OptionType::BlockSize {
                    b = o.value;
                }
            }
        }
        if matches!(p, Packet::Oack(_) | Packet::Ack(0)) {
            for k in 1..=nblocks {
                let d = Packet::Data { block_num: k as u16, data: gen_bytes(b, k) };
                sock.send_to(&d.serialize().unwrap(), from).unwrap();
            }
            while let Some((p, _f, _)) = recv_packet(&sock, ms(15, 800)) {
                if let Ok(Packet::Ack(n)) = p {
                    acks.push(format!("A{}", n));
                }
            }
            let e = Packet::Error { code: abort_code.clone(), msg: abort_msg.clone() };
            let _ = sock.send_to(&e.serialize().unwrap(), from);
            // the worker removes (or keeps) the partial file asynchronously
            std::thread::sleep(ms(40, 600));
        }
    }
    let a = if acks.is_empty() { ".".to_string() } else { acks.join(" ") };
    format!("{} ; conv={} ; fs={}", r1, a, listing(&root))
}

/// real-time behaviour of a download whose client falls silent after ACK 0:
/// `timing <root> <flags> <fs> <rrq-hex>` -> seconds between the first two transmissions of DATA 1 and the
/// number of times DATA 1 is sent before the server gives up
pub fn timing_line(toks: &[&str]) -> String {
    // optional 6th token `first`: stop after the first retransmission (for long intervals)
    if toks.len() != 5 && !(toks.len() == 6 && toks[5] == "first") {
        return "bad-op".into();
    }
    let first_only = toks.len() == 6;
    let (Some(root_b), Some(dgram)) = (unhex(toks[1]), unhex(toks[4])) else { return "bad-op".into() };
    let root = PathBuf::from(String::from_utf8(root_b).unwrap());
    let fl = parse_flags(toks[2]);
    let port = server_port(&root, toks[2]);
    if !reset_sandbox(&root, &fl, toks[3]) {
        return "bad-op".into();
    }
    let listener: SocketAddr = listener_of(&fl, port);
    let sock = bind_client(&fl);
    sock.send_to(&dgram, listener).unwrap();
    let Some((Ok(Packet::Oack(opts)), from, _)) = recv_packet(&sock, Duration::from_millis(1500)) else {
        return "first=other".into();
    };
    let mut tmo = 5u64;
    for o in &opts {
        if o.option == tftpd::OptionType::Timeout {
            tmo = o.value as u64;
        }
    }
    sock.send_to(&Packet::Ack(0).serialize().unwrap(), from).unwrap();
    let mut stamps: Vec<std::time::Instant> = vec![];
    loop {
        match recv_packet(&sock, Duration::from_millis(tmo * 1000 * 5 / 2)) {
            Some((Ok(Packet::Data { block_num: 1, .. }), _, _)) => stamps.push(std::time::Instant::now()),
            Some(_) => {}
            None => break,
        }
        if stamps.len() > 40 || (first_only && stamps.len() >= 2) {
            break;
        }
    }
    if first_only {
        // end the transfer instead of sitting through its remaining time-outs
        send_error(&sock, &from);
    }
    let interval = if stamps.len() >= 2 {
        let d = stamps[1].duration_since(stamps[0]).as_millis() as u64;
        // to the nearest second; 400 ms of slack either way
        format!("{}", (d + 500) / 1000)
    } else {
        "none".to_string()
    };
    format!("first=oack interval={} transmissions={}", interval, stamps.len())
}

/// a download that the client aborts with an ERROR of a given code after the first DATA: what still arrives
/// afterwards, within one acknowledged retransmission interval plus slack (real time)
/// `errstop <root> <flags> <fs> <rrq-hex> <code>`
pub fn errstop_line(toks: &[&str]) -> String {
    if toks.len() != 6 {
        return "bad-op".into();
    }
    // `<code>` or `<code>:<n>`: the aborting ERROR carries a text of n bytes (longer than the sender's receive buffer, for one)
    let (code_s, msg_len) = match toks[5].split_once(':') {
        Some((c, n)) => (c, n.parse::<usize>().unwrap_or(4)),
        None => (toks[5], 4),
    };
    let (Some(root_b), Some(dgram), Some(code)) = (unhex(toks[1]), unhex(toks[4]), code_s.parse::<u16>().ok().and_then(err_of_index)) else {
        return "bad-op".into();
    };
    let root = PathBuf::from(String::from_utf8(root_b).unwrap());
    let fl = parse_flags(toks[2]);
    let port = server_port(&root, toks[2]);
    if !reset_sandbox(&root, &fl, toks[3]) {
        return "bad-op".into();
    }
    let listener: SocketAddr = listener_of(&fl, port);
    let sock = bind_client(&fl);
    sock.send_to(&dgram, listener).unwrap();
    let mut tmo = 5u64;
    let mut from = None;
    // OACK (if any), then DATA 1
    for _ in 0..3 {
        match recv_packet(&sock, Duration::from_millis(1500)) {
            Some((Ok(Packet::Oack(opts)), f, _)) => {
                for o in &opts {
                    if o.option == tftpd::OptionType::Timeout {
                        tmo = o.value as u64;
                    }
                }
                sock.send_to(&Packet::Ack(0).serialize().unwrap(), f).unwrap();
            }
            Some((Ok(Packet::Data { .. }), f, _)) => {
                from = Some(f);
                break;
            }
            _ => break,
        }
    }
    let Some(from) = from else { return "first=other".into() };
    // drain the rest of the first burst, then abort
    while recv_packet(&sock, ms(15, 200)).is_some() {}
    let e = Packet::Error { code, msg: if msg_len == 4 { "stop".to_string() } else { "x".repeat(msg_len) } };
    sock.send_to(&e.serialize().unwrap(), from).unwrap();
    let mut after = 0usize;
    let deadline = std::time::Instant::now() + Duration::from_millis(tmo * 1000 + 600);
    while std::time::Instant::now() < deadline {
        if let Some((p, _, _)) = recv_packet(&sock, Duration::from_millis(50)) {
            // the listener's own ERROR in answer to a stray ERROR is not the transfer going on
            if !matches!(p, Ok(Packet::Error { .. })) {
                after += 1;
            }
        }
    }
    format!("first=data after={}", after)
}

/// an upload whose client falls silent after `nblocks` full blocks: when does the server give up?  The partial file
/// disappears (clean-on-error) after MAX_RETRIES acknowledged time-outs; reported in whole seconds (real time).
/// `wrqsilent <root> <flags> <fs> <wrq-hex> <nblocks>`
pub fn wrqsilent_line(toks: &[&str]) -> String {
    if toks.len() != 6 {
        return "bad-op".into();
    }
    let (Some(root_b), Some(dgram), Ok(nblocks)) = (unhex(toks[1]), unhex(toks[4]), toks[5].parse::<usize>()) else {
        return "bad-op".into();
    };
    let root = PathBuf::from(String::from_utf8(root_b).unwrap());
    let fl = parse_flags(toks[2]);
    let port = server_port(&root, toks[2]);
    if !reset_sandbox(&root, &fl, toks[3]) {
        return "bad-op".into();
    }
    let listener: SocketAddr = listener_of(&fl, port);
    let sock = bind_client(&fl);
    sock.send_to(&dgram, listener).unwrap();
    let (mut b, mut tmo) = (512usize, 5u64);
    let from = match recv_packet(&sock, Duration::from_millis(1500)) {
        Some((Ok(Packet::Oack(opts)), f, _)) => {
            for o in &opts {
                if o.option == tftpd::OptionType::Timeout {
                    tmo = o.value as u64;
                }
                if o.option == tftpd::OptionType::BlockSize {
                    b = o.value;
                }
            }
            f
        }
        Some((Ok(Packet::Ack(0)), f, _)) => f,
        _ => return "first=other".into(),
    };
    let before = listing(&root);
    for k in 1..=nblocks {
        let d = Packet::Data { block_num: k as u16, data: gen_bytes(b, k) };
        sock.send_to(&d.serialize().unwrap(), from).unwrap();
        let _ = recv_packet(&sock, ms(20, 300));
    }
    let started = std::time::Instant::now();
    let with_upload = listing(&root);
    // poll until the listing is back to what it was before the upload started (the file is created at once, so compare with
    // the listing taken before the request only by length of the entry list)
    let limit = Duration::from_millis(tmo * 1000 * 8 + 1500);
    let mut gone = None;
    while started.elapsed() < limit {
        std::thread::sleep(Duration::from_millis(100));
        let now = listing(&root);
        if now != with_upload {
            gone = Some(started.elapsed());
            break;
        }
    }
    let _ = before;
    match gone {
        // to the nearest second; the server's attempts are whole time-outs
        Some(d) => format!("first=ok gone_after={}", (d.as_millis() as u64 + 500) / 1000),
        None => "first=ok gone_after=never".into(),
    }
}

/// a download (timeout=1 negotiated, lock-step) in which DATA 2 is "lost", a stale duplicate ACK 1 arrives 0.8 s after it was sent,
/// the first retransmission of DATA 2 is "lost" as well and the second one is answered: two consecutive failed receive attempts of the
/// sender, so the transfer has to complete.  (real time, <= 4.5 s)
/// `staleretx <root> <flags> <fs> <rrq-hex>`
pub fn staleretx_line(toks: &[&str]) -> String {
    if toks.len() != 5 {
        return "bad-op".into();
    }
    let (Some(root_b), Some(dgram)) = (unhex(toks[1]), unhex(toks[4])) else { return "bad-op".into() };
    let root = PathBuf::from(String::from_utf8(root_b).unwrap());
    let fl = parse_flags(toks[2]);
    let port = server_port(&root, toks[2]);
    if !reset_sandbox(&root, &fl, toks[3]) {
        return "bad-op".into();
    }
    let listener: SocketAddr = listener_of(&fl, port);
    let sock = bind_client(&fl);
    sock.send_to(&dgram, listener).unwrap();
    let Some((Ok(Packet::Oack(_)), from, _)) = recv_packet(&sock, Duration::from_millis(1500)) else {
        return "first=other".into();
    };
    sock.send_to(&Packet::Ack(0).serialize().unwrap(), from).unwrap();
    let Some((Ok(Packet::Data { block_num: 1, data: d1 }), _, _)) = recv_packet(&sock, Duration::from_millis(1500)) else {
        return "first=nodata".into();
    };
    let mut got: Vec<u8> = d1.clone();
    let blk = d1.len();
    sock.send_to(&Packet::Ack(1).serialize().unwrap(), from).unwrap();
    let Some((Ok(Packet::Data { block_num: 2, .. }), _, _)) = recv_packet(&sock, Duration::from_millis(1500)) else {
        return "first=nodata2".into();
    };
    let t2 = std::time::Instant::now();
    // the stale acknowledgement, late in the retransmission interval
    std::thread::sleep(Duration::from_millis(800));
    sock.send_to(&Packet::Ack(1).serialize().unwrap(), from).unwrap();
    let mut retx = 0usize;
    let mut want: u16 = 2;
    let mut done = "no";
    while t2.elapsed() < Duration::from_millis(4500) {
        match recv_packet(&sock, Duration::from_millis(50)) {
            Some((Ok(Packet::Data { block_num, data }), _, _)) if block_num == want => {
                if want == 2 {
                    retx += 1;
                    if retx < 2 {
                        continue; // the first retransmission is lost
                    }
                }
                got.extend_from_slice(&data);
                sock.send_to(&Packet::Ack(want).serialize().unwrap(), from).unwrap();
                want += 1;
                if data.len() < blk {
                    done = "ok";
                    break;
                }
            }
            _ => {}
        }
    }
    if done != "ok" {
        send_error(&sock, &from);
    }
    format!("first=oack retx={} done={} got={}:{}", retx, done, got.len(), fnv(&got))
}

/// a transfer whose client is silent for a long time (within the worker's retry budget) while ANOTHER client is served, and then goes on:
/// `quiet <root> <flags> <fs> <request-hex of A> <silence-ms> <rrq-hex of B>`  (real time; lock-step, default block size unless negotiated)
pub fn quiet_line(toks: &[&str]) -> String {
    if toks.len() != 7 {
        return "bad-op".into();
    }
    let (Some(root_b), Some(dgram), Ok(silence), Some(other)) = (unhex(toks[1]), unhex(toks[4]), toks[5].parse::<u64>(), unhex(toks[6])) else {
        return "bad-op".into();
    };
    let root = PathBuf::from(String::from_utf8(root_b).unwrap());
    let fl = parse_flags(toks[2]);
    let port = server_port(&root, toks[2]);
    if !reset_sandbox(&root, &fl, toks[3]) {
        return "bad-op".into();
    }
    let listener: SocketAddr = listener_of(&fl, port);
    let a = bind_client(&fl);
    let upload = dgram.len() >= 2 && dgram[1] == 2;
    a.send_to(&dgram, listener).unwrap();
    // the handshake and the first block
    let mut peer: Option<SocketAddr> = None;
    let mut blk = 512usize;
    let up_data: Vec<u8> = gen_bytes(3 * 512 + 7, 5);
    let mut first = "other".to_string();
    for _ in 0..3 {
        match recv_packet(&a, Duration::from_millis(1500)) {
            Some((Ok(Packet::Oack(opts)), f, _)) => {
                for o in &opts {
                    if o.option == tftpd::OptionType::BlockSize {
                        blk = o.value as usize;
                    }
                }
                peer = Some(f);
                if upload {
                    first = "ack0".into();
                    break;
                }
                a.send_to(&Packet::Ack(0).serialize().unwrap(), f).unwrap();
            }
            Some((Ok(Packet::Ack(0)), f, _)) if upload => {
                peer = Some(f);
                first = "ack0".into();
                break;
            }
            Some((Ok(Packet::Data { block_num: 1, .. }), f, _)) if !upload => {
                peer = Some(f);
                first = "data".into();
                break;
            }
            _ => break,
        }
    }
    let Some(to) = peer else { return format!("first={}", first) };
    if first == "other" {
        return "first=other".into();
    }
    let block = |k: usize| -> Vec<u8> {
        let lo = (k - 1) * blk;
        let hi = std::cmp::min(k * blk, up_data.len());
        if lo >= up_data.len() { vec![] } else { up_data[lo..hi].to_vec() }
    };
    if upload {
        a.send_to(&Packet::Data { block_num: 1, data: block(1) }.serialize().unwrap(), to).unwrap();
        match recv_packet(&a, Duration::from_millis(1500)) {
            Some((Ok(Packet::Ack(1)), _, _)) => {}
            _ => return "first=noack1".into(),
        }
    }
    // A falls silent (the server's retransmissions are ignored) ...
    let t0 = std::time::Instant::now();
    while t0.elapsed() < Duration::from_millis(silence) {
        let _ = recv_packet(&a, Duration::from_millis(100));
    }
    // ... B is served in the meantime ...
    let (rb, convb) = converse(&fl, listener, &other);
    let b_ok = if convb.starts_with('D') || rb.contains("oack") { "ok" } else { "no" };
    // ... and A goes on where it stopped
    while recv_packet(&a, Duration::from_millis(20)).is_some() {}
    let mut resumed = "no".to_string();
    let mut done = "no";
    if upload {
        let nblocks = up_data.len() / blk + 1;
        for k in 2..=nblocks {
            a.send_to(&Packet::Data { block_num: k as u16, data: block(k) }.serialize().unwrap(), to).unwrap();
            match recv_packet(&a, Duration::from_millis(1500)) {
                Some((Ok(Packet::Ack(n)), _, _)) if n as usize == k => {
                    if k == 2 {
                        resumed = "ok".into();
                    }
                    if k == nblocks {
                        done = "ok";
                    }
                }
                Some((Ok(p), _, _)) => {
                    if k == 2 {
                        resumed = format!("no:{}", show_reply(&p).replace(' ', "_"));
                    }
                    break;
                }
                _ => break,
            }
        }
    } else {
        let mut k = 1u16;
        a.send_to(&Packet::Ack(k).serialize().unwrap(), to).unwrap();
        loop {
            match recv_packet(&a, Duration::from_millis(1500)) {
                Some((Ok(Packet::Data { block_num, data }), _, _)) if block_num == k + 1 => {
                    if k == 1 {
                        resumed = "ok".into();
                    }
                    k += 1;
                    a.send_to(&Packet::Ack(k).serialize().unwrap(), to).unwrap();
                    if data.len() < blk {
                        done = "ok";
                        break;
                    }
                }
                Some((Ok(Packet::Data { .. }), _, _)) => continue, // a late retransmission
                Some((Ok(p), _, _)) => {
                    if k == 1 {
                        resumed = format!("no:{}", show_reply(&p).replace(' ', "_"));
                    }
                    break;
                }
                _ => break,
            }
        }
    }
    if done != "ok" {
        send_error(&a, &to);
    }
    format!("first={} b={} resumed={} done={}", first, b_ok, resumed, done)
}

/// a batch of hostile datagrams from several sources, then a probe request
pub fn storm_line(toks: &[&str]) -> String {
    if toks.len() < 5 {
        return "bad-op".into();
    }
    let (Some(root_b), Some(probe)) = (unhex(toks[1]), unhex(toks[4])) else { return "bad-op".into() };
    let root = PathBuf::from(String::from_utf8(root_b).unwrap());
    let fl = parse_flags(toks[2]);
    let port = server_port(&root, toks[2]);
    if !reset_sandbox(&root, &fl, toks[3]) {
        return "bad-op".into();
    }
    let listener: SocketAddr = listener_of(&fl, port);
    // 'm' (many sources): every datagram of the batch comes from its own fresh endpoint
    let nsock = if fl.many { toks.len() - 5 } else { 3 };
    let socks: Vec<UdpSocket> = (0..nsock).map(|_| bind_client(&fl)).collect();
    for (i, h) in toks[5..].iter().enumerate() {
        // `<n>*<hex>`: the datagram n times in a row from the endpoint whose turn it is (a backlog for one transfer's endpoint)
        let (count, h) = match h.split_once('*') {
            Some((n, rest)) => (n.parse::<usize>().unwrap_or(1), rest),
            None => (1, *h),
        };
        let Some(d) = unhex(h) else { return "bad-op".into() };
        for k in 0..count {
            let _ = socks[i % nsock].send_to(&d, listener);
            if k % 64 == 63 {
                std::thread::sleep(Duration::from_millis(1));
            }
        }
        if fl.many && i % 16 == 15 {
            std::thread::sleep(Duration::from_millis(2));
        }
    }
    // drain: whoever answered is told to stop (ends workers the batch may have started)
    for _round in 0..2 {
        if fl.many {
            // one wait for the whole batch, then a quick poll of every endpoint
            std::thread::sleep(ms(40, 400));
        }
        for s in &socks {
            let mut n = 0;
            while let Some((p, from, _)) = recv_packet(s, if fl.many { Duration::from_millis(1) } else { ms(8, 200) }) {
                // never answer an ERROR (the listener answers a stray ERROR with an ERROR: endless ping-pong)
                if !matches!(p, Ok(Packet::Error { .. })) {
                    send_error(s, &from);
                }
                n += 1;
                if n > 200 {
                    break;
                }
            }
        }
    }
    let (r1, conv) = converse(&fl, listener, &probe);
    format!("{} ; conv={}", r1, conv)
}
