use tftpd::{ErrorCode, OptionType, Packet, TransferOption};

pub fn hex(b: &[u8]) -> String {
    if b.is_empty() {
        return "-".to_string();
    }
    let mut s = String::with_capacity(b.len() * 2);
    for x in b {
        s.push_str(&format!("{:02x}", x));
    }
    s
}

pub fn unhex(s: &str) -> Option<Vec<u8>> {
    if s == "-" {
        return Some(vec![]);
    }
    if s.len() % 2 != 0 {
        return None;
    }
    let b = s.as_bytes();
    let mut out = Vec::with_capacity(b.len() / 2);
    for i in (0..b.len()).step_by(2) {
        let h = (b[i] as char).to_digit(16)?;
        let l = (b[i + 1] as char).to_digit(16)?;
        out.push((h * 16 + l) as u8);
    }
    Some(out)
}

pub fn fnv(b: &[u8]) -> u32 {
    let mut h: u32 = 2166136261;
    for x in b {
        h = (h ^ (*x as u32)).wrapping_mul(16777619);
    }
    h
}

pub fn opt_name(o: &OptionType) -> &'static str {
    match o {
        OptionType::BlockSize => "blksize",
        OptionType::TransferSize => "tsize",
        OptionType::Timeout => "timeout",
        OptionType::Windowsize => "windowsize",
    }
}

pub fn opt_of(s: &str) -> Option<OptionType> {
    match s {
        "blksize" => Some(OptionType::BlockSize),
        "tsize" => Some(OptionType::TransferSize),
        "timeout" => Some(OptionType::Timeout),
        "windowsize" => Some(OptionType::Windowsize),
        _ => None,
    }
}

pub fn show_opts(os: &[TransferOption]) -> String {
    if os.is_empty() {
        return "-".to_string();
    }
    os.iter()
        .map(|o| format!("{}:{}", opt_name(&o.option), o.value))
        .collect::<Vec<_>>()
        .join(",")
}

pub fn parse_opts(s: &str) -> Option<Vec<TransferOption>> {
    if s == "-" {
        return Some(vec![]);
    }
    let mut v = vec![];
    for item in s.split(',') {
        let mut it = item.split(':');
        let n = it.next()?;
        let val = it.next()?;
        v.push(TransferOption {
            option: opt_of(n)?,
            value: val.parse().ok()?,
        });
    }
    Some(v)
}

pub fn err_index(c: &ErrorCode) -> u16 {
    match c {
        ErrorCode::NotDefined => 0,
        ErrorCode::FileNotFound => 1,
        ErrorCode::AccessViolation => 2,
        ErrorCode::DiskFull => 3,
        ErrorCode::IllegalOperation => 4,
        ErrorCode::UnknownId => 5,
        ErrorCode::FileExists => 6,
        ErrorCode::NoSuchUser => 7,
    }
}

pub fn err_of_index(n: u16) -> Option<ErrorCode> {
    Some(match n {
        0 => ErrorCode::NotDefined,
        1 => ErrorCode::FileNotFound,
        2 => ErrorCode::AccessViolation,
        3 => ErrorCode::DiskFull,
        4 => ErrorCode::IllegalOperation,
        5 => ErrorCode::UnknownId,
        6 => ErrorCode::FileExists,
        7 => ErrorCode::NoSuchUser,
        _ => return None,
    })
}

pub fn show_packet(p: &Packet) -> String {
    match p {
        Packet::Rrq { filename, mode, options } => format!(
            "rrq {} {} {}",
            hex(filename.as_bytes()),
            hex(mode.as_bytes()),
            show_opts(options)
        ),
        Packet::Wrq { filename, mode, options } => format!(
            "wrq {} {} {}",
            hex(filename.as_bytes()),
            hex(mode.as_bytes()),
            show_opts(options)
        ),
        Packet::Data { block_num, data } => format!("data {} {}", block_num, hex(data)),
        Packet::Ack(n) => format!("ack {}", n),
        Packet::Error { code, msg } => format!("error {} {}", err_index(code), hex(msg.as_bytes())),
        Packet::Oack(os) => format!("oack {}", show_opts(os)),
    }
}

pub fn parse_packet(toks: &[&str]) -> Option<Packet> {
    match toks {
        ["rrq", f, m, os] => Some(Packet::Rrq {
            filename: String::from_utf8(unhex(f)?).ok()?,
            mode: String::from_utf8(unhex(m)?).ok()?,
            options: parse_opts(os)?,
        }),
        ["wrq", f, m, os] => Some(Packet::Wrq {
            filename: String::from_utf8(unhex(f)?).ok()?,
            mode: String::from_utf8(unhex(m)?).ok()?,
            options: parse_opts(os)?,
        }),
        ["data", n, d] => Some(Packet::Data {
            block_num: n.parse().ok()?,
            data: unhex(d)?,
        }),
        ["ack", n] => Some(Packet::Ack(n.parse().ok()?)),
        ["error", c, m] => Some(Packet::Error {
            code: err_of_index(c.parse().ok()?)?,
            msg: String::from_utf8(unhex(m)?).ok()?,
        }),
        ["oack", os] => Some(Packet::Oack(parse_opts(os)?)),
        _ => None,
    }
}

/// per-process scratch directory (inside the working directory the check gave us)
pub fn scratch() -> std::path::PathBuf {
    std::env::current_dir().unwrap().join(format!("scratch-{}", std::process::id()))
}

pub fn gen_bytes(len: usize, seed: usize) -> Vec<u8> {
    (0..len).map(|i| ((i * 31 + i / 251 + seed) % 256) as u8).collect()
}

pub fn parse_content(s: &str) -> Option<Vec<u8>> {
    let parts: Vec<&str> = s.split(':').collect();
    match parts.as_slice() {
        ["gen", l, sd] => Some(gen_bytes(l.parse().ok()?, sd.parse().ok()?)),
        ["zero", l] => Some(vec![0u8; l.parse().ok()?]),
        // `pat:<hex>:<len>`: the byte pattern repeated up to the length
        ["pat", h, l] => {
            let p = unhex(h)?;
            let n: usize = l.parse().ok()?;
            if p.is_empty() {
                return None;
            }
            Some((0..n).map(|i| p[i % p.len()]).collect())
        }
        [h] => unhex(h),
        _ => None,
    }
}
