//! Window operations on real files; the real `Worker::send` / `Worker::receive` over a scripted socket.
use crate::util::*;
use std::collections::VecDeque;
use std::error::Error;
use std::fs::{File, OpenOptions};
use std::net::SocketAddr;
use std::path::PathBuf;
use std::sync::atomic::{AtomicUsize, Ordering};
use std::sync::{Arc, Mutex};
use std::time::Duration;
use tftpd::{ErrorCode, Packet, Socket, Window, Worker};

static COUNTER: AtomicUsize = AtomicUsize::new(0);

fn fresh_path() -> PathBuf {
    scratch().join(format!("f{}", COUNTER.fetch_add(1, Ordering::SeqCst)))
}

pub fn win_line(toks: &[&str]) -> String {
    if toks.len() < 5 {
        return "bad-op".into();
    }
    let (Ok(size), Ok(chunk), Some(content)) = (toks[1].parse::<u16>(), toks[2].parse::<usize>(), parse_content(toks[4])) else {
        return "bad-op".into();
    };
    let path = fresh_path();
    std::fs::write(&path, &content).unwrap();
    let file = match toks[3] {
        "r" => File::open(&path).unwrap(),
        "w" => File::create(&path).unwrap(),
        "a" => OpenOptions::new().read(true).append(true).create(true).open(&path).unwrap(),
        _ => return "bad-op".into(),
    };
    let mut w = Window::new(size, chunk, file);
    let mut res = vec![];
    for op in &toks[5..] {
        let (k, arg) = op.split_at(1);
        let r = match k {
            "f" => match w.fill() {
                Ok(true) => "f:ok1".to_string(),
                Ok(false) => "f:ok0".to_string(),
                Err(_) => "f:err".to_string(),
            },
            "e" => match w.empty() {
                Ok(()) => "e:ok".to_string(),
                Err(_) => "e:err".to_string(),
            },
            "r" => {
                let Ok(n) = arg.parse::<u32>() else { return "bad-op".into() };
                if n > 65535 {
                    return "bad-op".into();
                }
                match w.remove(n as u16) {
                    Ok(()) => "r:ok".to_string(),
                    Err(_) => "r:err".to_string(),
                }
            }
            "a" => {
                let Some(d) = unhex(arg) else { return "bad-op".into() };
                match w.add(d) {
                    Ok(()) => "a:ok".to_string(),
                    Err(_) => "a:err".to_string(),
                }
            }
            "l" => format!("l:{}", w.len()),
            "F" => format!("F:{}", if w.is_full() { 1 } else { 0 }),
            "E" => format!("E:{}", if w.is_empty() { 1 } else { 0 }),
            "g" => {
                let e = w.get_elements();
                if e.is_empty() {
                    "g:.".to_string()
                } else {
                    format!("g:{}", e.iter().map(|c| hex(c)).collect::<Vec<_>>().join(","))
                }
            }
            _ => return "bad-op".into(),
        };
        res.push(r);
    }
    drop(w);
    let fin = std::fs::read(&path).unwrap();
    let _ = std::fs::remove_file(&path);
    format!("{} | file={}", res.join(" "), hex(&fin))
}

#[derive(Clone, Debug)]
enum Ev {
    Deliver(Packet_, u64),
    Fail(u64),
}

#[derive(Clone, Debug)]
enum Packet_ {
    Ack(u16),
    Data(u16, Vec<u8>),
    /// ERROR with this code (0..7)
    Error(u16),
    Oack,
}

struct Shared {
    script: VecDeque<Ev>,
    groups: Vec<Vec<String>>,
    exhausted: bool,
    ended: bool,
    after_end: usize,
    snapshot: Option<(PathBuf, bool)>,
    /// what one send costs on the simulated clock (ms): sending is not instantaneous
    send_cost_ms: u64,
    /// the time-out the worker was configured with (what the server/client set on the socket before handing it over)
    cfg_timeout_ms: u64,
}

struct Scripted {
    sh: Arc<Mutex<Shared>>,
}

const EXHAUSTED: &str = "verif-script-exhausted";

impl Socket for Scripted {
    fn send(&self, p: &Packet) -> Result<(), Box<dyn Error>> {
        let mut sh = self.sh.lock().unwrap();
        if sh.ended {
            sh.after_end += 1;
        }
        if sh.send_cost_ms > 0 {
            tftpd::verif::advance(Duration::from_millis(sh.send_cost_ms));
        }
        let s = match p {
            Packet::Data { block_num, data } => format!("D{}:{}:{}", block_num, data.len(), fnv(data)),
            Packet::Ack(n) => match &sh.snapshot {
                Some((path, true)) => {
                    let c = std::fs::read(path).unwrap_or_default();
                    format!("A{}:{}:{}", n, c.len(), fnv(&c))
                }
                Some((path, false)) => {
                    let l = std::fs::metadata(path).map(|m| m.len()).unwrap_or(0);
                    format!("A{}:{}", n, l)
                }
                None => format!("A{}", n),
            },
            Packet::Error { code, .. } => format!("E{}", err_index(code)),
            other => format!("?{}", show_packet(other)),
        };
        sh.groups.last_mut().unwrap().push(s);
        Ok(())
    }
    fn send_to(&self, p: &Packet, _to: &SocketAddr) -> Result<(), Box<dyn Error>> {
        self.send(p)
    }
    fn recv_with_size(&self, _size: usize) -> Result<Packet, Box<dyn Error>> {
        let ev = {
            let mut sh = self.sh.lock().unwrap();
            if sh.ended {
                sh.after_end += 1;
            }
            match sh.script.pop_front() {
                Some(ev) => {
                    sh.groups.push(vec![]);
                    ev
                }
                None => {
                    sh.exhausted = true;
                    drop(sh);
                    std::panic::panic_any(EXHAUSTED);
                }
            }
        };
        match ev {
            Ev::Deliver(p, dt) => {
                tftpd::verif::advance(Duration::from_millis(dt));
                Ok(match p {
                    Packet_::Ack(n) => Packet::Ack(n),
                    Packet_::Data(n, d) => Packet::Data { block_num: n, data: d },
                    Packet_::Error(c) => Packet::Error { code: err_of_index(c).unwrap_or(ErrorCode::NotDefined), msg: "x".into() },
                    Packet_::Oack => Packet::Oack(vec![]),
                })
            }
            Ev::Fail(dt) => {
                tftpd::verif::advance(Duration::from_millis(dt));
                Err("scripted failure".into())
            }
        }
    }
    fn recv_from_with_size(&self, size: usize) -> Result<(Packet, SocketAddr), Box<dyn Error>> {
        Ok((self.recv_with_size(size)?, "127.0.0.1:1".parse().unwrap()))
    }
    fn remote_addr(&self) -> Result<SocketAddr, Box<dyn Error>> {
        Ok("127.0.0.1:1".parse().unwrap())
    }
    // The workers of the pinned tree never touch the socket's time-outs (server and client set them before the hand-over). A worker that
    // sets one to something else than the configured interval changes when its receive attempts fail - invisible to a scripted socket
    // otherwise - so it is made part of the observation.
    fn set_read_timeout(&mut self, d: Duration) -> Result<(), Box<dyn Error>> {
        let mut sh = self.sh.lock().unwrap();
        if d.as_millis() as u64 != sh.cfg_timeout_ms {
            if sh.groups.is_empty() {
                sh.groups.push(vec![]);
            }
            sh.groups.last_mut().unwrap().push(format!("RT{}", d.as_millis()));
        }
        Ok(())
    }
    fn set_write_timeout(&mut self, d: Duration) -> Result<(), Box<dyn Error>> {
        let mut sh = self.sh.lock().unwrap();
        if d.as_millis() as u64 != sh.cfg_timeout_ms {
            if sh.groups.is_empty() {
                sh.groups.push(vec![]);
            }
            sh.groups.last_mut().unwrap().push(format!("WT{}", d.as_millis()));
        }
        Ok(())
    }
}

fn show_groups(g: &[Vec<String>]) -> String {
    g.iter()
        .map(|x| if x.is_empty() { ".".to_string() } else { x.join(" ") })
        .collect::<Vec<_>>()
        .join(" | ")
}

fn parse_sev(timeout: u64, s: &str) -> Option<Ev> {
    if s == "T" {
        return Some(Ev::Fail(timeout));
    }
    let (k, dt) = s.split_once('@')?;
    let dt: u64 = dt.parse().ok()?;
    if let Some(n) = k.strip_prefix('A') {
        let n: u32 = n.parse().ok()?;
        if n > 65535 {
            return None;
        }
        return Some(Ev::Deliver(Packet_::Ack(n as u16), dt));
    }
    if let Some(c) = k.strip_prefix('E') {
        // `E` = ERROR 0, `E<code>` = ERROR with that code
        let c: u16 = if c.is_empty() { 0 } else { c.parse().ok()? };
        return Some(Ev::Deliver(Packet_::Error(c), dt));
    }
    match k {
        "O" => Some(Ev::Deliver(Packet_::Oack, dt)),
        "G" => Some(Ev::Fail(dt)),
        _ => None,
    }
}

/// Result of a join: did the worker body end normally, and with which printed outcome.
/// The worker prints "Sent"/"Received" on success and "Error ..." on failure to stdout/stderr; the
/// harness cannot see that, so success is detected by the scripted socket: a worker that ended
/// without panicking ended either Ok or Err — the two are told apart by a probe file the wrapper
/// leaves (receiver) or, for the sender, by re-running nothing: we use the thread-local marker below.
pub fn snd_line(toks: &[&str]) -> String {
    if toks.len() < 7 {
        return "bad-op".into();
    }
    let (Ok(b), Ok(w), Ok(tmo), Ok(rep), Some(content)) = (
        toks[1].parse::<usize>(),
        toks[2].parse::<u16>(),
        toks[3].parse::<u64>(),
        toks[4].parse::<u8>(),
        parse_content(toks[6]),
    ) else {
        return "bad-op".into();
    };
    let chk = toks[5] == "1";
    let mut script = VecDeque::new();
    let mut send_cost_ms = 0u64;
    for e in &toks[7..] {
        // `S<ms>`: every send advances the simulated clock (a burst takes time; in duplicate mode 1 ms per copy for real)
        if let Some(ms) = e.strip_prefix('S').and_then(|x| x.parse::<u64>().ok()) {
            send_cost_ms = ms;
            continue;
        }
        let Some(ev) = parse_sev(tmo, e) else { return "bad-op".into() };
        script.push_back(ev);
    }
    let path = fresh_path();
    std::fs::write(&path, &content).unwrap();
    let sh = Arc::new(Mutex::new(Shared {
        script,
        groups: vec![vec![]],
        exhausted: false,
        ended: false,
        after_end: 0,
        snapshot: None,
        send_cost_ms,
        cfg_timeout_ms: tmo,
    }));
    let sock = Scripted { sh: sh.clone() };
    let worker = Worker::new(Box::new(sock), path.clone(), true, b, Duration::from_millis(tmo), w, rep);
    let status = run_and_classify(sh.clone(), move || worker.send(chk).unwrap());
    let _ = std::fs::remove_file(&path);
    let sh = sh.lock().unwrap();
    format!("{} => {}", show_groups(&sh.groups), status)
}

/// Runs the worker thread to completion. Status: ok / failed / running (script exhausted) / panic.
/// ok vs failed: the library reports the outcome only on stdout ("Sent"/"Received") or stderr
/// ("Error ..."); the harness redirects fd 2 of the process to a pipe-less file and counts lines.
fn run_and_classify<F: FnOnce() -> std::thread::JoinHandle<()>>(sh: Arc<Mutex<Shared>>, start: F) -> &'static str {
    let before = crate::capture::stderr_lines();
    let h = start();
    let r = h.join();
    {
        let mut s = sh.lock().unwrap();
        s.ended = true;
    }
    match r {
        Ok(()) => {
            let after = crate::capture::stderr_lines();
            if after > before { "failed" } else { "ok" }
        }
        Err(_) => {
            if sh.lock().unwrap().exhausted { "running" } else { "panic" }
        }
    }
}

fn parse_rev(s: &str) -> Option<Ev> {
    if let Some(c) = s.strip_prefix('E') {
        let c: u16 = if c.is_empty() { 0 } else { c.parse().ok()? };
        return Some(Ev::Deliver(Packet_::Error(c), 0));
    }
    match s {
        "T" => return Some(Ev::Fail(0)),
        "O" => return Some(Ev::Deliver(Packet_::Oack, 0)),
        _ => {}
    }
    if let Some(n) = s.strip_prefix('A') {
        let n: u32 = n.parse().ok()?;
        return Some(Ev::Deliver(Packet_::Ack(n as u16), 0));
    }
    let rest = s.strip_prefix('D')?;
    let (n, payload) = rest.split_once(':')?;
    let n: u32 = n.parse().ok()?;
    if n > 65535 {
        return None;
    }
    Some(Ev::Deliver(Packet_::Data(n as u16, parse_content(payload)?), 0))
}

#[repr(C)]
struct RLimit {
    cur: u64,
    max: u64,
}
extern "C" {
    fn getrlimit(resource: i32, rlim: *mut RLimit) -> i32;
    fn setrlimit(resource: i32, rlim: *const RLimit) -> i32;
    fn signal(signum: i32, handler: usize) -> usize;
}
const RLIMIT_FSIZE: i32 = 1;
const SIGXFSZ: i32 = 25;
const SIG_IGN: usize = 1;
const RLIM_INFINITY: u64 = u64::MAX;

/// sets the soft file-size limit of the process (None = unlimited) and returns the previous one
fn fsize_limit(new: Option<u64>) -> Option<u64> {
    unsafe {
        signal(SIGXFSZ, SIG_IGN);
        let mut r = RLimit { cur: 0, max: 0 };
        getrlimit(RLIMIT_FSIZE, &mut r);
        let old = if r.cur == RLIM_INFINITY { None } else { Some(r.cur) };
        let want = RLimit { cur: new.unwrap_or(RLIM_INFINITY).min(r.max), max: r.max };
        setrlimit(RLIMIT_FSIZE, &want);
        old
    }
}

pub fn rcv_line(toks: &[&str]) -> String {
    if toks.len() < 6 {
        return "bad-op".into();
    }
    let (Ok(b), Ok(w), Ok(rep)) = (toks[1].parse::<usize>(), toks[2].parse::<u16>(), toks[3].parse::<u8>()) else {
        return "bad-op".into();
    };
    let clean = toks[4] == "1";
    // `quota:<n>`: the process may not grow any file beyond n bytes while the worker runs (RLIMIT_FSIZE, SIGXFSZ ignored): the write that
    // crosses the limit is cut, the next one fails with EFBIG - a write error in the middle of an upload
    let quota: Option<u64> = toks[5].strip_prefix("quota:").and_then(|x| x.parse().ok());
    let full = toks[5] == "full" || quota.is_some();
    let mut script = VecDeque::new();
    for e in &toks[6..] {
        let Some(ev) = parse_rev(e) else { return "bad-op".into() };
        script.push_back(ev);
    }
    let path = fresh_path();
    // `nospace`: the target is a symbolic link to /dev/full - it can be created and truncated, every non-empty write fails with ENOSPC
    let nospace = toks[5] == "nospace";
    if nospace {
        let _ = std::fs::remove_file(&path);
        if std::os::unix::fs::symlink("/dev/full", &path).is_err() {
            return "bad-op".into();
        }
    }
    let sh = Arc::new(Mutex::new(Shared {
        script,
        groups: vec![],
        exhausted: false,
        ended: false,
        after_end: 0,
        snapshot: Some((path.clone(), full)),
        send_cost_ms: 0,
        cfg_timeout_ms: 5000,
    }));
    let sock = Scripted { sh: sh.clone() };
    let worker = Worker::new(Box::new(sock), path.clone(), clean, b, Duration::from_secs(5), w, rep);
    let restore = quota.map(|q| {
        // the capture files of stdout/stderr are subject to the limit too: start them empty (one short line is printed per transfer)
        crate::capture::truncate();
        fsize_limit(Some(q))
    });
    let status = run_and_classify(sh.clone(), move || worker.receive().unwrap());
    if let Some(old) = restore {
        fsize_limit(old);
    }
    let fin = if status == "running" || status == "panic" {
        "open".to_string()
    } else if nospace {
        // never read /dev/full: the directory entry is either still there (an empty "file") or gone
        if std::fs::symlink_metadata(&path).is_ok() { format!("0:{}", fnv(&[])) } else { "none".to_string() }
    } else {
        match std::fs::read(&path) {
            Ok(c) => format!("{}:{}", c.len(), fnv(&c)),
            Err(_) => "none".to_string(),
        }
    };
    let _ = std::fs::remove_file(&path);
    let sh = sh.lock().unwrap();
    let g = if sh.groups.is_empty() { "-".to_string() } else { show_groups(&sh.groups) };
    format!("{} => {} file={}", g, status, fin)
}


/// Two real receive workers on ONE path (a retransmitted / duplicate WRQ): worker A is accepted first and
/// then hears nothing; worker B is accepted second and completes its upload; afterwards A runs into its
/// retry limit. `dupwrq <b> <w> <clean> <content>` -> what is left at the path.
pub fn dupwrq_line(toks: &[&str]) -> String {
    if toks.len() != 5 {
        return "bad-op".into();
    }
    let (Ok(b), Ok(w), Some(content)) = (toks[1].parse::<usize>(), toks[2].parse::<u16>(), parse_content(toks[4])) else {
        return "bad-op".into();
    };
    let clean = toks[3] == "1";
    let path = fresh_path();
    // worker A: its script is empty until the gate opens; then six failed receives
    let gate = Arc::new((Mutex::new(false), std::sync::Condvar::new()));
    struct Gated {
        gate: Arc<(Mutex<bool>, std::sync::Condvar)>,
    }
    impl Socket for Gated {
        fn send(&self, _p: &Packet) -> Result<(), Box<dyn Error>> {
            Ok(())
        }
        fn send_to(&self, _p: &Packet, _to: &SocketAddr) -> Result<(), Box<dyn Error>> {
            Ok(())
        }
        fn recv_with_size(&self, _size: usize) -> Result<Packet, Box<dyn Error>> {
            let (m, cv) = &*self.gate;
            let mut open = m.lock().unwrap();
            while !*open {
                open = cv.wait(open).unwrap();
            }
            Err("timeout".into())
        }
        fn recv_from_with_size(&self, size: usize) -> Result<(Packet, SocketAddr), Box<dyn Error>> {
            Ok((self.recv_with_size(size)?, "127.0.0.1:1".parse().unwrap()))
        }
        fn remote_addr(&self) -> Result<SocketAddr, Box<dyn Error>> {
            Ok("127.0.0.1:1".parse().unwrap())
        }
        fn set_read_timeout(&mut self, _d: Duration) -> Result<(), Box<dyn Error>> {
            Ok(())
        }
        fn set_write_timeout(&mut self, _d: Duration) -> Result<(), Box<dyn Error>> {
            Ok(())
        }
    }
    let wa = Worker::new(Box::new(Gated { gate: gate.clone() }), path.clone(), clean, b, Duration::from_secs(5), w, 1);
    let ha = wa.receive().unwrap();
    // give A's thread time to create the file (it then blocks at the gate)
    for _ in 0..200 {
        if path.exists() {
            break;
        }
        std::thread::sleep(Duration::from_millis(1));
    }
    // worker B: a complete upload of `content`
    let mut script = VecDeque::new();
    let nblocks = content.len() / b + 1;
    for k in 0..nblocks {
        let lo = k * b;
        let hi = std::cmp::min(lo + b, content.len());
        script.push_back(Ev::Deliver(Packet_::Data(((k + 1) % 65536) as u16, content[lo..hi].to_vec()), 0));
    }
    let sh = Arc::new(Mutex::new(Shared { script, groups: vec![], exhausted: false, ended: false, after_end: 0, snapshot: None, send_cost_ms: 0, cfg_timeout_ms: 5000 }));
    let wb = Worker::new(Box::new(Scripted { sh: sh.clone() }), path.clone(), clean, b, Duration::from_secs(5), w, 1);
    let sb = run_and_classify(sh.clone(), move || wb.receive().unwrap());
    let after_b = match std::fs::read(&path) {
        Ok(c) => format!("{}:{}", c.len(), fnv(&c)),
        Err(_) => "none".to_string(),
    };
    // now the stale worker A times out
    {
        let (m, cv) = &*gate;
        *m.lock().unwrap() = true;
        cv.notify_all();
    }
    let _ = ha.join();
    let after_a = match std::fs::read(&path) {
        Ok(c) => format!("{}:{}", c.len(), fnv(&c)),
        Err(_) => "none".to_string(),
    };
    let _ = std::fs::remove_file(&path);
    format!("second={} after-second={} after-stale-timeout={}", sb, after_b, after_a)
}
