import Tftp.Driver.Util
import Tftp.Driver.Worker
import Tftp.Driver.Server
import Tftp.Driver.Config
import Tftp.Driver.Net
import Tftp.Driver.Client
open Tftp Tftp.Driver

def dispatch (line : String) : String :=
  let toks := (line.trimAscii.toString.splitOn " ").filter (· ≠ "")
  match toks with
  | [] => ""
  | cmd :: _ =>
    if cmd ∈ ["dec", "enc", "opc", "erc", "optname", "utf8", "pusize", "todec"] then codecLine toks
    else if cmd = "win" then winLine toks
    else if cmd = "snd" then sndLine toks
    else if cmd = "rcv" then rcvLine toks
    else if cmd = "dupwrq" then dupwrqLine toks
    -- a sandbox with a sparse file of several GiB: the list-based model cannot hold it; the statement is evaluated on the implementation's
    -- observation alone (the check treats `skip` as "no model answer")
    else if cmd = "req" && (toks.any fun t => (t.splitOn "=sparse:").length > 1) then "skip"
    else if cmd = "req" then reqLine toks
    else if cmd = "storm" then stormLine toks
    else if cmd = "abort" then abortLine toks
    else if cmd = "timing" then timingLine toks
    else if cmd = "errstop" then errstopLine toks
    else if cmd = "wrqsilent" then wrqsilentLine toks
    else if cmd = "staleretx" then staleretxLine toks
    else if cmd = "quiet" then quietLine toks
    else if cmd = "multi" then multiLine toks
    else if cmd = "cfg" then cfgLine toks
    else if cmd = "loop" then loopLine toks
    else if cmd = "cli" then cliLine toks
    else "bad-op"

partial def loop (hin : IO.FS.Stream) (hout : IO.FS.Stream) : IO Unit := do
  let line ← hin.getLine
  if line.isEmpty then return ()
  hout.putStrLn (dispatch line)
  hout.flush        -- one answer per line on disk at once: the check can tell which case a model run got stuck on
  loop hin hout

def main : IO Unit := do
  let hin ← IO.getStdin
  let hout ← IO.getStdout
  loop hin hout
