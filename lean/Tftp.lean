import Tftp.Generated
import Tftp.Model.Basic
import Tftp.Model.Codec
import Tftp.Lemmas.Codec
import Tftp.Lemmas.CodecRoundTrip
import Tftp.Lemmas.CodecTotal
import Tftp.Props.C10
import Tftp.Props.C11
