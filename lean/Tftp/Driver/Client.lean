import Tftp.Driver.Worker
import Tftp.Model.Client
/-! `cli` lines: the bundled client against a scripted peer (see harness/src/client.rs for the format). -/
namespace Tftp.Driver
open Tftp

def refusedMsg : Bytes := [114, 101, 102, 117, 115, 101, 100]

def parseReply (s : String) : Option Packet :=
  match s.splitOn ":" with
  | "oack" :: rest => (parseOpts (":".intercalate rest)).map Packet.oack
  | ["ack", n] => n.toNat?.map Packet.ack
  | ["err", c] => (c.toNat?.bind errOfIndex).map fun code => Packet.error code refusedMsg
  | ["data", n, l] =>
    match n.toNat?, l.toNat? with
    | some n, some l => some (.data n (genBytes l n))
    | _, _ => none
  | _ => none

def cliLine (toks : List String) : String :=
  match toks with
  | ["cli", mode, b, w, t, clean, nameH, content, reply, script] =>
    match b.toNat?, w.toNat?, t.toNat?, bytesOfHex nameH, parseReply reply with
    | some b, some w, some t, some name, some pkt =>
      let fileContent : Bytes := if content = "-" then [] else (parseContent content).getD []
      let upload := mode = "u"
      let c : ClientCfg := { blocksize := b, windowsize := w, timeoutS := t, upload := upload, filePath := name,
                             recvDir := [114, 100] }
      let req := match clientRequest c fileContent.length with
        | some p => hexOfBytes (encode p)
        | none => "none"
      match clientOnReply c pkt with
      | .fail => s!"req={req} ; res=err ; conv=- ; file=none ; extra=-"
      | .transfer c' ack0 =>
        if upload then
          let sc : SCfg := { b := c'.blocksize, w := c'.windowsize, timeout := c'.timeoutS * 1000, rep := 1 }
          let burst := (sInit sc fileContent false).2
          -- script `R`: the peer stays silent for one negotiated timeout: the window is sent again (`sStep .fail` after `timeout` ms)
          let again := (sStep sc (sInit sc fileContent false).1 .fail sc.timeout).2
          let retx := if script = "R" then s!" R{again.length}" else ""
          s!"req={req} ; res=ok ; conv={if burst.isEmpty then "-" else showGroup burst}{retx} ; file=none ; extra=-"
        else
          let rc : RCfg := { b := c'.blocksize, w := c'.windowsize, rep := 1, cleanOnError := clean = "1" }
          let lens : List Nat := if script = "-" then [] else (script.splitOn ",").filterMap (·.toNat?)
          -- `recv_with_size(blk_size)` of a `UdpSocket` reads into `blk_size + 4` bytes: a DATA datagram longer than the adopted block size
          -- reaches the worker cut to that size (a peer that ignores what it acknowledged)
          let evs : List REv := (List.range lens.length).zip lens |>.map fun (i, l) =>
            REv.data ((i + 1) % 65536) ((genBytes l (i + 1)).take rc.b)
          let run := rRunFrom rc (rInit rc) evs
          -- events after the end are not consumed by the real worker either: `rStep` on an ended state emits nothing
          let acks := (if ack0 then ["A0"] else []) ++ (run.1.flatten.map fun a => s!"A{a.n}")
          let st := if run.2.status = .running then (rStep rc run.2 .error).1 else run.2
          let file := match downloadTarget c', rFinalFile rc st with
            | some _, some content => if st.win.file.canWrite then s!"{content.length}:{fnv content}" else "none"
            | _, _ => "none"
          s!"req={req} ; res=ok ; conv={if acks.isEmpty then "-" else " ".intercalate acks} ; file={file} ; extra=-"
    | _, _, _, _, _ => "bad-op"
  | _ => "bad-op"

end Tftp.Driver
