import Tftp.Driver.Util
import Tftp.Model.Config
/-! Line protocol for the configuration parsers. -/
namespace Tftp.Driver
open Tftp

/-- the working directory of the implementation run (`W<hex>` in the oracle list): a directory argument equal to it is
printed as `CWD`, because the implementation's configuration cannot tell it from the default -/
def cwdOf (s : String) : Option Bytes :=
  (s.splitOn ",").findSome? fun it =>
    match it.toList with
    | 'W' :: h => bytesOfHex (String.ofList h)
    | _ => none

def parseOracle (s : String) : Option Oracles :=
  if s = "-" then some { ipOk := fun _ => false, pathExists := fun _ => false } else do
  let items ← (s.splitOn ",").mapM fun it =>
    match it.toList with
    | 'I' :: h => (bytesOfHex (String.ofList h)).map (fun b => (true, b))
    | 'P' :: h => (bytesOfHex (String.ofList h)).map (fun b => (false, b))
    | 'W' :: h => (bytesOfHex (String.ofList h)).map (fun b => (false, b))
    | _ => none
  let ips := (items.filter (·.1)).map (·.2)
  let paths := (items.filter (fun x => !x.1)).map (·.2)
  pure { ipOk := fun t => ips.contains t, pathExists := fun t => paths.contains t }

def b01 (b : Bool) : String := if b then "1" else "0"
def optHex (o : Option Bytes) (dflt : String) (cwd : Option Bytes := none) : String :=
  match o with
  | some b => if cwd = some b then dflt else hexOfBytes b
  | none => dflt

def cfgLine (toks : List String) : String :=
  match toks with
  | "cfg" :: kind :: orc :: args =>
    match parseOracle orc, args.mapM bytesOfHex with
    | some o, some as =>
      if kind = "S" then
        match serverConfig o as with
        | .err => "err"
        | .help => "help"
        | .ok f =>
          let c := f.c
          s!"ok ip={optHex c.ip "-"},port={c.port},dir={optHex c.dir "CWD" (cwdOf orc)},rd={optHex f.recv "CWD" (cwdOf orc)},sd={optHex f.send "CWD" (cwdOf orc)},single={b01 c.singlePort},ro={b01 c.readOnly},dup={c.dup},ow={b01 c.overwrite},clean={b01 c.cleanOnError}"
      else
        match clientConfig o as with
        | .err => "err"
        | .help => "help"
        | .ok c =>
          s!"ok ip={optHex c.ip "-"},port={c.port},b={c.blocksize},w={c.windowsize},t={c.timeoutS},up={b01 c.upload},rd={hexOfBytes c.recvDir},file={hexOfBytes c.filePath},clean={b01 c.cleanOnError}"
    | _, _ => "bad-op"
  | _ => "bad-op"

end Tftp.Driver
