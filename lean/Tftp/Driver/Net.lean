import Tftp.Driver.Worker
import Tftp.Model.Net
/-! Line protocol for the closed-loop simulator. -/
namespace Tftp.Driver
open Tftp

def parseNatList (s : String) : Option (List Nat) :=
  if s = "-" then some [] else (s.splitOn ",").mapM (·.toNat?)

/-- `loop <b> <w> <timeout_ms> <rep> <file> <dropData> <dupData> <dropAck> <dupAck>` -/
def loopLine (toks : List String) : String :=
  match toks with
  | ["loop", b, w, tmo, rep, file, dd, ud, da, ua] =>
    match b.toNat?, w.toNat?, tmo.toNat?, rep.toNat?, parseContent file,
          parseNatList dd, parseNatList ud, parseNatList da, parseNatList ua with
    | some b, some w, some tmo, some rep, some f, some dd, some ud, some da, some ua =>
      let sc : SCfg := { b := b, w := w, timeout := tmo, rep := rep }
      let rc : RCfg := { b := b, w := w, rep := rep, cleanOnError := true }
      let fl : Faults := { dropData := dd, dupData := ud, dropAck := da, dupAck := ua }
      let fuel := (f.length / (if b = 0 then 1 else b) + 2) * (rep + 1) * 8 + 400
      let st := netRun sc rc fl fuel (netInit sc rc fl f)
      let file := match st.r.status with
        | .failed => "none"
        | _ => let c := st.r.win.file.content; s!"{c.length}:{fnv c}"
      let over := (netStep sc rc fl st).isNone
      s!"s={statusName st.s.status} r={rStatusName st.r.status} file={file} data={st.nd} acks={st.na} timeouts={st.timeouts} over={if over then 1 else 0}"
    | _, _, _, _, _, _, _, _, _ => "bad-op"
  | _ => "bad-op"

end Tftp.Driver
