import Tftp.Driver.Worker
import Tftp.Model.Server
/-! Line protocol for the request-level server model: one request and its scripted continuation. -/
namespace Tftp.Driver
open Tftp

def bytesOfString (s : String) : Bytes := s.toUTF8.toList
/-- printable ASCII as is, everything else `%xx` (same rule in the harness) -/
def stringOfBytes (b : Bytes) : String :=
  String.ofList (b.flatMap fun x =>
    let c := Char.ofNat x.toNat
    if c.isAlphanum || c == '.' || c == '-' || c == '_' then [c]
    else ['%', hexDigit (x.toNat / 16), hexDigit (x.toNat % 16)])

structure CfgFlags where
  single : Bool := false
  ro : Bool := false
  ow : Bool := false
  keep : Bool := false
  split : Bool := false
  dup : Nat := 0

def parseFlags (s : String) : CfgFlags :=
  let cs := s.toList
  let digits := String.ofList (cs.filter Char.isDigit)
  { single := cs.contains 's', ro := cs.contains 'r', ow := cs.contains 'o', keep := cs.contains 'k',
    split := cs.contains 'x', dup := digits.toNat?.getD 0 }

def mkCfg (root : Bytes) (fl : CfgFlags) : SrvCfg :=
  let sd := if fl.split then root ++ bytesOfString "/send" else root ++ bytesOfString "/srv"
  let rd := if fl.split then root ++ bytesOfString "/recv" else root ++ bytesOfString "/srv"
  { singlePort := fl.single, readOnly := fl.ro, overwrite := fl.ow, cleanOnError := !fl.keep, dup := fl.dup,
    sendDir := sd, recvDir := rd }

/-- fs spec: comma separated `rel/path=hex` (file) or `rel/path/` (directory), relative to the root -/
def parseFs (root : Bytes) (fl : CfgFlags) (s : String) : Option Fs :=
  let rootCs := components root
  let base : Fs := (if fl.split then [(rootCs ++ [bytesOfString "send"], FsNode.dir), (rootCs ++ [bytesOfString "recv"], FsNode.dir)]
                    else [(rootCs ++ [bytesOfString "srv"], FsNode.dir)])
  -- the ancestors of the root exist as directories
  let anc : Fs := (List.range (rootCs.length + 1)).filterMap fun i =>
    if i = 0 then none else some (rootCs.take i, FsNode.dir)
  -- every ancestor of an entry exists as a directory
  let withParents (fs : Fs) (p : List Bytes) : Fs :=
    (List.range p.length).foldl (fun fs i =>
      if i = 0 then fs else
      let d := rootCs ++ p.take i
      if (fs.lookup d).isSome then fs else fs.set d .dir) fs
  if s = "-" then some (anc ++ base) else
  (s.splitOn ",").foldlM (fun (fs : Fs) item =>
    if item.endsWith "/" then
      let p := components (bytesOfString item)
      some ((withParents fs p).set (rootCs ++ p) .dir)
    else match item.splitOn "=" with
      | [p, h] => do
        let pc := components (bytesOfString p)
        -- `@name`: a symbolic link to a file of the same directory, named earlier in the spec (reads follow it)
        let c ← if h.startsWith "@" then
            (match fs.lookup (rootCs ++ pc.dropLast ++ [bytesOfString (h.drop 1).toString]) with
             | some (.file c) => some c
             | _ => none)
          else if h = "|" then some []     -- a FIFO: only hostile batches name it; the model sees an empty file
          else parseContent h
        pure ((withParents fs pc).set (rootCs ++ pc) (.file c))
      | _ => none) (anc ++ base)

def showFs (root : Bytes) (fs : Fs) : String :=
  let rootCs := components root
  let items := fs.filterMap fun e =>
    if e.1.length > rootCs.length && e.1.take rootCs.length == rootCs then
      let rel := "/".intercalate ((e.1.drop rootCs.length).map stringOfBytes)
      match e.2 with
      | .file c => some s!"{rel}:{c.length}:{fnv c}"
      | .dir => some s!"{rel}/"
    else none
  let sorted := items.mergeSort (fun a b => a ≤ b)
  if sorted.isEmpty then "-" else ",".intercalate sorted

/-- the harness can only tell "from the listening port" (L) from "from another port" (T) -/
def srcName (single : Bool) : Src → String
  | .listener => "L" | .transfer => if single then "L" else "T"

def showReplyPkt : Packet → String
  | .error c _ => s!"error {errIndex c}"       -- message text is not compared
  | p => showPacket p

def abc : Bytes := [97, 98, 99]

def reqLine (toks : List String) : String :=
  match toks with
  | ["req", rootH, flags, fsS, dg] =>
    match bytesOfHex rootH, bytesOfHex dg with
    | some root, some dgram =>
      let fl := parseFlags flags
      let cfg := mkCfg root fl
      match parseFs root fl fsS with
      | none => "bad-op"
      | some fs =>
        let r := handleDatagram cfg fs Gen.defaultBlockSize dgram
        let r1 := match r.reply with
          | none => "r1=- none"
          | some (src, p) => s!"r1={srcName cfg.singlePort src} {showReplyPkt p}"
        match r.worker with
        | none => s!"{r1} ; conv=- ; fs={showFs root fs}"
        | some w =>
          match w.kind with
          | .send =>
            let sc : SCfg := { b := w.opts.blockSize, w := w.opts.windowSize, timeout := w.opts.timeoutS * 1000, rep := w.rep }
            match fs.stat w.path with
            | some (.file content) =>
              let i := sInit sc content w.checkResponse
              let burst := if w.checkResponse then (sStep sc i.1 (.ack 0) 0).2 else i.2
              s!"{r1} ; conv={showGroup burst} ; fs={showFs root fs}"
            | _ =>
              -- a directory: `read` fails, nothing is sent (observable only as silence after the OACK)
              let cv := if w.checkResponse then "." else "-"
              s!"{r1} ; conv={cv} ; fs={showFs root fs}"
          | .receive =>
            if fs.canCreate w.path then
              let rc : RCfg := { b := w.opts.blockSize, w := w.opts.windowSize, rep := w.rep, cleanOnError := cfg.cleanOnError }
              -- the scripted upload: `nfull` full blocks, then the short block "abc"
              let b := w.opts.blockSize
              let byBytes := max 1 (49152 / (max b 1))
              let wv := w.opts.windowSize
              let nfull := if 1000000 < b * wv ∧ b * wv ≤ 1250000 ∧ wv ≤ 2100 then wv else min (min wv 300) byBytes
              let evs : List REv := (List.range nfull).map (fun i => REv.data ((i + 1) % 65536) (genBytes b (i + 1))) ++
                [REv.data ((nfull + 1) % 65536) abc]
              let run := rRunFrom rc (rInit rc) evs
              let acks := " ".intercalate (run.1.flatten.map fun a => s!"A{a.n}")
              let st := (run.2, ())
              -- still running (block was not final): the client's ERROR ends it
              let final : Option Bytes := match st.1.status with
                | .ok => some st.1.win.file.content
                | _ => if cfg.cleanOnError then none else some st.1.win.file.content
              let fs' := match final with
                | some c => fs.set (components w.path) (.file c)
                | none => fs.remove (components w.path)
              s!"{r1} ; conv={if acks.isEmpty then "." else acks} ; fs={showFs root fs'}"
            else
              -- the worker dies at `File::create`; whether the client's DATA is answered by the listener's
              -- ERROR 4 (single-port) depends on a race, so neither side prints it
              s!"{r1} ; conv=. ; fs={showFs root fs}"
    | _, _ => "bad-op"
  | _ => "bad-op"

/-- an upload aborted by the client after `nblocks` full blocks: `abort <root> <flags> <fs> <wrq-hex> <nblocks>` -/
def abortLine (toks0 : List String) : String :=
  -- an optional 7th token (the text of the aborting ERROR packet) does not enter the model: any ERROR ends the transfer
  let toks := if toks0.length = 7 then toks0.take 6 else toks0
  match toks with
  | ["abort", rootH, flags, fsS, dg, nb] =>
    match bytesOfHex rootH, bytesOfHex dg, nb.toNat? with
    | some root, some dgram, some nblocks =>
      let fl := parseFlags flags
      let cfg := mkCfg root fl
      match parseFs root fl fsS with
      | none => "bad-op"
      | some fs =>
        let r := handleDatagram cfg fs Gen.defaultBlockSize dgram
        let r1 := match r.reply with
          | none => "r1=- none"
          | some (src, p) => s!"r1={srcName cfg.singlePort src} {showReplyPkt p}"
        match r.worker with
        | some w =>
          if w.kind == .receive && fs.canCreate w.path then
            let rc : RCfg := { b := w.opts.blockSize, w := w.opts.windowSize, rep := w.rep, cleanOnError := cfg.cleanOnError }
            let evs : List REv := (List.range nblocks).map (fun i => REv.data ((i + 1) % 65536) (genBytes w.opts.blockSize (i + 1))) ++ [REv.error]
            let run := rRunFrom rc (rInit rc) evs
            let acks := " ".intercalate (run.1.flatten.map fun a => s!"A{a.n}")
            let fs' := match rFinalFile rc run.2 with
              | some c => fs.set (components w.path) (.file c)
              | none => fs.remove (components w.path)
            s!"{r1} ; conv={if acks.isEmpty then "." else acks} ; fs={showFs root fs'}"
          else s!"{r1} ; conv=. ; fs={showFs root fs}"
        | none => s!"{r1} ; conv=. ; fs={showFs root fs}"
    | _, _, _ => "bad-op"
  | _ => "bad-op"

/-- a download whose client falls silent after ACK 0: the retransmission interval is the acknowledged timeout,
and DATA 1 is transmitted once plus once per failed attempt that leaves budget: `MAX_RETRIES` times in all -/
def timingLine (toks0 : List String) : String :=
  -- optional 6th token `first`: the observation stops after the first retransmission
  let firstOnly := toks0.length = 6 && toks0.getLast? = some "first"
  let toks := if firstOnly then toks0.take 5 else toks0
  match toks with
  | ["timing", rootH, flags, fsS, dg] =>
    match bytesOfHex rootH, bytesOfHex dg with
    | some root, some dgram =>
      let fl := parseFlags flags
      let cfg := mkCfg root fl
      match parseFs root fl fsS with
      | none => "bad-op"
      | some fs =>
        let r := handleDatagram cfg fs Gen.defaultBlockSize dgram
        match r.worker, r.reply with
        | some w, some (_, .oack _) =>
          match fs.stat w.path with
          | some (.file content) =>
            let sc : SCfg := { b := w.opts.blockSize, w := w.opts.windowSize, timeout := w.opts.timeoutS * 1000, rep := 1 }
            let evs : List (SEv × Nat) := (SEv.ack 0, 0) :: List.replicate 12 (SEv.fail, sc.timeout)
            let run := sRun sc content true evs
            let sends := (run.1.filter fun g => g.any fun p => match p with | .data 1 _ => true | _ => false).length
            s!"first=oack interval={w.opts.timeoutS} transmissions={if firstOnly then min sends 2 else sends}"
          | _ => "first=other"
        | _, _ => "first=other"
    | _, _ => "bad-op"
  | _ => "bad-op"

/-- a download aborted by the client's ERROR after the first DATA: by `c07_stop_on_error` nothing is emitted afterwards,
whatever the code -/
def errstopLine (toks : List String) : String :=
  match toks with
  | ["errstop", rootH, flags, fsS, dg, _code] =>
    match bytesOfHex rootH, bytesOfHex dg with
    | some root, some dgram =>
      let fl := parseFlags flags
      let cfg := mkCfg root fl
      match parseFs root fl fsS with
      | none => "bad-op"
      | some fs =>
        let r := handleDatagram cfg fs Gen.defaultBlockSize dgram
        match r.worker with
        | some w =>
          match w.kind, fs.stat w.path with
          | .send, some (.file _) => "first=data after=0"
          | _, _ => "first=other"
        | none => "first=other"
    | _, _ => "bad-op"
  | _ => "bad-op"

/-- a hostile batch followed by a probe: by `c05_probe_independent` the batch does not enter the answer -/
def stormLine (toks : List String) : String :=
  match toks with
  | "storm" :: rootH :: flags :: fsS :: probe :: _ =>
    let r := reqLine ["req", rootH, flags, fsS, probe]
    match r.splitOn " ; fs=" with
    | a :: _ => a
    | [] => r
  | _ => "bad-op"

/-- several clients under a schedule: by `c12_projection` each client's outcome is its solo outcome, so the
schedule does not enter the answer. Clients: `d:name:b:w`, `u:name:b:w:content`, `i:kind`,
`x:victim:kind` (a stranger that sends to the endpoint serving client `victim`). -/
def multiLine (toks : List String) : String :=
  match toks with
  | "multi" :: rootH :: flags :: fsS :: _sched :: clients =>
    match bytesOfHex rootH with
    | none => "bad-op"
    | some root =>
      let fl := parseFlags flags
      let cfg := mkCfg root fl
      match parseFs root fl fsS with
      | none => "bad-op"
      | some fs0 =>
        let cls := if cfg.singlePort then "L" else "T"
        let one (acc : Option (Fs × List String)) (spec : String) : Option (Fs × List String) := do
          let (fs, outs) ← acc
          match (match spec.splitOn ":" with | "D" :: rest => "d" :: rest | other => other) with   -- `D` = `d` with the request sent twice
          | ["d", name, b, w] =>
            let os : List TransferOption := [{ option := .blksize, value := (← b.toNat?) }, { option := .windowsize, value := (← w.toNat?) }]
            let r := handleRrq cfg fs0 (bytesOfString name) os
            match r.worker, r.reply with
            | some wk, _ =>
              match fs0.stat wk.path with
              | some (.file c) => pure (fs, outs ++ [s!"ok:{c.length}:{fnv c}:{cls}"])
              | _ => pure (fs, outs ++ ["noreply"])
            | none, some (_, .error c _) => pure (fs, outs ++ [s!"err:{errIndex c}:L"])
            | none, _ => pure (fs, outs ++ ["noreply"])
          | "u" :: name :: b :: w :: rest =>
            let content ← parseContent (":".intercalate rest)
            let os : List TransferOption := [{ option := .blksize, value := (← b.toNat?) }, { option := .windowsize, value := (← w.toNat?) }]
            let r := handleWrq cfg fs0 (bytesOfString name) os
            match r.worker, r.reply with
            | some wk, _ =>
              if cfg.readOnly then pure (fs, outs ++ ["err:2:L"])
              else if fs0.canCreate wk.path then pure (fs.set (components wk.path) (.file content), outs ++ [s!"ok:{cls}"])
              else pure (fs, outs ++ ["noreply"])
            | none, some (_, .error c _) => pure (fs, outs ++ [s!"err:{errIndex c}:L"])
            | none, _ => pure (fs, outs ++ ["noreply"])
          | ["i", _] => pure (fs, outs ++ ["E4L"])
          -- a stranger sending datagrams to another client's transfer endpoint: by `c12_frame` it changes nobody's outcome
          | ["x", _, _] => pure (fs, outs ++ ["x"])
          | _ => none
        -- `a+b`: transfer a, then transfer b from the same endpoint: each yields its solo outcome
        let step (acc : Option (Fs × List String)) (spec : String) : Option (Fs × List String) := do
          let (fs, outs) ← acc
          let (fs', subs) ← (spec.splitOn "+").foldl one (some (fs, []))
          pure (fs', outs ++ ["|".intercalate subs])
        match clients.foldl step (some (fs0, [])) with
        | none => "bad-op"
        | some (fs, outs) =>
          let named := (List.range outs.length).zip outs |>.map fun (i, o) => s!"c{i}={o}"
          " ".intercalate named ++ " ; fs=" ++ showFs root fs
  | _ => "bad-op"

end Tftp.Driver
