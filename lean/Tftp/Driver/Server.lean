import Tftp.Driver.Worker
import Tftp.Model.Server
/-! Line protocol for the request-level server model: one request and its scripted continuation. -/
namespace Tftp.Driver
open Tftp

def bytesOfString (s : String) : Bytes := s.toUTF8.toList
/-- printable ASCII as is, everything else `%xx` (same rule in the harness) -/
def stringOfBytes (b : Bytes) : String :=
  String.ofList (b.flatMap fun x =>
    let c := Char.ofNat x.toNat
    if c.isAlphanum || c == '.' || c == '-' || c == '_' then [c]
    else ['%', hexDigit (x.toNat / 16), hexDigit (x.toNat % 16)])

/-- `~xx` in a path of the sandbox spec stands for the byte xx -/
def untilde : Bytes → Bytes
  | 126 :: a :: b :: rest =>
    match bytesOfHex (String.ofList [Char.ofNat a.toNat, Char.ofNat b.toNat]) with
    | some [v] => v :: untilde rest
    | _ => 126 :: untilde (a :: b :: rest)
  | x :: rest => x :: untilde rest
  | [] => []

structure CfgFlags where
  single : Bool := false
  ro : Bool := false
  ow : Bool := false
  keep : Bool := false
  split : Bool := false
  trailing : Bool := false      -- the served directories are configured with a trailing separator
  dup : Nat := 0

def parseFlags (s : String) : CfgFlags :=
  let cs := s.toList
  let digits := String.ofList (cs.filter Char.isDigit)
  { single := cs.contains 's', ro := cs.contains 'r', ow := cs.contains 'o', keep := cs.contains 'k',
    split := cs.contains 'x', trailing := cs.contains 't', dup := digits.toNat?.getD 0 }

def mkCfg (root : Bytes) (fl : CfgFlags) : SrvCfg :=
  let tail := if fl.trailing then bytesOfString "/" else []
  let sd := (if fl.split then root ++ bytesOfString "/send" else root ++ bytesOfString "/srv") ++ tail
  let rd := (if fl.split then root ++ bytesOfString "/recv" else root ++ bytesOfString "/srv") ++ tail
  { singlePort := fl.single, readOnly := fl.ro, overwrite := fl.ow, cleanOnError := !fl.keep, dup := fl.dup,
    sendDir := sd, recvDir := rd }

/-- fs spec: comma separated `rel/path=hex` (file) or `rel/path/` (directory), relative to the root -/
def parseFs (root : Bytes) (fl : CfgFlags) (s : String) : Option Fs :=
  let rootCs := components root
  let base : Fs := (if fl.split then [(rootCs ++ [bytesOfString "send"], FsNode.dir), (rootCs ++ [bytesOfString "recv"], FsNode.dir)]
                    else [(rootCs ++ [bytesOfString "srv"], FsNode.dir)])
  -- the ancestors of the root exist as directories
  let anc : Fs := (List.range (rootCs.length + 1)).filterMap fun i =>
    if i = 0 then none else some (rootCs.take i, FsNode.dir)
  -- every ancestor of an entry exists as a directory
  let withParents (fs : Fs) (p : List Bytes) : Fs :=
    (List.range p.length).foldl (fun fs i =>
      if i = 0 then fs else
      let d := rootCs ++ p.take i
      if (fs.lookup d).isSome then fs else fs.set d .dir) fs
  if s = "-" then some (anc ++ base) else
  (s.splitOn ",").foldlM (fun (fs : Fs) item =>
    if item.endsWith "/" then
      let p := components (untilde (bytesOfString item))
      some ((withParents fs p).set (rootCs ++ p) .dir)
    else match item.splitOn "=" with
      | [p, h] => do
        let pc := components (untilde (bytesOfString p))
        -- `!target`: a dangling symbolic link: nothing is there (only its parents are)
        if h.startsWith "!" then pure (withParents fs pc) else
        -- `@name`: a symbolic link to a file of the same directory, named earlier in the spec (reads follow it)
        let c ← if h.startsWith "@" then
            (match fs.lookup (rootCs ++ pc.dropLast ++ [bytesOfString (h.drop 1).toString]) with
             | some (.file c) => some c
             | _ => none)
          else if h = "|" then some []     -- a FIFO: only hostile batches name it; the model sees an empty file
          else parseContent h
        pure ((withParents fs pc).set (rootCs ++ pc) (.file c))
      | _ => none) (anc ++ base)

def showFs (root : Bytes) (fs : Fs) : String :=
  let rootCs := components root
  let items := fs.filterMap fun e =>
    if e.1.length > rootCs.length && e.1.take rootCs.length == rootCs then
      let rel := "/".intercalate ((e.1.drop rootCs.length).map stringOfBytes)
      match e.2 with
      | .file c => some s!"{rel}:{c.length}:{fnv c}"
      | .dir => some s!"{rel}/"
    else none
  let sorted := items.mergeSort (fun a b => a ≤ b)
  if sorted.isEmpty then "-" else ",".intercalate sorted

/-- the harness can only tell "from the listening port" (L) from "from another port" (T) -/
def srcName (single : Bool) : Src → String
  | .listener => "L" | .transfer => if single then "L" else "T"

def showReplyPkt : Packet → String
  | .error c _ => s!"error {errIndex c}"       -- message text is not compared
  | p => showPacket p

def abc : Bytes := [97, 98, 99]

/-- `handleDatagram` for the scenario simulations. A block size no datagram can carry (possible only when the range guard regenerated
from the source is gone or unrecognised) is cut to 100000 bytes *for the simulated conversation only*, so that the driver answers in
bounded time; the reply (`r1`, which shows the value the server acknowledges) is untouched, and the harness cannot send such a block
either, so the two sides then differ visibly instead of the model hanging. -/
def hd (cfg : SrvCfg) (fs : Fs) (dgram : Bytes) : Reaction :=
  let r := handleDatagram cfg fs Gen.defaultBlockSize dgram
  match r.worker with
  | some w => if w.opts.blockSize > 100000 then { r with worker := some { w with opts := { w.opts with blockSize := 100000 } } } else r
  | none => r

def reqLine (toks : List String) : String :=
  match toks with
  | ["req", rootH, flags, fsS, dg] =>
    match bytesOfHex rootH, bytesOfHex dg with
    | some root, some dgram =>
      let fl := parseFlags flags
      let cfg := mkCfg root fl
      match parseFs root fl fsS with
      | none => "bad-op"
      | some fs =>
        let r := hd cfg fs dgram
        let r1 := match r.reply with
          | none => "r1=- none"
          | some (src, p) => s!"r1={srcName cfg.singlePort src} {showReplyPkt p}"
        match r.worker with
        | none => s!"{r1} ; conv=- ; fs={showFs root fs}"
        | some w =>
          match w.kind with
          | .send =>
            let sc : SCfg := { b := w.opts.blockSize, w := w.opts.windowSize, timeout := w.opts.timeoutS * 1000, rep := w.rep }
            match fs.stat w.path with
            | some (.file content) =>
              let i := sInit sc content w.checkResponse
              let burst := if w.checkResponse then (sStep sc i.1 (.ack 0) 0).2 else i.2
              s!"{r1} ; conv={showGroup burst} ; fs={showFs root fs}"
            | _ =>
              -- a directory: `read` fails, nothing is sent (observable only as silence after the OACK)
              let cv := if w.checkResponse then "." else "-"
              s!"{r1} ; conv={cv} ; fs={showFs root fs}"
          | .receive =>
            if fs.canCreate w.path then
              let rc : RCfg := { b := w.opts.blockSize, w := w.opts.windowSize, rep := w.rep, cleanOnError := cfg.cleanOnError }
              -- the scripted upload: `nfull` full blocks, then the short block "abc"
              let b := w.opts.blockSize
              let byBytes := max 1 (49152 / (max b 1))
              let wv := w.opts.windowSize
              let nfull := if 1000000 < b * wv ∧ b * wv ≤ 1250000 ∧ wv ≤ 2100 then wv else min (min wv 300) byBytes
              let evs : List REv := (List.range nfull).map (fun i => REv.data ((i + 1) % 65536) (genBytes b (i + 1))) ++
                [REv.data ((nfull + 1) % 65536) abc]
              let run := rRunFrom rc (rInit rc) evs
              let acks := " ".intercalate (run.1.flatten.map fun a => s!"A{a.n}")
              let st := (run.2, ())
              -- still running (block was not final): the client's ERROR ends it
              let final : Option Bytes := match st.1.status with
                | .ok => some st.1.win.file.content
                | _ => if cfg.cleanOnError then none else some st.1.win.file.content
              let fs' := match final with
                | some c => fs.set (components w.path) (.file c)
                | none => fs.remove (components w.path)
              s!"{r1} ; conv={if acks.isEmpty then "." else acks} ; fs={showFs root fs'}"
            else
              -- the worker dies at `File::create`; whether the client's DATA is answered by the listener's
              -- ERROR 4 (single-port) depends on a race, so neither side prints it
              s!"{r1} ; conv=. ; fs={showFs root fs}"
    | _, _ => "bad-op"
  | _ => "bad-op"

/-- an upload aborted by the client after `nblocks` full blocks: `abort <root> <flags> <fs> <wrq-hex> <nblocks>` -/
def abortLine (toks0 : List String) : String :=
  -- an optional 7th token (the text of the aborting ERROR packet) does not enter the model: any ERROR ends the transfer
  let toks := if toks0.length = 7 then toks0.take 6 else toks0
  match toks with
  | ["abort", rootH, flags, fsS, dg, nb] =>
    match bytesOfHex rootH, bytesOfHex dg, nb.toNat? with
    | some root, some dgram, some nblocks =>
      let fl := parseFlags flags
      let cfg := mkCfg root fl
      match parseFs root fl fsS with
      | none => "bad-op"
      | some fs =>
        let r := hd cfg fs dgram
        let r1 := match r.reply with
          | none => "r1=- none"
          | some (src, p) => s!"r1={srcName cfg.singlePort src} {showReplyPkt p}"
        match r.worker with
        | some w =>
          if w.kind == .receive && fs.canCreate w.path then
            let rc : RCfg := { b := w.opts.blockSize, w := w.opts.windowSize, rep := w.rep, cleanOnError := cfg.cleanOnError }
            let evs : List REv := (List.range nblocks).map (fun i => REv.data ((i + 1) % 65536) (genBytes w.opts.blockSize (i + 1))) ++ [REv.error]
            let run := rRunFrom rc (rInit rc) evs
            let acks := " ".intercalate (run.1.flatten.map fun a => s!"A{a.n}")
            let fs' := match rFinalFile rc run.2 with
              | some c => fs.set (components w.path) (.file c)
              | none => fs.remove (components w.path)
            s!"{r1} ; conv={if acks.isEmpty then "." else acks} ; fs={showFs root fs'}"
          else s!"{r1} ; conv=. ; fs={showFs root fs}"
        | none => s!"{r1} ; conv=. ; fs={showFs root fs}"
    | _, _, _ => "bad-op"
  | _ => "bad-op"

/-- a download whose client falls silent after ACK 0: the retransmission interval is the acknowledged timeout,
and DATA 1 is transmitted once plus once per failed attempt that leaves budget: `MAX_RETRIES` times in all -/
def timingLine (toks0 : List String) : String :=
  -- optional 6th token `first`: the observation stops after the first retransmission
  let firstOnly := toks0.length = 6 && toks0.getLast? = some "first"
  let toks := if firstOnly then toks0.take 5 else toks0
  match toks with
  | ["timing", rootH, flags, fsS, dg] =>
    match bytesOfHex rootH, bytesOfHex dg with
    | some root, some dgram =>
      let fl := parseFlags flags
      let cfg := mkCfg root fl
      match parseFs root fl fsS with
      | none => "bad-op"
      | some fs =>
        let r := hd cfg fs dgram
        match r.worker, r.reply with
        | some w, some (_, .oack _) =>
          match fs.stat w.path with
          | some (.file content) =>
            let sc : SCfg := { b := w.opts.blockSize, w := w.opts.windowSize, timeout := w.opts.timeoutS * 1000, rep := 1 }
            let evs : List (SEv × Nat) := (SEv.ack 0, 0) :: List.replicate 12 (SEv.fail, sc.timeout)
            let run := sRun sc content true evs
            let sends := (run.1.filter fun g => g.any fun p => match p with | .data 1 _ => true | _ => false).length
            s!"first=oack interval={w.opts.timeoutS} transmissions={if firstOnly then min sends 2 else sends}"
          | _ => "first=other"
        | _, _ => "first=other"
    | _, _ => "bad-op"
  | _ => "bad-op"

/-- a download aborted by the client's ERROR after the first DATA: by `c07_stop_on_error` nothing is emitted afterwards,
whatever the code -/
def errstopLine (toks : List String) : String :=
  match toks with
  | ["errstop", rootH, flags, fsS, dg, _code] =>
    match bytesOfHex rootH, bytesOfHex dg with
    | some root, some dgram =>
      let fl := parseFlags flags
      let cfg := mkCfg root fl
      match parseFs root fl fsS with
      | none => "bad-op"
      | some fs =>
        let r := hd cfg fs dgram
        match r.worker with
        | some w =>
          match w.kind, fs.stat w.path with
          | .send, some (.file _) => "first=data after=0"
          | _, _ => "first=other"
        | none => "first=other"
    | _, _ => "bad-op"
  | _ => "bad-op"

/-- an upload whose client falls silent: the receiver gives up after `MAX_RETRIES` failed attempts of one acknowledged time-out
each (`c07_receiver_bounded_silence`), and clean-on-error removes the partial file then -/
def wrqsilentLine (toks : List String) : String :=
  match toks with
  | ["wrqsilent", rootH, flags, fsS, dg, _nb] =>
    match bytesOfHex rootH, bytesOfHex dg with
    | some root, some dgram =>
      let fl := parseFlags flags
      let cfg := mkCfg root fl
      match parseFs root fl fsS with
      | none => "bad-op"
      | some fs =>
        let r := hd cfg fs dgram
        match r.worker with
        | some w =>
          match w.kind with
          | .receive =>
            if fs.canCreate w.path then
              (if cfg.cleanOnError then s!"first=ok gone_after={Gen.maxRetries * w.opts.timeoutS}" else "first=ok gone_after=never")
            else "first=other"
          | _ => "first=other"
        | none => "first=other"
    | _, _ => "bad-op"
  | _ => "bad-op"

/-- the `staleretx` scenario (harness/src/server.rs): DATA 2 lost, a stale ACK 1 0.8 s later, the first retransmission lost, the
second one answered, lock-step to the end. The sender model runs on the event list the scenario induces (a failed `recv` lasts the whole
socket time-out, which the stale ACK restarted). -/
def staleretxLine (toks : List String) : String :=
  match toks with
  | ["staleretx", rootH, flags, fsS, dg] =>
    match bytesOfHex rootH, bytesOfHex dg with
    | some root, some dgram =>
      let fl := parseFlags flags
      let cfg := mkCfg root fl
      match parseFs root fl fsS with
      | none => "bad-op"
      | some fs =>
        let r := hd cfg fs dgram
        match r.worker, r.reply with
        | some w, some (_, .oack _) =>
          match fs.stat w.path with
          | some (.file content) =>
            let sc : SCfg := { b := w.opts.blockSize, w := w.opts.windowSize, timeout := w.opts.timeoutS * 1000, rep := 1 }
            let n := content.length / sc.b + 1
            let pre : List (SEv × Nat) := [(.ack 0, 0), (.ack 1, 0), (.ack 1, 800), (.fail, sc.timeout), (.fail, sc.timeout)]
            let rest : List (SEv × Nat) := (List.range (n - 1)).map fun i => (.ack (i + 2), 0)
            let run := sRun sc content true (pre ++ rest)
            let groups := (run.1.drop 4).take 2       -- what the two failed attempts produce
            let retx := (groups.filter fun g => g.any fun p => match p with | .data 2 _ => true | _ => false).length
            let done := match run.2.status with | .ok => "ok" | _ => "no"
            s!"first=oack retx={retx} done={done} got={content.length}:{fnv content}"
          | _ => "first=other"
        | _, _ => "first=other"
    | _, _ => "bad-op"
  | _ => "bad-op"

/-- the `quiet` scenario (harness/src/server.rs): client A is silent for a while - inside the retry budget of its worker - while client B
is served, then goes on. By `c12_projection` A's outcome is its solo outcome: the transfer resumes and completes. -/
def quietLine (toks : List String) : String :=
  match toks with
  | ["quiet", rootH, flags, fsS, dg, _silence, other] =>
    match bytesOfHex rootH, bytesOfHex dg, bytesOfHex other with
    | some root, some dgram, some od =>
      let fl := parseFlags flags
      let cfg := mkCfg root fl
      match parseFs root fl fsS with
      | none => "bad-op"
      | some fs =>
        let r := hd cfg fs dgram
        let rb := hd cfg fs od
        let bok := match rb.worker with | some _ => "ok" | none => "no"
        match r.worker with
        | some w =>
          match w.kind with
          | .send =>
            match fs.stat w.path with
            | some (.file _) => s!"first=data b={bok} resumed=ok done=ok"
            | _ => "first=other"
          | .receive => if fs.canCreate w.path then s!"first=ack0 b={bok} resumed=ok done=ok" else "first=other"
        | none => "first=other"
    | _, _, _ => "bad-op"
  | _ => "bad-op"

/-- a hostile batch followed by a probe: by `c05_probe_independent` the batch does not enter the answer -/
def stormLine (toks : List String) : String :=
  match toks with
  | "storm" :: rootH :: flags :: fsS :: probe :: _ =>
    let r := reqLine ["req", rootH, flags, fsS, probe]
    match r.splitOn " ; fs=" with
    | a :: _ => a
    | [] => r
  | _ => "bad-op"

/-- several clients under a schedule: by `c12_projection` each client's outcome is its solo outcome, so the
schedule does not enter the answer. Clients: `d:name:b:w`, `u:name:b:w:content`, `i:kind`,
`x:victim:kind` (a stranger that sends to the endpoint serving client `victim`). -/
def multiLine (toks : List String) : String :=
  match toks with
  | "multi" :: rootH :: flags :: fsS :: _sched :: clients =>
    match bytesOfHex rootH with
    | none => "bad-op"
    | some root =>
      let fl := parseFlags flags
      let cfg := mkCfg root fl
      match parseFs root fl fsS with
      | none => "bad-op"
      | some fs0 =>
        let cls := if cfg.singlePort then "L" else "T"
        -- the state threaded through the clients: `rd` is what reads see (the initial tree, changed only by `m:` entries, which replace a
        -- file behind the server's back; such scenarios are scheduled strictly in list order), `fs` is the final tree (with the uploads)
        let one (acc : Option (Fs × Fs × List String)) (spec : String) : Option (Fs × Fs × List String) := do
          let (rd, fs, outs) ← acc
          match (match spec.splitOn ":" with | "D" :: rest => "d" :: rest | "J" :: rest => "d" :: rest | "U" :: rest => "u" :: rest | "V" :: rest => "u" :: rest | other => other) with
          | ["d", name, b, w] =>
            let os : List TransferOption := [{ option := .blksize, value := (← b.toNat?) }, { option := .windowsize, value := (← w.toNat?) }]
            let r := handleRrq cfg rd (bytesOfString name) os
            match r.worker, r.reply with
            | some wk, _ =>
              match rd.stat wk.path with
              | some (.file c) => pure (rd, fs, outs ++ [s!"ok:{c.length}:{fnv c}:{cls}:t{c.length}"])
              | _ => pure (rd, fs, outs ++ ["noreply"])
            | none, some (_, .error c _) => pure (rd, fs, outs ++ [s!"err:{errIndex c}:L"])
            | none, _ => pure (rd, fs, outs ++ ["noreply"])
          | "u" :: name :: b :: w :: rest =>
            let content ← parseContent (":".intercalate rest)
            let os : List TransferOption := [{ option := .blksize, value := (← b.toNat?) }, { option := .windowsize, value := (← w.toNat?) }]
            let r := handleWrq cfg rd (bytesOfString name) os
            match r.worker, r.reply with
            | some wk, _ =>
              if cfg.readOnly then pure (rd, fs, outs ++ ["err:2:L"])
              else if rd.canCreate wk.path then pure (rd, fs.set (components wk.path) (.file content), outs ++ [s!"ok:{cls}"])
              else pure (rd, fs, outs ++ ["noreply"])
            | none, some (_, .error c _) => pure (rd, fs, outs ++ [s!"err:{errIndex c}:L"])
            | none, _ => pure (rd, fs, outs ++ ["noreply"])
          | ["i", _] => pure (rd, fs, outs ++ ["E4L"])
          -- a stranger sending datagrams to another client's transfer endpoint: by `c12_frame` it changes nobody's outcome
          | ["x", _, _] => pure (rd, fs, outs ++ ["x"])
          -- `m:name:content`: the served file is replaced on disk
          | "m" :: name :: rest =>
            let content ← parseContent (":".intercalate rest)
            let p := components (joinPath cfg.sendDir (bytesOfString name))
            pure (rd.set p (.file content), fs.set p (.file content), outs ++ ["m"])
          | _ => none
        -- `a+b`: transfer a, then transfer b from the same endpoint: each yields its solo outcome
        let step (acc : Option (Fs × Fs × List String)) (spec : String) : Option (Fs × Fs × List String) := do
          let (rd, fs, outs) ← acc
          let (rd', fs', subs) ← (spec.splitOn "+").foldl one (some (rd, fs, []))
          pure (rd', fs', outs ++ ["|".intercalate subs])
        match clients.foldl step (some (fs0, fs0, [])) with
        | none => "bad-op"
        | some (_, fs, outs) =>
          let named := (List.range outs.length).zip outs |>.map fun (i, o) => s!"c{i}={o}"
          " ".intercalate named ++ " ; fs=" ++ showFs root fs
  | _ => "bad-op"

end Tftp.Driver
