import Tftp.Model.Codec
/-! Line-protocol helpers of the driver: hex, canonical packet text. No proofs. -/
namespace Tftp.Driver
open Tftp

def hexDigit (n : Nat) : Char :=
  if n < 10 then Char.ofNat (48 + n) else Char.ofNat (87 + n)

def hexOfBytes (b : Bytes) : String :=
  if b.isEmpty then "-" else
  String.ofList (b.flatMap fun x => [hexDigit (x.toNat / 16), hexDigit (x.toNat % 16)])

def hexVal (c : Char) : Option Nat :=
  if '0' ≤ c ∧ c ≤ '9' then some (c.toNat - 48)
  else if 'a' ≤ c ∧ c ≤ 'f' then some (c.toNat - 87)
  else if 'A' ≤ c ∧ c ≤ 'F' then some (c.toNat - 55)
  else none

def bytesOfHexAux : List Char → List UInt8 → Option Bytes
  | [], acc => some acc.reverse
  | [_], _ => none
  | a :: b :: rest, acc =>
    match hexVal a, hexVal b with
    | some x, some y => bytesOfHexAux rest (UInt8.ofNat (x * 16 + y) :: acc)
    | _, _ => none

def bytesOfHex (s : String) : Option Bytes :=
  if s = "-" then some [] else bytesOfHexAux s.toList []

def optName : OptionType → String
  | .blksize => "blksize" | .tsize => "tsize" | .timeout => "timeout" | .windowsize => "windowsize"

def optOfString : String → Option OptionType
  | "blksize" => some .blksize | "tsize" => some .tsize
  | "timeout" => some .timeout | "windowsize" => some .windowsize
  | _ => none

def showOpts (os : List TransferOption) : String :=
  if os.isEmpty then "-" else
  ",".intercalate (os.map fun o => s!"{optName o.option}:{o.value}")

def parseOpts (s : String) : Option (List TransferOption) :=
  if s = "-" then some [] else
  (s.splitOn ",").mapM fun item =>
    match item.splitOn ":" with
    | [n, v] => do
      let t ← optOfString n
      let k ← v.toNat?
      pure { option := t, value := k }
    | _ => none

def errIndex : ErrorCode → Nat
  | .notDefined => 0 | .fileNotFound => 1 | .accessViolation => 2 | .diskFull => 3
  | .illegalOperation => 4 | .unknownId => 5 | .fileExists => 6 | .noSuchUser => 7

def errOfIndex : Nat → Option ErrorCode
  | 0 => some .notDefined | 1 => some .fileNotFound | 2 => some .accessViolation | 3 => some .diskFull
  | 4 => some .illegalOperation | 5 => some .unknownId | 6 => some .fileExists | 7 => some .noSuchUser
  | _ => none

def showPacket : Packet → String
  | .rrq f m os => s!"rrq {hexOfBytes f} {hexOfBytes m} {showOpts os}"
  | .wrq f m os => s!"wrq {hexOfBytes f} {hexOfBytes m} {showOpts os}"
  | .data n d => s!"data {n} {hexOfBytes d}"
  | .ack n => s!"ack {n}"
  | .error c m => s!"error {errIndex c} {hexOfBytes m}"
  | .oack os => s!"oack {showOpts os}"

def parsePacket (toks : List String) : Option Packet :=
  match toks with
  | ["rrq", f, m, os] => do pure (.rrq (← bytesOfHex f) (← bytesOfHex m) (← parseOpts os))
  | ["wrq", f, m, os] => do pure (.wrq (← bytesOfHex f) (← bytesOfHex m) (← parseOpts os))
  | ["data", n, d] => do pure (.data (← n.toNat?) (← bytesOfHex d))
  | ["ack", n] => do pure (.ack (← n.toNat?))
  | ["error", c, m] => do pure (.error (← errOfIndex (← c.toNat?)) (← bytesOfHex m))
  | ["oack", os] => do pure (.oack (← parseOpts os))
  | _ => none

def opcodeName : Opcode → String
  | .rrq => "rrq" | .wrq => "wrq" | .data => "data" | .ack => "ack" | .error => "error" | .oack => "oack"

/-- FNV-1a, 32 bit: digest used wherever a payload is too long to print. -/
def fnv (b : Bytes) : Nat :=
  b.foldl (fun h x => ((h ^^^ x.toNat) * 16777619) % 4294967296) 2166136261

def codecLine (toks : List String) : String :=
  match toks with
  | ["dec", h] =>
    match bytesOfHex h with
    | none => "bad-op"
    | some b =>
      match decode b with
      | .ok p =>
        let re := if decode (encode p) = .ok p then "same" else "diff"
        s!"ok {showPacket p} enc={hexOfBytes (encode p)} re={re}"
      | .err => "err"
      | .panic => "panic"
  | "enc" :: rest =>
    match parsePacket rest with
    | none => "bad-op"
    | some p => hexOfBytes (encode p)
  | ["opc", n] =>
    match n.toNat? with
    | none => "bad-op"
    | some k => match Opcode.ofU16 k with
      | none => "none"
      | some o => s!"some {opcodeName o} {hexOfBytes (u16be o.toU16)}"
  | ["erc", n] =>
    match n.toNat? with
    | none => "bad-op"
    | some k => match ErrorCode.ofU16 k with
      | none => "none"
      | some c => s!"some {errIndex c} {hexOfBytes (u16be c.toU16)}"
  | ["optname", h] =>
    match bytesOfHex h with
    | none => "bad-op"
    | some b =>
      if !validUtf8 b then "invalid-utf8" else
      match OptionType.ofName (lowerName b) with
      | none => "none"
      | some t => s!"some {optName t} {hexOfBytes t.name}"
  | ["utf8", h] =>
    match bytesOfHex h with
    | none => "bad-op"
    | some b => if validUtf8 b then "1" else "0"
  | ["pusize", h] =>
    match bytesOfHex h with
    | none => "bad-op"
    | some b =>
      if !validUtf8 b then "invalid-utf8" else
      match parseUsize b with
      | none => "none"
      | some n => s!"some {n}"
  | ["todec", n] =>
    match n.toNat? with
    | none => "bad-op"
    | some k => hexOfBytes (toDec k)
  | _ => "bad-op"

end Tftp.Driver
