import Tftp.Driver.Util
import Tftp.Model.Sender
import Tftp.Model.Receiver
import Tftp.Model.ReceiverQ
/-! Line protocol for the window / sender / receiver models. -/
namespace Tftp.Driver
open Tftp

/-- deterministic file content shared with the harness: byte i = (i * mul + i / 251 + seed) mod 256 -/
def genBytes (len seed : Nat) : Bytes :=
  (List.range len).map fun i => UInt8.ofNat ((i * 31 + i / 251 + seed) % 256)

def parseContent (s : String) : Option Bytes :=
  match s.splitOn ":" with
  | ["gen", l, sd] => do pure (genBytes (← l.toNat?) (← sd.toNat?))
  | ["zero", l] => do pure (List.replicate (← l.toNat?) 0)
  | ["pat", h, l] => do
    let p ← bytesOfHex h
    let n ← l.toNat?
    if p.isEmpty then none else pure ((List.range n).map fun i => p.getD (i % p.length) 0)
  | [h] => bytesOfHex h
  | _ => none

def showChunks (cs : List Bytes) : String :=
  if cs.isEmpty then "." else ",".intercalate (cs.map hexOfBytes)

def outcomeBool : Outcome Bool → String
  | .ok true => "ok1" | .ok false => "ok0" | .err => "err" | .panic => "panic"
def outcomeUnit : Outcome Unit → String
  | .ok _ => "ok" | .err => "err" | .panic => "panic"

def winOp (w : Window) (op : String) : Option (Window × String) :=
  match op.toList with
  | ['f'] => let r := w.fill; some (r.1, "f:" ++ outcomeBool r.2)
  | ['e'] => let r := w.empty; some (r.1, "e:" ++ outcomeUnit r.2)
  | 'r' :: k => do
    let n ← (String.ofList k).toNat?
    let r := w.remove n
    pure (r.1, "r:" ++ outcomeUnit r.2)
  | 'a' :: h => do
    let d ← bytesOfHex (String.ofList h)
    let r := w.add d
    pure (r.1, "a:" ++ outcomeUnit r.2)
  | ['l'] => some (w, s!"l:{w.len}")
  | ['F'] => some (w, if w.isFull then "F:1" else "F:0")
  | ['E'] => some (w, if w.isEmpty then "E:1" else "E:0")
  | ['g'] => some (w, "g:" ++ showChunks w.elems)
  | _ => none

def winLine (toks : List String) : String :=
  match toks with
  | "win" :: size :: chunk :: mode :: file :: ops =>
    match size.toNat?, chunk.toNat?, parseContent file with
    | some sz, some ch, some f =>
      let fs? : Option FileSt := match mode with
        | "r" => some (FileSt.openRead f)
        | "w" => some FileSt.create
        | "a" => some (FileSt.openAppend f)
        | _ => none
      match fs? with
      | none => "bad-op"
      | some fs =>
        let rec go (w : Window) (ops : List String) (acc : List String) : Option (Window × List String) :=
          match ops with
          | [] => some (w, acc.reverse)
          | o :: os => match winOp w o with
            | none => none
            | some (w', r) => go w' os (r :: acc)
        match go (Window.new sz ch fs) ops [] with
        | none => "bad-op"
        | some (w, rs) => " ".intercalate rs ++ " | file=" ++ hexOfBytes w.file.content
    | _, _, _ => "bad-op"
  | _ => "bad-op"

/-! sender -/

def parseSEv (timeout : Nat) (s : String) : Option (SEv × Nat) :=
  if s = "T" then some (.fail, timeout) else
  match s.splitOn "@" with
  | [k, dt] => do
    let d ← dt.toNat?
    match k.toList with
    | 'A' :: n => do pure (.ack (← (String.ofList n).toNat?), d)
    | 'E' :: c => if c.isEmpty || (String.ofList c).toNat?.isSome then pure (.error, d) else none   -- any ERROR code ends the transfer
    | ['O'] => pure (.other, d)
    | ['G'] => pure (.fail, d)
    | _ => none
  | _ => none

def showSPkt : Packet → String
  | .data n d => s!"D{n}:{d.length}:{fnv d}"
  | .error c _ => s!"E{errIndex c}"
  | p => "?" ++ showPacket p

def showGroup (g : List Packet) : String :=
  if g.isEmpty then "." else " ".intercalate (g.map showSPkt)

def statusName : Status → String
  | .handshake => "running" | .running => "running" | .ok => "ok" | .failed => "failed"

/-- runs the events until the worker has ended; events after the end are not consumed -/
def sRunStop (c : SCfg) : SState → List (SEv × Nat) → List String → List String × SState
  | s, [], acc => (acc.reverse, s)
  | s, e :: es, acc =>
    match s.status with
    | .ok => (acc.reverse, s)
    | .failed => (acc.reverse, s)
    | _ =>
      let r := sStep c s e.1 e.2
      sRunStop c r.1 es (showGroup r.2 :: acc)

def sndLine (toks : List String) : String :=
  match toks with
  | "snd" :: b :: w :: tmo :: rep :: chk :: file :: evs =>
    match b.toNat?, w.toNat?, tmo.toNat?, rep.toNat?, parseContent file with
    | some b, some w, some tmo, some rep, some f =>
      -- `S<ms>` (what one send costs on the simulated clock) is not an event: the timer is armed after the window has been sent
      let evs := evs.filter fun e => !(e.startsWith "S" && (e.drop 1).toString.toNat?.isSome)
      match evs.mapM (parseSEv tmo) with
      | none => "bad-op"
      | some es =>
        let c : SCfg := { b := b, w := w, timeout := tmo, rep := rep }
        let i := sInit c f (chk = "1")
        let r := sRunStop c i.1 es [showGroup i.2]
        " | ".intercalate r.1 ++ " => " ++ statusName r.2.status
    | _, _, _, _, _ => "bad-op"
  | _ => "bad-op"

/-! receiver -/

def parseREv (s : String) : Option REv :=
  match s.toList with
  | 'E' :: c => if c.isEmpty || (String.ofList c).toNat?.isSome then some .error else none   -- any ERROR code
  | ['T'] => some .fail
  | 'A' :: _ => some .fail
  | 'O' :: _ => some .fail
  | 'D' :: rest =>
    match (String.ofList rest).splitOn ":" with
    | n :: payload => do
      let k ← n.toNat?
      let p ← parseContent (":".intercalate payload)
      pure (.data k p)
    | _ => none
  | _ => none

def showFile (full : Bool) (f : FileSt) : String :=
  if full then let c := f.content; s!"{c.length}:{fnv c}" else s!"{f.initial.length + f.wlen}"

def showAcks (full : Bool) (g : List AckObs) : String :=
  if g.isEmpty then "." else " ".intercalate (g.map fun a => s!"A{a.n}:{showFile full a.file}")

def rStatusName : RStatus → String
  | .running => "running" | .ok => "ok" | .failed => "failed"

def rRunStop (c : RCfg) (full : Bool) : RState → List REv → List String → List String × RState
  | s, [], acc => (acc.reverse, s)
  | s, e :: es, acc =>
    match s.status with
    | .running =>
      let r := rStep c s e
      rRunStop c full r.1 es (showAcks full r.2 :: acc)
    | _ => (acc.reverse, s)

def rRunStopQ (c : RCfg) (full : Bool) : RState → Option Nat → List REv → List String → List String × RState
  | s, _, [], acc => (acc.reverse, s)
  | s, room, e :: es, acc =>
    match s.status with
    | .running =>
      let r := rStepQ c s room e
      rRunStopQ c full r.1 r.2.1 es (showAcks full r.2.2 :: acc)
    | _ => (acc.reverse, s)

def rcvLine (toks : List String) : String :=
  match toks with
  | "rcv" :: b :: w :: rep :: clean :: snap :: evs =>
    match b.toNat?, w.toNat?, rep.toNat? with
    | some b, some w, some rep =>
      -- volumes beyond what the list-based model handles in reasonable time and memory are left to the statement evaluated
      -- on the implementation's observation alone (the check treats `skip` as "no model answer")
      let volume := evs.foldl (fun acc e => match e.splitOn ":" with
        | [_, "gen", l, _] => acc + (l.toNat?.getD 0)
        | [_, "zero", l] => acc + (l.toNat?.getD 0)
        | _ => acc) 0
      if volume > 30000000 then "skip" else
      match evs.mapM parseREv with
      | none => "bad-op"
      | some es =>
        let c : RCfg := { b := b, w := w, rep := rep, cleanOnError := clean = "1" }
        let full := snap = "full"
        -- `nospace`: the handle is writable in name only (a link to /dev/full): every non-empty write fails
        let s0 := if snap = "nospace" then rInitUnwritable c else rInit c
        -- `quota:<n>`: the target takes n bytes (RLIMIT_FSIZE on the harness side), the file is read at every ACK
        let quota : Option Nat := match snap.splitOn ":" with
          | ["quota", n] => n.toNat?
          | _ => none
        let full := full || quota.isSome
        let r := match quota with
          | some _ => rRunStopQ c full s0 quota es []
          | none => rRunStop c full s0 es []
        let fin := match r.2.status with
          | .running => "open"
          | _ => match rFinalFile c r.2 with
            | none => "none"
            | some ct => s!"{ct.length}:{fnv ct}"
        (if r.1.isEmpty then "-" else " | ".intercalate r.1) ++ " => " ++ rStatusName r.2.status ++ " file=" ++ fin
    | _, _, _ => "bad-op"
  | _ => "bad-op"

/-- two receive workers on one path: the second completes, then the stale first one times out.
The outcome follows the code as it is (defect D6): with clean-on-error the completed file is removed. -/
def dupwrqLine (toks : List String) : String :=
  match toks with
  | ["dupwrq", _b, _w, clean, file] =>
    match parseContent file with
    | some f =>
      let sig := s!"{f.length}:{fnv f}"
      let after := if clean = "1" then "none" else sig
      s!"second=ok after-second={sig} after-stale-timeout={after}"
    | none => "bad-op"
  | _ => "bad-op"

end Tftp.Driver
