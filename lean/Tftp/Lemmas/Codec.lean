import Tftp.Model.Codec
/-! Helper lemmas about the codec model. -/
namespace Tftp

/-! ### splitZero / toStr -/

theorem splitZero_append (s rest : Bytes) (h0 : (0 : UInt8) ∉ s) :
    splitZero (s ++ 0 :: rest) = some (s, rest) := by
  induction s with
  | nil => simp [splitZero]
  | cons b s ih =>
    have hb : b ≠ 0 := by intro h; apply h0; simp [h]
    have hs : (0 : UInt8) ∉ s := by intro h; apply h0; simp [h]
    simp [splitZero, hb, ih hs]

theorem splitZero_none (s : Bytes) (h0 : (0 : UInt8) ∉ s) : splitZero s = none := by
  induction s with
  | nil => simp [splitZero]
  | cons b s ih =>
    have hb : b ≠ 0 := by intro h; apply h0; simp [h]
    have hs : (0 : UInt8) ∉ s := by intro h; apply h0; simp [h]
    simp [splitZero, hb, ih hs]

/-- what `splitZero` returns: the prefix has no NUL and the input is `prefix ++ 0 :: rest` -/
theorem splitZero_some {b s r : Bytes} (h : splitZero b = some (s, r)) :
    b = s ++ 0 :: r ∧ (0 : UInt8) ∉ s := by
  induction b generalizing s r with
  | nil => simp [splitZero] at h
  | cons x xs ih =>
    simp only [splitZero] at h
    split at h
    · rename_i hx
      simp at h
      obtain ⟨rfl, rfl⟩ := h
      simp [hx]
    · rename_i hx
      split at h
      · rename_i s' r' heq
        simp at h
        obtain ⟨rfl, rfl⟩ := h
        obtain ⟨h1, h2⟩ := ih heq
        refine ⟨by simp [h1], ?_⟩
        intro hm
        simp at hm
        rcases hm with hm | hm
        · exact hx hm.symm
        · exact h2 hm
      · simp at h

theorem toStr_at (pre s rest : Bytes) (h0 : (0 : UInt8) ∉ s) :
    toStr (pre ++ (s ++ 0 :: rest)) pre.length =
      if validUtf8 s then .ok (s, pre.length + s.length) else .err := by
  unfold toStr
  have : ¬ pre.length > (pre ++ (s ++ 0 :: rest)).length := by simp
  simp only [this, ↓reduceIte, List.drop_left, splitZero_append s rest h0]

theorem toStr_ne_panic (buf : Bytes) (start : Nat) (h : start ≤ buf.length) :
    toStr buf start ≠ .panic := by
  unfold toStr
  have : ¬ start > buf.length := by omega
  simp only [this, ↓reduceIte]
  split
  · simp
  · split <;> simp

/-- a successful `toStr` returns an index inside the buffer that is at least `start` -/
theorem toStr_ok_bounds {buf : Bytes} {start : Nat} {s : Bytes} {zi : Nat}
    (h : toStr buf start = .ok (s, zi)) : start ≤ zi ∧ zi < buf.length ∧ zi = start + s.length := by
  unfold toStr at h
  split at h
  · simp at h
  · rename_i hle
    split at h
    · simp at h
    · rename_i s' r heq
      split at h
      · simp at h
        obtain ⟨rfl, rfl⟩ := h
        obtain ⟨h1, _⟩ := splitZero_some heq
        have hl : (buf.drop start).length = (s' ++ 0 :: r).length := by rw [h1]
        simp at hl
        omega
      · simp at h

/-! ### decimal numbers -/

def isDigit (b : UInt8) : Prop := 48 ≤ b.toNat ∧ b.toNat ≤ 57

def dval (ds : Bytes) (a : Nat) : Nat := ds.foldl (fun a d => a * 10 + (d.toNat - 48)) a

theorem parseDigits_eq (ds : Bytes) (a : Nat) (h : ∀ d ∈ ds, isDigit d) :
    parseDigits ds a = some (dval ds a) := by
  induction ds generalizing a with
  | nil => simp [parseDigits, dval]
  | cons d ds ih =>
    have hd : isDigit d := h d (by simp)
    have hds : ∀ x ∈ ds, isDigit x := fun x hx => h x (by simp [hx])
    unfold isDigit at hd
    simp only [parseDigits, hd, and_self, ↓reduceIte]
    rw [ih _ hds]
    simp [dval]

theorem digitsAux_acc (fuel n : Nat) (acc : Bytes) :
    digitsAux fuel n acc = digitsAux fuel n [] ++ acc := by
  induction fuel generalizing n acc with
  | zero => simp [digitsAux]
  | succ f ih =>
    simp only [digitsAux]
    split
    · simp
    · rw [ih (n / 10) (_ :: acc), ih (n / 10) [_]]
      simp

theorem digit_toNat (n : Nat) : (UInt8.ofNat (48 + n % 10)).toNat = 48 + n % 10 := by
  rw [UInt8.toNat_ofNat']
  omega

theorem digit_isDigit (n : Nat) : isDigit (UInt8.ofNat (48 + n % 10)) := by
  unfold isDigit
  rw [digit_toNat]; omega

theorem digitsAux_spec (fuel n : Nat) (h : n < fuel) :
    (∀ d ∈ digitsAux fuel n [], isDigit d) ∧ dval (digitsAux fuel n []) 0 = n ∧
      digitsAux fuel n [] ≠ [] := by
  induction fuel generalizing n with
  | zero => omega
  | succ f ih =>
    simp only [digitsAux]
    split
    · rename_i hlt
      refine ⟨?_, ?_, by simp⟩
      · intro d hd
        rw [List.mem_singleton] at hd
        subst hd
        exact digit_isDigit n
      · simp only [dval, List.foldl_cons, List.foldl_nil, digit_toNat]
        omega
    · rename_i hge
      have hlt : n / 10 < f := by omega
      obtain ⟨h1, h2, h3⟩ := ih (n / 10) hlt
      rw [digitsAux_acc]
      refine ⟨?_, ?_, by simp [h3]⟩
      · intro d hd
        rw [List.mem_append, List.mem_singleton] at hd
        rcases hd with hd | hd
        · exact h1 d hd
        · subst hd
          exact digit_isDigit n
      · unfold dval at h2 ⊢
        rw [List.foldl_append, h2]
        simp only [List.foldl_cons, List.foldl_nil, digit_toNat]
        omega

theorem toDec_digits (n : Nat) : ∀ d ∈ toDec n, isDigit d :=
  (digitsAux_spec (n + 1) n (by omega)).1

theorem toDec_ne_nil (n : Nat) : toDec n ≠ [] :=
  (digitsAux_spec (n + 1) n (by omega)).2.2

theorem toDec_no_zero (n : Nat) : (0 : UInt8) ∉ toDec n := by
  intro h
  have := toDec_digits n 0 h
  revert this
  unfold isDigit
  decide

theorem isDigit_lt (b : UInt8) (h : isDigit b) : b < 0x80 := by
  unfold isDigit at h
  rw [UInt8.lt_iff_toNat_lt]
  show b.toNat < 128
  omega

theorem validUtf8_of_ascii (s : Bytes) (h : ∀ b ∈ s, b < 0x80) : validUtf8 s = true := by
  induction s with
  | nil => simp [validUtf8]
  | cons b s ih =>
    have hb : b < 0x80 := h b (by simp)
    have hs : ∀ x ∈ s, x < 0x80 := fun x hx => h x (by simp [hx])
    unfold validUtf8
    simp [hb, ih hs]

theorem toDec_valid (n : Nat) : validUtf8 (toDec n) = true :=
  validUtf8_of_ascii _ (fun b hb => isDigit_lt b (toDec_digits n b hb))

theorem parseUsize_toDec (n : Nat) (h : n < Gen.usizeBound) : parseUsize (toDec n) = some n := by
  have hd := toDec_digits n
  have hne := toDec_ne_nil n
  have hv : dval (toDec n) 0 = n := (digitsAux_spec (n + 1) n (by omega)).2.1
  unfold parseUsize
  cases hs : toDec n with
  | nil => exact absurd hs hne
  | cons d ds =>
    have hdd : isDigit d := hd d (by simp [hs])
    have hne2B : d ≠ 0x2B := by
      intro he; subst he; revert hdd; unfold isDigit; decide
    have hmatch : stripPlus (d :: ds) = d :: ds := by
      unfold stripPlus
      split
      · rename_i rest heq
        simp at heq
        exact absurd heq.1 hne2B
      · rfl
    simp only [hmatch]
    have hd' : ∀ x ∈ d :: ds, isDigit x := by rw [← hs]; exact hd
    have hv' : dval (d :: ds) 0 = n := by rw [← hs]; exact hv
    rw [parseDigits_eq _ _ hd', hv']
    simp [h]

end Tftp
