import Tftp.Lemmas.Codec
/-! Round trip `decode (encode p) = ok p`, decoder totality, well-formedness of decoded packets. -/
namespace Tftp

/-- strings a Rust `String` field can hold and the wire format can carry: valid UTF-8, no NUL -/
def WFStr (s : Bytes) : Prop := validUtf8 s = true ∧ (0 : UInt8) ∉ s

def WFOpt (o : TransferOption) : Prop := o.value < Gen.usizeBound

/-- well-formed packets: what the Rust type `Packet` can hold (`String`s, `usize`, `u16`)
minus strings with an embedded NUL (which the NUL-terminated wire format cannot carry) -/
def WF : Packet → Prop
  | .rrq f m os => WFStr f ∧ WFStr m ∧ ∀ o ∈ os, WFOpt o
  | .wrq f m os => WFStr f ∧ WFStr m ∧ ∀ o ∈ os, WFOpt o
  | .data n _ => n < 65536
  | .ack n => n < 65536
  | .error _ m => WFStr m
  | .oack os => ∀ o ∈ os, WFOpt o

theorem name_facts (t : OptionType) :
    (0 : UInt8) ∉ t.name ∧ validUtf8 t.name = true ∧ OptionType.ofName (lowerName t.name) = some t := by
  cases t <;> decide

theorem toU16_u16be (n : Nat) (h : n < 65536) (rest : Bytes) : toU16 (u16be n ++ rest) = some n := by
  simp [toU16, u16be, UInt8.toNat_ofNat']
  omega

theorem u16be_length (n : Nat) : (u16be n).length = 2 := by simp [u16be]

theorem toU16_lt {s : Bytes} {n : Nat} (h : toU16 s = some n) : n < 65536 ∧ 2 ≤ s.length := by
  unfold toU16 at h
  split at h
  · rename_i b0 b1 _
    simp at h
    have := b0.toNat_lt
    have := b1.toNat_lt
    simp
    omega
  · simp at h

/-! ### options loop -/

theorem encodeOptions_cons (o : TransferOption) (os : List TransferOption) :
    encodeOptions (o :: os) = o.option.name ++ (0 :: (toDec o.value ++ (0 :: encodeOptions os))) := by
  simp [encodeOptions, TransferOption.encode]

theorem encodeOptions_length (os : List TransferOption) : os.length ≤ (encodeOptions os).length := by
  induction os with
  | nil => simp
  | cons o os ih => rw [encodeOptions_cons]; simp; omega

theorem parseOptions_encode (os : List TransferOption) (hwf : ∀ o ∈ os, WFOpt o) :
    ∀ (pre : Bytes) (acc : List TransferOption) (fuel : Nat), pre ≠ [] → os.length < fuel →
      parseOptions (pre ++ encodeOptions os) fuel (pre.length - 1) acc = .ok (acc ++ os) := by
  induction os with
  | nil =>
    intro pre acc fuel hpre hf
    cases fuel with
    | zero => omega
    | succ f =>
      have hl : pre.length ≠ 0 := by
        intro h; exact hpre (List.eq_nil_of_length_eq_zero h)
      simp [parseOptions, encodeOptions, hl]
  | cons o os ih =>
    intro pre acc fuel hpre hf
    cases fuel with
    | zero => omega
    | succ f =>
      have hl : 0 < pre.length := by
        cases pre with
        | nil => exact absurd rfl hpre
        | cons _ _ => simp
      obtain ⟨hn0, hnv, hname⟩ := name_facts o.option
      have hwo : WFOpt o := hwf o (by simp)
      have hwos : ∀ x ∈ os, WFOpt x := fun x hx => hwf x (by simp [hx])
      rw [encodeOptions_cons]
      unfold parseOptions
      have hlen : (pre ++ (o.option.name ++ 0 :: (toDec o.value ++ 0 :: encodeOptions os))).length ≠ 0 := by
        simp
      have hcond : pre.length - 1 <
          (pre ++ (o.option.name ++ 0 :: (toDec o.value ++ 0 :: encodeOptions os))).length - 1 := by
        simp; omega
      simp only [hlen, ↓reduceIte, hcond]
      have h1 : pre.length - 1 + 1 = pre.length := by omega
      rw [h1, toStr_at pre o.option.name _ hn0, hnv]
      simp only [↓reduceIte]
      -- second string: the value
      have hbuf : pre ++ (o.option.name ++ 0 :: (toDec o.value ++ 0 :: encodeOptions os)) =
          (pre ++ (o.option.name ++ [0])) ++ (toDec o.value ++ 0 :: encodeOptions os) := by simp
      have hidx : pre.length + o.option.name.length + 1 = (pre ++ (o.option.name ++ [0])).length := by
        simp; omega
      rw [hbuf, hidx, toStr_at _ (toDec o.value) _ (toDec_no_zero _), toDec_valid]
      simp only [↓reduceIte, hname, parseUsize_toDec o.value hwo]
      -- recursive call
      have hbuf2 : (pre ++ (o.option.name ++ [0])) ++ (toDec o.value ++ 0 :: encodeOptions os) =
          (pre ++ (o.option.name ++ [0]) ++ (toDec o.value ++ [0])) ++ encodeOptions os := by simp
      have hidx2 : (pre ++ (o.option.name ++ [0])).length + (toDec o.value).length =
          (pre ++ (o.option.name ++ [0]) ++ (toDec o.value ++ [0])).length - 1 := by
        simp; omega
      rw [hbuf2, hidx2, ih hwos _ _ f (by simp) (by simpa using hf)]
      simp

theorem toStr_at' (pre s rest : Bytes) (i : Nat) (hi : i = pre.length) (h0 : (0 : UInt8) ∉ s) :
    toStr (pre ++ (s ++ 0 :: rest)) i =
      if validUtf8 s then .ok (s, pre.length + s.length) else .err := by
  subst hi; exact toStr_at pre s rest h0

theorem parseOptions_encode' (os : List TransferOption) (hwf : ∀ o ∈ os, WFOpt o)
    (pre : Bytes) (acc : List TransferOption) (fuel zi : Nat) (hzi : zi = pre.length - 1)
    (hpre : pre ≠ []) (hf : os.length < fuel) :
    parseOptions (pre ++ encodeOptions os) fuel zi acc = .ok (acc ++ os) := by
  subst hzi; exact parseOptions_encode os hwf pre acc fuel hpre hf

/-! ### round trip -/

theorem decode_encode_rq (isRrq : Bool) (f m : Bytes) (os : List TransferOption)
    (hf : WFStr f) (hm : WFStr m) (hos : ∀ o ∈ os, WFOpt o) (op : Nat) :
    parseRq (u16be op ++ f ++ [0] ++ m ++ [0] ++ encodeOptions os) isRrq =
      .ok (if isRrq then .rrq f m os else .wrq f m os) := by
  unfold parseRq
  have hb1 : u16be op ++ f ++ [0] ++ m ++ [0] ++ encodeOptions os =
      u16be op ++ (f ++ 0 :: (m ++ [0] ++ encodeOptions os)) := by simp
  rw [hb1, toStr_at' (u16be op) f _ 2 (by simp [u16be]) hf.2, hf.1]
  simp only [↓reduceIte]
  have hb2 : u16be op ++ (f ++ 0 :: (m ++ [0] ++ encodeOptions os)) =
      (u16be op ++ f ++ [0]) ++ (m ++ 0 :: encodeOptions os) := by simp
  have hi2 : (u16be op).length + f.length + 1 = (u16be op ++ f ++ [0]).length := by simp; omega
  rw [hb2, hi2, toStr_at _ m _ hm.2, hm.1]
  simp only [↓reduceIte]
  have hb3 : (u16be op ++ f ++ [0]) ++ (m ++ 0 :: encodeOptions os) =
      (u16be op ++ f ++ [0] ++ m ++ [0]) ++ encodeOptions os := by simp
  have hi3 : (u16be op ++ f ++ [0]).length + m.length = (u16be op ++ f ++ [0] ++ m ++ [0]).length - 1 := by
    simp; omega
  have hol := encodeOptions_length os
  rw [hb3, hi3, parseOptions_encode os hos _ [] _ (by simp) (by simp [u16be]; omega)]
  simp

theorem decode_encode (p : Packet) (h : WF p) : decode (encode p) = .ok p := by
  cases p with
  | rrq f m os =>
    obtain ⟨hf, hm, hos⟩ := h
    have hlen : ¬ (encode (.rrq f m os)).length < 2 := by simp [encode, u16be]
    have hop : toU16 ((encode (.rrq f m os)).take 2) = some 1 := by
      simp [encode, u16be, toU16, Opcode.toU16, Gen.opcodeRrq]
    unfold decode
    simp only [hlen, ↓reduceIte, hop]
    have : Opcode.ofU16 1 = some .rrq := by decide
    simp only [this]
    simp only [encode]
    exact decode_encode_rq true f m os hf hm hos _
  | wrq f m os =>
    obtain ⟨hf, hm, hos⟩ := h
    have hlen : ¬ (encode (.wrq f m os)).length < 2 := by simp [encode, u16be]
    have hop : toU16 ((encode (.wrq f m os)).take 2) = some 2 := by
      simp [encode, u16be, toU16, Opcode.toU16, Gen.opcodeWrq]
    unfold decode
    simp only [hlen, ↓reduceIte, hop]
    have : Opcode.ofU16 2 = some .wrq := by decide
    simp only [this]
    simp only [encode]
    exact decode_encode_rq false f m os hf hm hos _
  | data n d =>
    have hn : n < 65536 := h
    have hlen : ¬ (encode (.data n d)).length < 2 := by simp [encode, u16be]
    have hop : toU16 ((encode (.data n d)).take 2) = some 3 := by
      simp [encode, u16be, toU16, Opcode.toU16, Gen.opcodeData]
    unfold decode
    simp only [hlen, ↓reduceIte, hop]
    have : Opcode.ofU16 3 = some .data := by decide
    simp only [this]
    have hd2 : (encode (.data n d)).drop 2 = u16be n ++ d := by simp [encode, u16be]
    have hd4 : (encode (.data n d)).drop 4 = d := by simp [encode, u16be]
    have hl4 : ¬ 4 > (encode (.data n d)).length := by simp [encode, u16be]
    rw [hd2, toU16_u16be n hn]
    simp only [hl4, ↓reduceIte, hd4]
  | ack n =>
    have hn : n < 65536 := h
    have hlen : ¬ (encode (.ack n)).length < 2 := by simp [encode, u16be]
    have hop : toU16 ((encode (.ack n)).take 2) = some 4 := by
      simp [encode, u16be, toU16, Opcode.toU16, Gen.opcodeAck]
    unfold decode
    simp only [hlen, ↓reduceIte, hop]
    have : Opcode.ofU16 4 = some .ack := by decide
    simp only [this]
    have hd2 : (encode (.ack n)).drop 2 = u16be n ++ [] := by simp [encode, u16be]
    rw [hd2, toU16_u16be n hn]
  | error c m =>
    have hm : WFStr m := h
    have hlen : ¬ (encode (.error c m)).length < 2 := by simp [encode, u16be]
    have hop : toU16 ((encode (.error c m)).take 2) = some 5 := by
      simp [encode, u16be, toU16, Opcode.toU16, Gen.opcodeError]
    unfold decode
    simp only [hlen, ↓reduceIte, hop]
    have : Opcode.ofU16 5 = some .error := by decide
    simp only [this]
    have hd2 : (encode (.error c m)).drop 2 = u16be c.toU16 ++ (m ++ [0]) := by simp [encode, u16be]
    have hc : c.toU16 < 65536 := by cases c <;> decide
    have hcc : ErrorCode.ofU16 c.toU16 = some c := by cases c <;> decide
    rw [hd2, toU16_u16be _ hc]
    simp only [hcc]
    have hb : encode (.error c m) = (u16be Opcode.error.toU16 ++ u16be c.toU16) ++ (m ++ 0 :: []) := by
      simp [encode]
    rw [hb, toStr_at' _ m _ 4 (by simp [u16be]) hm.2, hm.1]
    simp
  | oack os =>
    have hos : ∀ o ∈ os, WFOpt o := h
    have hlen : ¬ (encode (.oack os)).length < 2 := by simp [encode, u16be]
    have hop : toU16 ((encode (.oack os)).take 2) = some 6 := by
      simp [encode, u16be, toU16, Opcode.toU16, Gen.opcodeOack]
    unfold decode
    simp only [hlen, ↓reduceIte, hop]
    have : Opcode.ofU16 6 = some .oack := by decide
    simp only [this]
    simp only [encode]
    have hol := encodeOptions_length os
    rw [parseOptions_encode' os hos _ [] _ 1 (by simp [u16be]) (by simp [u16be]) (by simp [u16be]; omega)]
    simp

end Tftp
