import Tftp.Lemmas.CodecRoundTrip
/-! Decoder totality (no panic) and well-formedness of whatever the decoder accepts. -/
namespace Tftp

theorem parseOptions_ne_panic (buf : Bytes) :
    ∀ (fuel zi : Nat) (acc : List TransferOption), zi < buf.length → buf.length - zi < fuel →
      parseOptions buf fuel zi acc ≠ .panic := by
  intro fuel
  induction fuel with
  | zero => intro zi acc h1 h2; omega
  | succ f ih =>
    intro zi acc hzi hfuel
    unfold parseOptions
    have hl : buf.length ≠ 0 := by omega
    simp only [hl, ↓reduceIte]
    split
    · rename_i hcond
      have hp1 := toStr_ne_panic buf (zi + 1) (by omega)
      split
      · rename_i heq; exact absurd heq hp1
      · simp
      · rename_i name zi1 heq1
        obtain ⟨b1, b2, _⟩ := toStr_ok_bounds heq1
        have hp2 := toStr_ne_panic buf (zi1 + 1) (by omega)
        split
        · rename_i heq; exact absurd heq hp2
        · simp
        · rename_i value zi2 heq2
          obtain ⟨c1, c2, _⟩ := toStr_ok_bounds heq2
          split
          · split
            · exact ih zi2 _ c2 (by omega)
            · simp
          · exact ih zi2 _ c2 (by omega)
    · simp

theorem parseRq_ne_panic (buf : Bytes) (isRrq : Bool) (h : 2 ≤ buf.length) : parseRq buf isRrq ≠ .panic := by
  unfold parseRq
  have hp1 := toStr_ne_panic buf 2 h
  split
  · rename_i heq; exact absurd heq hp1
  · simp
  · rename_i f zi heq1
    obtain ⟨_, b2, _⟩ := toStr_ok_bounds heq1
    have hp2 := toStr_ne_panic buf (zi + 1) (by omega)
    split
    · rename_i heq; exact absurd heq hp2
    · simp
    · rename_i m zi' heq2
      obtain ⟨_, c2, _⟩ := toStr_ok_bounds heq2
      have hp3 := parseOptions_ne_panic buf (buf.length + 1) zi' [] c2 (by omega)
      split
      · rename_i heq; exact absurd heq hp3
      · simp
      · simp

theorem decode_ne_panic (buf : Bytes) : decode buf ≠ .panic := by
  unfold decode
  split
  · simp
  · rename_i hlen
    have h2 : 2 ≤ buf.length := by omega
    split
    · simp
    · split
      · simp
      · exact parseRq_ne_panic buf true h2
      · exact parseRq_ne_panic buf false h2
      · split
        · simp
        · rename_i n heq
          have := (toU16_lt heq).2
          simp at this
          have h4 : ¬ 4 > buf.length := by omega
          simp [h4]
      · split <;> simp
      · have hp := parseOptions_ne_panic buf (buf.length + 1) 1 [] (by omega) (by omega)
        split
        · rename_i heq; exact absurd heq hp
        · simp
        · simp
      · split
        · simp
        · rename_i c heq
          have := (toU16_lt heq).2
          simp at this
          split
          · simp
          · have hp := toStr_ne_panic buf 4 (by omega)
            split
            · rename_i heq; exact absurd heq hp
            · simp
            · simp

/-! ### what the decoder accepts is well-formed -/

theorem toStr_ok_wf {buf : Bytes} {start : Nat} {s : Bytes} {zi : Nat}
    (h : toStr buf start = .ok (s, zi)) : WFStr s := by
  unfold toStr at h
  split at h
  · simp at h
  · split at h
    · simp at h
    · rename_i s' r heq
      split at h
      · rename_i hv
        simp at h
        obtain ⟨rfl, _⟩ := h
        exact ⟨hv, (splitZero_some heq).2⟩
      · simp at h

theorem parseUsize_lt {s : Bytes} {n : Nat} (h : parseUsize s = some n) : n < Gen.usizeBound := by
  unfold parseUsize at h
  simp only at h
  split at h
  · simp at h
  · split at h
    · split at h
      · simp at h; omega
      · simp at h
    · simp at h

theorem parseOptions_wf (buf : Bytes) :
    ∀ (fuel zi : Nat) (acc os : List TransferOption), (∀ o ∈ acc, WFOpt o) →
      parseOptions buf fuel zi acc = .ok os → ∀ o ∈ os, WFOpt o := by
  intro fuel
  induction fuel with
  | zero => intro zi acc os _ h; simp [parseOptions] at h
  | succ f ih =>
    intro zi acc os hacc h
    unfold parseOptions at h
    split at h
    · simp at h
    · split at h
      · split at h
        · simp at h
        · simp at h
        · split at h
          · simp at h
          · simp at h
          · split at h
            · split at h
              · rename_i t _ v hv
                apply ih _ _ _ _ h
                intro o ho
                simp at ho
                rcases ho with ho | ho
                · exact hacc o ho
                · subst ho
                  exact parseUsize_lt hv
              · simp at h
            · exact ih _ _ _ hacc h
      · simp at h
        subst h
        exact hacc

theorem parseRq_wf {buf : Bytes} {isRrq : Bool} {p : Packet} (h : parseRq buf isRrq = .ok p) : WF p := by
  unfold parseRq at h
  split at h
  · simp at h
  · simp at h
  · rename_i f zi heq1
    split at h
    · simp at h
    · simp at h
    · rename_i m zi' heq2
      split at h
      · simp at h
      · simp at h
      · rename_i os heq3
        simp at h
        have hos := parseOptions_wf buf _ _ [] os (by simp) heq3
        subst h
        cases isRrq <;> exact ⟨toStr_ok_wf heq1, toStr_ok_wf heq2, hos⟩

theorem noMessage_wf : WFStr noMessage := by
  unfold WFStr; decide

theorem decode_wf {buf : Bytes} {p : Packet} (h : decode buf = .ok p) : WF p := by
  unfold decode at h
  split at h
  · simp at h
  · split at h
    · simp at h
    · split at h
      · simp at h
      · exact parseRq_wf h
      · exact parseRq_wf h
      · split at h
        · simp at h
        · rename_i n heq
          split at h
          · simp at h
          · simp at h; subst h; exact (toU16_lt heq).1
      · split at h
        · simp at h
        · rename_i n heq
          simp at h; subst h; exact (toU16_lt heq).1
      · split at h
        · simp at h
        · simp at h
        · rename_i os heq
          simp at h; subst h
          exact parseOptions_wf buf _ _ [] os (by simp) heq
      · split at h
        · simp at h
        · split at h
          · simp at h
          · split at h
            · simp at h
            · rename_i msg _ heq
              simp at h; subst h
              exact toStr_ok_wf heq
            · simp at h; subst h
              exact noMessage_wf

end Tftp
