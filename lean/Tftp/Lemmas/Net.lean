import Tftp.Lemmas.SenderStep
import Tftp.Lemmas.Receiver
import Tftp.Props.C02
import Tftp.Model.Net
/-! The fault-free closed loop: sender model against receiver model completes with an identical copy. -/
namespace Tftp

theorem applyFaults_none {α : Type} (n : Nat) (xs : List α) : applyFaults [] [] n xs = xs := by
  induction xs generalizing n with
  | nil => simp [applyFaults]
  | cons x xs ih => simp [applyFaults, ih]

theorem dataOf_sendWindow_cons (bn : Nat) (e : Bytes) (es : List Bytes) :
    dataOf (sendWindow 1 bn (e :: es)) = (bn, e) :: dataOf (sendWindow 1 ((bn + 1) % 65536) es) := by
  simp [sendWindow, sendPacket, dataOf]

theorem dataOf_sendWindow_nil (bn : Nat) : dataOf (sendWindow 1 bn []) = [] := by
  simp [sendWindow, dataOf]

/-- blocks `1..R` of the file -/
def blocksUpTo (b : Nat) (f : Bytes) (R : Nat) : List Bytes := (List.range R).map (fun i => blk b f (i + 1))

theorem blocksUpTo_succ (b : Nat) (f : Bytes) (R : Nat) :
    blocksUpTo b f (R + 1) = blocksUpTo b f R ++ [blk b f (R + 1)] := by
  simp [blocksUpTo, List.range_succ]

theorem blocksUpTo_length (b : Nat) (f : Bytes) (R : Nat) : (blocksUpTo b f R).length = R := by
  simp [blocksUpTo]

/-- the receiver state right after buffering an in-sequence block (before any flush) -/
def acceptedState (s : RState) (n : Nat) (p : Bytes) : RState :=
  { s with bn := n, win := { s.win with elems := s.win.elems ++ [p] }, retry := 0, accepted := p :: s.accepted }

theorem markOk_running (r : RState × List AckObs) (h : r.1.status = .running) :
    markOk r = ({ r.1 with status := .ok }, r.2) := by
  unfold markOk; simp [h]

/-- everything about the step that accepts the next in-sequence block -/
theorem rStep_inseq (c : RCfg) (hw : c.w < 65536) (s : RState) (h : RInv c s) (hrun : s.status = .running)
    (n : Nat) (payload : Bytes) (hseq : n = (s.bn + 1) % 65536) :
    let r := rStep c s (.data n payload)
    RInv c r.1 ∧ r.1.received = s.received ++ [payload] ∧
    (payload.length < c.b →
        r.1.status = .ok ∧ r.1.win.elems = [] ∧ r.2 = ackOut c.rep n r.1.win.file ∧
        r.1.win.file.content = r.1.received.flatten) ∧
    (¬ payload.length < c.b → s.win.elems.length + 1 = c.w →
        r.1.status = .running ∧ r.1.win.elems = [] ∧ r.2 = ackOut c.rep n r.1.win.file) ∧
    (¬ payload.length < c.b → s.win.elems.length + 1 < c.w →
        r.1.status = .running ∧ r.1.win.elems.length = s.win.elems.length + 1 ∧ r.2 = []) := by
  intro r
  have hg := rStep_good c hw s h (.data n payload)
  have hinv : RInv c r.1 := hg.1
  have hrecv : r.1.received = s.received ++ [payload] := by
    rcases hg.2.2 with h1 | ⟨n', p', hev, _, h3⟩
    · -- impossible: an in-sequence block is always accepted; derive it from the definition below
      exfalso
      obtain ⟨bn, win, retry, status, accepted⟩ := s
      simp only at hrun hseq
      subst hrun
      have hlen : win.len = win.elems.length := by
        unfold Window.len; have := h.pend_lt; exact Nat.mod_eq_of_lt (by simp only at this; omega)
      have hadd : win.add payload = ({ win with elems := win.elems ++ [payload] }, .ok ()) := by
        unfold Window.add
        have : ¬ win.len = win.size := by
          rw [hlen]; have h1 := h.size_eq; have h2 := h.pend_lt; simp only at h1 h2; omega
        simp [this]
      have hcw : win.file.canWrite = true := h.can_write
      have hacc : (rStep c { bn := bn, win := win, retry := retry, status := .running, accepted := accepted }
          (.data n payload)).1.accepted = payload :: accepted := by
        unfold rStep
        simp only [hseq, ↓reduceIte, hadd]
        split
        · unfold markOk
          rw [(flushAck_spec c _ hcw).1]
          simp
        · split
          · rw [(flushAck_spec c _ hcw).1]
          · rfl
      rw [hacc] at h1
      have := congrArg List.length h1
      simp at this
    · have : p' = payload := by injection hev with _ h2; exact h2.symm
      subst this
      unfold RState.received
      rw [h3]; simp
  refine ⟨hinv, hrecv, ?_, ?_, ?_⟩
  all_goals
    obtain ⟨bn, win, retry, status, accepted⟩ := s
    simp only at hrun hseq
    subst hrun
    have hlen : win.len = win.elems.length := by
      unfold Window.len; have := h.pend_lt; exact Nat.mod_eq_of_lt (by simp only at this; omega)
    have hsz : win.size = c.w := h.size_eq
    have hadd : win.add payload = ({ win with elems := win.elems ++ [payload] }, .ok ()) := by
      unfold Window.add
      have : ¬ win.len = win.size := by
        rw [hlen, hsz]; have h2 := h.pend_lt; simp only at h2; omega
      simp [this]
    have hcw : win.file.canWrite = true := h.can_write
  · intro hshort
    have hstored := hinv.stored
    have : r = markOk (flushAck c (acceptedState { bn := bn, win := win, retry := retry, status := .running, accepted := accepted } n payload)) := by
      show rStep c _ _ = _
      unfold rStep acceptedState
      simp only [hseq, ↓reduceIte, hadd, hshort]
    have hfl := flushAck_spec c (acceptedState { bn := bn, win := win, retry := retry, status := .running, accepted := accepted } n payload) hcw
    have hmk := markOk_running (flushAck c (acceptedState { bn := bn, win := win, retry := retry, status := .running, accepted := accepted } n payload))
      (by rw [hfl.1]; rfl)
    rw [hmk] at this
    have hr1 : r.1.win.elems = [] := by rw [this, hfl.1]
    refine ⟨by rw [this], hr1, by rw [this, hfl.2, hfl.1]; rfl, ?_⟩
    rw [hr1] at hstored
    simpa using hstored
  · intro hshort hfull
    have hisfull : ({ win with elems := win.elems ++ [payload] } : Window).isFull = true := by
      unfold Window.isFull
      simp only [List.length_append, List.length_singleton, hsz]
      simp only at hfull
      rw [hfull, Nat.mod_eq_of_lt hw]; simp
    have : r = flushAck c (acceptedState { bn := bn, win := win, retry := retry, status := .running, accepted := accepted } n payload) := by
      show rStep c _ _ = _
      unfold rStep acceptedState
      simp only [hseq, ↓reduceIte, hadd, hshort, hisfull]
    have hfl := flushAck_spec c (acceptedState { bn := bn, win := win, retry := retry, status := .running, accepted := accepted } n payload) hcw
    exact ⟨by rw [this, hfl.1]; rfl, by rw [this, hfl.1], by rw [this, hfl.2, hfl.1]; rfl⟩
  · intro hshort hmore
    have hnotfull : ({ win with elems := win.elems ++ [payload] } : Window).isFull = false := by
      unfold Window.isFull
      simp only [List.length_append, List.length_singleton, hsz]
      simp only at hmore
      have : (win.elems.length + 1) % 65536 = win.elems.length + 1 := Nat.mod_eq_of_lt (by omega)
      rw [this]; simp; omega
    have : r = ((acceptedState { bn := bn, win := win, retry := retry, status := .running, accepted := accepted } n payload), []) := by
      show rStep c _ _ = _
      unfold rStep acceptedState
      simp only [hseq, ↓reduceIte, hadd, hshort, hnotfull, Bool.false_eq_true]
    rw [this]
    exact ⟨rfl, by simp [acceptedState], rfl⟩

end Tftp

namespace Tftp

/-- parameters of a fault-free closed loop: one copy per datagram, both sides negotiated the same values -/
structure LoopCfg (sc : SCfg) (rc : RCfg) : Prop where
  hb : 0 < sc.b
  hw1 : 1 ≤ sc.w
  hw : sc.w < 65536
  hrep : sc.rep = 1
  rb : rc.b = sc.b
  rw : rc.w = sc.w
  rrep : rc.rep = 1

/-- the receiver is consuming the sender's current window: `j` of its blocks are buffered -/
structure Mid (sc : SCfg) (rc : RCfg) (f : Bytes) (st : NetState) (j : Nat) : Prop where
  sinv : SInv sc f st.s
  srun : st.s.status = .running
  fresh : st.s.win.eof = false → st.s.win.elems.length = sc.w
  jlt : j < st.s.win.elems.length
  dq_eq : st.dq = dataOf (sendWindow 1 ((st.s.base + j) % 65536) (st.s.win.elems.drop j))
  aq_eq : st.aq = []
  rinv : RInv rc st.r
  rrun : st.r.status = .running
  rpend : st.r.win.elems.length = j
  rrecv : st.r.received = blocksUpTo sc.b f (st.s.base - 1 + j)

/-- the receiver has consumed the whole window and its acknowledgement is in flight -/
structure AckSt (sc : SCfg) (rc : RCfg) (f : Bytes) (st : NetState) : Prop where
  sinv : SInv sc f st.s
  srun : st.s.status = .running
  mpos : 0 < st.s.win.elems.length
  dq_eq : st.dq = []
  aq_eq : st.aq = [(st.s.base + st.s.win.elems.length - 1) % 65536]
  rpend : st.r.win.elems = []
  rrecv : st.r.received = blocksUpTo sc.b f (st.s.base - 1 + st.s.win.elems.length)
  rlast : st.s.base - 1 + st.s.win.elems.length = nblocks sc.b f →
            st.r.status = .ok ∧ st.r.win.file.content = f
  rmore : st.s.base - 1 + st.s.win.elems.length < nblocks sc.b f → st.r.status = .running ∧ RInv rc st.r

structure DoneSt (f : Bytes) (st : NetState) : Prop where
  sok : st.s.status = .ok
  rok : st.r.status = .ok
  file : st.r.win.file.content = f

/-- while the end of the file has not been read, every block in the window is a full block -/
theorem inv_full_blocks {c : SCfg} (hb : 0 < c.b) {f : Bytes} {s : SState} (h : SInv c f s)
    (heof : s.win.eof = false) (i : Nat) (hi : i < s.win.elems.length) :
    (slice c.b f (s.base - 1 + i)).length = c.b := by
  rw [slice_length]
  have ⟨_, hc⟩ := h.cur heof
  have h1 : (s.base - 1 + i + 1) * c.b ≤ (s.base - 1 + s.win.elems.length) * c.b :=
    Nat.mul_le_mul_right _ (by omega)
  rw [Nat.add_mul, Nat.one_mul] at h1
  omega

theorem getElem_of_getElem? {α : Type} {l : List α} {i : Nat} {a : α} (h : l[i]? = some a) (hi : i < l.length) :
    l[i] = a := by
  rw [List.getElem?_eq_getElem hi] at h
  exact Option.some.inj h

/-- **data delivery** in the fault-free loop -/
theorem mid_step (sc : SCfg) (rc : RCfg) (lc : LoopCfg sc rc) (f : Bytes) (st : NetState) (j : Nat)
    (h : Mid sc rc f st j) :
    ∃ st', netStep sc rc Faults.none st = some st' ∧ (Mid sc rc f st' (j + 1) ∨ AckSt sc rc f st') ∧
      st'.r.received.length = st.r.received.length + 1 := by
  obtain ⟨s, r, dq, aq, nd, na, tmo⟩ := st
  obtain ⟨sinv, srun, fresh, jlt, dq_eq, aq_eq, rinv, rrun, rpend, rrecv⟩ := h
  simp only at sinv srun fresh jlt dq_eq aq_eq rinv rrun rpend rrecv
  have hbase := sinv.base_pos
  have hlenw := sinv.len_le
  -- the head of the data queue
  have hdrop : s.win.elems.drop j = s.win.elems[j] :: s.win.elems.drop (j + 1) := by
    rw [List.drop_eq_getElem_cons jlt]
  have he : s.win.elems[j] = blk sc.b f (s.base + j) := by
    have := sinv.elems_eq j jlt
    have h2 := getElem_of_getElem? this jlt
    rw [h2]; unfold blk; congr 1; omega
  rw [hdrop, dataOf_sendWindow_cons, he] at dq_eq
  -- the receiver expects exactly this number
  have hRlen : r.received.length = s.base - 1 + j := by rw [rrecv, blocksUpTo_length]
  have hacc : r.accepted.length = s.base - 1 + j := by
    have : r.received.length = r.accepted.length := by simp [RState.received]
    omega
  have hseq : (s.base + j) % 65536 = (r.bn + 1) % 65536 := by
    rw [rinv.bn_eq, hacc]; omega
  have hw' : rc.w < 65536 := by rw [lc.rw]; exact lc.hw
  have hfacts := rStep_inseq rc hw' r rinv rrun ((s.base + j) % 65536) (blk sc.b f (s.base + j)) hseq
  simp only at hfacts
  obtain ⟨hri, hrr, hfin, hfull, hmore⟩ := hfacts
  have hle : s.base + j ≤ nblocks sc.b f := inv_range lc.hb sinv j jlt
  have hshort_iff := blk_length_lt_iff sc.b lc.hb f (s.base + j) (by omega) hle
  have hrecv' : (rStep rc r (.data ((s.base + j) % 65536) (blk sc.b f (s.base + j)))).1.received =
      blocksUpTo sc.b f (s.base - 1 + (j + 1)) := by
    rw [hrr, rrecv, show s.base - 1 + (j + 1) = (s.base - 1 + j) + 1 from by omega, blocksUpTo_succ]
    congr 3; omega
  -- the state after the step, explicitly
  have hstep : netStep sc rc Faults.none ⟨s, r, dq, aq, nd, na, tmo⟩ =
      some (emitAcks Faults.none
        ⟨s, (rStep rc r (.data ((s.base + j) % 65536) (blk sc.b f (s.base + j)))).1,
          dataOf (sendWindow 1 ((s.base + j + 1) % 65536) (s.win.elems.drop (j + 1))), aq, nd, na, tmo⟩
        (rStep rc r (.data ((s.base + j) % 65536) (blk sc.b f (s.base + j)))).2) := by
    have hmod : ((s.base + j) % 65536 + 1) % 65536 = (s.base + j + 1) % 65536 := by omega
    simp only [netStep, dq_eq, receiverRunning, rrun, beq_self_eq_true, ↓reduceIte, hmod]
  have hone : ∀ (n : Nat) (fl : FileSt), (ackOut rc.rep n fl).map (·.n) = [n] := by
    intro n fl; rw [lc.rrep]; rfl
  have haq : ∀ (x : NetState) (out : List AckObs) (n : Nat) (fl : FileSt), x.aq = [] → out = ackOut rc.rep n fl →
      (emitAcks Faults.none x out).aq = [n] := by
    intro x out n fl hx ho
    unfold emitAcks
    simp only [hx, ho, hone, Faults.none, applyFaults_none, List.nil_append]
  refine ⟨_, hstep, ?_, ?_⟩
  · by_cases hshort : (blk sc.b f (s.base + j)).length < rc.b
    · -- the final block
      have hshort' : (blk sc.b f (s.base + j)).length < sc.b := Nat.lt_of_lt_of_eq hshort lc.rb
      have hN : s.base + j = nblocks sc.b f := hshort_iff.mp hshort'
      have heof : s.win.eof = true := by
        cases hq : s.win.eof with
        | true => rfl
        | false =>
          exfalso
          have := inv_full_blocks lc.hb sinv hq j jlt
          unfold blk at hshort'
          rw [show s.base + j - 1 = s.base - 1 + j from by omega, this] at hshort'
          omega
      have hfinN := sinv.fin heof
      have hlen : s.win.elems.length = j + 1 := by unfold nblocks at hN; omega
      have hdropnil : s.win.elems.drop (j + 1) = [] := by rw [← hlen]; simp
      obtain ⟨h1, h2, h3, h4⟩ := hfin hshort
      right
      refine ⟨sinv, srun, by show 0 < s.win.elems.length; omega, ?_, ?_, h2, ?_, ?_, ?_⟩
      · show dataOf (sendWindow 1 ((s.base + j + 1) % 65536) (s.win.elems.drop (j + 1))) = []
        rw [hdropnil]; exact dataOf_sendWindow_nil _
      · rw [haq _ _ _ _ aq_eq h3]
        show [(s.base + j) % 65536] = [(s.base + s.win.elems.length - 1) % 65536]
        rw [hlen]; congr 2
      · show (rStep rc r _).1.received = _
        rw [hrecv']; show blocksUpTo sc.b f (s.base - 1 + (j + 1)) = blocksUpTo sc.b f (s.base - 1 + s.win.elems.length)
        rw [hlen]
      · intro _
        refine ⟨h1, ?_⟩
        show (rStep rc r _).1.win.file.content = f
        rw [h4, hrecv', show s.base - 1 + (j + 1) = nblocks sc.b f from by omega]
        unfold blocksUpTo
        rw [blocks_flatten, take_all_blocks sc.b lc.hb f]
      · intro hlt
        exfalso
        have : s.base - 1 + s.win.elems.length < nblocks sc.b f := hlt
        omega
    · have hneN : s.base + j ≠ nblocks sc.b f := by
        intro he2
        have := hshort_iff.mpr he2
        exact hshort (Nat.lt_of_lt_of_eq this lc.rb.symm)
      rw [rpend, lc.rw] at hfull hmore
      by_cases hjw : j + 1 = sc.w
      · -- window full: flush and acknowledge
        obtain ⟨h1, h2, h3⟩ := hfull hshort hjw
        have hlen : s.win.elems.length = j + 1 := by omega
        have hdropnil : s.win.elems.drop (j + 1) = [] := by rw [← hlen]; simp
        right
        refine ⟨sinv, srun, by show 0 < s.win.elems.length; omega, ?_, ?_, h2, ?_, ?_, ?_⟩
        · show dataOf (sendWindow 1 ((s.base + j + 1) % 65536) (s.win.elems.drop (j + 1))) = []
          rw [hdropnil]; exact dataOf_sendWindow_nil _
        · rw [haq _ _ _ _ aq_eq h3]
          show [(s.base + j) % 65536] = [(s.base + s.win.elems.length - 1) % 65536]
          rw [hlen]; congr 2
        · show (rStep rc r _).1.received = _
          rw [hrecv']; show blocksUpTo sc.b f (s.base - 1 + (j + 1)) = blocksUpTo sc.b f (s.base - 1 + s.win.elems.length)
          rw [hlen]
        · intro hN
          exfalso
          have : s.base - 1 + s.win.elems.length = nblocks sc.b f := hN
          omega
        · intro _; exact ⟨h1, hri⟩
      · -- more blocks of this window to come
        have hjw' : j + 1 < sc.w := by omega
        obtain ⟨h1, h2, h3⟩ := hmore hshort hjw'
        have hjl : j + 1 < s.win.elems.length := by
          cases hq : s.win.eof with
          | false => rw [fresh hq]; exact hjw'
          | true => have := sinv.fin hq; unfold nblocks at hneN hle; omega
        left
        refine ⟨sinv, srun, fresh, hjl, ?_, ?_, hri, h1, ?_, hrecv'⟩
        · show dataOf (sendWindow 1 ((s.base + j + 1) % 65536) (s.win.elems.drop (j + 1))) = _
          rfl
        · unfold emitAcks
          simp only [aq_eq, h3, List.map_nil, Faults.none, applyFaults, List.append_nil]
        · show (rStep rc r _).1.win.elems.length = j + 1
          rw [h2]
  · show (rStep rc r _).1.received.length = r.received.length + 1
    rw [hrr]; simp

end Tftp

namespace Tftp

/-- **acknowledgement delivery** in the fault-free loop -/
theorem ack_step (sc : SCfg) (rc : RCfg) (lc : LoopCfg sc rc) (f : Bytes) (st : NetState)
    (h : AckSt sc rc f st) :
    ∃ st', netStep sc rc Faults.none st = some st' ∧ (Mid sc rc f st' 0 ∨ DoneSt f st') ∧
      st'.r.received = st.r.received ∧ st'.aq = [] := by
  obtain ⟨s, r, dq, aq, nd, na, tmo⟩ := st
  obtain ⟨sinv, srun, mpos, dq_eq, aq_eq, rpend, rrecv, rlast, rmore⟩ := h
  simp only at sinv srun mpos dq_eq aq_eq rpend rrecv rlast rmore
  have hbase := sinv.base_pos
  have hlenw := sinv.len_le
  have hbn := sinv.bn_eq
  have hw := lc.hw
  -- the ACK names the last block of the window
  have hdiff : ((s.base + s.win.elems.length - 1) % 65536 + 65536 - s.bn) % 65536 = s.win.elems.length - 1 := by
    rw [hbn]; omega
  have hin : ((s.base + s.win.elems.length - 1) % 65536 + 65536 - s.bn) % 65536 < s.win.elems.length := by
    rw [hdiff]; omega
  have hstep : netStep sc rc Faults.none ⟨s, r, dq, aq, nd, na, tmo⟩ =
      some (emitData Faults.none
        ⟨(sStep sc s (.ack ((s.base + s.win.elems.length - 1) % 65536)) 0).1, r, [], [], nd, na, tmo⟩
        (sStep sc s (.ack ((s.base + s.win.elems.length - 1) % 65536)) 0).2) := by
    simp only [netStep, dq_eq, aq_eq, senderRunning, srun, beq_self_eq_true, Bool.true_or, ↓reduceIte]
  have hle : s.base - 1 + s.win.elems.length ≤ nblocks sc.b f := by
    have := inv_range lc.hb sinv (s.win.elems.length - 1) (by omega)
    omega
  refine ⟨_, hstep, ?_, rfl, rfl⟩
  by_cases hN : s.base - 1 + s.win.elems.length = nblocks sc.b f
  · -- the final block has been acknowledged
    have heof : s.win.eof = true := by
      cases hq : s.win.eof with
      | true => rfl
      | false =>
        exfalso
        have ⟨_, hc⟩ := sinv.cur hq
        have : s.base - 1 + s.win.elems.length ≤ f.length / sc.b := by
          rw [Nat.le_div_iff_mul_le lc.hb]; exact hc
        unfold nblocks at hN; omega
    have hfin := c07_stop_aux sc lc.hw f s sinv srun heof mpos ((s.base + s.win.elems.length - 1) % 65536) 0 hdiff
    obtain ⟨hr1, hr2⟩ := rlast hN
    right
    exact ⟨by show (sStep sc s _ 0).1.status = .ok; exact hfin.1, hr1, hr2⟩
  · have hlt : s.base - 1 + s.win.elems.length < nblocks sc.b f := by omega
    obtain ⟨hrrun, hrinv⟩ := rmore hlt
    have heof : s.win.eof = false := by
      cases hq : s.win.eof with
      | false => rfl
      | true => exfalso; have := sinv.fin hq; unfold nblocks at hN; omega
    have hfilled : s.filled = true := by rw [sinv.filled_eq, heof]; rfl
    -- unfold the sender's transition: slide, refill, send
    have hlen : s.win.len = s.win.elems.length := by
      unfold Window.len; exact Nat.mod_eq_of_lt (by omega)
    have h0 : SInv sc f { s with since := s.since + 0 } :=
      ⟨sinv.base_pos, sinv.bn_eq, sinv.elems_eq, sinv.cur, sinv.fin, sinv.len_le, sinv.size_eq, sinv.chunk_eq,
        sinv.can_read, sinv.filled_eq, sinv.retry_lt⟩
    have hs' := slide_inv h0 ((s.base + s.win.elems.length - 1) % 65536) hin lc.hw
    rw [hdiff] at hs'
    obtain ⟨w', fl, hfill, hinv', _, hfresh', hstrict'⟩ := fill_ok lc.hb lc.hw hs'
    have hslide_elems : (slide { s with since := s.since + 0 } ((s.base + s.win.elems.length - 1) % 65536)
        (s.win.elems.length - 1)).win.elems = [] := by
      simp only [slide]
      apply List.drop_eq_nil_of_le; omega
    have hpos' : 0 < w'.elems.length := by
      have := hstrict' (by simp [slide, heof]) (by rw [hslide_elems]; simp; omega)
      rw [hslide_elems] at this; simpa using this
    have hsstep : sStep sc s (.ack ((s.base + s.win.elems.length - 1) % 65536)) 0 =
        ({ (slide { s with since := s.since + 0 } ((s.base + s.win.elems.length - 1) % 65536) (s.win.elems.length - 1)) with
            win := w', filled := fl, retry := 0, since := 0 },
         sendWindow sc.rep (((s.base + s.win.elems.length - 1) % 65536 + 1) % 65536) w'.elems) := by
      rw [sStep_ack_inwindow sc s _ 0 srun hlen hin, hdiff]
      have hnf : (slide { s with since := s.since + 0 } ((s.base + s.win.elems.length - 1) % 65536)
          (s.win.elems.length - 1)).filled = true := by simp [slide, hfilled]
      simp only [hnf, Bool.not_true, Bool.false_and, Bool.false_eq_true, ↓reduceIte]
      unfold sOuter
      rw [hfill]
      simp only
      unfold sHead
      have : sc.timeout + Gen.timeoutBufferMs ≥ sc.timeout := by omega
      simp only [this, ↓reduceIte]
      simp [slide]
    left
    refine ⟨?_, ?_, ?_, ?_, ?_, rfl, hrinv, hrrun, ?_, ?_⟩
    · show SInv sc f (sStep sc s _ 0).1
      rw [hsstep]
      exact ⟨hinv'.base_pos, hinv'.bn_eq, hinv'.elems_eq, hinv'.cur, hinv'.fin, hinv'.len_le, hinv'.size_eq,
        hinv'.chunk_eq, hinv'.can_read, hinv'.filled_eq, hinv'.retry_lt⟩
    · show (sStep sc s _ 0).1.status = .running
      rw [hsstep]; simp [slide, srun]
    · show (sStep sc s _ 0).1.win.eof = false → (sStep sc s _ 0).1.win.elems.length = sc.w
      rw [hsstep]; exact hfresh'
    · show 0 < (sStep sc s _ 0).1.win.elems.length
      rw [hsstep]; exact hpos'
    · show (emitData Faults.none _ _).dq = _
      unfold emitData
      rw [hsstep]
      simp only [Faults.none, applyFaults_none, List.nil_append, lc.hrep, List.drop_zero, slide, Nat.add_zero]
      congr 2
      omega
    · show r.win.elems.length = 0
      rw [rpend]; rfl
    · show r.received = blocksUpTo sc.b f ((sStep sc s _ 0).1.base - 1 + 0)
      rw [hsstep, rrecv]
      simp only [slide]
      congr 1; omega
where
  c07_stop_aux (c : SCfg) (hw : c.w < 65536) (f : Bytes) (s : SState) (h : SInv c f s)
      (hrun : s.status = .running) (heof : s.win.eof = true) (hne : 0 < s.win.elems.length)
      (n dt : Nat) (hn : (n + 65536 - s.bn) % 65536 = s.win.elems.length - 1) :
      (sStep c s (.ack n) dt).1.status = .ok ∧ (sStep c s (.ack n) dt).2 = [] := by
    have hlen : s.win.len = s.win.elems.length := by
      unfold Window.len
      have := h.len_le
      exact Nat.mod_eq_of_lt (by omega)
    have hfilled : s.filled = false := by rw [h.filled_eq, heof]; rfl
    unfold sStep
    simp only [hrun, hlen, hn]
    have hlt : s.win.elems.length - 1 < s.win.elems.length := by omega
    simp only [hlt, ↓reduceIte]
    have hdrop : List.drop (s.win.elems.length - 1 + 1) s.win.elems = [] := by
      apply List.drop_eq_nil_of_le; omega
    simp [slide, Window.isEmpty, hfilled, hdrop]

end Tftp

namespace Tftp

/-- the loop starts with the receiver about to consume the sender's first window -/
theorem init_mid (sc : SCfg) (rc : RCfg) (lc : LoopCfg sc rc) (f : Bytes) :
    Mid sc rc f (netInit sc rc Faults.none f) 0 := by
  have h0 := init_inv sc f
  have hrun := inv_status h0 .running (Or.inr (by simp))
  obtain ⟨w', fl, hfill, hinv', _, hfresh', hstrict'⟩ := fill_ok lc.hb lc.hw hrun
  have hpos' : 0 < w'.elems.length := by
    have := hstrict' (by simp [Window.new]) (by simp [Window.new]; exact lc.hw1)
    simpa [Window.new] using this
  have hinit : sInit sc f false =
      ({ bn := 1, win := w', filled := fl, retry := 0, since := 0, status := .running, base := 1 },
       sendWindow sc.rep 1 w'.elems) := by
    unfold sInit
    simp only [Bool.false_eq_true, ↓reduceIte]
    unfold sOuter
    simp only at hfill
    rw [hfill]
    simp only
    unfold sHead
    have : sc.timeout + Gen.timeoutBufferMs ≥ sc.timeout := by omega
    simp only [this, ↓reduceIte]
  have hw' : 1 ≤ rc.w := by rw [lc.rw]; exact lc.hw1
  unfold netInit
  rw [hinit]
  refine ⟨?_, rfl, hfresh', hpos', ?_, rfl, rInit_inv rc hw', rfl, by simp [emitData, rInit, Window.new], ?_⟩
  · exact ⟨hinv'.base_pos, hinv'.bn_eq, hinv'.elems_eq, hinv'.cur, hinv'.fin, hinv'.len_le, hinv'.size_eq,
      hinv'.chunk_eq, hinv'.can_read, hinv'.filled_eq, hinv'.retry_lt⟩
  · unfold emitData
    simp only [Faults.none, applyFaults_none, List.nil_append, lc.hrep, List.drop_zero, Nat.add_zero]
  · simp [emitData, rInit, RState.received, blocksUpTo]

/-- one more step is always possible and makes progress, until both sides are done -/
theorem loop_progress (sc : SCfg) (rc : RCfg) (lc : LoopCfg sc rc) (f : Bytes) :
    ∀ (n : Nat) (st : NetState),
      ((∃ j, Mid sc rc f st j) ∨ AckSt sc rc f st) →
      2 * (nblocks sc.b f - st.r.received.length) + (if st.aq = [] then 0 else 1) ≤ n →
      ∃ fuel, DoneSt f (netRun sc rc Faults.none fuel st) := by
  intro n
  induction n with
  | zero =>
    intro st hg hμ
    exfalso
    rcases hg with ⟨j, hm⟩ | ha
    · -- a block is still to be received: the measure is positive
      have hle := inv_range lc.hb hm.sinv j hm.jlt
      have hlen : st.r.received.length = st.s.base - 1 + j := by rw [hm.rrecv, blocksUpTo_length]
      have := hm.sinv.base_pos
      omega
    · rw [ha.aq_eq] at hμ; simp at hμ
  | succ n ih =>
    intro st hg hμ
    rcases hg with ⟨j, hm⟩ | ha
    · obtain ⟨st', hstep, hgood, hrl⟩ := mid_step sc rc lc f st j hm
      have hle := inv_range lc.hb hm.sinv j hm.jlt
      have hlen : st.r.received.length = st.s.base - 1 + j := by rw [hm.rrecv, blocksUpTo_length]
      have hbp := hm.sinv.base_pos
      have hμ' : 2 * (nblocks sc.b f - st'.r.received.length) + (if st'.aq = [] then 0 else 1) ≤ n := by
        rw [hrl]
        rw [hm.aq_eq] at hμ
        simp only [↓reduceIte] at hμ
        split <;> omega
      obtain ⟨fuel, hd⟩ := ih st' (by
        rcases hgood with h1 | h1
        · exact Or.inl ⟨j + 1, h1⟩
        · exact Or.inr h1) hμ'
      exact ⟨fuel + 1, by simp only [netRun, hstep]; exact hd⟩
    · obtain ⟨st', hstep, hgood, hrr, haq⟩ := ack_step sc rc lc f st ha
      rcases hgood with h1 | h1
      · have hμ' : 2 * (nblocks sc.b f - st'.r.received.length) + (if st'.aq = [] then 0 else 1) ≤ n := by
          rw [hrr, haq]
          rw [ha.aq_eq] at hμ
          simp at hμ ⊢
          omega
        obtain ⟨fuel, hd⟩ := ih st' (Or.inl ⟨0, h1⟩) hμ'
        exact ⟨fuel + 1, by simp only [netRun, hstep]; exact hd⟩
      · exact ⟨1, by simp only [netRun, hstep]; exact h1⟩

/-- **fault-free closed loop**: for every file, every block size ≥ 1 and every window size 1..65535 the
sender model and the receiver model, connected through loss-free FIFO queues, reach the state where both
have ended successfully and the receiver's file is byte-identical to the sender's -/
theorem fault_free_transfer (sc : SCfg) (rc : RCfg) (lc : LoopCfg sc rc) (f : Bytes) :
    ∃ fuel, DoneSt f (netRun sc rc Faults.none fuel (netInit sc rc Faults.none f)) :=
  loop_progress sc rc lc f _ _ (Or.inl ⟨0, init_mid sc rc lc f⟩) (Nat.le_refl _)

end Tftp

namespace Tftp

/-! ### safety of the closed loop under every fault schedule -/

/-- a DATA datagram in flight is a block of the file -/
def GoodDatum (b : Nat) (f : Bytes) (x : Nat × Bytes) : Prop :=
  ∃ k, 1 ≤ k ∧ k ≤ nblocks b f ∧ x.1 = k % 65536 ∧ x.2 = blk b f k

theorem mem_applyFaults {α : Type} (drop dup : List Nat) (n : Nat) (xs : List α) (x : α)
    (h : x ∈ applyFaults drop dup n xs) : x ∈ xs := by
  induction xs generalizing n with
  | nil => simp [applyFaults] at h
  | cons y ys ih =>
    simp only [applyFaults, List.mem_append] at h
    rcases h with h | h
    · split at h
      · simp at h
      · split at h <;> simp at h <;> simp [h]
    · exact List.mem_cons_of_mem _ (ih _ h)

theorem mem_dataOf (ps : List Packet) (x : Nat × Bytes) (h : x ∈ dataOf ps) : Packet.data x.1 x.2 ∈ ps := by
  induction ps with
  | nil => simp [dataOf] at h
  | cons p ps ih =>
    cases p with
    | data n d =>
      simp only [dataOf, List.mem_cons] at h
      rcases h with h | h
      · subst h; simp
      · exact List.mem_cons_of_mem _ (ih h)
    | rrq _ _ _ => exact List.mem_cons_of_mem _ (ih (by simpa [dataOf] using h))
    | wrq _ _ _ => exact List.mem_cons_of_mem _ (ih (by simpa [dataOf] using h))
    | ack _ => exact List.mem_cons_of_mem _ (ih (by simpa [dataOf] using h))
    | error _ _ => exact List.mem_cons_of_mem _ (ih (by simpa [dataOf] using h))
    | oack _ => exact List.mem_cons_of_mem _ (ih (by simpa [dataOf] using h))

/-- the invariant of the closed loop that holds whatever the fault schedule does -/
structure SafeSt (sc : SCfg) (rc : RCfg) (f : Bytes) (st : NetState) : Prop where
  sinv : SInv sc f st.s
  dq_good : ∀ x ∈ st.dq, GoodDatum sc.b f x
  rreach : RReachFrom rc f st.r

theorem emitData_safe (sc : SCfg) (rc : RCfg) (fl : Faults) (f : Bytes) (st : NetState) (out : List Packet)
    (hdq : ∀ x ∈ st.dq, GoodDatum sc.b f x) (hout : ∀ p ∈ out, GoodPkt sc f p) :
    ∀ x ∈ (emitData fl st out).dq, GoodDatum sc.b f x := by
  intro x hx
  simp only [emitData, List.mem_append] at hx
  rcases hx with hx | hx
  · exact hdq x hx
  · have hm := mem_dataOf out x (mem_applyFaults _ _ _ _ x hx)
    rcases hout _ hm with ⟨k, h1, h2, h3⟩ | h3
    · injection h3 with h4 h5
      exact ⟨k, h1, h2, h4, h5⟩
    · simp [illegalOp] at h3

theorem netStep_safe (sc : SCfg) (rc : RCfg) (hb : 0 < sc.b) (hw : sc.w < 65536) (hrb : rc.b = sc.b) (fl : Faults)
    (f : Bytes) (st st' : NetState) (h : SafeSt sc rc f st) (hs : netStep sc rc fl st = some st') :
    SafeSt sc rc f st' := by
  obtain ⟨s, r, dq, aq, nd, na, tmo⟩ := st
  obtain ⟨sinv, dq_good, rreach⟩ := h
  simp only at sinv dq_good rreach
  have hstep_s : ∀ ev dt, SInv sc f (sStep sc s ev dt).1 ∧ ∀ p ∈ (sStep sc s ev dt).2, GoodPkt sc f p := by
    intro ev dt
    obtain ⟨h1, _, h3⟩ := step_good hb hw sinv ev dt
    refine ⟨h1, ?_⟩
    intro p hp
    rcases h3 p hp with hg | hil
    · exact hg.toPkt
    · exact Or.inr hil
  cases dq with
  | cons x rest =>
    obtain ⟨n, d⟩ := x
    simp only [netStep] at hs
    have hx : GoodDatum sc.b f (n, d) := dq_good (n, d) (by simp)
    have hrest : ∀ y ∈ rest, GoodDatum sc.b f y := fun y hy => dq_good y (by simp [hy])
    split at hs
    · simp at hs
      rw [← hs]
      refine ⟨sinv, by simpa [emitAcks] using hrest, ?_⟩
      show RReachFrom rc f (rStep rc r (.data n d)).1
      apply RReachFrom.step r (.data n d) rreach
      intro n' p' hev
      injection hev with h1 h2
      obtain ⟨k, hk1, hk2, hk3, hk4⟩ := hx
      exact ⟨k, hk1, by rw [hrb]; exact hk2, by rw [← h1]; exact hk3, by rw [← h2, hrb]; exact hk4⟩
    · simp at hs
      rw [← hs]
      exact ⟨sinv, hrest, rreach⟩
  | nil =>
    cases aq with
    | cons a rest =>
      simp only [netStep] at hs
      split at hs
      · simp at hs
        rw [← hs]
        obtain ⟨h1, h2⟩ := hstep_s (.ack a) 0
        exact ⟨h1, emitData_safe sc rc fl f _ _ (by simp) h2, rreach⟩
      · simp at hs
        rw [← hs]
        exact ⟨sinv, by simp, rreach⟩
    | nil =>
      simp only [netStep] at hs
      split at hs
      · simp at hs
      · -- quiescence: every running side times out
        have hfail : RReachFrom rc f (rStep rc r .fail).1 :=
          RReachFrom.step r .fail rreach (by intro n p h; cases h)
        obtain ⟨h1, h2⟩ := hstep_s .fail sc.timeout
        by_cases hrr : receiverRunning r = true <;> by_cases hsr : senderRunning s = true <;>
          simp only [hrr, hsr, ↓reduceIte, Option.some.injEq, Bool.false_eq_true] at hs <;> rw [← hs]
        · exact ⟨h1, emitData_safe sc rc fl f _ _ (by simp) h2, hfail⟩
        · exact ⟨sinv, by simp, hfail⟩
        · exact ⟨h1, emitData_safe sc rc fl f _ _ (by simp) h2, rreach⟩
        · exact ⟨sinv, by simp, rreach⟩

/-- **no corrupted copy, whatever the network does** (transfers of at most 65535 blocks): for every fault
schedule — any datagrams lost or duplicated in either direction — and at every moment of the closed
loop, what the receiver has accepted is blocks `1..j` of the sender's file in order, and if the receiver
ends successfully its file is byte-identical to the sender's -/
theorem closed_loop_safety (sc : SCfg) (rc : RCfg) (hb : 0 < sc.b) (hw1 : 1 ≤ sc.w) (hw : sc.w < 65536)
    (hrb : rc.b = sc.b) (hrw : rc.w = sc.w) (fl : Faults) (f : Bytes) (hN : nblocks sc.b f ≤ 65535) (fuel : Nat) :
    (netRun sc rc fl fuel (netInit sc rc fl f)).r.received =
        blocksUpTo sc.b f (netRun sc rc fl fuel (netInit sc rc fl f)).r.received.length ∧
    ((netRun sc rc fl fuel (netInit sc rc fl f)).r.status = .ok →
        (netRun sc rc fl fuel (netInit sc rc fl f)).r.win.file.content = f) := by
  have hinit : SafeSt sc rc f (netInit sc rc fl f) := by
    obtain ⟨h0, h1⟩ := init_good hb hw f false
    unfold netInit
    refine ⟨by simpa [emitData] using h0, ?_, by simpa [emitData] using RReachFrom.init⟩
    exact emitData_safe sc rc fl f _ _ (by simp) h1
  have hrun : ∀ (fuel : Nat) (st : NetState), SafeSt sc rc f st → SafeSt sc rc f (netRun sc rc fl fuel st) := by
    intro fuel
    induction fuel with
    | zero => intro st h; exact h
    | succ n ih =>
      intro st h
      simp only [netRun]
      cases hs : netStep sc rc fl st with
      | none => exact h
      | some st' => exact ih st' (netStep_safe sc rc hb hw hrb fl f st st' h hs)
  have hfin := hrun fuel _ hinit
  have hc := c02_conformant_sender rc (by rw [hrb]; exact hb) (by rw [hrw]; exact hw1) (by rw [hrw]; exact hw) f
    (by rw [hrb]; exact hN) _ hfin.rreach
  rw [hrb] at hc
  exact ⟨by unfold blocksUpTo; exact hc.1, hc.2.2⟩

end Tftp
