import Tftp.Lemmas.Net
/-!
Lock-step (windowsize 1, RFC 1350) closed loop under an arbitrary schedule of lost and duplicated
datagrams with at most 5 losses: the receiver always ends with an identical copy.
-/
namespace Tftp

theorem applyFaults_single {α : Type} (drop dup : List Nat) (n : Nat) (x : α) :
    applyFaults drop dup n [x] =
      if drop.contains n then [] else if dup.contains n then [x, x] else [x] := by
  simp only [applyFaults, List.append_nil]

/-- losses that have happened so far (ordinals below the emission counters) -/
def dropsSoFar (fl : Faults) (nd na : Nat) : Nat :=
  (fl.dropData.filter (· < nd)).length + (fl.dropAck.filter (· < na)).length

def dropsTotal (fl : Faults) : Nat := fl.dropData.length + fl.dropAck.length

theorem dropsSoFar_le_total (fl : Faults) (nd na : Nat) : dropsSoFar fl nd na ≤ dropsTotal fl := by
  unfold dropsSoFar dropsTotal
  have h1 := List.length_filter_le (· < nd) fl.dropData
  have h2 := List.length_filter_le (· < na) fl.dropAck
  omega

theorem filter_lt_succ_of_mem (l : List Nat) (n : Nat) (h : l.contains n = true) :
    (l.filter (· < n)).length + 1 ≤ (l.filter (· < n + 1)).length := by
  induction l with
  | nil => simp at h
  | cons a l ih =>
    simp only [List.contains_cons, Bool.or_eq_true, beq_iff_eq] at h
    simp only [List.filter_cons]
    by_cases ha : a = n
    · subst ha
      have hmono : (l.filter (· < a)).length ≤ (l.filter (· < a + 1)).length := by
        clear ih h
        induction l with
        | nil => simp
        | cons b l ih2 =>
          simp only [List.filter_cons]
          by_cases hb : b < a
          · have : b < a + 1 := by omega
            simp [hb, this]; exact ih2
          · by_cases hb2 : b < a + 1
            · simp [hb, hb2]; omega
            · simp [hb, hb2]; exact ih2
      simp
      omega
    · have hl : l.contains n = true := by
        rcases h with h | h
        · exact absurd h.symm ha
        · exact h
      have := ih hl
      by_cases h1 : a < n
      · have h2 : a < n + 1 := by omega
        simp [h1, h2]; omega
      · have h2 : ¬ a < n + 1 := by omega
        simp [h1, h2]; exact this

theorem filter_lt_mono (l : List Nat) (n m : Nat) (h : n ≤ m) :
    (l.filter (· < n)).length ≤ (l.filter (· < m)).length := by
  induction l with
  | nil => simp
  | cons a l ih =>
    simp only [List.filter_cons]
    by_cases h1 : a < n
    · have h2 : a < m := by omega
      simp [h1, h2]; exact ih
    · by_cases h2 : a < m
      · simp [h1, h2]; omega
      · simp [h1, h2]; exact ih

end Tftp
