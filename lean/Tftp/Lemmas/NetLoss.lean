import Tftp.Lemmas.Net
/-!
Lock-step (windowsize 1, RFC 1350) closed loop under an arbitrary schedule of lost and duplicated
datagrams with at most 5 losses: the receiver always ends with an identical copy.
-/
namespace Tftp

theorem applyFaults_single {α : Type} (drop dup : List Nat) (n : Nat) (x : α) :
    applyFaults drop dup n [x] =
      if drop.contains n then [] else if dup.contains n then [x, x] else [x] := by
  simp only [applyFaults, List.append_nil]

/-- losses that have happened so far (ordinals below the emission counters) -/
def dropsSoFar (fl : Faults) (nd na : Nat) : Nat :=
  (fl.dropData.filter (· < nd)).length + (fl.dropAck.filter (· < na)).length

def dropsTotal (fl : Faults) : Nat := fl.dropData.length + fl.dropAck.length

theorem dropsSoFar_le_total (fl : Faults) (nd na : Nat) : dropsSoFar fl nd na ≤ dropsTotal fl := by
  unfold dropsSoFar dropsTotal
  have h1 := List.length_filter_le (· < nd) fl.dropData
  have h2 := List.length_filter_le (· < na) fl.dropAck
  omega

theorem filter_lt_succ_of_mem (l : List Nat) (n : Nat) (h : l.contains n = true) :
    (l.filter (· < n)).length + 1 ≤ (l.filter (· < n + 1)).length := by
  induction l with
  | nil => simp at h
  | cons a l ih =>
    simp only [List.contains_cons, Bool.or_eq_true, beq_iff_eq] at h
    simp only [List.filter_cons]
    by_cases ha : a = n
    · subst ha
      have hmono : (l.filter (· < a)).length ≤ (l.filter (· < a + 1)).length := by
        clear ih h
        induction l with
        | nil => simp
        | cons b l ih2 =>
          simp only [List.filter_cons]
          by_cases hb : b < a
          · have : b < a + 1 := by omega
            simp [hb, this]; exact ih2
          · by_cases hb2 : b < a + 1
            · simp [hb, hb2]; omega
            · simp [hb, hb2]; exact ih2
      simp
      omega
    · have hl : l.contains n = true := by
        rcases h with h | h
        · exact absurd h.symm ha
        · exact h
      have := ih hl
      by_cases h1 : a < n
      · have h2 : a < n + 1 := by omega
        simp [h1, h2]; omega
      · have h2 : ¬ a < n + 1 := by omega
        simp [h1, h2]; exact this

theorem filter_lt_mono (l : List Nat) (n m : Nat) (h : n ≤ m) :
    (l.filter (· < n)).length ≤ (l.filter (· < m)).length := by
  induction l with
  | nil => simp
  | cons a l ih =>
    simp only [List.filter_cons]
    by_cases h1 : a < n
    · have h2 : a < m := by omega
      simp [h1, h2]; exact ih
    · by_cases h2 : a < m
      · simp [h1, h2]; omega
      · simp [h1, h2]; exact ih

end Tftp

namespace Tftp

/-! ### the sender on an acknowledgement of its whole window, on a stale acknowledgement, on a time-out -/

theorem sender_ack_whole (sc : SCfg) (hb : 0 < sc.b) (hw : sc.w < 65536) (f : Bytes) (s : SState)
    (sinv : SInv sc f s) (srun : s.status = .running) (mpos : 0 < s.win.elems.length) :
    (s.base - 1 + s.win.elems.length = nblocks sc.b f →
        (sStep sc s (.ack ((s.base + s.win.elems.length - 1) % 65536)) 0).1.status = .ok ∧
        (sStep sc s (.ack ((s.base + s.win.elems.length - 1) % 65536)) 0).2 = []) ∧
    (s.base - 1 + s.win.elems.length < nblocks sc.b f →
        SInv sc f (sStep sc s (.ack ((s.base + s.win.elems.length - 1) % 65536)) 0).1 ∧
        (sStep sc s (.ack ((s.base + s.win.elems.length - 1) % 65536)) 0).1.status = .running ∧
        ((sStep sc s (.ack ((s.base + s.win.elems.length - 1) % 65536)) 0).1.win.eof = false →
          (sStep sc s (.ack ((s.base + s.win.elems.length - 1) % 65536)) 0).1.win.elems.length = sc.w) ∧
        0 < (sStep sc s (.ack ((s.base + s.win.elems.length - 1) % 65536)) 0).1.win.elems.length ∧
        (sStep sc s (.ack ((s.base + s.win.elems.length - 1) % 65536)) 0).1.base = s.base + s.win.elems.length ∧
        (sStep sc s (.ack ((s.base + s.win.elems.length - 1) % 65536)) 0).1.retry = 0 ∧
        (sStep sc s (.ack ((s.base + s.win.elems.length - 1) % 65536)) 0).1.since = 0 ∧
        (sStep sc s (.ack ((s.base + s.win.elems.length - 1) % 65536)) 0).2 =
          sendWindow sc.rep ((s.base + s.win.elems.length) % 65536)
            (sStep sc s (.ack ((s.base + s.win.elems.length - 1) % 65536)) 0).1.win.elems) := by
  have hbase := sinv.base_pos
  have hlenw := sinv.len_le
  have hbn := sinv.bn_eq
  have hdiff : ((s.base + s.win.elems.length - 1) % 65536 + 65536 - s.bn) % 65536 = s.win.elems.length - 1 := by
    rw [hbn]; omega
  have hin : ((s.base + s.win.elems.length - 1) % 65536 + 65536 - s.bn) % 65536 < s.win.elems.length := by
    rw [hdiff]; omega
  constructor
  · intro hN
    have heof : s.win.eof = true := by
      cases hq : s.win.eof with
      | true => rfl
      | false =>
        exfalso
        have ⟨_, hc⟩ := sinv.cur hq
        have : s.base - 1 + s.win.elems.length ≤ f.length / sc.b := by
          rw [Nat.le_div_iff_mul_le hb]; exact hc
        unfold nblocks at hN; omega
    exact ack_step.c07_stop_aux sc hw f s sinv srun heof mpos _ 0 hdiff
  · intro hlt
    have heof : s.win.eof = false := by
      cases hq : s.win.eof with
      | false => rfl
      | true => exfalso; have := sinv.fin hq; unfold nblocks at hlt; omega
    have hfilled : s.filled = true := by rw [sinv.filled_eq, heof]; rfl
    have hlen : s.win.len = s.win.elems.length := by
      unfold Window.len; exact Nat.mod_eq_of_lt (by omega)
    have h0 : SInv sc f { s with since := s.since + 0 } :=
      ⟨sinv.base_pos, sinv.bn_eq, sinv.elems_eq, sinv.cur, sinv.fin, sinv.len_le, sinv.size_eq, sinv.chunk_eq,
        sinv.can_read, sinv.filled_eq, sinv.retry_lt⟩
    have hs' := slide_inv h0 ((s.base + s.win.elems.length - 1) % 65536) hin hw
    rw [hdiff] at hs'
    obtain ⟨w', fl, hfill, hinv', _, hfresh', hstrict'⟩ := fill_ok hb hw hs'
    have hslide_elems : (slide { s with since := s.since + 0 } ((s.base + s.win.elems.length - 1) % 65536)
        (s.win.elems.length - 1)).win.elems = [] := by
      simp only [slide]
      apply List.drop_eq_nil_of_le; omega
    have hpos' : 0 < w'.elems.length := by
      have := hstrict' (by simp [slide, heof]) (by rw [hslide_elems]; simp; omega)
      rw [hslide_elems] at this; simpa using this
    have hsstep : sStep sc s (.ack ((s.base + s.win.elems.length - 1) % 65536)) 0 =
        ({ (slide { s with since := s.since + 0 } ((s.base + s.win.elems.length - 1) % 65536) (s.win.elems.length - 1)) with
            win := w', filled := fl, retry := 0, since := 0 },
         sendWindow sc.rep (((s.base + s.win.elems.length - 1) % 65536 + 1) % 65536) w'.elems) := by
      rw [sStep_ack_inwindow sc s _ 0 srun hlen hin, hdiff]
      have hnf : (slide { s with since := s.since + 0 } ((s.base + s.win.elems.length - 1) % 65536)
          (s.win.elems.length - 1)).filled = true := by simp [slide, hfilled]
      simp only [hnf, Bool.not_true, Bool.false_and, Bool.false_eq_true, ↓reduceIte]
      unfold sOuter
      rw [hfill]
      simp only
      unfold sHead
      have : sc.timeout + Gen.timeoutBufferMs ≥ sc.timeout := by omega
      simp only [this, ↓reduceIte]
      simp [slide]
    rw [hsstep]
    refine ⟨?_, ?_, hfresh', hpos', ?_, rfl, rfl, ?_⟩
    · exact ⟨hinv'.base_pos, hinv'.bn_eq, hinv'.elems_eq, hinv'.cur, hinv'.fin, hinv'.len_le, hinv'.size_eq,
        hinv'.chunk_eq, hinv'.can_read, hinv'.filled_eq, hinv'.retry_lt⟩
    · simp [slide, srun]
    · simp only [slide]; omega
    · show sendWindow sc.rep _ w'.elems = sendWindow sc.rep _ w'.elems
      congr 1; omega

/-- a stale acknowledgement while the retransmission timer has not expired changes nothing -/
theorem sender_ack_stale (sc : SCfg) (ht : 0 < sc.timeout) (s : SState) (srun : s.status = .running)
    (hsince : s.since = 0) (n : Nat) (hst : ¬ (n + 65536 - s.bn) % 65536 < s.win.len) :
    sStep sc s (.ack n) 0 = (s, []) := by
  obtain ⟨bn, win, filled, retry, since, status, base⟩ := s
  simp only at srun hsince hst
  subst srun; subst hsince
  unfold sStep
  simp only [hst, ↓reduceIte, Nat.add_zero]
  unfold sHead
  have : ¬ (0 ≥ sc.timeout) := by omega
  simp only [this, ↓reduceIte]

/-- a time-out after a full retransmission interval, below the retry bound: the window is sent again -/
theorem sender_timeout (sc : SCfg) (s : SState) (srun : s.status = .running) (hsince : s.since = 0)
    (hr : s.retry + 1 ≠ Gen.maxRetries) :
    sStep sc s .fail sc.timeout =
      ({ s with retry := s.retry + 1 }, sendWindow sc.rep s.bn s.win.elems) := by
  obtain ⟨bn, win, filled, retry, since, status, base⟩ := s
  simp only at srun hsince hr
  subst srun; subst hsince
  unfold sStep
  simp only [hr, ↓reduceIte, Nat.zero_add]
  unfold sHead
  simp only [ge_iff_le, Nat.le_refl, ↓reduceIte]

end Tftp

namespace Tftp

/-! ### the lock-step receiver on a retransmitted block and on a time-out -/

theorem recv_dup (rc : RCfg) (r : RState) (rrun : r.status = .running) (rpend : r.win.elems = [])
    (hcw : r.win.file.canWrite = true) (n : Nat) (p : Bytes) (hn : n ≠ (r.bn + 1) % 65536) :
    rStep rc r (.data n p) = (r, ackOut rc.rep r.bn r.win.file) := by
  obtain ⟨bn, win, retry, status, accepted⟩ := r
  obtain ⟨elems, size, chunk, file, eof⟩ := win
  simp only at rrun rpend hcw hn
  subst rrun; subst rpend
  unfold rStep
  simp only [hn, ↓reduceIte, Window.isEmpty, List.isEmpty_nil, Bool.not_true, Bool.and_false, Bool.false_eq_true]
  unfold flushAck Window.empty
  simp [hcw]

theorem recv_timeout (rc : RCfg) (r : RState) (rrun : r.status = .running) (hr : r.retry + 1 ≠ Gen.maxRetries) :
    rStep rc r .fail = ({ r with retry := r.retry + 1 }, []) := by
  obtain ⟨bn, win, retry, status, accepted⟩ := r
  simp only at rrun hr
  subst rrun
  unfold rStep
  simp only [hr, ↓reduceIte]

theorem RInv.with_retry {rc : RCfg} {r : RState} (h : RInv rc r) (k : Nat) : RInv rc { r with retry := k } :=
  ⟨h.bn_eq, h.stored, h.pend_lt, h.size_eq, h.can_write, h.full_before, h.ok_final⟩

theorem SInv.with_retry {sc : SCfg} {f : Bytes} {s : SState} (h : SInv sc f s) (k : Nat) (hk : k < Gen.maxRetries) :
    SInv sc f { s with retry := k } :=
  ⟨h.base_pos, h.bn_eq, h.elems_eq, h.cur, h.fin, h.len_le, h.size_eq, h.chunk_eq, h.can_read, h.filled_eq,
    fun _ => hk⟩

end Tftp

namespace Tftp

theorem applyFaults_single_rep {α : Type} (drop dup : List Nat) (n : Nat) (x : α) :
    ∃ c, applyFaults drop dup n [x] = List.replicate c x ∧ c ≤ 2 ∧ (c = 0 → drop.contains n = true) := by
  rw [applyFaults_single]
  by_cases h1 : drop.contains n = true
  · exact ⟨0, by rw [if_pos h1]; rfl, by omega, fun _ => h1⟩
  · by_cases h2 : dup.contains n = true
    · exact ⟨2, by rw [if_neg h1, if_pos h2]; rfl, by omega, by omega⟩
    · exact ⟨1, by rw [if_neg h1, if_neg h2]; rfl, by omega, by omega⟩

theorem dsf_data_mono (fl : Faults) (nd na : Nat) : dropsSoFar fl nd na ≤ dropsSoFar fl (nd + 1) na := by
  unfold dropsSoFar
  have := filter_lt_mono fl.dropData nd (nd + 1) (by omega)
  omega

theorem dsf_ack_mono (fl : Faults) (nd na : Nat) : dropsSoFar fl nd na ≤ dropsSoFar fl nd (na + 1) := by
  unfold dropsSoFar
  have := filter_lt_mono fl.dropAck na (na + 1) (by omega)
  omega

theorem dsf_data_drop (fl : Faults) (nd na : Nat) (h : fl.dropData.contains nd = true) :
    dropsSoFar fl nd na + 1 ≤ dropsSoFar fl (nd + 1) na := by
  unfold dropsSoFar
  have := filter_lt_succ_of_mem fl.dropData nd h
  omega

theorem dsf_ack_drop (fl : Faults) (nd na : Nat) (h : fl.dropAck.contains na = true) :
    dropsSoFar fl nd na + 1 ≤ dropsSoFar fl nd (na + 1) := by
  unfold dropsSoFar
  have := filter_lt_succ_of_mem fl.dropAck na h
  omega

/-- lock-step parameters: windowsize 1 on both sides, one copy per datagram, a positive retransmission interval -/
structure LockCfg (sc : SCfg) (rc : RCfg) : Prop where
  hb : 0 < sc.b
  hw : sc.w = 1
  hrep : sc.rep = 1
  ht : 0 < sc.timeout
  rb : rc.b = sc.b
  rw : rc.w = 1
  rrep : rc.rep = 1

/-- the lock-step closed loop while the receiver is still running: the sender is on block `B`, the receiver
has `R ∈ {B-1, B}` blocks; in flight are copies of DATA `B` and, in this order, `i` stale acknowledgements
(of `B-1`) and `j` acknowledgements of `B`; a time-out never happens without a loss that pays for it -/
structure LS (sc : SCfg) (rc : RCfg) (fl : Faults) (f : Bytes) (st : NetState) (B R i j : Nat) : Prop where
  sinv : SInv sc f st.s
  srun : st.s.status = .running
  sbase : st.s.base = B
  slen : st.s.win.elems.length = 1
  ssince : st.s.since = 0
  rinv : RInv rc st.r
  rrun : st.r.status = .running
  rpend : st.r.win.elems = []
  rrecv : st.r.received = blocksUpTo sc.b f R
  rel : R + 1 = B ∨ R = B
  rlt : R < nblocks sc.b f
  dq_all : ∀ x ∈ st.dq, x = (B % 65536, blk sc.b f B)
  aq_eq : st.aq = List.replicate i ((B + 65535) % 65536) ++ List.replicate j (B % 65536)
  jpos : 0 < j → R = B
  sretry : st.s.retry ≤ st.timeouts
  rretry : st.r.retry ≤ st.timeouts
  debt : st.timeouts + (if st.dq ≠ [] ∨ 0 < j then 0 else 1) ≤ dropsSoFar fl st.nd st.na

/-- the termination measure of the lock-step loop -/
def lsMeasure (sc : SCfg) (fl : Faults) (f : Bytes) (st : NetState) (B R i j : Nat) : Nat :=
  (nblocks sc.b f - R) + 6 * (nblocks sc.b f + 1 - B) + 7 * (dropsTotal fl - st.timeouts) + 3 * st.dq.length + (i + j)

/-- facts every `LS` state gives -/
theorem LS.facts {sc : SCfg} {rc : RCfg} {fl : Faults} {f : Bytes} {st : NetState} {B R i j : Nat}
    (lc : LockCfg sc rc) (h : LS sc rc fl f st B R i j) :
    1 ≤ B ∧ B ≤ nblocks sc.b f ∧ st.s.win.elems = [blk sc.b f B] ∧ st.s.bn = B % 65536 ∧
      st.r.bn = R % 65536 ∧ st.s.win.len = 1 := by
  have hb1 := h.sinv.base_pos
  have hle := inv_range lc.hb h.sinv 0 (by rw [h.slen]; omega)
  have he := h.sinv.elems_eq 0 (by rw [h.slen]; omega)
  have hR : st.r.accepted.length = R := by
    have h1 : st.r.received.length = st.r.accepted.length := by simp [RState.received]
    have h2 := congrArg List.length h.rrecv
    rw [blocksUpTo_length] at h2
    omega
  refine ⟨by rw [← h.sbase]; exact hb1, by rw [← h.sbase]; simpa using hle, ?_, by rw [h.sinv.bn_eq, h.sbase],
    by rw [h.rinv.bn_eq, hR], by unfold Window.len; rw [h.slen]⟩
  have hlen := h.slen
  match hel : st.s.win.elems, hlen with
  | [e], _ =>
    rw [hel] at he
    simp at he
    rw [he, ← h.sbase]
    unfold blk
    simp

theorem rStep_data_retry (c : RCfg) (s : RState) (n : Nat) (p : Bytes) :
    (rStep c s (.data n p)).1.retry ≤ s.retry := by
  unfold rStep
  split
  · simp only
    split
    · split
      · split
        · unfold markOk flushAck
          split <;> (simp only; split <;> simp)
        · split
          · unfold flushAck
            split <;> simp
          · simp
      · simp
    · split
      · simp
      · unfold flushAck
        split <;> simp
  · simp

/-- the lock-step closed loop after the receiver has ended with the complete file: the sender is on the final
block `N`; in flight are copies of DATA `N` (which nobody reads any more), `i` stale acknowledgements and `j`
copies of the final acknowledgement - and if there is none, the (only) final acknowledgement was lost -/
structure LF (sc : SCfg) (rc : RCfg) (fl : Faults) (f : Bytes) (st : NetState) (i j : Nat) : Prop where
  sinv : SInv sc f st.s
  srun : st.s.status = .running
  sbase : st.s.base = nblocks sc.b f
  slen : st.s.win.elems.length = 1
  ssince : st.s.since = 0
  rok : st.r.status = .ok
  rfile : st.r.win.file.content = f
  aq_eq : st.aq = List.replicate i ((nblocks sc.b f + 65535) % 65536) ++ List.replicate j (nblocks sc.b f % 65536)
  lost : j = 0 → fl.dropAck.contains (st.na - 1) = true

/-- what the outcome of one lock-step scheduling step has to be -/
def LSNext (sc : SCfg) (rc : RCfg) (fl : Faults) (f : Bytes) (st : NetState) (B R i j : Nat) (st' : NetState) : Prop :=
  (∃ i' j', LF sc rc fl f st' i' j') ∨
  ∃ B' R' i' j', LS sc rc fl f st' B' R' i' j' ∧ lsMeasure sc fl f st' B' R' i' j' < lsMeasure sc fl f st B R i j

theorem ackOut_one (n : Nat) (fl : FileSt) : (ackOut 1 n fl).map (·.n) = [n] := rfl

/-- **a DATA datagram is delivered** -/
theorem ls_data (sc : SCfg) (rc : RCfg) (lc : LockCfg sc rc) (fl : Faults) (f : Bytes)
    (s : SState) (r : RState) (n : Nat) (d : Bytes) (rest : List (Nat × Bytes)) (aq : List Nat) (nd na tmo : Nat)
    (B R i j : Nat) (h : LS sc rc fl f ⟨s, r, (n, d) :: rest, aq, nd, na, tmo⟩ B R i j) :
    ∃ st', netStep sc rc fl ⟨s, r, (n, d) :: rest, aq, nd, na, tmo⟩ = some st' ∧
      LSNext sc rc fl f ⟨s, r, (n, d) :: rest, aq, nd, na, tmo⟩ B R i j st' := by
  obtain ⟨hB1, hBN, hel, hsbn, hrbn, hslen⟩ := h.facts lc
  obtain ⟨sinv, srun, sbase, slen, ssince, rinv, rrun, rpend, rrecv, rel, rlt, dq_all, aq_eq, jpos, sretry, rretry, debt⟩ := h
  simp only at sinv srun sbase slen ssince rinv rrun rpend rrecv dq_all aq_eq sretry rretry debt hel hsbn hrbn hslen
  have hx := dq_all (n, d) (by simp)
  injection hx with hn hd
  have hrest : ∀ x ∈ rest, x = (B % 65536, blk sc.b f B) := fun x hx => dq_all x (by simp [hx])
  have hstep : netStep sc rc fl ⟨s, r, (n, d) :: rest, aq, nd, na, tmo⟩ =
      some (emitAcks fl ⟨s, (rStep rc r (.data n d)).1, rest, aq, nd, na, tmo⟩ (rStep rc r (.data n d)).2) := by
    simp only [netStep, receiverRunning, rrun, beq_self_eq_true, ↓reduceIte]
  have hw' : rc.w < 65536 := by rw [lc.rw]; omega
  have hdebt0 : tmo ≤ dropsSoFar fl nd na := by
    have : ((n, d) :: rest ≠ [] ∨ 0 < j) := Or.inl (by simp)
    simp only [this, ↓reduceIte, Nat.add_zero] at debt
    exact debt
  refine ⟨_, hstep, ?_⟩
  rcases rel with hrel | hrel
  · -- the receiver is waiting for exactly this block
    have hseq : n = (r.bn + 1) % 65536 := by rw [hn, hrbn]; omega
    have hj0 : j = 0 := by
      cases j with
      | zero => rfl
      | succ k => have := jpos (by omega); omega
    subst hj0
    obtain ⟨hri, hrr, hfin, hfull, _⟩ := rStep_inseq rc hw' r rinv rrun n d hseq
    have hrecv' : (rStep rc r (.data n d)).1.received = blocksUpTo sc.b f B := by
      rw [hrr, rrecv, ← hrel, blocksUpTo_succ, hd, hrel]
    by_cases hshort : d.length < rc.b
    · left
      obtain ⟨h1, _, h3, h4⟩ := hfin hshort
      have hN : B = nblocks sc.b f := by
        have := (blk_length_lt_iff sc.b lc.hb f B hB1 hBN).mp (by rw [← hd, ← lc.rb]; exact hshort)
        exact this
      obtain ⟨c, hc, hc2, hc0⟩ := applyFaults_single_rep fl.dropAck fl.dupAck na n
      have hst' : emitAcks fl ⟨s, (rStep rc r (.data n d)).1, rest, aq, nd, na, tmo⟩ (rStep rc r (.data n d)).2 =
          ⟨s, (rStep rc r (.data n d)).1, rest, aq ++ List.replicate c n, nd, na + 1, tmo⟩ := by
        unfold emitAcks
        simp only [h3, lc.rrep, ackOut_one, hc, List.length_singleton]
      rw [hst']
      refine ⟨i, c, sinv, srun, by rw [sbase, hN], slen, ssince, h1, ?_, ?_, ?_⟩
      · show (rStep rc r (.data n d)).1.win.file.content = f
        rw [h4, hrecv', hN]
        unfold blocksUpTo
        rw [blocks_flatten, take_all_blocks sc.b lc.hb f]
      · show aq ++ List.replicate c n = _
        rw [aq_eq, hn, ← hN]; simp
      · intro hc00
        show fl.dropAck.contains (na + 1 - 1) = true
        exact hc0 hc00
    · right
      have hBlt : B < nblocks sc.b f := by
        have hne : B ≠ nblocks sc.b f := by
          intro he
          have := (blk_length_lt_iff sc.b lc.hb f B hB1 hBN).mpr he
          rw [← hd, ← lc.rb] at this
          exact hshort this
        omega
      obtain ⟨h1, h2, h3⟩ := hfull hshort (by rw [rpend, lc.rw]; rfl)
      obtain ⟨c, hc, hc2, hc0⟩ := applyFaults_single_rep fl.dropAck fl.dupAck na n
      have hst' : emitAcks fl ⟨s, (rStep rc r (.data n d)).1, rest, aq, nd, na, tmo⟩ (rStep rc r (.data n d)).2 =
          ⟨s, (rStep rc r (.data n d)).1, rest, aq ++ List.replicate c n, nd, na + 1, tmo⟩ := by
        unfold emitAcks
        simp only [h3, lc.rrep, ackOut_one, hc, List.length_singleton]
      rw [hst']
      refine ⟨B, B, i, c, ⟨sinv, srun, sbase, slen, ssince, hri, h1, h2, hrecv', Or.inr rfl, hBlt, hrest, ?_, fun _ => rfl,
        sretry, ?_, ?_⟩, ?_⟩
      · show aq ++ List.replicate c n = _
        rw [aq_eq, hn]; simp
      · show (rStep rc r (.data n d)).1.retry ≤ tmo
        exact Nat.le_trans (rStep_data_retry rc r n d) rretry
      · show tmo + (if rest ≠ [] ∨ 0 < c then 0 else 1) ≤ dropsSoFar fl nd (na + 1)
        by_cases hc00 : c = 0
        · have := dsf_ack_drop fl nd na (hc0 hc00)
          split <;> omega
        · have := dsf_ack_mono fl nd na
          have : (rest ≠ [] ∨ 0 < c) := Or.inr (by omega)
          simp only [this, ↓reduceIte]; omega
      · unfold lsMeasure
        simp only [List.length_cons]
        omega
  · -- a retransmission of the block the receiver already has: it repeats its acknowledgement
    right
    have hne : n ≠ (r.bn + 1) % 65536 := by rw [hn, hrbn, hrel]; omega
    have hdup := recv_dup rc r rrun rpend rinv.can_write n d hne
    obtain ⟨c, hc, hc2, hc0⟩ := applyFaults_single_rep fl.dropAck fl.dupAck na r.bn
    have hst' : emitAcks fl ⟨s, (rStep rc r (.data n d)).1, rest, aq, nd, na, tmo⟩ (rStep rc r (.data n d)).2 =
        ⟨s, r, rest, aq ++ List.replicate c r.bn, nd, na + 1, tmo⟩ := by
      unfold emitAcks
      simp only [hdup, lc.rrep, ackOut_one, hc, List.length_singleton]
    rw [hst']
    refine ⟨B, R, i, j + c, ⟨sinv, srun, sbase, slen, ssince, rinv, rrun, rpend, rrecv, Or.inr hrel, rlt, hrest, ?_,
      fun _ => hrel, sretry, rretry, ?_⟩, ?_⟩
    · show aq ++ List.replicate c r.bn = _
      rw [aq_eq, hrbn, hrel, List.append_assoc, List.replicate_append_replicate]
    · show tmo + (if rest ≠ [] ∨ 0 < j + c then 0 else 1) ≤ dropsSoFar fl nd (na + 1)
      by_cases hc00 : c = 0
      · have := dsf_ack_drop fl nd na (hc0 hc00)
        split <;> omega
      · have := dsf_ack_mono fl nd na
        have : (rest ≠ [] ∨ 0 < j + c) := Or.inr (by omega)
        simp only [this, ↓reduceIte]; omega
    · unfold lsMeasure
      simp only [List.length_cons]
      omega

end Tftp

namespace Tftp

theorem dataOf_single (bn : Nat) (e : Bytes) : dataOf (sendWindow 1 bn [e]) = [(bn, e)] := by
  simp [sendWindow, sendPacket, dataOf]

/-- **an acknowledgement is delivered** -/
theorem ls_ack (sc : SCfg) (rc : RCfg) (lc : LockCfg sc rc) (fl : Faults) (f : Bytes)
    (s : SState) (r : RState) (a : Nat) (arest : List Nat) (nd na tmo : Nat)
    (B R i j : Nat) (h : LS sc rc fl f ⟨s, r, [], a :: arest, nd, na, tmo⟩ B R i j) :
    ∃ st', netStep sc rc fl ⟨s, r, [], a :: arest, nd, na, tmo⟩ = some st' ∧
      LSNext sc rc fl f ⟨s, r, [], a :: arest, nd, na, tmo⟩ B R i j st' := by
  obtain ⟨hB1, hBN, hel, hsbn, hrbn, hslen⟩ := h.facts lc
  obtain ⟨sinv, srun, sbase, slen, ssince, rinv, rrun, rpend, rrecv, rel, rlt, dq_all, aq_eq, jpos, sretry, rretry, debt⟩ := h
  simp only at sinv srun sbase slen ssince rinv rrun rpend rrecv dq_all aq_eq sretry rretry debt hel hsbn hrbn hslen
  have hstep : netStep sc rc fl ⟨s, r, [], a :: arest, nd, na, tmo⟩ =
      some (emitData fl ⟨(sStep sc s (.ack a) 0).1, r, [], arest, nd, na, tmo⟩ (sStep sc s (.ack a) 0).2) := by
    simp only [netStep, senderRunning, srun, beq_self_eq_true, Bool.true_or, ↓reduceIte]
  refine ⟨_, hstep, ?_⟩
  right
  cases i with
  | succ i' =>
    -- a stale acknowledgement: nothing happens
    have ha : a = (B + 65535) % 65536 ∧ arest = List.replicate i' ((B + 65535) % 65536) ++ List.replicate j (B % 65536) := by
      rw [List.replicate_succ, List.cons_append] at aq_eq
      injection aq_eq with h1 h2
      exact ⟨h1, h2⟩
    have hst : ¬ (a + 65536 - s.bn) % 65536 < s.win.len := by rw [ha.1, hsbn, hslen]; omega
    have hno := sender_ack_stale sc lc.ht s srun ssince a hst
    have hst' : emitData fl ⟨(sStep sc s (.ack a) 0).1, r, [], arest, nd, na, tmo⟩ (sStep sc s (.ack a) 0).2 =
        ⟨s, r, [], arest, nd, na, tmo⟩ := by
      unfold emitData
      simp [hno, dataOf, applyFaults]
    rw [hst']
    refine ⟨B, R, i', j, ⟨sinv, srun, sbase, slen, ssince, rinv, rrun, rpend, rrecv, rel, rlt, by simp, ha.2, jpos,
      sretry, rretry, debt⟩, ?_⟩
    unfold lsMeasure
    simp only [List.length_nil]
    omega
  | zero =>
    cases j with
    | zero => simp at aq_eq
    | succ j' =>
      have ha : a = B % 65536 ∧ arest = List.replicate j' (B % 65536) := by
        rw [List.replicate_zero, List.nil_append, List.replicate_succ] at aq_eq
        injection aq_eq with h1 h2
        exact ⟨h1, h2⟩
      have hRB : R = B := jpos (by omega)
      have hBlt : B < nblocks sc.b f := by omega
      have hw' : sc.w < 65536 := by rw [lc.hw]; omega
      obtain ⟨_, hmore⟩ := sender_ack_whole sc lc.hb hw' f s sinv srun (by rw [slen]; omega)
      have han : (s.base + s.win.elems.length - 1) % 65536 = a := by rw [slen, sbase, ha.1]; congr 1
      rw [han] at hmore
      obtain ⟨hi', hrun', hfresh', hpos', hbase', hretry', hsince', hout'⟩ := hmore (by rw [slen, sbase]; omega)
      have hlen' : (sStep sc s (.ack a) 0).1.win.elems.length = 1 := by
        have := hi'.len_le
        rw [lc.hw] at this
        omega
      have hel' : (sStep sc s (.ack a) 0).1.win.elems = [blk sc.b f (B + 1)] := by
        have he := hi'.elems_eq 0 (by rw [hlen']; omega)
        match hq : (sStep sc s (.ack a) 0).1.win.elems, hlen' with
        | [e], _ =>
          rw [hq] at he
          simp at he
          rw [he, hbase', slen, sbase]
          unfold blk
          simp
      obtain ⟨c, hc, hc2, hc0⟩ := applyFaults_single_rep fl.dropData fl.dupData nd ((B + 1) % 65536, blk sc.b f (B + 1))
      have hst' : emitData fl ⟨(sStep sc s (.ack a) 0).1, r, [], arest, nd, na, tmo⟩ (sStep sc s (.ack a) 0).2 =
          ⟨(sStep sc s (.ack a) 0).1, r, List.replicate c ((B + 1) % 65536, blk sc.b f (B + 1)), arest, nd + 1, na, tmo⟩ := by
        unfold emitData
        simp only [hout', hel', lc.hrep, slen, sbase, dataOf_single, hc, List.nil_append, List.length_singleton]
      rw [hst']
      refine ⟨B + 1, R, j', 0, ⟨hi', hrun', by rw [hbase', slen, sbase], hlen', hsince', rinv, rrun, rpend, rrecv,
        Or.inl (by omega), rlt, ?_, ?_, by omega, by rw [hretry']; omega, rretry, ?_⟩, ?_⟩
      · intro x hx
        exact List.eq_of_mem_replicate hx
      · show arest = _
        have hm : (B + 1 + 65535) % 65536 = B % 65536 := by omega
        rw [ha.2, List.replicate_zero, List.append_nil, hm]
      · show tmo + (if List.replicate c ((B + 1) % 65536, blk sc.b f (B + 1)) ≠ [] ∨ 0 < 0 then 0 else 1) ≤
          dropsSoFar fl (nd + 1) na
        have hold : tmo ≤ dropsSoFar fl nd na := by
          have : (([] : List (Nat × Bytes)) ≠ [] ∨ 0 < j' + 1) := Or.inr (by omega)
          simp only [this, ↓reduceIte, Nat.add_zero] at debt
          exact debt
        by_cases hc00 : c = 0
        · have := dsf_data_drop fl nd na (hc0 hc00)
          split <;> omega
        · have := dsf_data_mono fl nd na
          have hne : (List.replicate c ((B + 1) % 65536, blk sc.b f (B + 1)) ≠ [] ∨ 0 < 0) := by
            left
            cases c with
            | zero => omega
            | succ k => simp [List.replicate_succ]
          simp only [hne, ↓reduceIte]; omega
      · unfold lsMeasure
        simp only [List.length_nil, List.length_replicate]
        omega

end Tftp

namespace Tftp

/-- **nothing in flight**: both sides time out; the loss that caused it pays for the attempt -/
theorem ls_quiet (sc : SCfg) (rc : RCfg) (lc : LockCfg sc rc) (fl : Faults) (hT : dropsTotal fl < Gen.maxRetries)
    (f : Bytes) (s : SState) (r : RState) (nd na tmo : Nat)
    (B R i j : Nat) (h : LS sc rc fl f ⟨s, r, [], [], nd, na, tmo⟩ B R i j) :
    ∃ st', netStep sc rc fl ⟨s, r, [], [], nd, na, tmo⟩ = some st' ∧
      LSNext sc rc fl f ⟨s, r, [], [], nd, na, tmo⟩ B R i j st' := by
  obtain ⟨hB1, hBN, hel, hsbn, hrbn, hslen⟩ := h.facts lc
  obtain ⟨sinv, srun, sbase, slen, ssince, rinv, rrun, rpend, rrecv, rel, rlt, dq_all, aq_eq, jpos, sretry, rretry, debt⟩ := h
  simp only at sinv srun sbase slen ssince rinv rrun rpend rrecv dq_all aq_eq sretry rretry debt hel hsbn hrbn hslen
  have hij : i = 0 ∧ j = 0 := by
    have := congrArg List.length aq_eq
    simp at this
    omega
  obtain ⟨hi0, hj0⟩ := hij
  subst hi0; subst hj0
  have hdebt : tmo + 1 ≤ dropsSoFar fl nd na := by
    have : ¬ (([] : List (Nat × Bytes)) ≠ [] ∨ 0 < 0) := by simp
    simp only [this, ↓reduceIte] at debt
    exact debt
  have hle := dropsSoFar_le_total fl nd na
  have hrs : s.retry + 1 ≠ Gen.maxRetries := by omega
  have hrr : r.retry + 1 ≠ Gen.maxRetries := by omega
  have hs := sender_timeout sc s srun ssince hrs
  have hr := recv_timeout rc r rrun hrr
  obtain ⟨c, hc, hc2, hc0⟩ := applyFaults_single_rep fl.dropData fl.dupData nd (B % 65536, blk sc.b f B)
  have hstep : netStep sc rc fl ⟨s, r, [], [], nd, na, tmo⟩ =
      some ⟨{ s with retry := s.retry + 1 }, { r with retry := r.retry + 1 },
        List.replicate c (B % 65536, blk sc.b f B), [], nd + 1, na, tmo + 1⟩ := by
    simp only [netStep, senderRunning, receiverRunning, srun, rrun, beq_self_eq_true, Bool.true_or, Bool.not_true,
      Bool.false_and, Bool.false_eq_true, ↓reduceIte, hs, hr]
    unfold emitData
    simp only [hel, lc.hrep, hsbn, dataOf_single, hc, List.nil_append, List.length_singleton]
  refine ⟨_, hstep, ?_⟩
  right
  refine ⟨B, R, 0, 0, ⟨sinv.with_retry _ (by omega), srun, sbase, slen, ssince, rinv.with_retry _, rrun, rpend, rrecv, rel, rlt,
    ?_, by simpa using aq_eq, jpos, ?_, ?_, ?_⟩, ?_⟩
  · intro x hx
    exact List.eq_of_mem_replicate hx
  · show s.retry + 1 ≤ tmo + 1
    omega
  · show r.retry + 1 ≤ tmo + 1
    omega
  · show tmo + 1 + (if List.replicate c (B % 65536, blk sc.b f B) ≠ [] ∨ 0 < 0 then 0 else 1) ≤ dropsSoFar fl (nd + 1) na
    by_cases hc00 : c = 0
    · have := dsf_data_drop fl nd na (hc0 hc00)
      split <;> omega
    · have := dsf_data_mono fl nd na
      have hne : (List.replicate c (B % 65536, blk sc.b f B) ≠ [] ∨ 0 < 0) := by
        left
        cases c with
        | zero => omega
        | succ k => simp [List.replicate_succ]
      simp only [hne, ↓reduceIte]; omega
  · unfold lsMeasure
    simp only [List.length_nil, List.length_replicate]
    omega

/-- one scheduling step from any lock-step state -/
theorem ls_step (sc : SCfg) (rc : RCfg) (lc : LockCfg sc rc) (fl : Faults) (hT : dropsTotal fl < Gen.maxRetries)
    (f : Bytes) (st : NetState) (B R i j : Nat) (h : LS sc rc fl f st B R i j) :
    ∃ st', netStep sc rc fl st = some st' ∧ LSNext sc rc fl f st B R i j st' := by
  obtain ⟨s, r, dq, aq, nd, na, tmo⟩ := st
  cases dq with
  | cons x rest =>
    obtain ⟨n, d⟩ := x
    exact ls_data sc rc lc fl f s r n d rest aq nd na tmo B R i j h
  | nil =>
    cases aq with
    | cons a arest => exact ls_ack sc rc lc fl f s r a arest nd na tmo B R i j h
    | nil => exact ls_quiet sc rc lc fl hT f s r nd na tmo B R i j h

end Tftp

namespace Tftp

/-- the loop starts in a lock-step state: DATA 1 in flight (unless the schedule loses it) -/
theorem ls_init (sc : SCfg) (rc : RCfg) (lc : LockCfg sc rc) (fl : Faults) (f : Bytes) :
    LS sc rc fl f (netInit sc rc fl f) 1 0 0 0 := by
  have hw' : sc.w < 65536 := by rw [lc.hw]; omega
  have h0 := init_inv sc f
  have hrun := inv_status h0 .running (Or.inr (by simp))
  obtain ⟨w', flg, hfill, hinv', _, hfresh', hstrict'⟩ := fill_ok lc.hb hw' hrun
  have hpos' : 0 < w'.elems.length := by
    have := hstrict' (by simp [Window.new]) (by simp [Window.new]; rw [lc.hw]; omega)
    simpa [Window.new] using this
  have hinit : sInit sc f false =
      ({ bn := 1, win := w', filled := flg, retry := 0, since := 0, status := .running, base := 1 },
       sendWindow sc.rep 1 w'.elems) := by
    unfold sInit
    simp only [Bool.false_eq_true, ↓reduceIte]
    unfold sOuter
    simp only at hfill
    rw [hfill]
    simp only
    unfold sHead
    have : sc.timeout + Gen.timeoutBufferMs ≥ sc.timeout := by omega
    simp only [this, ↓reduceIte]
  have hsinv : SInv sc f { bn := 1, win := w', filled := flg, retry := 0, since := 0, status := .running, base := 1 } :=
    ⟨hinv'.base_pos, hinv'.bn_eq, hinv'.elems_eq, hinv'.cur, hinv'.fin, hinv'.len_le, hinv'.size_eq,
      hinv'.chunk_eq, hinv'.can_read, hinv'.filled_eq, hinv'.retry_lt⟩
  have hlen' : w'.elems.length = 1 := by
    have := hinv'.len_le
    simp only at this
    rw [lc.hw] at this
    omega
  have hel' : w'.elems = [blk sc.b f 1] := by
    have he := hsinv.elems_eq 0 (by show 0 < w'.elems.length; omega)
    simp only at he
    match hq : w'.elems, hlen' with
    | [e], _ =>
      rw [hq] at he
      simp at he
      rw [he]
      unfold blk
      simp
  obtain ⟨c, hc, hc2, hc0⟩ := applyFaults_single_rep fl.dropData fl.dupData 0 (1, blk sc.b f 1)
  have hst : netInit sc rc fl f =
      ⟨{ bn := 1, win := w', filled := flg, retry := 0, since := 0, status := .running, base := 1 }, rInit rc,
        List.replicate c (1, blk sc.b f 1), [], 1, 0, 0⟩ := by
    unfold netInit
    rw [hinit]
    unfold emitData
    simp only [hel', lc.hrep, dataOf_single, hc, List.nil_append, List.length_singleton]
  rw [hst]
  have hrw : 1 ≤ rc.w := by rw [lc.rw]; omega
  refine ⟨hsinv, rfl, rfl, hlen', rfl, rInit_inv rc hrw, rfl, by simp [rInit, Window.new],
    by simp [rInit, RState.received, blocksUpTo], Or.inl rfl, Nat.succ_pos _, ?_, rfl, by omega,
    by show 0 ≤ 0; omega, by show (rInit rc).retry ≤ 0; simp [rInit], ?_⟩
  · intro x hx
    have := List.eq_of_mem_replicate hx
    rw [this]
  · show 0 + (if List.replicate c (1, blk sc.b f 1) ≠ [] ∨ 0 < 0 then 0 else 1) ≤ dropsSoFar fl 1 0
    by_cases hc00 : c = 0
    · have := dsf_data_drop fl 0 0 (hc0 hc00)
      simp only [Nat.zero_add] at this
      split <;> omega
    · have hne : (List.replicate c (1, blk sc.b f 1) ≠ [] ∨ 0 < 0) := by
        left
        cases c with
        | zero => omega
        | succ k => simp [List.replicate_succ]
      simp only [hne, ↓reduceIte]; omega

end Tftp

namespace Tftp

/-! ### after the receiver has ended: the sender hears the final acknowledgement, or gives up (RFC 1350's exception) -/

theorem sender_timeout_giveup (sc : SCfg) (s : SState) (srun : s.status = .running) (dt : Nat)
    (hr : s.retry + 1 = Gen.maxRetries) :
    (sStep sc s .fail dt).1.status = .failed ∧ (sStep sc s .fail dt).2 = [] ∧
      (sStep sc s .fail dt).1.retry = Gen.maxRetries := by
  obtain ⟨bn, win, filled, retry, since, status, base⟩ := s
  simp only at srun hr
  subst srun
  unfold sStep
  simp only [hr, ↓reduceIte, and_self]

/-- how the lock-step loop ends: the receiver holds the complete file and has ended successfully; the sender
has ended successfully too - or has given up, and then the final acknowledgement was lost -/
def LFDone (fl : Faults) (f : Bytes) (st : NetState) : Prop :=
  st.r.status = .ok ∧ st.r.win.file.content = f ∧
    (st.s.status = .ok ∨
      (st.s.status = .failed ∧ st.s.retry = Gen.maxRetries ∧ fl.dropAck.contains (st.na - 1) = true))

def lfMeasure (st : NetState) (i j : Nat) : Nat :=
  7 * (Gen.maxRetries - st.s.retry) + 3 * st.dq.length + (i + j)

theorem lf_step (sc : SCfg) (rc : RCfg) (lc : LockCfg sc rc) (fl : Faults) (f : Bytes) (st : NetState) (i j : Nat)
    (h : LF sc rc fl f st i j) :
    ∃ st', netStep sc rc fl st = some st' ∧
      (LFDone fl f st' ∨ ∃ i' j', LF sc rc fl f st' i' j' ∧ lfMeasure st' i' j' < lfMeasure st i j) := by
  obtain ⟨s, r, dq, aq, nd, na, tmo⟩ := st
  obtain ⟨sinv, srun, sbase, slen, ssince, rok, rfile, aq_eq, lost⟩ := h
  simp only at sinv srun sbase slen ssince rok rfile aq_eq lost
  have hsbn : s.bn = nblocks sc.b f % 65536 := by rw [sinv.bn_eq, sbase]
  have hslen : s.win.len = 1 := by unfold Window.len; rw [slen]
  have hretry : s.retry < Gen.maxRetries := sinv.retry_lt (by rw [srun]; simp)
  have hN1 : 1 ≤ nblocks sc.b f := Nat.succ_pos _
  cases dq with
  | cons x rest =>
    -- nobody reads DATA any more
    refine ⟨⟨s, r, rest, aq, nd, na, tmo⟩, ?_, Or.inr ⟨i, j, ⟨sinv, srun, sbase, slen, ssince, rok, rfile, aq_eq, lost⟩, ?_⟩⟩
    · obtain ⟨n, d⟩ := x
      simp only [netStep, receiverRunning, rok]
      rfl
    · unfold lfMeasure
      simp only [List.length_cons]
      omega
  | nil =>
    cases aq with
    | cons a arest =>
      have hstep : netStep sc rc fl ⟨s, r, [], a :: arest, nd, na, tmo⟩ =
          some (emitData fl ⟨(sStep sc s (.ack a) 0).1, r, [], arest, nd, na, tmo⟩ (sStep sc s (.ack a) 0).2) := by
        simp only [netStep, senderRunning, srun, beq_self_eq_true, Bool.true_or, ↓reduceIte]
      refine ⟨_, hstep, ?_⟩
      cases i with
      | succ i' =>
        right
        have ha : a = (nblocks sc.b f + 65535) % 65536 ∧
            arest = List.replicate i' ((nblocks sc.b f + 65535) % 65536) ++ List.replicate j (nblocks sc.b f % 65536) := by
          rw [List.replicate_succ, List.cons_append] at aq_eq
          injection aq_eq with h1 h2
          exact ⟨h1, h2⟩
        have hst : ¬ (a + 65536 - s.bn) % 65536 < s.win.len := by rw [ha.1, hsbn, hslen]; omega
        have hno := sender_ack_stale sc lc.ht s srun ssince a hst
        have hst' : emitData fl ⟨(sStep sc s (.ack a) 0).1, r, [], arest, nd, na, tmo⟩ (sStep sc s (.ack a) 0).2 =
            ⟨s, r, [], arest, nd, na, tmo⟩ := by
          unfold emitData
          simp [hno, dataOf, applyFaults]
        rw [hst']
        refine ⟨i', j, ⟨sinv, srun, sbase, slen, ssince, rok, rfile, ha.2, lost⟩, ?_⟩
        unfold lfMeasure
        simp only [List.length_nil]
        omega
      | zero =>
        cases j with
        | zero => simp at aq_eq
        | succ j' =>
          -- the final acknowledgement arrives
          left
          have ha : a = nblocks sc.b f % 65536 := by
            rw [List.replicate_zero, List.nil_append, List.replicate_succ] at aq_eq
            injection aq_eq with h1 _
          have hw' : sc.w < 65536 := by rw [lc.hw]; omega
          obtain ⟨hlast, _⟩ := sender_ack_whole sc lc.hb hw' f s sinv srun (by rw [slen]; omega)
          have han : (s.base + s.win.elems.length - 1) % 65536 = a := by rw [slen, sbase, ha]; congr 1
          rw [han] at hlast
          obtain ⟨h1, h2⟩ := hlast (by rw [slen, sbase]; omega)
          refine ⟨rok, rfile, Or.inl ?_⟩
          show (emitData fl _ _).s.status = .ok
          unfold emitData
          exact h1
    | nil =>
      have hij : i = 0 ∧ j = 0 := by
        have := congrArg List.length aq_eq
        simp at this
        omega
      obtain ⟨hi0, hj0⟩ := hij
      subst hi0; subst hj0
      have hnr : receiverRunning r = false := by simp [receiverRunning, rok]
      have hsr : senderRunning s = true := by simp [senderRunning, srun]
      by_cases hr : s.retry + 1 = Gen.maxRetries
      · -- the budget is used up: the sender gives up; the final acknowledgement had been lost
        obtain ⟨h1, h2, h3⟩ := sender_timeout_giveup sc s srun sc.timeout hr
        refine ⟨emitData fl ⟨(sStep sc s .fail sc.timeout).1, r, [], [], nd, na, tmo + 1⟩ (sStep sc s .fail sc.timeout).2, ?_, Or.inl ?_⟩
        · simp only [netStep, hnr, hsr, Bool.not_true, Bool.false_and, Bool.false_eq_true, ↓reduceIte]
        · refine ⟨rok, rfile, Or.inr ⟨?_, ?_, lost rfl⟩⟩
          · show (emitData fl _ _).s.status = .failed
            unfold emitData
            exact h1
          · show (emitData fl _ _).s.retry = Gen.maxRetries
            unfold emitData
            exact h3
      · have hs := sender_timeout sc s srun ssince hr
        have hel : s.win.elems = [blk sc.b f (nblocks sc.b f)] := by
          have he := sinv.elems_eq 0 (by rw [slen]; omega)
          match hq : s.win.elems, slen with
          | [e], _ =>
            rw [hq] at he
            simp at he
            rw [he, sbase]
            unfold blk
            simp
        obtain ⟨c, hc, hc2, hc0⟩ :=
          applyFaults_single_rep fl.dropData fl.dupData nd (nblocks sc.b f % 65536, blk sc.b f (nblocks sc.b f))
        have hstep : netStep sc rc fl ⟨s, r, [], [], nd, na, tmo⟩ =
            some ⟨{ s with retry := s.retry + 1 }, r,
              List.replicate c (nblocks sc.b f % 65536, blk sc.b f (nblocks sc.b f)), [], nd + 1, na, tmo + 1⟩ := by
          simp only [netStep, hnr, hsr, Bool.not_true, Bool.false_and, Bool.false_eq_true, ↓reduceIte, hs]
          unfold emitData
          simp only [hel, lc.hrep, hsbn, dataOf_single, hc, List.nil_append, List.length_singleton]
        refine ⟨_, hstep, Or.inr ⟨0, 0, ⟨sinv.with_retry _ (by omega), srun, sbase, slen, ssince, rok, rfile,
          by simpa using aq_eq, lost⟩, ?_⟩⟩
        unfold lfMeasure
        simp only [List.length_nil, List.length_replicate]
        omega

theorem lf_run (sc : SCfg) (rc : RCfg) (lc : LockCfg sc rc) (fl : Faults) (f : Bytes) :
    ∀ (m : Nat) (st : NetState) (i j : Nat), LF sc rc fl f st i j → lfMeasure st i j ≤ m →
      ∃ fuel, LFDone fl f (netRun sc rc fl fuel st) := by
  intro m
  induction m with
  | zero =>
    intro st i j h hm
    exfalso
    have hretry : st.s.retry < Gen.maxRetries := h.sinv.retry_lt (by rw [h.srun]; simp)
    unfold lfMeasure at hm
    omega
  | succ m ih =>
    intro st i j h hm
    obtain ⟨st', hstep, hnext⟩ := lf_step sc rc lc fl f st i j h
    rcases hnext with hdone | ⟨i', j', h', hlt⟩
    · exact ⟨1, by simp only [netRun, hstep]; exact hdone⟩
    · obtain ⟨fuel, hd⟩ := ih st' i' j' h' (by omega)
      exact ⟨fuel + 1, by simp only [netRun, hstep]; exact hd⟩

/-- from any lock-step state the loop runs to its end -/
theorem ls_run (sc : SCfg) (rc : RCfg) (lc : LockCfg sc rc) (fl : Faults) (hT : dropsTotal fl < Gen.maxRetries)
    (f : Bytes) : ∀ (m : Nat) (st : NetState) (B R i j : Nat), LS sc rc fl f st B R i j →
      lsMeasure sc fl f st B R i j ≤ m → ∃ fuel, LFDone fl f (netRun sc rc fl fuel st) := by
  intro m
  induction m with
  | zero =>
    intro st B R i j h hm
    exfalso
    have := h.rlt
    unfold lsMeasure at hm
    omega
  | succ m ih =>
    intro st B R i j h hm
    obtain ⟨st', hstep, hnext⟩ := ls_step sc rc lc fl hT f st B R i j h
    rcases hnext with ⟨i', j', hf⟩ | ⟨B', R', i', j', h', hlt⟩
    · obtain ⟨fuel, hd⟩ := lf_run sc rc lc fl f _ st' i' j' hf (Nat.le_refl _)
      exact ⟨fuel + 1, by simp only [netRun, hstep]; exact hd⟩
    · obtain ⟨fuel, hd⟩ := ih st' B' R' i' j' h' (by omega)
      exact ⟨fuel + 1, by simp only [netRun, hstep]; exact hd⟩

/-- **lock-step loss tolerance** (RFC 1350, windowsize 1): for every file and block size, and for every fault
schedule that duplicates any datagrams and loses fewer datagrams in total than the retry bound, the closed
loop of the sender model and the receiver model runs to an end in which the receiver has ended
successfully with a byte-identical copy; the sender has ended successfully as well unless the final
acknowledgement was among the lost datagrams, in which case it has given up - the one exception the RFC
permits. No bound on the number of blocks (the 16-bit numbers wrap). -/
theorem lockstep_loss_tolerance (sc : SCfg) (rc : RCfg) (lc : LockCfg sc rc) (fl : Faults)
    (hT : fl.dropData.length + fl.dropAck.length < Gen.maxRetries) (f : Bytes) :
    ∃ fuel, LFDone fl f (netRun sc rc fl fuel (netInit sc rc fl f)) :=
  ls_run sc rc lc fl hT f _ _ 1 0 0 0 (ls_init sc rc lc fl f) (Nat.le_refl _)

end Tftp
