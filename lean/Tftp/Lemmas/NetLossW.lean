import Tftp.Lemmas.NetLoss
/-!
Closed loop under loss for every window size: sender model ∥ receiver model ∥ FIFO queues with any fault
schedule that loses fewer datagrams in total than the retry bound (any duplications).
Part 1: the abstract argument - bursts, the "an acknowledgement inside the window is on its way" token.
-/
namespace Tftp

/-- `[a, a+1, …, a+n-1]` with every element delivered once or twice (a burst without losses) -/
inductive Chain : Nat → Nat → List Nat → Prop where
  | nil (a : Nat) : Chain a 0 []
  | one (a n : Nat) (rest : List Nat) : Chain (a + 1) n rest → Chain a (n + 1) (a :: rest)
  | two (a n : Nat) (rest : List Nat) : Chain (a + 1) n rest → Chain a (n + 1) (a :: a :: rest)

theorem applyFaults_map {α β : Type} (g : α → β) (drop dup : List Nat) (n : Nat) (xs : List α) :
    applyFaults drop dup n (xs.map g) = (applyFaults drop dup n xs).map g := by
  induction xs generalizing n with
  | nil => simp [applyFaults]
  | cons x xs ih =>
    simp only [List.map_cons, applyFaults, List.map_append, ih]
    congr 1
    split
    · rfl
    · split <;> rfl

theorem applyFaults_length_le {α : Type} (drop dup : List Nat) (n : Nat) (xs : List α) :
    (applyFaults drop dup n xs).length ≤ 2 * xs.length := by
  induction xs generalizing n with
  | nil => simp [applyFaults]
  | cons x xs ih =>
    simp only [applyFaults, List.length_append, List.length_cons]
    have := ih (n + 1)
    split
    · simp; omega
    · split <;> simp <;> omega

/-- a burst of `m` datagrams emitted at ordinal `n`: one of them is lost, or what arrives is a `Chain` -/
theorem burst_cases (drop dup : List Nat) (n a m : Nat) :
    (∃ i, i < m ∧ drop.contains (n + i) = true) ∨ Chain a m (applyFaults drop dup n (List.range' a m)) := by
  induction m generalizing n a with
  | zero => right; simp [applyFaults]; exact Chain.nil a
  | succ m ih =>
    rw [List.range'_succ]
    simp only [applyFaults]
    by_cases h1 : drop.contains n = true
    · left; exact ⟨0, by omega, by simpa using h1⟩
    · rcases ih (n + 1) (a + 1) with ⟨i, hi, hd⟩ | hc
      · left; exact ⟨i + 1, by omega, by rw [← hd]; congr 1; omega⟩
      · right
        rw [if_neg h1]
        by_cases h2 : dup.contains n = true
        · rw [if_pos h2]; exact Chain.two a m _ hc
        · rw [if_neg h2]; exact Chain.one a m _ hc

theorem filter_lt_drop_in_range (l : List Nat) (n m i : Nat) (hi : i < m) (h : l.contains (n + i) = true) :
    (l.filter (· < n)).length + 1 ≤ (l.filter (· < n + m)).length := by
  have h1 := filter_lt_succ_of_mem l (n + i) h
  have h2 := filter_lt_mono l n (n + i) (by omega)
  have h3 := filter_lt_mono l (n + i + 1) (n + m) (by omega)
  omega

theorem dsf_data_burst_mono (fl : Faults) (nd na m : Nat) : dropsSoFar fl nd na ≤ dropsSoFar fl (nd + m) na := by
  unfold dropsSoFar
  have := filter_lt_mono fl.dropData nd (nd + m) (by omega)
  omega

theorem dsf_data_burst_drop (fl : Faults) (nd na m i : Nat) (hi : i < m) (h : fl.dropData.contains (nd + i) = true) :
    dropsSoFar fl nd na + 1 ≤ dropsSoFar fl (nd + m) na := by
  unfold dropsSoFar
  have := filter_lt_drop_in_range fl.dropData nd m i hi h
  omega

theorem mem_burst (drop dup : List Nat) (n a m k : Nat) (h : k ∈ applyFaults drop dup n (List.range' a m)) :
    a ≤ k ∧ k < a + m := by
  have := mem_applyFaults drop dup n _ k h
  rw [List.mem_range'_1] at this
  exact this

/-- the receiver, abstractly, over the numbers of the DATA datagrams still to be delivered: does an
acknowledgement for a block at or after the sender's base `B` get emitted? (`R` blocks accepted, `p` of
them not yet flushed/acknowledged; `bN` is the number of the final block) -/
def willAck (B w bN : Nat) : Nat → Nat → List Nat → Bool
  | _, _, [] => false
  | R, p, k :: ds =>
    if k = R + 1 then (if k = bN ∨ p + 1 = w then true else willAck B w bN (R + 1) (p + 1) ds)
    else if k = R ∧ 0 < p then willAck B w bN R p ds
    else if B ≤ R then true else willAck B w bN R 0 ds

/-- accepting a loss-free run of consecutive blocks ends in an acknowledgement -/
theorem willAck_chain (B w bN : Nat) : ∀ (n a : Nat) (ds : List Nat) (R p : Nat), Chain a n ds → a = R + 1 → 1 ≤ n →
    (p + n = w ∨ (a + n - 1 = bN ∧ p + n ≤ w)) → willAck B w bN R p ds = true := by
  intro n
  induction n with
  | zero => intro a ds R p _ _ h1; omega
  | succ n ih =>
    intro a ds R p hc ha _ hfin
    have hcont : ∀ rest, Chain (a + 1) n rest → ¬ (a = bN ∨ p + 1 = w) → willAck B w bN (R + 1) (p + 1) rest = true := by
      intro rest hr hnot
      have hn1 : 1 ≤ n := by
        cases n with
        | zero => exfalso; apply hnot; rcases hfin with h | ⟨h, _⟩ <;> omega
        | succ k => omega
      exact ih (a + 1) rest (R + 1) (p + 1) hr (by omega) hn1 (by rcases hfin with h | ⟨h1, h2⟩ <;> omega)
    cases hc with
    | one _ _ rest hr =>
      unfold willAck
      rw [if_pos ha]
      by_cases hq : a = bN ∨ p + 1 = w
      · rw [if_pos hq]
      · rw [if_neg hq]; exact hcont rest hr hq
    | two _ _ rest hr =>
      unfold willAck
      rw [if_pos ha]
      by_cases hq : a = bN ∨ p + 1 = w
      · rw [if_pos hq]
      · rw [if_neg hq]
        -- the duplicate of the block just buffered is ignored
        unfold willAck
        have h1 : ¬ a = R + 1 + 1 := by omega
        have h2 : a = R + 1 ∧ 0 < p + 1 := ⟨ha, by omega⟩
        rw [if_neg h1, if_pos h2]
        exact hcont rest hr hq

/-- **a loss-free burst of the sender's whole window always produces an acknowledgement inside the window** -/
theorem willAck_burst (B w bN m R p : Nat) (ds : List Nat) (hc : Chain B m ds) (hm : 1 ≤ m)
    (hfresh : m = w ∨ (B + m - 1 = bN ∧ m ≤ w)) (hple : p ≤ R) (hahead : B ≤ R - p + 1) (hrtop : R ≤ B + m - 1)
    (hrlt : R < bN) (hpw : p < w) : willAck B w bN R p ds = true := by
  by_cases hRB : B ≤ R
  · -- part of the window has been received already: its first block is out of sequence
    cases hc with
    | nil => omega
    | one _ n rest hr =>
      unfold willAck
      have h1 : ¬ B = R + 1 := by omega
      rw [if_neg h1]
      by_cases h2 : B = R ∧ 0 < p
      · rw [if_pos h2]
        have hp1 : p = 1 := by omega
        exact willAck_chain B w bN n (B + 1) rest R p hr (by omega) (by rcases hfresh with h | ⟨h, _⟩ <;> omega)
          (by rcases hfresh with h | ⟨h1', h2'⟩ <;> omega)
      · rw [if_neg h2, if_pos hRB]
    | two _ n rest hr =>
      unfold willAck
      have h1 : ¬ B = R + 1 := by omega
      rw [if_neg h1]
      by_cases h2 : B = R ∧ 0 < p
      · rw [if_pos h2]
        unfold willAck
        rw [if_neg h1, if_pos h2]
        have hp1 : p = 1 := by omega
        exact willAck_chain B w bN n (B + 1) rest R p hr (by omega) (by rcases hfresh with h | ⟨h, _⟩ <;> omega)
          (by rcases hfresh with h | ⟨h1', h2'⟩ <;> omega)
      · rw [if_neg h2, if_pos hRB]
  · have hp0 : p = 0 := by omega
    exact willAck_chain B w bN m B ds R p hc (by omega) hm (by rcases hfresh with h | ⟨h1, h2⟩ <;> omega)

end Tftp

namespace Tftp

/-! ### Part 2: the two workers, step by step, in terms of block counts -/

/-- an acknowledgement for the block at offset `d` of the outstanding window, which is not the final block:
the window slides past it, is refilled, and the whole new window is sent -/
theorem sender_ack_inwindow (sc : SCfg) (hb : 0 < sc.b) (hw : sc.w < 65536) (f : Bytes) (s : SState)
    (sinv : SInv sc f s) (srun : s.status = .running) (d : Nat) (hd : d < s.win.elems.length)
    (hk : s.base + d < nblocks sc.b f) :
    SInv sc f (sStep sc s (.ack ((s.base + d) % 65536)) 0).1 ∧
    (sStep sc s (.ack ((s.base + d) % 65536)) 0).1.status = .running ∧
    ((sStep sc s (.ack ((s.base + d) % 65536)) 0).1.win.eof = false →
      (sStep sc s (.ack ((s.base + d) % 65536)) 0).1.win.elems.length = sc.w) ∧
    0 < (sStep sc s (.ack ((s.base + d) % 65536)) 0).1.win.elems.length ∧
    (sStep sc s (.ack ((s.base + d) % 65536)) 0).1.base = s.base + d + 1 ∧
    (sStep sc s (.ack ((s.base + d) % 65536)) 0).1.retry = 0 ∧
    (sStep sc s (.ack ((s.base + d) % 65536)) 0).1.since = 0 ∧
    s.win.elems.length - (d + 1) ≤ (sStep sc s (.ack ((s.base + d) % 65536)) 0).1.win.elems.length ∧
    (sStep sc s (.ack ((s.base + d) % 65536)) 0).2 =
      sendWindow sc.rep ((s.base + d + 1) % 65536) (sStep sc s (.ack ((s.base + d) % 65536)) 0).1.win.elems := by
  have hbase := sinv.base_pos
  have hlenw := sinv.len_le
  have hbn := sinv.bn_eq
  have hdiff : ((s.base + d) % 65536 + 65536 - s.bn) % 65536 = d := by rw [hbn]; omega
  have hin : ((s.base + d) % 65536 + 65536 - s.bn) % 65536 < s.win.elems.length := by rw [hdiff]; exact hd
  have hlen : s.win.len = s.win.elems.length := by
    unfold Window.len; exact Nat.mod_eq_of_lt (by omega)
  have h0 : SInv sc f { s with since := s.since + 0 } :=
    ⟨sinv.base_pos, sinv.bn_eq, sinv.elems_eq, sinv.cur, sinv.fin, sinv.len_le, sinv.size_eq, sinv.chunk_eq,
      sinv.can_read, sinv.filled_eq, sinv.retry_lt⟩
  have hs' := slide_inv h0 ((s.base + d) % 65536) hin hw
  rw [hdiff] at hs'
  obtain ⟨w', fl, hfill, hinv', hgrow', hfresh', hstrict'⟩ := fill_ok hb hw hs'
  have hslide_len : (slide { s with since := s.since + 0 } ((s.base + d) % 65536) d).win.elems.length =
      s.win.elems.length - (d + 1) := by simp [slide]
  have hnotfin : (!(slide { s with since := s.since + 0 } ((s.base + d) % 65536) d).filled &&
      (slide { s with since := s.since + 0 } ((s.base + d) % 65536) d).win.isEmpty) = false := by
    cases heof : s.win.eof with
    | false =>
      have : s.filled = true := by rw [sinv.filled_eq, heof]; rfl
      simp [slide, this]
    | true =>
      have hfin := sinv.fin heof
      have hne : (slide { s with since := s.since + 0 } ((s.base + d) % 65536) d).win.elems ≠ [] := by
        intro he
        have := congrArg List.length he
        rw [hslide_len] at this
        unfold nblocks at hk
        simp at this
        omega
      simp only [Window.isEmpty, Bool.and_eq_false_imp, Bool.not_eq_true']
      intro _
      cases hq : (slide { s with since := s.since + 0 } ((s.base + d) % 65536) d).win.elems with
      | nil => exact absurd hq hne
      | cons _ _ => rfl
  have hpos' : 0 < w'.elems.length := by
    by_cases hz : s.win.elems.length - (d + 1) = 0
    · have heof : s.win.eof = false := by
        cases hq : s.win.eof with
        | false => rfl
        | true => exfalso; have := sinv.fin hq; unfold nblocks at hk; omega
      have := hstrict' (by simp [slide, heof]) (by rw [hslide_len, hz]; omega)
      omega
    · rw [hslide_len] at hgrow'; omega
  have hsstep : sStep sc s (.ack ((s.base + d) % 65536)) 0 =
      ({ (slide { s with since := s.since + 0 } ((s.base + d) % 65536) d) with
          win := w', filled := fl, retry := 0, since := 0 },
       sendWindow sc.rep (((s.base + d) % 65536 + 1) % 65536) w'.elems) := by
    rw [sStep_ack_inwindow sc s _ 0 srun hlen hin, hdiff]
    simp only [hnotfin, Bool.false_eq_true, ↓reduceIte]
    unfold sOuter
    rw [hfill]
    simp only
    unfold sHead
    have : sc.timeout + Gen.timeoutBufferMs ≥ sc.timeout := by omega
    simp only [this, ↓reduceIte]
    simp [slide]
  rw [hsstep]
  refine ⟨?_, ?_, hfresh', hpos', ?_, rfl, rfl, ?_, ?_⟩
  · exact ⟨hinv'.base_pos, hinv'.bn_eq, hinv'.elems_eq, hinv'.cur, hinv'.fin, hinv'.len_le, hinv'.size_eq,
      hinv'.chunk_eq, hinv'.can_read, hinv'.filled_eq, hinv'.retry_lt⟩
  · simp [slide, srun]
  · simp only [slide]
  · show s.win.elems.length - (d + 1) ≤ w'.elems.length
    rw [hslide_len] at hgrow'; exact hgrow'
  · show sendWindow sc.rep _ w'.elems = sendWindow sc.rep _ w'.elems
    congr 1; omega

/-- a duplicate of the block just buffered (its acknowledgement is still to come) is ignored -/
theorem recv_ignore (rc : RCfg) (r : RState) (rrun : r.status = .running) (n : Nat) (p : Bytes)
    (hn : n ≠ (r.bn + 1) % 65536) (hbn : n = r.bn) (hpend : r.win.elems ≠ []) :
    rStep rc r (.data n p) = (r, []) := by
  obtain ⟨bn, win, retry, status, accepted⟩ := r
  simp only at rrun hn hbn hpend
  subst rrun
  subst hbn
  unfold rStep
  have hne : win.isEmpty = false := by
    unfold Window.isEmpty
    cases hq : win.elems with
    | nil => exact absurd hq hpend
    | cons _ _ => rfl
  simp only [hn, ↓reduceIte, hne, Bool.not_false, Bool.and_true, decide_true]

/-- any other out-of-sequence block: what is pending goes to the file and the last acknowledgement is repeated -/
theorem recv_flush (rc : RCfg) (r : RState) (rinv : RInv rc r) (rrun : r.status = .running) (n : Nat) (p : Bytes)
    (hn : n ≠ (r.bn + 1) % 65536) (hnot : ¬ (n = r.bn ∧ r.win.elems ≠ [])) :
    (rStep rc r (.data n p)).1 =
        { r with win := { r.win with elems := [], file := r.win.elems.foldl FileSt.write r.win.file } } ∧
    (rStep rc r (.data n p)).2 = ackOut rc.rep r.bn (r.win.elems.foldl FileSt.write r.win.file) := by
  have hspec := flushAck_spec rc r rinv.can_write
  have hstep : rStep rc r (.data n p) = flushAck rc r := by
    obtain ⟨bn, win, retry, status, accepted⟩ := r
    simp only at rrun hn hnot
    subst rrun
    unfold rStep
    simp only [hn, ↓reduceIte]
    by_cases hbn : n = bn
    · have hemp : win.elems = [] := by
        by_cases he : win.elems = []
        · exact he
        · exact absurd ⟨hbn, he⟩ hnot
      have : win.isEmpty = true := by unfold Window.isEmpty; rw [hemp]; rfl
      simp [hbn, this]
    · simp [hbn]
  rw [hstep]
  exact hspec

end Tftp

namespace Tftp

/-! ### Part 3: the closed-loop invariant while the receiver is running -/

/-- DATA datagram number `k` of the transfer as it sits in the queue -/
def datum (b : Nat) (f : Bytes) (k : Nat) : Nat × Bytes := (k % 65536, blk b f k)

theorem dataOf_window (b : Nat) (f : Bytes) : ∀ (es : List Bytes) (B : Nat),
    (∀ i, i < es.length → es[i]? = some (blk b f (B + i))) →
    dataOf (sendWindow 1 (B % 65536) es) = (List.range' B es.length).map (datum b f) := by
  intro es
  induction es with
  | nil => intro B _; simp [sendWindow, dataOf]
  | cons e es ih =>
    intro B h
    rw [dataOf_sendWindow_cons]
    have h0 := h 0 (by simp)
    simp at h0
    have hmod : (B % 65536 + 1) % 65536 = (B + 1) % 65536 := by omega
    rw [hmod, ih (B + 1) (by
      intro i hi
      have := h (i + 1) (by simp; omega)
      simp at this
      rw [show B + 1 + i = B + (i + 1) from by omega]
      simpa using this)]
    simp [List.range'_succ, datum, h0]

/-- the sender's window as block numbers -/
theorem window_data {sc : SCfg} {f : Bytes} {s : SState} (sinv : SInv sc f s) :
    dataOf (sendWindow 1 (s.base % 65536) s.win.elems) = (List.range' s.base s.win.elems.length).map (datum sc.b f) := by
  apply dataOf_window
  intro i hi
  have := sinv.elems_eq i hi
  rw [this]
  have := sinv.base_pos
  unfold blk
  congr 2
  omega

structure LoopCfgT (sc : SCfg) (rc : RCfg) : Prop extends LoopCfg sc rc where
  ht : 0 < sc.timeout

/-- the closed loop while the receiver is running. Ghost parameters: `B` the sender's base, `R` the number of
blocks the receiver has accepted, `ds` the numbers of the DATA datagrams in flight, `ks` the (unwrapped)
numbers of the acknowledgements in flight. -/
structure GS (sc : SCfg) (rc : RCfg) (fl : Faults) (f : Bytes) (st : NetState) (B R : Nat) (ds ks : List Nat) : Prop where
  sinv : SInv sc f st.s
  srun : st.s.status = .running
  sbase : st.s.base = B
  mpos : 0 < st.s.win.elems.length
  fresh : st.s.win.eof = false → st.s.win.elems.length = sc.w
  ssince : st.s.since = 0
  rinv : RInv rc st.r
  rrun : st.r.status = .running
  rrecv : st.r.received = blocksUpTo sc.b f R
  ple : st.r.win.elems.length ≤ R
  ahead : B ≤ R - st.r.win.elems.length + 1
  rtop : R ≤ B + st.s.win.elems.length - 1
  rlt : R < nblocks sc.b f
  dq_eq : st.dq = ds.map (datum sc.b f)
  ds_rng : ∀ k ∈ ds, B ≤ k ∧ k ≤ B + st.s.win.elems.length - 1
  aq_eq : st.aq = ks.map (· % 65536)
  ks_sorted : ks.Pairwise (· ≤ ·)
  ks_rng : ∀ k ∈ ks, B ≤ k + 1 ∧ k ≤ R - st.r.win.elems.length
  sretry : st.s.retry ≤ st.timeouts
  rretry : st.r.retry ≤ st.timeouts
  debt : st.timeouts + (if (ks.any (B ≤ ·) || willAck B sc.w (nblocks sc.b f) R st.r.win.elems.length ds) = true
      then 0 else 1) ≤ dropsSoFar fl st.nd st.na

/-- after the receiver has ended with the complete file -/
structure GF (sc : SCfg) (rc : RCfg) (fl : Faults) (f : Bytes) (st : NetState) (B : Nat) (ks : List Nat) : Prop where
  sinv : SInv sc f st.s
  srun : st.s.status = .running
  sbase : st.s.base = B
  mpos : 0 < st.s.win.elems.length
  ssince : st.s.since = 0
  stop : B + st.s.win.elems.length - 1 = nblocks sc.b f
  rok : st.r.status = .ok
  rfile : st.r.win.file.content = f
  aq_eq : st.aq = ks.map (· % 65536)
  ks_sorted : ks.Pairwise (· ≤ ·)
  ks_rng : ∀ k ∈ ks, B ≤ k + 1 ∧ k ≤ nblocks sc.b f
  lost : nblocks sc.b f ∉ ks → fl.dropAck.contains (st.na - 1) = true
  rgood : st.r.received = blocksUpTo sc.b f st.r.received.length

def gsMeasure (sc : SCfg) (fl : Faults) (f : Bytes) (st : NetState) (B R : Nat) (ds ks : List Nat) : Nat :=
  (nblocks sc.b f - R) + (6 * sc.w + 1) * (nblocks sc.b f + 1 - B) + (6 * sc.w + 1) * (dropsTotal fl - st.timeouts) +
    3 * ds.length + ks.length

def GSNext (sc : SCfg) (rc : RCfg) (fl : Faults) (f : Bytes) (st : NetState) (B R : Nat) (ds ks : List Nat)
    (st' : NetState) : Prop :=
  (∃ B' ks', GF sc rc fl f st' B' ks') ∨
  ∃ B' R' ds' ks', GS sc rc fl f st' B' R' ds' ks' ∧ gsMeasure sc fl f st' B' R' ds' ks' < gsMeasure sc fl f st B R ds ks

theorem any_append_replicate (ks : List Nat) (c x B : Nat) :
    (ks ++ List.replicate c x).any (B ≤ ·) = (ks.any (B ≤ ·) || (decide (0 < c) && decide (B ≤ x))) := by
  rw [List.any_append]
  congr 1
  cases c with
  | zero => simp
  | succ n => simp [List.replicate_succ, List.any_cons, List.any_replicate]

theorem pairwise_append_replicate (ks : List Nat) (c x : Nat) (hs : ks.Pairwise (· ≤ ·)) (hle : ∀ k ∈ ks, k ≤ x) :
    (ks ++ List.replicate c x).Pairwise (· ≤ ·) := by
  rw [List.pairwise_append]
  refine ⟨hs, ?_, ?_⟩
  · rw [List.pairwise_replicate]
    right; omega
  · intro a ha b hb
    rw [List.eq_of_mem_replicate hb]
    exact hle a ha

theorem map_append_replicate (ks : List Nat) (c x : Nat) :
    (ks ++ List.replicate c x).map (· % 65536) = ks.map (· % 65536) ++ List.replicate c (x % 65536) := by
  simp

end Tftp

namespace Tftp

/-- facts every `GS` state gives -/
theorem GS.facts {sc : SCfg} {rc : RCfg} {fl : Faults} {f : Bytes} {st : NetState} {B R : Nat} {ds ks : List Nat}
    (lc : LoopCfgT sc rc) (h : GS sc rc fl f st B R ds ks) :
    1 ≤ B ∧ B + st.s.win.elems.length - 1 ≤ nblocks sc.b f ∧ st.s.win.elems.length ≤ sc.w ∧ st.s.bn = B % 65536 ∧
      st.r.bn = R % 65536 ∧ st.s.win.len = st.s.win.elems.length ∧ st.r.win.elems.length < sc.w := by
  have hb1 := h.sinv.base_pos
  have hle := inv_range lc.hb h.sinv (st.s.win.elems.length - 1) (by have := h.mpos; omega)
  have hR : st.r.accepted.length = R := by
    have h1 : st.r.received.length = st.r.accepted.length := by simp [RState.received]
    have h2 := congrArg List.length h.rrecv
    rw [blocksUpTo_length] at h2
    omega
  have hlw := h.sinv.len_le
  have hw := lc.hw
  have hp := h.rinv.pend_lt
  rw [lc.rw] at hp
  refine ⟨by rw [← h.sbase]; exact hb1, by rw [← h.sbase]; have := h.mpos; omega, hlw, by rw [h.sinv.bn_eq, h.sbase],
    by rw [h.rinv.bn_eq, hR], by unfold Window.len; exact Nat.mod_eq_of_lt (by omega), hp⟩

theorem willAck_cons (B w bN R p k : Nat) (ds : List Nat) :
    willAck B w bN R p (k :: ds) =
      (if k = R + 1 then (if k = bN ∨ p + 1 = w then true else willAck B w bN (R + 1) (p + 1) ds)
       else if k = R ∧ 0 < p then willAck B w bN R p ds
       else if B ≤ R then true else willAck B w bN R 0 ds) := by
  rw [willAck]

/-- **a DATA datagram is delivered** -/
theorem gs_data (sc : SCfg) (rc : RCfg) (lc : LoopCfgT sc rc) (fl : Faults) (f : Bytes)
    (s : SState) (r : RState) (aq : List Nat) (nd na tmo : Nat) (B R k : Nat) (ds' ks : List Nat)
    (h : GS sc rc fl f ⟨s, r, (k :: ds').map (datum sc.b f), aq, nd, na, tmo⟩ B R (k :: ds') ks) :
    ∃ st', netStep sc rc fl ⟨s, r, (k :: ds').map (datum sc.b f), aq, nd, na, tmo⟩ = some st' ∧
      GSNext sc rc fl f ⟨s, r, (k :: ds').map (datum sc.b f), aq, nd, na, tmo⟩ B R (k :: ds') ks st' := by
  obtain ⟨hB1, htopN, hlenw, hsbn, hrbn, hslen, hpw⟩ := h.facts lc
  obtain ⟨sinv, srun, sbase, mpos, fresh, ssince, rinv, rrun, rrecv, ple, ahead, rtop, rlt, dq_eq, ds_rng, aq_eq,
    ks_sorted, ks_rng, sretry, rretry, debt⟩ := h
  simp only at sinv srun sbase mpos fresh ssince rinv rrun rrecv ple ahead rtop rlt ds_rng aq_eq ks_sorted ks_rng
  simp only at sretry rretry debt htopN hlenw hsbn hrbn hslen hpw
  have hw := lc.hw
  have hk := ds_rng k (by simp)
  have hrest : ∀ x ∈ ds', B ≤ x ∧ x ≤ B + s.win.elems.length - 1 := fun x hx => ds_rng x (by simp [hx])
  have hstep : netStep sc rc fl ⟨s, r, (k :: ds').map (datum sc.b f), aq, nd, na, tmo⟩ =
      some (emitAcks fl ⟨s, (rStep rc r (.data (k % 65536) (blk sc.b f k))).1, ds'.map (datum sc.b f), aq, nd, na, tmo⟩
        (rStep rc r (.data (k % 65536) (blk sc.b f k))).2) := by
    simp only [List.map_cons, datum, netStep, receiverRunning, rrun, beq_self_eq_true, ↓reduceIte]
  have hw' : rc.w < 65536 := by rw [lc.rw]; exact hw
  have hone : ∀ (n : Nat) (fs : FileSt), (ackOut rc.rep n fs).map (·.n) = [n] := by
    intro n fs; rw [lc.rrep]; rfl
  refine ⟨_, hstep, ?_⟩
  by_cases hc1 : k = R + 1
  · -- the block the receiver is waiting for
    have hseq : k % 65536 = (r.bn + 1) % 65536 := by rw [hrbn]; omega
    obtain ⟨hri, hrr, hfin, hfull, hmore⟩ := rStep_inseq rc hw' r rinv rrun (k % 65536) (blk sc.b f k) hseq
    have hrecv' : (rStep rc r (.data (k % 65536) (blk sc.b f k))).1.received = blocksUpTo sc.b f (R + 1) := by
      rw [hrr, rrecv, blocksUpTo_succ, hc1]
    have hkN : k ≤ nblocks sc.b f := by omega
    have hshort_iff := blk_length_lt_iff sc.b lc.hb f k (by omega) hkN
    by_cases hshort : (blk sc.b f k).length < rc.b
    · -- the final block: the receiver ends
      left
      have hN : k = nblocks sc.b f := hshort_iff.mp (by have h' := hshort; rw [lc.rb] at h'; exact h')
      obtain ⟨h1, _, h3, h4⟩ := hfin hshort
      obtain ⟨c, hc, hc2, hc0⟩ := applyFaults_single_rep fl.dropAck fl.dupAck na (k % 65536)
      have hst' : emitAcks fl ⟨s, (rStep rc r (.data (k % 65536) (blk sc.b f k))).1, ds'.map (datum sc.b f), aq, nd, na, tmo⟩
          (rStep rc r (.data (k % 65536) (blk sc.b f k))).2 =
          ⟨s, (rStep rc r (.data (k % 65536) (blk sc.b f k))).1, ds'.map (datum sc.b f),
            aq ++ List.replicate c (k % 65536), nd, na + 1, tmo⟩ := by
        unfold emitAcks
        simp only [h3, hone, hc, List.length_singleton]
      rw [hst']
      refine ⟨B, ks ++ List.replicate c k, sinv, srun, sbase, mpos, ssince, by show B + s.win.elems.length - 1 = nblocks sc.b f; omega, h1, ?_, ?_, ?_, ?_, ?_, ?_⟩
      · show (rStep rc r _).1.win.file.content = f
        rw [h4, hrecv', ← hc1, hN]
        unfold blocksUpTo
        rw [blocks_flatten, take_all_blocks sc.b lc.hb f]
      · show aq ++ List.replicate c (k % 65536) = _
        rw [map_append_replicate, aq_eq]
      · exact pairwise_append_replicate ks c k ks_sorted (fun x hx => by have := (ks_rng x hx).2; omega)
      · intro x hx
        rw [List.mem_append] at hx
        rcases hx with hx | hx
        · have := ks_rng x hx; omega
        · rw [List.eq_of_mem_replicate hx]; omega
      · intro hnot
        show fl.dropAck.contains (na + 1 - 1) = true
        apply hc0
        cases c with
        | zero => rfl
        | succ n => exfalso; apply hnot; rw [← hN]; simp [List.replicate_succ]
      · show (rStep rc r _).1.received = blocksUpTo sc.b f (rStep rc r _).1.received.length
        rw [hrecv', blocksUpTo_length]
    · right
      have hkne : k ≠ nblocks sc.b f := by
        intro he
        have := hshort_iff.mpr he
        apply hshort
        rw [lc.rb]
        exact this
      by_cases hfullw : r.win.elems.length + 1 = sc.w
      · -- the window is full: flush and acknowledge
        obtain ⟨h1, h2, h3⟩ := hfull hshort (by rw [lc.rw]; exact hfullw)
        obtain ⟨c, hc, hc2, hc0⟩ := applyFaults_single_rep fl.dropAck fl.dupAck na (k % 65536)
        have hst' : emitAcks fl ⟨s, (rStep rc r (.data (k % 65536) (blk sc.b f k))).1, ds'.map (datum sc.b f), aq, nd, na, tmo⟩
            (rStep rc r (.data (k % 65536) (blk sc.b f k))).2 =
            ⟨s, (rStep rc r (.data (k % 65536) (blk sc.b f k))).1, ds'.map (datum sc.b f),
              aq ++ List.replicate c (k % 65536), nd, na + 1, tmo⟩ := by
          unfold emitAcks
          simp only [h3, hone, hc, List.length_singleton]
        rw [hst']
        have hwill : willAck B sc.w (nblocks sc.b f) R r.win.elems.length (k :: ds') = true := by
          rw [willAck_cons, if_pos hc1, if_pos (Or.inr hfullw)]
        have hold : tmo ≤ dropsSoFar fl nd na := by
          rw [hwill] at debt
          simp only [Bool.or_true, ↓reduceIte, Nat.add_zero] at debt
          exact debt
        refine ⟨B, R + 1, ds', ks ++ List.replicate c k, ⟨sinv, srun, sbase, mpos, fresh, ssince, hri, h1, hrecv',
          by show (rStep rc r _).1.win.elems.length ≤ R + 1; rw [h2]; simp,
          by show B ≤ R + 1 - (rStep rc r _).1.win.elems.length + 1; rw [h2]; simp; omega,
          by show R + 1 ≤ B + s.win.elems.length - 1; omega, by show R + 1 < nblocks sc.b f; omega, rfl, hrest, ?_, ?_, ?_, sretry, ?_, ?_⟩, ?_⟩
        · show aq ++ List.replicate c (k % 65536) = _
          rw [map_append_replicate, aq_eq]
        · exact pairwise_append_replicate ks c k ks_sorted (fun x hx => by have := (ks_rng x hx).2; omega)
        · intro x hx
          show B ≤ x + 1 ∧ x ≤ R + 1 - (rStep rc r _).1.win.elems.length
          rw [h2]
          rw [List.mem_append] at hx
          rcases hx with hx | hx
          · have := ks_rng x hx; simp; omega
          · rw [List.eq_of_mem_replicate hx]; simp; omega
        · show (rStep rc r _).1.retry ≤ tmo
          exact Nat.le_trans (rStep_data_retry rc r _ _) rretry
        · show tmo + (if ((ks ++ List.replicate c k).any (B ≤ ·) ||
              willAck B sc.w (nblocks sc.b f) (R + 1) (rStep rc r _).1.win.elems.length ds') = true then 0 else 1) ≤
            dropsSoFar fl nd (na + 1)
          by_cases hc00 : c = 0
          · have := dsf_ack_drop fl nd na (hc0 hc00)
            split <;> omega
          · have := dsf_ack_mono fl nd na
            have hany : (ks ++ List.replicate c k).any (B ≤ ·) = true := by
              rw [any_append_replicate]
              have h1 : decide (0 < c) = true := by simp; omega
              have h2 : decide (B ≤ k) = true := by simp; omega
              simp [h1, h2]
            simp only [hany, Bool.true_or, ↓reduceIte]; omega
        · unfold gsMeasure
          simp only [List.length_cons, List.length_append, List.length_replicate]
          omega
      · -- more blocks of this window to come: no acknowledgement yet
        obtain ⟨h1, h2, h3⟩ := hmore hshort (by rw [lc.rw]; omega)
        have hst' : emitAcks fl ⟨s, (rStep rc r (.data (k % 65536) (blk sc.b f k))).1, ds'.map (datum sc.b f), aq, nd, na, tmo⟩
            (rStep rc r (.data (k % 65536) (blk sc.b f k))).2 =
            ⟨s, (rStep rc r (.data (k % 65536) (blk sc.b f k))).1, ds'.map (datum sc.b f), aq, nd, na, tmo⟩ := by
          unfold emitAcks
          simp only [h3, List.map_nil, applyFaults, List.append_nil, List.length_nil, Nat.add_zero]
        rw [hst']
        refine ⟨B, R + 1, ds', ks, ⟨sinv, srun, sbase, mpos, fresh, ssince, hri, h1, hrecv',
          by show (rStep rc r _).1.win.elems.length ≤ R + 1; rw [h2]; omega,
          by show B ≤ R + 1 - (rStep rc r _).1.win.elems.length + 1; rw [h2]; omega,
          by show R + 1 ≤ B + s.win.elems.length - 1; omega, by show R + 1 < nblocks sc.b f; omega, rfl, hrest, aq_eq, ks_sorted, ?_, sretry, ?_, ?_⟩, ?_⟩
        · intro x hx
          show B ≤ x + 1 ∧ x ≤ R + 1 - (rStep rc r _).1.win.elems.length
          rw [h2]
          have := ks_rng x hx; omega
        · show (rStep rc r _).1.retry ≤ tmo
          exact Nat.le_trans (rStep_data_retry rc r _ _) rretry
        · show tmo + (if (ks.any (B ≤ ·) ||
              willAck B sc.w (nblocks sc.b f) (R + 1) (rStep rc r _).1.win.elems.length ds') = true then 0 else 1) ≤
            dropsSoFar fl nd na
          rw [h2]
          have hnot : ¬ (k = nblocks sc.b f ∨ r.win.elems.length + 1 = sc.w) := by
            intro hq; rcases hq with hq | hq
            · exact hkne hq
            · exact hfullw hq
          have hwill : willAck B sc.w (nblocks sc.b f) R r.win.elems.length (k :: ds') =
              willAck B sc.w (nblocks sc.b f) (R + 1) (r.win.elems.length + 1) ds' := by
            rw [willAck_cons, if_pos hc1, if_neg hnot]
          rw [hwill] at debt
          exact debt
        · unfold gsMeasure
          simp only [List.length_cons]
          omega
  · right
    have hne : k % 65536 ≠ (r.bn + 1) % 65536 := by rw [hrbn]; omega
    by_cases hc2 : k = R ∧ 0 < r.win.elems.length
    · -- a duplicate of the block just buffered: ignored
      have hbn : k % 65536 = r.bn := by rw [hrbn, hc2.1]
      have hpend : r.win.elems ≠ [] := by
        intro he; rw [he] at hc2; simp at hc2
      have hig := recv_ignore rc r rrun (k % 65536) (blk sc.b f k) hne hbn hpend
      have hst' : emitAcks fl ⟨s, (rStep rc r (.data (k % 65536) (blk sc.b f k))).1, ds'.map (datum sc.b f), aq, nd, na, tmo⟩
          (rStep rc r (.data (k % 65536) (blk sc.b f k))).2 = ⟨s, r, ds'.map (datum sc.b f), aq, nd, na, tmo⟩ := by
        unfold emitAcks
        simp only [hig, List.map_nil, applyFaults, List.append_nil, List.length_nil, Nat.add_zero]
      rw [hst']
      refine ⟨B, R, ds', ks, ⟨sinv, srun, sbase, mpos, fresh, ssince, rinv, rrun, rrecv, ple, ahead, rtop, rlt, rfl, hrest,
        aq_eq, ks_sorted, ks_rng, sretry, rretry, ?_⟩, ?_⟩
      · have hwill : willAck B sc.w (nblocks sc.b f) R r.win.elems.length (k :: ds') =
            willAck B sc.w (nblocks sc.b f) R r.win.elems.length ds' := by
          rw [willAck_cons, if_neg hc1, if_pos hc2]
        rw [hwill] at debt
        exact debt
      · unfold gsMeasure
        simp only [List.length_cons]
        omega
    · -- out of sequence: flush and repeat the last acknowledgement
      have hnot : ¬ (k % 65536 = r.bn ∧ r.win.elems ≠ []) := by
        intro ⟨h1, h2⟩
        apply hc2
        have hkR : k = R := by rw [hrbn] at h1; omega
        refine ⟨hkR, ?_⟩
        cases hq : r.win.elems with
        | nil => exact absurd hq h2
        | cons _ _ => simp
      obtain ⟨hfs, hfo⟩ := recv_flush rc r rinv rrun (k % 65536) (blk sc.b f k) hne hnot
      have hgood := (rStep_good rc hw' r rinv (.data (k % 65536) (blk sc.b f k))).1
      obtain ⟨c, hc, hcle, hc0⟩ := applyFaults_single_rep fl.dropAck fl.dupAck na r.bn
      have hst' : emitAcks fl ⟨s, (rStep rc r (.data (k % 65536) (blk sc.b f k))).1, ds'.map (datum sc.b f), aq, nd, na, tmo⟩
          (rStep rc r (.data (k % 65536) (blk sc.b f k))).2 =
          ⟨s, (rStep rc r (.data (k % 65536) (blk sc.b f k))).1, ds'.map (datum sc.b f),
            aq ++ List.replicate c r.bn, nd, na + 1, tmo⟩ := by
        unfold emitAcks
        simp only [hfo, hone, hc, List.length_singleton]
      rw [hst']
      have hel' : (rStep rc r (.data (k % 65536) (blk sc.b f k))).1.win.elems = [] := by rw [hfs]
      refine ⟨B, R, ds', ks ++ List.replicate c R, ⟨sinv, srun, sbase, mpos, fresh, ssince, hgood, by rw [hfs]; exact rrun,
        by rw [hfs]; exact rrecv, by rw [hel']; simp, by rw [hel']; simp; omega, rtop, rlt, rfl, hrest, ?_, ?_, ?_,
        sretry, by rw [hfs]; exact rretry, ?_⟩, ?_⟩
      · show aq ++ List.replicate c r.bn = _
        rw [map_append_replicate, aq_eq, hrbn]
      · exact pairwise_append_replicate ks c R ks_sorted (fun x hx => by have := (ks_rng x hx).2; omega)
      · intro x hx
        show B ≤ x + 1 ∧ x ≤ R - (rStep rc r _).1.win.elems.length
        rw [hel']
        rw [List.mem_append] at hx
        rcases hx with hx | hx
        · have := ks_rng x hx; simp; omega
        · rw [List.eq_of_mem_replicate hx]; simp; omega
      · show tmo + (if ((ks ++ List.replicate c R).any (B ≤ ·) ||
            willAck B sc.w (nblocks sc.b f) R (rStep rc r _).1.win.elems.length ds') = true then 0 else 1) ≤
          dropsSoFar fl nd (na + 1)
        rw [hel']
        by_cases hBR : B ≤ R
        · have hwill : willAck B sc.w (nblocks sc.b f) R r.win.elems.length (k :: ds') = true := by
            rw [willAck_cons, if_neg hc1, if_neg hc2, if_pos hBR]
          rw [hwill] at debt
          simp only [Bool.or_true, ↓reduceIte, Nat.add_zero] at debt
          by_cases hc00 : c = 0
          · have := dsf_ack_drop fl nd na (hc0 hc00)
            split <;> omega
          · have := dsf_ack_mono fl nd na
            have hany : (ks ++ List.replicate c R).any (B ≤ ·) = true := by
              rw [any_append_replicate]
              have h1 : decide (0 < c) = true := by simp; omega
              have h2 : decide (B ≤ R) = true := by simp; omega
              simp [h1, h2]
            simp only [hany, Bool.true_or, ↓reduceIte]; omega
        · have hwill : willAck B sc.w (nblocks sc.b f) R r.win.elems.length (k :: ds') =
              willAck B sc.w (nblocks sc.b f) R 0 ds' := by
            rw [willAck_cons, if_neg hc1, if_neg hc2, if_neg hBR]
          rw [hwill] at debt
          have hany : (ks ++ List.replicate c R).any (B ≤ ·) = ks.any (B ≤ ·) := by
            rw [any_append_replicate]
            have h2 : decide (B ≤ R) = false := by simp; omega
            simp [h2]
          rw [hany]
          have := dsf_ack_mono fl nd na
          simp only [List.length_nil] at debt ⊢
          omega
      · unfold gsMeasure
        simp only [List.length_cons, List.length_append, List.length_replicate]
        omega

end Tftp

namespace Tftp

theorem mul_drop (K X X' : Nat) (h : X' + 1 ≤ X) : K * X' + K ≤ K * X := by
  calc K * X' + K = K * (X' + 1) := by rw [Nat.mul_succ]
    _ ≤ K * X := Nat.mul_le_mul_left K h

/-- the token after a burst of the sender's whole window `[B', B'+m')`: either a datagram of the burst is lost
(and counted), or an acknowledgement inside the window is on its way -/
theorem burst_debt (sc : SCfg) (fl : Faults) (f : Bytes) (nd na tmo B' m' R p : Nat) (ks' : List Nat)
    (hold : tmo ≤ dropsSoFar fl nd na) (hm : 1 ≤ m')
    (hfresh : m' = sc.w ∨ (B' + m' - 1 = nblocks sc.b f ∧ m' ≤ sc.w)) (hple : p ≤ R) (hahead : B' ≤ R - p + 1)
    (hrtop : R ≤ B' + m' - 1) (hrlt : R < nblocks sc.b f) (hpw : p < sc.w) :
    tmo + (if (ks'.any (B' ≤ ·) || willAck B' sc.w (nblocks sc.b f) R p
        (applyFaults fl.dropData fl.dupData nd (List.range' B' m'))) = true then 0 else 1) ≤
      dropsSoFar fl (nd + m') na := by
  rcases burst_cases fl.dropData fl.dupData nd B' m' with ⟨i, hi, hd⟩ | hc
  · have := dsf_data_burst_drop fl nd na m' i hi hd
    split <;> omega
  · have hw := willAck_burst B' sc.w (nblocks sc.b f) m' R p _ hc hm hfresh hple hahead hrtop hrlt hpw
    have := dsf_data_burst_mono fl nd na m'
    simp only [hw, Bool.or_true, ↓reduceIte]
    omega

/-- **an acknowledgement is delivered** -/
theorem gs_ack (sc : SCfg) (rc : RCfg) (lc : LoopCfgT sc rc) (fl : Faults) (f : Bytes)
    (s : SState) (r : RState) (nd na tmo : Nat) (B R k : Nat) (ks' : List Nat)
    (h : GS sc rc fl f ⟨s, r, [], (k :: ks').map (· % 65536), nd, na, tmo⟩ B R [] (k :: ks')) :
    ∃ st', netStep sc rc fl ⟨s, r, [], (k :: ks').map (· % 65536), nd, na, tmo⟩ = some st' ∧
      GSNext sc rc fl f ⟨s, r, [], (k :: ks').map (· % 65536), nd, na, tmo⟩ B R [] (k :: ks') st' := by
  obtain ⟨hB1, htopN, hlenw, hsbn, hrbn, hslen, hpw⟩ := h.facts lc
  obtain ⟨sinv, srun, sbase, mpos, fresh, ssince, rinv, rrun, rrecv, ple, ahead, rtop, rlt, dq_eq, ds_rng, aq_eq,
    ks_sorted, ks_rng, sretry, rretry, debt⟩ := h
  simp only at sinv srun sbase mpos fresh ssince rinv rrun rrecv ple ahead rtop rlt ds_rng aq_eq ks_sorted ks_rng
  simp only at sretry rretry debt htopN hlenw hsbn hrbn hslen hpw
  have hw := lc.hw
  have hk := ks_rng k (by simp)
  have hsorted := List.pairwise_cons.mp ks_sorted
  have hstep : netStep sc rc fl ⟨s, r, [], (k :: ks').map (· % 65536), nd, na, tmo⟩ =
      some (emitData fl ⟨(sStep sc s (.ack (k % 65536)) 0).1, r, [], ks'.map (· % 65536), nd, na, tmo⟩
        (sStep sc s (.ack (k % 65536)) 0).2) := by
    simp only [List.map_cons, netStep, senderRunning, srun, beq_self_eq_true, Bool.true_or, ↓reduceIte]
  refine ⟨_, hstep, ?_⟩
  right
  by_cases hin : B ≤ k
  · -- inside the window: slide, refill, send the new window
    have hd : k - B < s.win.elems.length := by omega
    have hkN : s.base + (k - B) < nblocks sc.b f := by rw [sbase]; omega
    have hkk : s.base + (k - B) = k := by rw [sbase]; omega
    have hall := sender_ack_inwindow sc lc.hb hw f s sinv srun (k - B) hd hkN
    rw [hkk] at hall
    obtain ⟨hi', hrun', hfresh', hpos', hbase', hretry', hsince', hgrow', hout'⟩ := hall
    have hdata := window_data hi'
    rw [hbase'] at hdata
    have hst' : emitData fl ⟨(sStep sc s (.ack (k % 65536)) 0).1, r, [], ks'.map (· % 65536), nd, na, tmo⟩
        (sStep sc s (.ack (k % 65536)) 0).2 =
        ⟨(sStep sc s (.ack (k % 65536)) 0).1, r,
          (applyFaults fl.dropData fl.dupData nd
            (List.range' (k + 1) (sStep sc s (.ack (k % 65536)) 0).1.win.elems.length)).map (datum sc.b f),
          ks'.map (· % 65536), nd + (sStep sc s (.ack (k % 65536)) 0).1.win.elems.length, na, tmo⟩ := by
      unfold emitData
      simp only [hout', lc.hrep, hdata, applyFaults_map, List.nil_append, List.length_map, List.length_range']
    rw [hst']
    have hold : tmo ≤ dropsSoFar fl nd na := by
      have : (k :: ks').any (B ≤ ·) = true := by simp [List.any_cons]; left; exact hin
      simp only [this, Bool.true_or, ↓reduceIte, Nat.add_zero] at debt
      exact debt
    have hfr : (sStep sc s (.ack (k % 65536)) 0).1.win.elems.length = sc.w ∨
        (k + 1 + (sStep sc s (.ack (k % 65536)) 0).1.win.elems.length - 1 = nblocks sc.b f ∧
          (sStep sc s (.ack (k % 65536)) 0).1.win.elems.length ≤ sc.w) := by
      cases heof : (sStep sc s (.ack (k % 65536)) 0).1.win.eof with
      | false => left; exact hfresh' heof
      | true =>
        right
        have := hi'.fin heof
        rw [hbase'] at this
        unfold nblocks
        exact ⟨by omega, hi'.len_le⟩
    refine ⟨k + 1, R, _, ks', ⟨hi', hrun', hbase', hpos', hfresh', hsince', rinv, rrun, rrecv, ple, by show k + 1 ≤ R - r.win.elems.length + 1; omega,
      by show R ≤ k + 1 + (sStep sc s _ 0).1.win.elems.length - 1; omega, rlt, rfl, ?_, rfl, hsorted.2, ?_,
      by show (sStep sc s _ 0).1.retry ≤ tmo; rw [hretry']; omega, rretry, ?_⟩, ?_⟩
    · intro x hx
      have := mem_burst _ _ _ _ _ _ hx
      show k + 1 ≤ x ∧ x ≤ k + 1 + (sStep sc s _ 0).1.win.elems.length - 1
      omega
    · intro x hx
      have h1 := hsorted.1 x hx
      have h2 := ks_rng x (by simp [hx])
      show k + 1 ≤ x + 1 ∧ x ≤ R - r.win.elems.length
      omega
    · exact burst_debt sc fl f nd na tmo (k + 1) _ R r.win.elems.length ks' hold hpos' hfr ple (by omega) (by omega) rlt hpw
    · unfold gsMeasure
      have hl := applyFaults_length_le fl.dropData fl.dupData nd
        (List.range' (k + 1) (sStep sc s (.ack (k % 65536)) 0).1.win.elems.length)
      rw [List.length_range'] at hl
      have hlw := hi'.len_le
      have hm := mul_drop (6 * sc.w + 1) (nblocks sc.b f + 1 - B) (nblocks sc.b f + 1 - (k + 1)) (by omega)
      simp only [List.length_nil, List.length_cons]
      omega
  · -- stale: nothing happens
    have hkB : k + 1 = B := by omega
    have hst : ¬ (k % 65536 + 65536 - s.bn) % 65536 < s.win.len := by rw [hsbn, hslen]; omega
    have hno := sender_ack_stale sc lc.ht s srun ssince (k % 65536) hst
    have hst' : emitData fl ⟨(sStep sc s (.ack (k % 65536)) 0).1, r, [], ks'.map (· % 65536), nd, na, tmo⟩
        (sStep sc s (.ack (k % 65536)) 0).2 = ⟨s, r, [], ks'.map (· % 65536), nd, na, tmo⟩ := by
      unfold emitData
      simp [hno, dataOf, applyFaults]
    rw [hst']
    refine ⟨B, R, [], ks', ⟨sinv, srun, sbase, mpos, fresh, ssince, rinv, rrun, rrecv, ple, ahead, rtop, rlt, rfl, by simp,
      rfl, hsorted.2, fun x hx => ks_rng x (by simp [hx]), sretry, rretry, ?_⟩, ?_⟩
    · have hany : (k :: ks').any (B ≤ ·) = ks'.any (B ≤ ·) := by
        rw [List.any_cons]
        have : decide (B ≤ k) = false := by simp; omega
        rw [this]; simp
      rw [hany] at debt
      exact debt
    · unfold gsMeasure
      simp only [List.length_nil, List.length_cons]
      omega

end Tftp

namespace Tftp

/-- **nothing in flight**: both sides time out, the sender sends its whole window again -/
theorem gs_quiet_core (sc : SCfg) (rc : RCfg) (lc : LoopCfgT sc rc) (fl : Faults)
    (f : Bytes) (s : SState) (r : RState) (nd na tmo : Nat) (B R : Nat)
    (h : GS sc rc fl f ⟨s, r, [], [], nd, na, tmo⟩ B R [] [])
    (hrs : s.retry + 1 ≠ Gen.maxRetries) (hrr : r.retry + 1 ≠ Gen.maxRetries) :
    ∃ st', netStep sc rc fl ⟨s, r, [], [], nd, na, tmo⟩ = some st' ∧
      GSNext sc rc fl f ⟨s, r, [], [], nd, na, tmo⟩ B R [] [] st' := by
  obtain ⟨hB1, htopN, hlenw, hsbn, hrbn, hslen, hpw⟩ := h.facts lc
  obtain ⟨sinv, srun, sbase, mpos, fresh, ssince, rinv, rrun, rrecv, ple, ahead, rtop, rlt, dq_eq, ds_rng, aq_eq,
    ks_sorted, ks_rng, sretry, rretry, debt⟩ := h
  simp only at sinv srun sbase mpos fresh ssince rinv rrun rrecv ple ahead rtop rlt ds_rng aq_eq ks_sorted ks_rng
  simp only at sretry rretry debt htopN hlenw hsbn hrbn hslen hpw
  have hdebt : tmo + 1 ≤ dropsSoFar fl nd na := by
    simp only [List.any_nil, willAck, Bool.or_self, Bool.false_eq_true, ↓reduceIte] at debt
    exact debt
  have hle := dropsSoFar_le_total fl nd na
  have hretry : s.retry < Gen.maxRetries := sinv.retry_lt (by rw [srun]; simp)
  have hs := sender_timeout sc s srun ssince hrs
  have hr := recv_timeout rc r rrun hrr
  have hdata := window_data sinv
  rw [sbase] at hdata
  have hstep : netStep sc rc fl ⟨s, r, [], [], nd, na, tmo⟩ =
      some ⟨{ s with retry := s.retry + 1 }, { r with retry := r.retry + 1 },
        (applyFaults fl.dropData fl.dupData nd (List.range' B s.win.elems.length)).map (datum sc.b f), [],
        nd + s.win.elems.length, na, tmo + 1⟩ := by
    simp only [netStep, senderRunning, receiverRunning, srun, rrun, beq_self_eq_true, Bool.true_or, Bool.not_true,
      Bool.false_and, Bool.false_eq_true, ↓reduceIte, hs, hr]
    unfold emitData
    simp only [lc.hrep, hsbn, hdata, applyFaults_map, List.nil_append, List.length_map, List.length_range']
  refine ⟨_, hstep, ?_⟩
  right
  have hfr : s.win.elems.length = sc.w ∨ (B + s.win.elems.length - 1 = nblocks sc.b f ∧ s.win.elems.length ≤ sc.w) := by
    cases heof : s.win.eof with
    | false => left; exact fresh heof
    | true =>
      right
      have := sinv.fin heof
      rw [sbase] at this
      unfold nblocks
      exact ⟨by omega, hlenw⟩
  refine ⟨B, R, _, [], ⟨sinv.with_retry _ (by omega), srun, sbase, mpos, fresh, ssince, rinv.with_retry _, rrun, rrecv, ple,
    ahead, rtop, rlt, rfl, ?_, rfl, List.Pairwise.nil, by simp, by show s.retry + 1 ≤ tmo + 1; omega,
    by show r.retry + 1 ≤ tmo + 1; omega, ?_⟩, ?_⟩
  · intro x hx
    have := mem_burst _ _ _ _ _ _ hx
    show B ≤ x ∧ x ≤ B + s.win.elems.length - 1
    omega
  · exact burst_debt sc fl f nd na (tmo + 1) B _ R r.win.elems.length [] hdebt mpos hfr ple ahead rtop rlt hpw
  · unfold gsMeasure
    have hl := applyFaults_length_le fl.dropData fl.dupData nd (List.range' B s.win.elems.length)
    rw [List.length_range'] at hl
    have hm := mul_drop (6 * sc.w + 1) (dropsTotal fl - tmo) (dropsTotal fl - (tmo + 1)) (by omega)
    simp only [List.length_nil]
    omega

theorem gs_quiet (sc : SCfg) (rc : RCfg) (lc : LoopCfgT sc rc) (fl : Faults) (hT : dropsTotal fl < Gen.maxRetries)
    (f : Bytes) (s : SState) (r : RState) (nd na tmo : Nat) (B R : Nat)
    (h : GS sc rc fl f ⟨s, r, [], [], nd, na, tmo⟩ B R [] []) :
    ∃ st', netStep sc rc fl ⟨s, r, [], [], nd, na, tmo⟩ = some st' ∧
      GSNext sc rc fl f ⟨s, r, [], [], nd, na, tmo⟩ B R [] [] st' := by
  have hdebt : tmo + 1 ≤ dropsSoFar fl nd na := by
    have := h.debt
    simp only [List.any_nil, willAck, Bool.or_self, Bool.false_eq_true, ↓reduceIte] at this
    exact this
  have hle := dropsSoFar_le_total fl nd na
  have h1 := h.sretry
  have h2 := h.rretry
  simp only at h1 h2
  exact gs_quiet_core sc rc lc fl f s r nd na tmo B R h (by omega) (by omega)

/-- one scheduling step from any state of the running phase -/
theorem gs_step (sc : SCfg) (rc : RCfg) (lc : LoopCfgT sc rc) (fl : Faults) (hT : dropsTotal fl < Gen.maxRetries)
    (f : Bytes) (st : NetState) (B R : Nat) (ds ks : List Nat) (h : GS sc rc fl f st B R ds ks) :
    ∃ st', netStep sc rc fl st = some st' ∧ GSNext sc rc fl f st B R ds ks st' := by
  obtain ⟨s, r, dq, aq, nd, na, tmo⟩ := st
  have hdq : dq = ds.map (datum sc.b f) := h.dq_eq
  have haq : aq = ks.map (· % 65536) := h.aq_eq
  subst hdq; subst haq
  cases ds with
  | cons k ds' => exact gs_data sc rc lc fl f s r _ nd na tmo B R k ds' ks h
  | nil =>
    cases ks with
    | cons k ks' => exact gs_ack sc rc lc fl f s r nd na tmo B R k ks' h
    | nil => exact gs_quiet sc rc lc fl hT f s r nd na tmo B R h

end Tftp

namespace Tftp

/-! ### Part 4: after the receiver has ended -/

def gfMeasure (sc : SCfg) (f : Bytes) (st : NetState) (B : Nat) (ks : List Nat) : Nat :=
  (nblocks sc.b f + 1 - B) * ((6 * sc.w + 1) * Gen.maxRetries + (6 * sc.w + 1)) +
    (6 * sc.w + 1) * (Gen.maxRetries - st.s.retry) + 3 * st.dq.length + ks.length

theorem mul_drop_right (C X X' : Nat) (h : X' + 1 ≤ X) : X' * C + C ≤ X * C := by
  rw [Nat.mul_comm X' C, Nat.mul_comm X C]; exact mul_drop C X X' h

theorem gf_step (sc : SCfg) (rc : RCfg) (lc : LoopCfgT sc rc) (fl : Faults) (f : Bytes) (st : NetState) (B : Nat)
    (ks : List Nat) (h : GF sc rc fl f st B ks) :
    ∃ st', netStep sc rc fl st = some st' ∧
      (LFDone fl f st' ∨ ∃ B' ks', GF sc rc fl f st' B' ks' ∧ gfMeasure sc f st' B' ks' < gfMeasure sc f st B ks) := by
  obtain ⟨s, r, dq, aq, nd, na, tmo⟩ := st
  obtain ⟨sinv, srun, sbase, mpos, ssince, stop, rok, rfile, aq_eq, ks_sorted, ks_rng, lost, rgood⟩ := h
  simp only at sinv srun sbase mpos ssince stop rok rfile aq_eq ks_sorted ks_rng lost rgood
  have hw := lc.hw
  have hlenw := sinv.len_le
  have hsbn : s.bn = B % 65536 := by rw [sinv.bn_eq, sbase]
  have hslen : s.win.len = s.win.elems.length := by unfold Window.len; exact Nat.mod_eq_of_lt (by omega)
  have hretry : s.retry < Gen.maxRetries := sinv.retry_lt (by rw [srun]; simp)
  have hB1 : 1 ≤ B := by rw [← sbase]; exact sinv.base_pos
  subst aq_eq
  cases dq with
  | cons x rest =>
    refine ⟨⟨s, r, rest, ks.map (· % 65536), nd, na, tmo⟩, ?_, Or.inr ⟨B, ks, ⟨sinv, srun, sbase, mpos, ssince, stop, rok,
      rfile, rfl, ks_sorted, ks_rng, lost, rgood⟩, ?_⟩⟩
    · obtain ⟨n, d⟩ := x
      simp only [netStep, receiverRunning, rok]
      rfl
    · unfold gfMeasure
      simp only [List.length_cons]
      omega
  | nil =>
    cases ks with
    | cons k ks' =>
      have hk := ks_rng k (by simp)
      have hsorted := List.pairwise_cons.mp ks_sorted
      have hstep : netStep sc rc fl ⟨s, r, [], (k :: ks').map (· % 65536), nd, na, tmo⟩ =
          some (emitData fl ⟨(sStep sc s (.ack (k % 65536)) 0).1, r, [], ks'.map (· % 65536), nd, na, tmo⟩
            (sStep sc s (.ack (k % 65536)) 0).2) := by
        simp only [List.map_cons, netStep, senderRunning, srun, beq_self_eq_true, Bool.true_or, ↓reduceIte]
      refine ⟨_, hstep, ?_⟩
      by_cases hin : B ≤ k
      · by_cases hkN : k = nblocks sc.b f
        · -- the final acknowledgement
          left
          obtain ⟨hlast, _⟩ := sender_ack_whole sc lc.hb hw f s sinv srun mpos
          have han : (s.base + s.win.elems.length - 1) % 65536 = k % 65536 := by rw [sbase, stop, hkN]
          rw [han] at hlast
          obtain ⟨h1, h2⟩ := hlast (by rw [sbase]; omega)
          refine ⟨rok, rfile, Or.inl ?_⟩
          show (emitData fl _ _).s.status = .ok
          unfold emitData
          exact h1
        · right
          have hd : k - B < s.win.elems.length := by omega
          have hkN' : s.base + (k - B) < nblocks sc.b f := by rw [sbase]; omega
          have hkk : s.base + (k - B) = k := by rw [sbase]; omega
          have hall := sender_ack_inwindow sc lc.hb hw f s sinv srun (k - B) hd hkN'
          rw [hkk] at hall
          obtain ⟨hi', hrun', hfresh', hpos', hbase', hretry', hsince', hgrow', hout'⟩ := hall
          have hdata := window_data hi'
          rw [hbase'] at hdata
          have htop' := inv_range lc.hb hi' ((sStep sc s (.ack (k % 65536)) 0).1.win.elems.length - 1) (by omega)
          rw [hbase'] at htop'
          have hst' : emitData fl ⟨(sStep sc s (.ack (k % 65536)) 0).1, r, [], ks'.map (· % 65536), nd, na, tmo⟩
              (sStep sc s (.ack (k % 65536)) 0).2 =
              ⟨(sStep sc s (.ack (k % 65536)) 0).1, r,
                (applyFaults fl.dropData fl.dupData nd
                  (List.range' (k + 1) (sStep sc s (.ack (k % 65536)) 0).1.win.elems.length)).map (datum sc.b f),
                ks'.map (· % 65536), nd + (sStep sc s (.ack (k % 65536)) 0).1.win.elems.length, na, tmo⟩ := by
            unfold emitData
            simp only [hout', lc.hrep, hdata, applyFaults_map, List.nil_append, List.length_map, List.length_range']
          rw [hst']
          refine ⟨k + 1, ks', ⟨hi', hrun', hbase', hpos', hsince',
            by show k + 1 + (sStep sc s _ 0).1.win.elems.length - 1 = nblocks sc.b f; omega, rok, rfile, rfl, hsorted.2, ?_, ?_, rgood⟩, ?_⟩
          · intro x hx
            have h1 := hsorted.1 x hx
            have h2 := ks_rng x (by simp [hx])
            omega
          · intro hnot
            apply lost
            intro hmem
            rw [List.mem_cons] at hmem
            rcases hmem with hmem | hmem
            · exact hkN hmem.symm
            · exact hnot hmem
          · unfold gfMeasure
            have hl := applyFaults_length_le fl.dropData fl.dupData nd
              (List.range' (k + 1) (sStep sc s (.ack (k % 65536)) 0).1.win.elems.length)
            rw [List.length_range'] at hl
            have hlw := hi'.len_le
            have hm := mul_drop_right ((6 * sc.w + 1) * Gen.maxRetries + (6 * sc.w + 1)) (nblocks sc.b f + 1 - B)
              (nblocks sc.b f + 1 - (k + 1)) (by omega)
            simp only [List.length_nil, List.length_cons, List.length_map, hretry', Nat.sub_zero]
            have hmono : (6 * sc.w + 1) * (Gen.maxRetries - s.retry) ≥ 0 := Nat.zero_le _
            omega
      · right
        have hkB : k + 1 = B := by omega
        have hst : ¬ (k % 65536 + 65536 - s.bn) % 65536 < s.win.len := by rw [hsbn, hslen]; omega
        have hno := sender_ack_stale sc lc.ht s srun ssince (k % 65536) hst
        have hst' : emitData fl ⟨(sStep sc s (.ack (k % 65536)) 0).1, r, [], ks'.map (· % 65536), nd, na, tmo⟩
            (sStep sc s (.ack (k % 65536)) 0).2 = ⟨s, r, [], ks'.map (· % 65536), nd, na, tmo⟩ := by
          unfold emitData
          simp [hno, dataOf, applyFaults]
        rw [hst']
        refine ⟨B, ks', ⟨sinv, srun, sbase, mpos, ssince, stop, rok, rfile, rfl, hsorted.2,
          fun x hx => ks_rng x (by simp [hx]), ?_, rgood⟩, ?_⟩
        · intro hnot
          apply lost
          intro hmem
          rw [List.mem_cons] at hmem
          rcases hmem with hmem | hmem
          · omega
          · exact hnot hmem
        · unfold gfMeasure
          simp only [List.length_nil, List.length_cons]
          omega
    | nil =>
      have hnr : receiverRunning r = false := by simp [receiverRunning, rok]
      have hsr : senderRunning s = true := by simp [senderRunning, srun]
      by_cases hr : s.retry + 1 = Gen.maxRetries
      · obtain ⟨h1, h2, h3⟩ := sender_timeout_giveup sc s srun sc.timeout hr
        refine ⟨emitData fl ⟨(sStep sc s .fail sc.timeout).1, r, [], [], nd, na, tmo + 1⟩ (sStep sc s .fail sc.timeout).2,
          ?_, Or.inl ?_⟩
        · simp only [List.map_nil, netStep, hnr, hsr, Bool.not_true, Bool.false_and, Bool.false_eq_true, ↓reduceIte]
        · refine ⟨rok, rfile, Or.inr ⟨?_, ?_, lost (by simp)⟩⟩
          · show (emitData fl _ _).s.status = .failed
            unfold emitData
            exact h1
          · show (emitData fl _ _).s.retry = Gen.maxRetries
            unfold emitData
            exact h3
      · have hs := sender_timeout sc s srun ssince hr
        have hdata := window_data sinv
        rw [sbase] at hdata
        have hstep : netStep sc rc fl ⟨s, r, [], ([] : List Nat).map (· % 65536), nd, na, tmo⟩ =
            some ⟨{ s with retry := s.retry + 1 }, r,
              (applyFaults fl.dropData fl.dupData nd (List.range' B s.win.elems.length)).map (datum sc.b f), [],
              nd + s.win.elems.length, na, tmo + 1⟩ := by
          simp only [List.map_nil, netStep, hnr, hsr, Bool.not_true, Bool.false_and, Bool.false_eq_true, ↓reduceIte, hs]
          unfold emitData
          simp only [lc.hrep, hsbn, hdata, applyFaults_map, List.nil_append, List.length_map, List.length_range']
        refine ⟨_, hstep, Or.inr ⟨B, [], ⟨sinv.with_retry _ (by omega), srun, sbase, mpos, ssince, stop, rok, rfile, rfl,
          List.Pairwise.nil, by simp, lost, rgood⟩, ?_⟩⟩
        unfold gfMeasure
        have hl := applyFaults_length_le fl.dropData fl.dupData nd (List.range' B s.win.elems.length)
        rw [List.length_range'] at hl
        have hm := mul_drop (6 * sc.w + 1) (Gen.maxRetries - s.retry) (Gen.maxRetries - (s.retry + 1)) (by omega)
        simp only [List.length_nil, List.length_map]
        omega

theorem gf_run (sc : SCfg) (rc : RCfg) (lc : LoopCfgT sc rc) (fl : Faults) (f : Bytes) :
    ∀ (m : Nat) (st : NetState) (B : Nat) (ks : List Nat), GF sc rc fl f st B ks → gfMeasure sc f st B ks ≤ m →
      ∃ fuel, LFDone fl f (netRun sc rc fl fuel st) := by
  intro m
  induction m with
  | zero =>
    intro st B ks h hm
    exfalso
    have hretry : st.s.retry < Gen.maxRetries := h.sinv.retry_lt (by rw [h.srun]; simp)
    have hpos : 0 < (6 * sc.w + 1) * (Gen.maxRetries - st.s.retry) := Nat.mul_pos (by omega) (by omega)
    unfold gfMeasure at hm
    omega
  | succ m ih =>
    intro st B ks h hm
    obtain ⟨st', hstep, hnext⟩ := gf_step sc rc lc fl f st B ks h
    rcases hnext with hdone | ⟨B', ks', h', hlt⟩
    · exact ⟨1, by simp only [netRun, hstep]; exact hdone⟩
    · obtain ⟨fuel, hd⟩ := ih st' B' ks' h' (by omega)
      exact ⟨fuel + 1, by simp only [netRun, hstep]; exact hd⟩

theorem gs_run (sc : SCfg) (rc : RCfg) (lc : LoopCfgT sc rc) (fl : Faults) (hT : dropsTotal fl < Gen.maxRetries)
    (f : Bytes) : ∀ (m : Nat) (st : NetState) (B R : Nat) (ds ks : List Nat), GS sc rc fl f st B R ds ks →
      gsMeasure sc fl f st B R ds ks ≤ m → ∃ fuel, LFDone fl f (netRun sc rc fl fuel st) := by
  intro m
  induction m with
  | zero =>
    intro st B R ds ks h hm
    exfalso
    have := h.rlt
    unfold gsMeasure at hm
    omega
  | succ m ih =>
    intro st B R ds ks h hm
    obtain ⟨st', hstep, hnext⟩ := gs_step sc rc lc fl hT f st B R ds ks h
    rcases hnext with ⟨B', ks', hf⟩ | ⟨B', R', ds', ks', h', hlt⟩
    · obtain ⟨fuel, hd⟩ := gf_run sc rc lc fl f _ st' B' ks' hf (Nat.le_refl _)
      exact ⟨fuel + 1, by simp only [netRun, hstep]; exact hd⟩
    · obtain ⟨fuel, hd⟩ := ih st' B' R' ds' ks' h' (by omega)
      exact ⟨fuel + 1, by simp only [netRun, hstep]; exact hd⟩

end Tftp

namespace Tftp

theorem gs_init (sc : SCfg) (rc : RCfg) (lc : LoopCfgT sc rc) (fl : Faults) (f : Bytes) :
    ∃ ds, GS sc rc fl f (netInit sc rc fl f) 1 0 ds [] := by
  have h0 := init_inv sc f
  have hrun := inv_status h0 .running (Or.inr (by simp))
  obtain ⟨w', flg, hfill, hinv', _, hfresh', hstrict'⟩ := fill_ok lc.hb lc.hw hrun
  have hpos' : 0 < w'.elems.length := by
    have := hstrict' (by simp [Window.new]) (by simp [Window.new]; exact lc.hw1)
    simpa [Window.new] using this
  have hinit : sInit sc f false =
      ({ bn := 1, win := w', filled := flg, retry := 0, since := 0, status := .running, base := 1 },
       sendWindow sc.rep 1 w'.elems) := by
    unfold sInit
    simp only [Bool.false_eq_true, ↓reduceIte]
    unfold sOuter
    simp only at hfill
    rw [hfill]
    simp only
    unfold sHead
    have : sc.timeout + Gen.timeoutBufferMs ≥ sc.timeout := by omega
    simp only [this, ↓reduceIte]
  have hsinv : SInv sc f { bn := 1, win := w', filled := flg, retry := 0, since := 0, status := .running, base := 1 } :=
    ⟨hinv'.base_pos, hinv'.bn_eq, hinv'.elems_eq, hinv'.cur, hinv'.fin, hinv'.len_le, hinv'.size_eq,
      hinv'.chunk_eq, hinv'.can_read, hinv'.filled_eq, hinv'.retry_lt⟩
  have hdata := window_data hsinv
  simp only at hdata
  have h1m : (1 : Nat) % 65536 = 1 := by decide
  rw [h1m] at hdata
  have hst : netInit sc rc fl f =
      ⟨{ bn := 1, win := w', filled := flg, retry := 0, since := 0, status := .running, base := 1 }, rInit rc,
        (applyFaults fl.dropData fl.dupData 0 (List.range' 1 w'.elems.length)).map (datum sc.b f), [],
        0 + w'.elems.length, 0, 0⟩ := by
    unfold netInit
    rw [hinit]
    unfold emitData
    simp only [lc.hrep, hdata, applyFaults_map, List.nil_append, List.length_map, List.length_range']
  rw [hst]
  have hrw : 1 ≤ rc.w := by rw [lc.rw]; exact lc.hw1
  have hfr : w'.elems.length = sc.w ∨ (1 + w'.elems.length - 1 = nblocks sc.b f ∧ w'.elems.length ≤ sc.w) := by
    cases heof : w'.eof with
    | false => left; exact hfresh' heof
    | true =>
      right
      have := hsinv.fin heof
      simp only at this
      unfold nblocks
      exact ⟨by omega, hsinv.len_le⟩
  refine ⟨_, hsinv, rfl, rfl, hpos', hfresh', rfl, rInit_inv rc hrw, rfl, by simp [rInit, RState.received, blocksUpTo],
    by simp [rInit, Window.new], by simp [rInit, Window.new], by show 0 ≤ 1 + w'.elems.length - 1; omega, Nat.succ_pos _,
    rfl, ?_, rfl, List.Pairwise.nil, by simp, by show 0 ≤ 0; omega, by show (rInit rc).retry ≤ 0; simp [rInit], ?_⟩
  · intro x hx
    have := mem_burst _ _ _ _ _ _ hx
    show 1 ≤ x ∧ x ≤ 1 + w'.elems.length - 1
    omega
  · have hp0 : (rInit rc).win.elems.length = 0 := by simp [rInit, Window.new]
    show 0 + (if (([] : List Nat).any (1 ≤ ·) || willAck 1 sc.w (nblocks sc.b f) 0 (rInit rc).win.elems.length _) = true
      then 0 else 1) ≤ dropsSoFar fl (0 + w'.elems.length) 0
    rw [hp0]
    exact burst_debt sc fl f 0 0 0 1 _ 0 0 [] (Nat.zero_le _) hpos' hfr (Nat.le_refl _) (by omega) (by omega)
      (Nat.succ_pos _) (by have := lc.hw1; omega)

/-- **loss tolerance of the closed loop, every window size**: for every file, block size, window size 1..65535 and
positive retransmission interval, and for every fault schedule that duplicates any datagrams and loses fewer
datagrams in total than the retry bound, the closed loop of the sender model and the receiver model runs to an
end in which the receiver has ended successfully with a byte-identical copy; the sender has ended successfully
as well, unless the final acknowledgement was among the lost datagrams, in which case it has given up. -/
theorem loss_tolerance (sc : SCfg) (rc : RCfg) (lc : LoopCfgT sc rc) (fl : Faults)
    (hT : fl.dropData.length + fl.dropAck.length < Gen.maxRetries) (f : Bytes) :
    ∃ fuel, LFDone fl f (netRun sc rc fl fuel (netInit sc rc fl f)) := by
  obtain ⟨ds, h⟩ := gs_init sc rc lc fl f
  exact gs_run sc rc lc fl hT f _ _ 1 0 ds [] h (Nat.le_refl _)

end Tftp
