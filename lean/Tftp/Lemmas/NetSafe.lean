import Tftp.Lemmas.NetTotal
/-!
At no moment of any run of the closed loop - any fault schedule, any number of blocks, any window size - does
the receiving side report success with anything but a byte-identical copy.
-/
namespace Tftp

/-- once both sides have ended nothing changes them any more (datagrams still in flight are discarded) -/
theorem ended_step (sc : SCfg) (rc : RCfg) (fl : Faults) (st st' : NetState)
    (hs : senderRunning st.s = false) (hr : receiverRunning st.r = false) (h : netStep sc rc fl st = some st') :
    st'.s = st.s ∧ st'.r = st.r := by
  obtain ⟨s, r, dq, aq, nd, na, tmo⟩ := st
  simp only at hs hr
  cases dq with
  | cons x rest =>
    obtain ⟨n, d⟩ := x
    simp only [netStep, hr, Bool.false_eq_true, ↓reduceIte, Option.some.injEq] at h
    rw [← h]; exact ⟨rfl, rfl⟩
  | nil =>
    cases aq with
    | cons a rest =>
      simp only [netStep, hs, Bool.false_eq_true, ↓reduceIte, Option.some.injEq] at h
      rw [← h]; exact ⟨rfl, rfl⟩
    | nil =>
      simp [netStep, hs, hr] at h

theorem TotalDone.ended {f : Bytes} {st : NetState} (h : TotalDone f st) :
    senderRunning st.s = false ∧ receiverRunning st.r = false := by
  rcases h with ⟨h1, _, h3 | ⟨h3, _⟩⟩ | ⟨h1, _, h3, _⟩ <;> simp [senderRunning, receiverRunning, h1, h3]

theorem ra_step (sc : SCfg) (rc : RCfg) (fl : Faults) (f : Bytes) (st : NetState) (h : RA st) :
    ∃ st', netStep sc rc fl st = some st' ∧ (RA st' ∨ TotalDone f st') := by
  obtain ⟨s, r, dq, aq, nd, na, tmo⟩ := st
  obtain ⟨sfail, sret, rrun, rlt, dq_nil, aq_nil⟩ := h
  simp only at sfail sret rrun rlt dq_nil aq_nil
  subst dq_nil; subst aq_nil
  have hnr : receiverRunning r = true := by simp [receiverRunning, rrun]
  have hsr : senderRunning s = false := by simp [senderRunning, sfail]
  by_cases hr : r.retry + 1 = Gen.maxRetries
  · obtain ⟨h1, h2, _⟩ := recv_timeout_giveup rc r rrun hr
    refine ⟨⟨s, (rStep rc r .fail).1, [], [], nd, na, tmo + 1⟩, ?_, Or.inr (Or.inr ⟨h1, h2, sfail, sret⟩)⟩
    simp only [netStep, hnr, hsr, Bool.not_false, Bool.not_true, Bool.and_false, Bool.false_eq_true, ↓reduceIte]
  · have hrt := recv_timeout rc r rrun hr
    refine ⟨⟨s, { r with retry := r.retry + 1 }, [], [], nd, na, tmo + 1⟩, ?_,
      Or.inl ⟨sfail, sret, rrun, by show r.retry + 1 < Gen.maxRetries; omega, rfl, rfl⟩⟩
    simp only [netStep, hnr, hsr, Bool.not_false, Bool.not_true, Bool.and_false, Bool.false_eq_true, ↓reduceIte, hrt]

theorem sa_step (sc : SCfg) (rc : RCfg) (fl : Faults) (f : Bytes) (st : NetState) (h : SA sc f st) :
    ∃ st', netStep sc rc fl st = some st' ∧ (SA sc f st' ∨ TotalDone f st') := by
  obtain ⟨s, r, dq, aq, nd, na, tmo⟩ := st
  obtain ⟨sinv, srun, ssince, rfail, rret, aq_nil⟩ := h
  simp only at sinv srun ssince rfail rret aq_nil
  subst aq_nil
  have hretry : s.retry < Gen.maxRetries := sinv.retry_lt (by rw [srun]; simp)
  have hnr : receiverRunning r = false := by simp [receiverRunning, rfail]
  have hsr : senderRunning s = true := by simp [senderRunning, srun]
  cases dq with
  | cons x rest =>
    refine ⟨⟨s, r, rest, [], nd, na, tmo⟩, ?_, Or.inl ⟨sinv, srun, ssince, rfail, rret, rfl⟩⟩
    obtain ⟨n, d⟩ := x
    simp only [netStep, hnr]
    rfl
  | nil =>
    by_cases hr : s.retry + 1 = Gen.maxRetries
    · obtain ⟨h1, h2, h3⟩ := sender_timeout_giveup sc s srun sc.timeout hr
      refine ⟨emitData fl ⟨(sStep sc s .fail sc.timeout).1, r, [], [], nd, na, tmo + 1⟩ (sStep sc s .fail sc.timeout).2, ?_,
        Or.inr (Or.inr ⟨rfail, rret, ?_, ?_⟩)⟩
      · simp only [netStep, hnr, hsr, Bool.not_true, Bool.false_and, Bool.false_eq_true, ↓reduceIte]
      · show (emitData fl _ _).s.status = .failed
        unfold emitData; exact h1
      · show (emitData fl _ _).s.retry = Gen.maxRetries
        unfold emitData; exact h3
    · have hs := sender_timeout sc s srun ssince hr
      refine ⟨emitData fl ⟨{ s with retry := s.retry + 1 }, r, [], [], nd, na, tmo + 1⟩ (sendWindow sc.rep s.bn s.win.elems), ?_,
        Or.inl ⟨?_, ?_, ?_, ?_, ?_, ?_⟩⟩
      · simp only [netStep, hnr, hsr, Bool.not_true, Bool.false_and, Bool.false_eq_true, ↓reduceIte, hs]
      · show SInv sc f (emitData fl _ _).s
        unfold emitData
        exact sinv.with_retry _ (by omega)
      · show (emitData fl _ _).s.status = .running
        unfold emitData; exact srun
      · show (emitData fl _ _).s.since = 0
        unfold emitData; exact ssince
      · show (emitData fl _ _).r.status = .failed
        unfold emitData; exact rfail
      · show (emitData fl _ _).r.retry = Gen.maxRetries
        unfold emitData; exact rret
      · show (emitData fl _ _).aq = []
        unfold emitData; rfl

/-- one scheduling step from any state of the running phase, every case -/
theorem gs_step_total (sc : SCfg) (rc : RCfg) (lc : LoopCfgT sc rc) (fl : Faults) (f : Bytes)
    (st : NetState) (B R : Nat) (ds ks : List Nat) (h : GS sc rc fl f st B R ds ks) (hok : RetryOK st) :
    ∃ st', netStep sc rc fl st = some st' ∧
      (GSNext sc rc fl f st B R ds ks st' ∨ RA st' ∨ SA sc f st' ∨ TotalDone f st') := by
  obtain ⟨s, r, dq, aq, nd, na, tmo⟩ := st
  have hdq : dq = ds.map (datum sc.b f) := h.dq_eq
  have haq : aq = ks.map (· % 65536) := h.aq_eq
  subst hdq; subst haq
  cases ds with
  | cons k ds' =>
    obtain ⟨st', h1, h2⟩ := gs_data sc rc lc fl f s r _ nd na tmo B R k ds' ks h
    exact ⟨st', h1, Or.inl h2⟩
  | nil =>
    cases ks with
    | cons k ks' =>
      obtain ⟨st', h1, h2⟩ := gs_ack sc rc lc fl f s r nd na tmo B R k ks' h
      exact ⟨st', h1, Or.inl h2⟩
    | nil => exact gs_quiet_total sc rc lc fl f s r nd na tmo B R h hok

/-- the phases of a run -/
def Ph (sc : SCfg) (rc : RCfg) (fl : Faults) (f : Bytes) (st : NetState) : Prop :=
  (∃ B R ds ks, GS sc rc fl f st B R ds ks ∧ RetryOK st) ∨ (∃ B ks, GF sc rc fl f st B ks) ∨ RA st ∨ SA sc f st ∨
    TotalDone f st

theorem ph_step (sc : SCfg) (rc : RCfg) (lc : LoopCfgT sc rc) (fl : Faults) (f : Bytes) (st st' : NetState)
    (h : Ph sc rc fl f st) (hs : netStep sc rc fl st = some st') : Ph sc rc fl f st' := by
  rcases h with ⟨B, R, ds, ks, hg, hok⟩ | ⟨B, ks, hf⟩ | hra | hsa | hd
  · obtain ⟨st'', h1, h2⟩ := gs_step_total sc rc lc fl f st B R ds ks hg hok
    have heq : st'' = st' := by rw [h1] at hs; exact Option.some.inj hs
    subst heq
    rcases h2 with hn | hra | hsa | hd
    · rcases hn with ⟨B', ks', hf⟩ | ⟨B', R', ds', ks', h', _⟩
      · exact Or.inr (Or.inl ⟨B', ks', hf⟩)
      · exact Or.inl ⟨B', R', ds', ks', h', netStep_retry_ok sc rc fl st st'' hok h1⟩
    · exact Or.inr (Or.inr (Or.inl hra))
    · exact Or.inr (Or.inr (Or.inr (Or.inl hsa)))
    · exact Or.inr (Or.inr (Or.inr (Or.inr hd)))
  · obtain ⟨st'', h1, h2⟩ := gf_step sc rc lc fl f st B ks hf
    have heq : st'' = st' := by rw [h1] at hs; exact Option.some.inj hs
    subst heq
    rcases h2 with hd | ⟨B', ks', hf', _⟩
    · exact Or.inr (Or.inr (Or.inr (Or.inr hd.total)))
    · exact Or.inr (Or.inl ⟨B', ks', hf'⟩)
  · obtain ⟨st'', h1, h2⟩ := ra_step sc rc fl f st hra
    have heq : st'' = st' := by rw [h1] at hs; exact Option.some.inj hs
    subst heq
    rcases h2 with h2 | h2
    · exact Or.inr (Or.inr (Or.inl h2))
    · exact Or.inr (Or.inr (Or.inr (Or.inr h2)))
  · obtain ⟨st'', h1, h2⟩ := sa_step sc rc fl f st hsa
    have heq : st'' = st' := by rw [h1] at hs; exact Option.some.inj hs
    subst heq
    rcases h2 with h2 | h2
    · exact Or.inr (Or.inr (Or.inr (Or.inl h2)))
    · exact Or.inr (Or.inr (Or.inr (Or.inr h2)))
  · obtain ⟨he1, he2⟩ := hd.ended
    obtain ⟨e1, e2⟩ := ended_step sc rc fl st st' he1 he2 hs
    refine Or.inr (Or.inr (Or.inr (Or.inr ?_)))
    unfold TotalDone at hd ⊢
    rw [e1, e2]
    exact hd

theorem ph_safe (sc : SCfg) (rc : RCfg) (fl : Faults) (f : Bytes) (st : NetState) (h : Ph sc rc fl f st) :
    st.r.status = .ok → st.r.win.file.content = f := by
  intro hok
  rcases h with ⟨B, R, ds, ks, hg, _⟩ | ⟨B, ks, hf⟩ | hra | hsa | hd
  · rw [hg.rrun] at hok; cases hok
  · exact hf.rfile
  · rw [hra.rrun] at hok; cases hok
  · rw [hsa.rfail] at hok; cases hok
  · rcases hd with ⟨_, h2, _⟩ | ⟨h1, _⟩
    · exact h2
    · rw [h1] at hok; cases hok

/-- **at no moment, under no fault schedule, for no file length**: whenever the receiving side of the closed loop
reports success, its file is byte-identical to the sender's -/
theorem closed_loop_never_wrong (sc : SCfg) (rc : RCfg) (lc : LoopCfgT sc rc) (fl : Faults) (f : Bytes) (fuel : Nat) :
    (netRun sc rc fl fuel (netInit sc rc fl f)).r.status = .ok →
      (netRun sc rc fl fuel (netInit sc rc fl f)).r.win.file.content = f := by
  have hrun : ∀ (fuel : Nat) (st : NetState), Ph sc rc fl f st → Ph sc rc fl f (netRun sc rc fl fuel st) := by
    intro fuel
    induction fuel with
    | zero => intro st h; exact h
    | succ n ih =>
      intro st h
      simp only [netRun]
      cases hs : netStep sc rc fl st with
      | none => exact h
      | some st' => exact ih st' (ph_step sc rc lc fl f st st' h hs)
  obtain ⟨ds, hg⟩ := gs_init sc rc lc fl f
  have hok : RetryOK (netInit sc rc fl f) := by
    intro _
    have : (netInit sc rc fl f).r = rInit rc := by unfold netInit emitData; rfl
    rw [this]
    show 0 < Gen.maxRetries
    decide
  exact ph_safe sc rc fl f _ (hrun fuel _ (Or.inl ⟨1, 0, ds, [], hg, hok⟩))

end Tftp

namespace Tftp

theorem ph_sender_ok (sc : SCfg) (rc : RCfg) (fl : Faults) (f : Bytes) (st : NetState) (h : Ph sc rc fl f st) :
    st.s.status = .ok → st.r.status = .ok ∧ st.r.win.file.content = f := by
  intro hok
  rcases h with ⟨B, R, ds, ks, hg, _⟩ | ⟨B, ks, hf⟩ | hra | hsa | hd
  · rw [hg.srun] at hok; cases hok
  · rw [hf.srun] at hok; cases hok
  · rw [hra.sfail] at hok; cases hok
  · rw [hsa.srun] at hok; cases hok
  · rcases hd with ⟨h1, h2, _⟩ | ⟨_, _, h3, _⟩
    · exact ⟨h1, h2⟩
    · rw [h3] at hok; cases hok

/-- **the sending side never reports success unless the copy has been delivered**: at every moment of every run of
the closed loop, under every fault schedule and for every file length: if the sender has ended successfully, the
receiver has ended successfully and holds a byte-identical file -/
theorem closed_loop_sender_success (sc : SCfg) (rc : RCfg) (lc : LoopCfgT sc rc) (fl : Faults) (f : Bytes) (fuel : Nat) :
    (netRun sc rc fl fuel (netInit sc rc fl f)).s.status = .ok →
      (netRun sc rc fl fuel (netInit sc rc fl f)).r.status = .ok ∧
      (netRun sc rc fl fuel (netInit sc rc fl f)).r.win.file.content = f := by
  have hrun : ∀ (fuel : Nat) (st : NetState), Ph sc rc fl f st → Ph sc rc fl f (netRun sc rc fl fuel st) := by
    intro fuel
    induction fuel with
    | zero => intro st h; exact h
    | succ n ih =>
      intro st h
      simp only [netRun]
      cases hs : netStep sc rc fl st with
      | none => exact h
      | some st' => exact ih st' (ph_step sc rc lc fl f st st' h hs)
  obtain ⟨ds, hg⟩ := gs_init sc rc lc fl f
  have hok : RetryOK (netInit sc rc fl f) := by
    intro _
    have : (netInit sc rc fl f).r = rInit rc := by unfold netInit emitData; rfl
    rw [this]
    show 0 < Gen.maxRetries
    decide
  exact ph_sender_ok sc rc fl f _ (hrun fuel _ (Or.inl ⟨1, 0, ds, [], hg, hok⟩))

end Tftp

namespace Tftp

/-! ### what the receiver has accepted, at every moment -/

theorem rStep_fail_accepted (c : RCfg) (r : RState) : (rStep c r .fail).1.accepted = r.accepted := by
  unfold rStep
  split
  · simp only
    split <;> rfl
  · rfl

theorem netStep_accepted (sc : SCfg) (rc : RCfg) (fl : Faults) (st st' : NetState) (hs : netStep sc rc fl st = some st') :
    st'.r.accepted = st.r.accepted ∨ (st.dq ≠ [] ∧ receiverRunning st.r = true) := by
  obtain ⟨s, r, dq, aq, nd, na, tmo⟩ := st
  cases dq with
  | cons x rest =>
    obtain ⟨n, d⟩ := x
    simp only [netStep] at hs
    split at hs
    · rename_i hrun
      right; exact ⟨by simp, hrun⟩
    · simp at hs; rw [← hs]; left; rfl
  | nil =>
    left
    cases aq with
    | cons a rest =>
      simp only [netStep] at hs
      split at hs <;> (simp at hs; rw [← hs]) <;> rfl
    | nil =>
      simp only [netStep] at hs
      split at hs
      · simp at hs
      · by_cases hrr : receiverRunning r = true <;> by_cases hsr : senderRunning s = true <;>
          simp only [hrr, hsr, ↓reduceIte, Option.some.injEq, Bool.false_eq_true] at hs <;> rw [← hs]
        all_goals first | exact rStep_fail_accepted rc r | rfl

/-- what the receiver has accepted is a prefix of the file's blocks -/
def RG (sc : SCfg) (f : Bytes) (st : NetState) : Prop := st.r.received = blocksUpTo sc.b f st.r.received.length

theorem RG_of_accepted {sc : SCfg} {f : Bytes} {st st' : NetState} (h : RG sc f st) (he : st'.r.accepted = st.r.accepted) :
    RG sc f st' := by
  unfold RG RState.received at *
  rw [he]; exact h

theorem ph_step_good (sc : SCfg) (rc : RCfg) (lc : LoopCfgT sc rc) (fl : Faults) (f : Bytes) (st st' : NetState)
    (h : Ph sc rc fl f st) (hg : RG sc f st) (hs : netStep sc rc fl st = some st') : RG sc f st' := by
  rcases netStep_accepted sc rc fl st st' hs with he | ⟨hdq, hrun⟩
  · exact RG_of_accepted hg he
  · -- a DATA datagram reached a running receiver: only the running phase has that
    rcases h with ⟨B, R, ds, ks, hgs, hok⟩ | ⟨B, ks, hf⟩ | hra | hsa | hd
    · obtain ⟨s, r, dq, aq, nd, na, tmo⟩ := st
      have hdq' : dq = ds.map (datum sc.b f) := hgs.dq_eq
      have haq' : aq = ks.map (· % 65536) := hgs.aq_eq
      subst hdq'; subst haq'
      cases ds with
      | nil => simp at hdq
      | cons k ds' =>
        obtain ⟨st'', h1, h2⟩ := gs_data sc rc lc fl f s r _ nd na tmo B R k ds' ks hgs
        have heq : st'' = st' := by rw [h1] at hs; exact Option.some.inj hs
        subst heq
        rcases h2 with ⟨B', ks', hf⟩ | ⟨B', R', ds'', ks', h', _⟩
        · exact hf.rgood
        · unfold RG
          rw [h'.rrecv, blocksUpTo_length]
    · exfalso; simp [receiverRunning, hf.rok] at hrun
    · exfalso; exact hdq hra.dq_nil
    · exfalso; simp [receiverRunning, hsa.rfail] at hrun
    · exfalso; have := hd.ended.2; rw [this] at hrun; cases hrun

/-- **the accepted prefix, at every moment, for any length**: at every moment of every run of the closed loop, under
every fault schedule and for every file length, what the receiving side has accepted so far is exactly blocks
`1..j` of the sender's file, in order -/
theorem closed_loop_accepted_prefix (sc : SCfg) (rc : RCfg) (lc : LoopCfgT sc rc) (fl : Faults) (f : Bytes) (fuel : Nat) :
    (netRun sc rc fl fuel (netInit sc rc fl f)).r.received =
      blocksUpTo sc.b f (netRun sc rc fl fuel (netInit sc rc fl f)).r.received.length := by
  have hrun : ∀ (fuel : Nat) (st : NetState), Ph sc rc fl f st → RG sc f st →
      Ph sc rc fl f (netRun sc rc fl fuel st) ∧ RG sc f (netRun sc rc fl fuel st) := by
    intro fuel
    induction fuel with
    | zero => intro st h hg; exact ⟨h, hg⟩
    | succ n ih =>
      intro st h hg
      simp only [netRun]
      cases hs : netStep sc rc fl st with
      | none => exact ⟨h, hg⟩
      | some st' => exact ih st' (ph_step sc rc lc fl f st st' h hs) (ph_step_good sc rc lc fl f st st' h hg hs)
  obtain ⟨ds, hgs⟩ := gs_init sc rc lc fl f
  have hok : RetryOK (netInit sc rc fl f) := by
    intro _
    have : (netInit sc rc fl f).r = rInit rc := by unfold netInit emitData; rfl
    rw [this]
    show 0 < Gen.maxRetries
    decide
  have hg0 : RG sc f (netInit sc rc fl f) := by
    unfold RG
    rw [hgs.rrecv, blocksUpTo_length]
  exact (hrun fuel _ (Or.inl ⟨1, 0, ds, [], hgs, hok⟩) hg0).2

end Tftp
