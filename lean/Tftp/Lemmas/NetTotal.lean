import Tftp.Lemmas.NetLossW
/-!
The closed loop under **every** fault schedule (any number of losses and duplications): it always runs to an
end, and the end is one of: receiver successful with an identical file (sender successful, or given up after
`MAX_RETRIES` consecutive failed attempts), or both sides given up after `MAX_RETRIES` consecutive failed attempts.
-/
namespace Tftp

/-- how the closed loop can end -/
def TotalDone (f : Bytes) (st : NetState) : Prop :=
  (st.r.status = .ok ∧ st.r.win.file.content = f ∧
      (st.s.status = .ok ∨ (st.s.status = .failed ∧ st.s.retry = Gen.maxRetries))) ∨
  (st.r.status = .failed ∧ st.r.retry = Gen.maxRetries ∧ st.s.status = .failed ∧ st.s.retry = Gen.maxRetries)

theorem LFDone.total {fl : Faults} {f : Bytes} {st : NetState} (h : LFDone fl f st) : TotalDone f st := by
  obtain ⟨h1, h2, h3⟩ := h
  left
  refine ⟨h1, h2, ?_⟩
  rcases h3 with h3 | ⟨h3, h4, _⟩
  · exact Or.inl h3
  · exact Or.inr ⟨h3, h4⟩

theorem recv_timeout_giveup (rc : RCfg) (r : RState) (rrun : r.status = .running) (hr : r.retry + 1 = Gen.maxRetries) :
    (rStep rc r .fail).1.status = .failed ∧ (rStep rc r .fail).1.retry = Gen.maxRetries ∧ (rStep rc r .fail).2 = [] := by
  obtain ⟨bn, win, retry, status, accepted⟩ := r
  simp only at rrun hr
  subst rrun
  unfold rStep
  simp only [hr, ↓reduceIte, and_self]

/-- a running receiver's retry counter is below the bound -/
def RetryOK (st : NetState) : Prop := st.r.status = .running → st.r.retry < Gen.maxRetries

theorem rStep_retry_ok (c : RCfg) (r : RState) (ev : REv) (h : r.status = .running → r.retry < Gen.maxRetries) :
    (rStep c r ev).1.status = .running → (rStep c r ev).1.retry < Gen.maxRetries := by
  intro hrun'
  by_cases hrun : r.status = .running
  · have hlt := h hrun
    cases ev with
    | data n p => exact Nat.lt_of_le_of_lt (rStep_data_retry c r n p) hlt
    | error =>
      exfalso
      obtain ⟨bn, win, retry, status, accepted⟩ := r
      simp only at hrun
      subst hrun
      simp [rStep] at hrun'
    | fail =>
      obtain ⟨bn, win, retry, status, accepted⟩ := r
      simp only at hrun hlt
      subst hrun
      unfold rStep at hrun' ⊢
      simp only at hrun' ⊢
      split
      · rename_i he
        rw [if_pos he] at hrun'
        simp at hrun'
      · rename_i he
        show retry + 1 < Gen.maxRetries
        omega
  · exfalso
    have : rStep c r ev = (r, []) := by
      obtain ⟨bn, win, retry, status, accepted⟩ := r
      simp only at hrun
      unfold rStep
      cases status with
      | running => exact absurd rfl hrun
      | ok => rfl
      | failed => rfl
    rw [this] at hrun'
    exact hrun hrun'

theorem netStep_retry_ok (sc : SCfg) (rc : RCfg) (fl : Faults) (st st' : NetState) (h : RetryOK st)
    (hs : netStep sc rc fl st = some st') : RetryOK st' := by
  obtain ⟨s, r, dq, aq, nd, na, tmo⟩ := st
  unfold RetryOK at h ⊢
  simp only at h
  cases dq with
  | cons x rest =>
    obtain ⟨n, d⟩ := x
    simp only [netStep] at hs
    split at hs
    · simp at hs; rw [← hs]
      exact rStep_retry_ok rc r (.data n d) h
    · simp at hs; rw [← hs]; exact h
  | nil =>
    cases aq with
    | cons a rest =>
      simp only [netStep] at hs
      split at hs <;> (simp at hs; rw [← hs]; exact h)
    | nil =>
      simp only [netStep] at hs
      split at hs
      · simp at hs
      · have hf := rStep_retry_ok rc r .fail h
        by_cases hrr : receiverRunning r = true <;> by_cases hsr : senderRunning s = true <;>
          simp only [hrr, hsr, ↓reduceIte, Option.some.injEq, Bool.false_eq_true] at hs <;> rw [← hs]
        · exact hf
        · exact hf
        · exact h
        · exact h

/-- the sender has given up, the receiver is still waiting: nothing is in flight and nothing will be -/
structure RA (st : NetState) : Prop where
  sfail : st.s.status = .failed
  sret : st.s.retry = Gen.maxRetries
  rrun : st.r.status = .running
  rlt : st.r.retry < Gen.maxRetries
  dq_nil : st.dq = []
  aq_nil : st.aq = []

theorem ra_run (sc : SCfg) (rc : RCfg) (fl : Faults) (f : Bytes) :
    ∀ (m : Nat) (st : NetState), RA st → Gen.maxRetries - st.r.retry ≤ m →
      ∃ fuel, TotalDone f (netRun sc rc fl fuel st) := by
  intro m
  induction m with
  | zero => intro st h hm; have := h.rlt; omega
  | succ m ih =>
    intro st h hm
    obtain ⟨s, r, dq, aq, nd, na, tmo⟩ := st
    obtain ⟨sfail, sret, rrun, rlt, dq_nil, aq_nil⟩ := h
    simp only at sfail sret rrun rlt dq_nil aq_nil hm
    subst dq_nil; subst aq_nil
    have hnr : receiverRunning r = true := by simp [receiverRunning, rrun]
    have hsr : senderRunning s = false := by simp [senderRunning, sfail]
    by_cases hr : r.retry + 1 = Gen.maxRetries
    · obtain ⟨h1, h2, _⟩ := recv_timeout_giveup rc r rrun hr
      refine ⟨1, ?_⟩
      have hstep : netStep sc rc fl ⟨s, r, [], [], nd, na, tmo⟩ = some ⟨s, (rStep rc r .fail).1, [], [], nd, na, tmo + 1⟩ := by
        simp only [netStep, hnr, hsr, Bool.not_false, Bool.not_true, Bool.and_false, Bool.false_eq_true, ↓reduceIte]
      simp only [netRun, hstep]
      exact Or.inr ⟨h1, h2, sfail, sret⟩
    · have hrt := recv_timeout rc r rrun hr
      have hstep : netStep sc rc fl ⟨s, r, [], [], nd, na, tmo⟩ =
          some ⟨s, { r with retry := r.retry + 1 }, [], [], nd, na, tmo + 1⟩ := by
        simp only [netStep, hnr, hsr, Bool.not_false, Bool.not_true, Bool.and_false, Bool.false_eq_true, ↓reduceIte, hrt]
      obtain ⟨fuel, hd⟩ := ih ⟨s, { r with retry := r.retry + 1 }, [], [], nd, na, tmo + 1⟩
        ⟨sfail, sret, rrun, by show r.retry + 1 < Gen.maxRetries; omega, rfl, rfl⟩ (by show Gen.maxRetries - (r.retry + 1) ≤ m; omega)
      exact ⟨fuel + 1, by simp only [netRun, hstep]; exact hd⟩

/-- the receiver has given up, the sender is still retransmitting: no acknowledgement is in flight and none will be -/
structure SA (sc : SCfg) (f : Bytes) (st : NetState) : Prop where
  sinv : SInv sc f st.s
  srun : st.s.status = .running
  ssince : st.s.since = 0
  rfail : st.r.status = .failed
  rret : st.r.retry = Gen.maxRetries
  aq_nil : st.aq = []

theorem sa_run (sc : SCfg) (rc : RCfg) (fl : Faults) (f : Bytes) :
    ∀ (m : Nat) (st : NetState), SA sc f st →
      (2 * sc.w * sc.rep + 1) * (Gen.maxRetries - st.s.retry) + st.dq.length ≤ m →
      ∃ fuel, TotalDone f (netRun sc rc fl fuel st) := by
  intro m
  induction m with
  | zero =>
    intro st h hm
    exfalso
    have hretry : st.s.retry < Gen.maxRetries := h.sinv.retry_lt (by rw [h.srun]; simp)
    have hpos : 0 < (2 * sc.w * sc.rep + 1) * (Gen.maxRetries - st.s.retry) := Nat.mul_pos (by omega) (by omega)
    omega
  | succ m ih =>
    intro st h hm
    obtain ⟨s, r, dq, aq, nd, na, tmo⟩ := st
    obtain ⟨sinv, srun, ssince, rfail, rret, aq_nil⟩ := h
    simp only at sinv srun ssince rfail rret aq_nil hm
    subst aq_nil
    have hretry : s.retry < Gen.maxRetries := sinv.retry_lt (by rw [srun]; simp)
    have hnr : receiverRunning r = false := by simp [receiverRunning, rfail]
    have hsr : senderRunning s = true := by simp [senderRunning, srun]
    cases dq with
    | cons x rest =>
      have hstep : netStep sc rc fl ⟨s, r, x :: rest, [], nd, na, tmo⟩ = some ⟨s, r, rest, [], nd, na, tmo⟩ := by
        obtain ⟨n, d⟩ := x
        simp only [netStep, hnr]
        rfl
      obtain ⟨fuel, hd⟩ := ih ⟨s, r, rest, [], nd, na, tmo⟩ ⟨sinv, srun, ssince, rfail, rret, rfl⟩
        (by simp only [List.length_cons] at hm; show (2 * sc.w * sc.rep + 1) * (Gen.maxRetries - s.retry) + rest.length ≤ m; omega)
      exact ⟨fuel + 1, by simp only [netRun, hstep]; exact hd⟩
    | nil =>
      by_cases hr : s.retry + 1 = Gen.maxRetries
      · obtain ⟨h1, h2, h3⟩ := sender_timeout_giveup sc s srun sc.timeout hr
        have hstep : netStep sc rc fl ⟨s, r, [], [], nd, na, tmo⟩ =
            some (emitData fl ⟨(sStep sc s .fail sc.timeout).1, r, [], [], nd, na, tmo + 1⟩ (sStep sc s .fail sc.timeout).2) := by
          simp only [netStep, hnr, hsr, Bool.not_true, Bool.false_and, Bool.false_eq_true, ↓reduceIte]
        refine ⟨1, ?_⟩
        simp only [netRun, hstep]
        refine Or.inr ⟨rfail, rret, ?_, ?_⟩
        · show (emitData fl _ _).s.status = .failed
          unfold emitData; exact h1
        · show (emitData fl _ _).s.retry = Gen.maxRetries
          unfold emitData; exact h3
      · have hs := sender_timeout sc s srun ssince hr
        have hstep : netStep sc rc fl ⟨s, r, [], [], nd, na, tmo⟩ =
            some (emitData fl ⟨{ s with retry := s.retry + 1 }, r, [], [], nd, na, tmo + 1⟩
              (sendWindow sc.rep s.bn s.win.elems)) := by
          simp only [netStep, hnr, hsr, Bool.not_true, Bool.false_and, Bool.false_eq_true, ↓reduceIte, hs]
        have hlen : (emitData fl ⟨{ s with retry := s.retry + 1 }, r, [], [], nd, na, tmo + 1⟩
            (sendWindow sc.rep s.bn s.win.elems)).dq.length ≤ 2 * sc.w * sc.rep := by
          unfold emitData
          simp only [List.nil_append]
          have h1 := applyFaults_length_le fl.dropData fl.dupData nd (dataOf (sendWindow sc.rep s.bn s.win.elems))
          have h2 : (dataOf (sendWindow sc.rep s.bn s.win.elems)).length ≤ sc.w * sc.rep := by
            have hle := sinv.len_le
            have : ∀ (es : List Bytes) (bn : Nat), (dataOf (sendWindow sc.rep bn es)).length = es.length * sc.rep := by
              intro es
              induction es with
              | nil => intro bn; simp [sendWindow, dataOf]
              | cons e es ihh =>
                intro bn
                have hrep : ∀ (k : Nat) (ps : List Packet), (dataOf (List.replicate k (Packet.data bn e) ++ ps)).length =
                    k + (dataOf ps).length := by
                  intro k
                  induction k with
                  | zero => intro ps; simp
                  | succ k ihk => intro ps; simp [List.replicate_succ, dataOf, ihk]; omega
                simp only [sendWindow, sendPacket, hrep, ihh, List.length_cons]
                rw [Nat.add_mul]; omega
            rw [this]
            exact Nat.mul_le_mul_right _ hle
          calc _ ≤ 2 * (dataOf (sendWindow sc.rep s.bn s.win.elems)).length := h1
            _ ≤ 2 * (sc.w * sc.rep) := Nat.mul_le_mul_left 2 h2
            _ = 2 * sc.w * sc.rep := by rw [Nat.mul_assoc]
        have hm' := mul_drop (2 * sc.w * sc.rep + 1) (Gen.maxRetries - s.retry) (Gen.maxRetries - (s.retry + 1)) (by omega)
        obtain ⟨fuel, hd⟩ := ih (emitData fl ⟨{ s with retry := s.retry + 1 }, r, [], [], nd, na, tmo + 1⟩
            (sendWindow sc.rep s.bn s.win.elems)) (by
            refine ⟨?_, ?_, ?_, ?_, ?_, ?_⟩
            · show SInv sc f (emitData fl _ _).s
              unfold emitData
              exact sinv.with_retry _ (by omega)
            · show (emitData fl _ _).s.status = .running
              unfold emitData; exact srun
            · show (emitData fl _ _).s.since = 0
              unfold emitData; exact ssince
            · show (emitData fl _ _).r.status = .failed
              unfold emitData; exact rfail
            · show (emitData fl _ _).r.retry = Gen.maxRetries
              unfold emitData; exact rret
            · show (emitData fl _ _).aq = []
              unfold emitData; rfl)
          (by
            have hre : (emitData fl ⟨{ s with retry := s.retry + 1 }, r, [], [], nd, na, tmo + 1⟩
                (sendWindow sc.rep s.bn s.win.elems)).s.retry = s.retry + 1 := by unfold emitData; rfl
            rw [hre]
            simp only [List.length_nil] at hm
            omega)
        exact ⟨fuel + 1, by simp only [netRun, hstep]; exact hd⟩

end Tftp

namespace Tftp

/-- **nothing in flight, every case**: each running side times out; a side whose retry budget is used up gives up -/
theorem gs_quiet_total (sc : SCfg) (rc : RCfg) (lc : LoopCfgT sc rc) (fl : Faults)
    (f : Bytes) (s : SState) (r : RState) (nd na tmo : Nat) (B R : Nat)
    (h : GS sc rc fl f ⟨s, r, [], [], nd, na, tmo⟩ B R [] []) (hok : RetryOK ⟨s, r, [], [], nd, na, tmo⟩) :
    ∃ st', netStep sc rc fl ⟨s, r, [], [], nd, na, tmo⟩ = some st' ∧
      (GSNext sc rc fl f ⟨s, r, [], [], nd, na, tmo⟩ B R [] [] st' ∨ RA st' ∨ SA sc f st' ∨ TotalDone f st') := by
  have sinv := h.sinv
  have srun := h.srun
  have ssince := h.ssince
  have rrun := h.rrun
  simp only at sinv srun ssince rrun
  have hsretry : s.retry < Gen.maxRetries := sinv.retry_lt (by rw [srun]; simp)
  have hrretry : r.retry < Gen.maxRetries := hok rrun
  have hnr : receiverRunning r = true := by simp [receiverRunning, rrun]
  have hsr : senderRunning s = true := by simp [senderRunning, srun]
  by_cases hrs : s.retry + 1 = Gen.maxRetries
  · obtain ⟨s1, s2, s3⟩ := sender_timeout_giveup sc s srun sc.timeout hrs
    by_cases hrr : r.retry + 1 = Gen.maxRetries
    · -- both give up
      obtain ⟨r1, r2, _⟩ := recv_timeout_giveup rc r rrun hrr
      refine ⟨emitData fl ⟨(sStep sc s .fail sc.timeout).1, (rStep rc r .fail).1, [], [], nd, na, tmo + 1⟩
        (sStep sc s .fail sc.timeout).2, ?_, Or.inr (Or.inr (Or.inr (Or.inr ⟨?_, ?_, ?_, ?_⟩)))⟩
      · simp only [netStep, hnr, hsr, Bool.not_true, Bool.false_and, Bool.false_eq_true, ↓reduceIte]
      · show (emitData fl _ _).r.status = .failed
        unfold emitData; exact r1
      · show (emitData fl _ _).r.retry = Gen.maxRetries
        unfold emitData; exact r2
      · show (emitData fl _ _).s.status = .failed
        unfold emitData; exact s1
      · show (emitData fl _ _).s.retry = Gen.maxRetries
        unfold emitData; exact s3
    · -- the sender gives up, the receiver goes on waiting
      have hrt := recv_timeout rc r rrun hrr
      refine ⟨emitData fl ⟨(sStep sc s .fail sc.timeout).1, { r with retry := r.retry + 1 }, [], [], nd, na, tmo + 1⟩
        (sStep sc s .fail sc.timeout).2, ?_, Or.inr (Or.inl ⟨?_, ?_, ?_, ?_, ?_, ?_⟩)⟩
      · simp only [netStep, hnr, hsr, Bool.not_true, Bool.false_and, Bool.false_eq_true, ↓reduceIte, hrt]
      · show (emitData fl _ _).s.status = .failed
        unfold emitData; exact s1
      · show (emitData fl _ _).s.retry = Gen.maxRetries
        unfold emitData; exact s3
      · show (emitData fl _ _).r.status = .running
        unfold emitData; exact rrun
      · show (emitData fl _ _).r.retry < Gen.maxRetries
        unfold emitData
        show r.retry + 1 < Gen.maxRetries
        omega
      · show (emitData fl _ _).dq = []
        unfold emitData
        simp only [s2, dataOf, applyFaults, List.append_nil]
      · show (emitData fl _ _).aq = []
        unfold emitData; rfl
  · by_cases hrr : r.retry + 1 = Gen.maxRetries
    · -- the receiver gives up, the sender goes on retransmitting
      obtain ⟨r1, r2, _⟩ := recv_timeout_giveup rc r rrun hrr
      have hs := sender_timeout sc s srun ssince hrs
      refine ⟨emitData fl ⟨{ s with retry := s.retry + 1 }, (rStep rc r .fail).1, [], [], nd, na, tmo + 1⟩
        (sendWindow sc.rep s.bn s.win.elems), ?_, Or.inr (Or.inr (Or.inl ⟨?_, ?_, ?_, ?_, ?_, ?_⟩))⟩
      · simp only [netStep, hnr, hsr, Bool.not_true, Bool.false_and, Bool.false_eq_true, ↓reduceIte, hs]
      · show SInv sc f (emitData fl _ _).s
        unfold emitData
        exact sinv.with_retry _ (by omega)
      · show (emitData fl _ _).s.status = .running
        unfold emitData; exact srun
      · show (emitData fl _ _).s.since = 0
        unfold emitData; exact ssince
      · show (emitData fl _ _).r.status = .failed
        unfold emitData; exact r1
      · show (emitData fl _ _).r.retry = Gen.maxRetries
        unfold emitData; exact r2
      · show (emitData fl _ _).aq = []
        unfold emitData; rfl
    · obtain ⟨st', h1, h2⟩ := gs_quiet_core sc rc lc fl f s r nd na tmo B R h hrs hrr
      exact ⟨st', h1, Or.inl h2⟩

/-- from any state of the running phase the loop runs to an end -/
theorem gs_run_total (sc : SCfg) (rc : RCfg) (lc : LoopCfgT sc rc) (fl : Faults) (f : Bytes) :
    ∀ (m : Nat) (st : NetState) (B R : Nat) (ds ks : List Nat), GS sc rc fl f st B R ds ks → RetryOK st →
      gsMeasure sc fl f st B R ds ks ≤ m → ∃ fuel, TotalDone f (netRun sc rc fl fuel st) := by
  intro m
  induction m with
  | zero =>
    intro st B R ds ks h _ hm
    exfalso
    have := h.rlt
    unfold gsMeasure at hm
    omega
  | succ m ih =>
    intro st B R ds ks h hok hm
    have hstep : ∃ st', netStep sc rc fl st = some st' ∧
        (GSNext sc rc fl f st B R ds ks st' ∨ RA st' ∨ SA sc f st' ∨ TotalDone f st') := by
      obtain ⟨s, r, dq, aq, nd, na, tmo⟩ := st
      have hdq : dq = ds.map (datum sc.b f) := h.dq_eq
      have haq : aq = ks.map (· % 65536) := h.aq_eq
      subst hdq; subst haq
      cases ds with
      | cons k ds' =>
        obtain ⟨st', h1, h2⟩ := gs_data sc rc lc fl f s r _ nd na tmo B R k ds' ks h
        exact ⟨st', h1, Or.inl h2⟩
      | nil =>
        cases ks with
        | cons k ks' =>
          obtain ⟨st', h1, h2⟩ := gs_ack sc rc lc fl f s r nd na tmo B R k ks' h
          exact ⟨st', h1, Or.inl h2⟩
        | nil => exact gs_quiet_total sc rc lc fl f s r nd na tmo B R h hok
    obtain ⟨st', hs, hnext⟩ := hstep
    have hok' := netStep_retry_ok sc rc fl st st' hok hs
    rcases hnext with hn | hra | hsa | hdone
    · rcases hn with ⟨B', ks', hf⟩ | ⟨B', R', ds', ks', h', hlt⟩
      · obtain ⟨fuel, hd⟩ := gf_run sc rc lc fl f _ st' B' ks' hf (Nat.le_refl _)
        exact ⟨fuel + 1, by simp only [netRun, hs]; exact hd.total⟩
      · obtain ⟨fuel, hd⟩ := ih st' B' R' ds' ks' h' hok' (by omega)
        exact ⟨fuel + 1, by simp only [netRun, hs]; exact hd⟩
    · obtain ⟨fuel, hd⟩ := ra_run sc rc fl f _ st' hra (Nat.le_refl _)
      exact ⟨fuel + 1, by simp only [netRun, hs]; exact hd⟩
    · obtain ⟨fuel, hd⟩ := sa_run sc rc fl f _ st' hsa (Nat.le_refl _)
      exact ⟨fuel + 1, by simp only [netRun, hs]; exact hd⟩
    · exact ⟨1, by simp only [netRun, hs]; exact hdone⟩

/-- **the closed loop under every fault schedule**: for every file, block size, window size 1..65535, positive
retransmission interval and for EVERY schedule of lost and duplicated datagrams (no bound on their number), the
closed loop of the sender model and the receiver model runs to an end, and at that end either the receiver has
ended successfully with a byte-identical copy (and the sender has ended successfully, or has given up with its
retry counter - consecutive failed receive attempts - at `MAX_RETRIES`), or both sides have given up with
their retry counters at `MAX_RETRIES`. There is no third outcome: no livelock, no corrupt or truncated copy
reported as complete, no failure before `MAX_RETRIES` consecutive failed attempts. -/
theorem closed_loop_total (sc : SCfg) (rc : RCfg) (lc : LoopCfgT sc rc) (fl : Faults) (f : Bytes) :
    ∃ fuel, TotalDone f (netRun sc rc fl fuel (netInit sc rc fl f)) := by
  obtain ⟨ds, h⟩ := gs_init sc rc lc fl f
  have hok : RetryOK (netInit sc rc fl f) := by
    intro _
    have : (netInit sc rc fl f).r = rInit rc := by
      unfold netInit emitData; rfl
    rw [this]
    show 0 < Gen.maxRetries
    decide
  exact gs_run_total sc rc lc fl f _ _ 1 0 ds [] h hok (Nat.le_refl _)

end Tftp
