import Tftp.Model.Receiver
/-! Invariant of the receiver (`receive_file`). -/
namespace Tftp

theorem write_content (fl : FileSt) (d : Bytes) : (fl.write d).content = fl.content ++ d := by
  unfold FileSt.write FileSt.content
  split
  · rename_i h
    have : d = [] := by simpa using h
    simp [this]
  · simp

theorem write_keeps (fl : FileSt) (d : Bytes) :
    (fl.write d).canWrite = fl.canWrite ∧ (fl.write d).initial = fl.initial := by
  unfold FileSt.write; split <;> simp

theorem foldl_write_content (es : List Bytes) (fl : FileSt) :
    (es.foldl FileSt.write fl).content = fl.content ++ es.flatten ∧
    (es.foldl FileSt.write fl).canWrite = fl.canWrite := by
  induction es generalizing fl with
  | nil => simp
  | cons e es ih =>
    simp only [List.foldl_cons, List.flatten_cons]
    obtain ⟨h1, h2⟩ := ih (fl.write e)
    rw [h1, h2, write_content, (write_keeps fl e).1]
    simp

/-- accepted payloads, oldest first -/
def RState.received (s : RState) : List Bytes := s.accepted.reverse

structure RInv (c : RCfg) (s : RState) : Prop where
  bn_eq : s.bn = s.accepted.length % 65536
  stored : s.win.file.content ++ s.win.elems.flatten = s.received.flatten
  pend_lt : s.win.elems.length < c.w
  size_eq : s.win.size = c.w
  can_write : s.win.file.canWrite = true
  full_before : s.status = .running → ∀ p ∈ s.accepted, c.b ≤ p.length
  ok_final : s.status = .ok → s.win.elems = [] ∧
    ∃ p rest, s.accepted = p :: rest ∧ p.length < c.b ∧ ∀ q ∈ rest, c.b ≤ q.length

theorem rInit_inv (c : RCfg) (hw : 1 ≤ c.w) : RInv c (rInit c) := by
  refine ⟨by simp [rInit], by simp [rInit, RState.received, Window.new, FileSt.create, FileSt.content],
    by simp [rInit, Window.new]; omega, rfl, rfl, by simp [rInit], by simp [rInit]⟩

/-- `flushAck` from a state whose file is writable: everything pending reaches the file, then the ACK -/
theorem flushAck_spec (c : RCfg) (s : RState) (hcw : s.win.file.canWrite = true) :
    (flushAck c s).1 = { s with win := { s.win with elems := [], file := s.win.elems.foldl FileSt.write s.win.file } } ∧
    (flushAck c s).2 = ackOut c.rep s.bn (s.win.elems.foldl FileSt.write s.win.file) := by
  unfold flushAck Window.empty
  simp [hcw]

/-- one transition: the invariant is kept; every ACK emitted carries the count of blocks received in
sequence (mod 65536) and is emitted when the file already holds all of them; the list of accepted
payloads grows only by an in-sequence DATA -/
theorem rStep_good (c : RCfg) (hw : c.w < 65536) (s : RState) (h : RInv c s) (ev : REv) :
    RInv c (rStep c s ev).1 ∧
    (∀ a ∈ (rStep c s ev).2, a.n = (rStep c s ev).1.accepted.length % 65536 ∧
        a.file.content = (rStep c s ev).1.received.flatten ∧ (rStep c s ev).1.win.elems = []) ∧
    ((rStep c s ev).1.accepted = s.accepted ∨
      ∃ n p, ev = .data n p ∧ n = (s.accepted.length + 1) % 65536 ∧ (rStep c s ev).1.accepted = p :: s.accepted) := by
  have hlen : s.win.len = s.win.elems.length := by
    unfold Window.len; have := h.pend_lt; exact Nat.mod_eq_of_lt (by omega)
  -- flushing any state that satisfies the invariant
  have hflush : ∀ t : RState, RInv c t → t.status = .running →
      RInv c (flushAck c t).1 ∧ (flushAck c t).1.status = .running ∧ (flushAck c t).1.accepted = t.accepted ∧
      (flushAck c t).1.win.elems = [] ∧
      ∀ a ∈ (flushAck c t).2, a.n = t.accepted.length % 65536 ∧ a.file.content = t.received.flatten := by
    intro t ht hrun
    obtain ⟨h1, h2⟩ := flushAck_spec c t ht.can_write
    obtain ⟨f1, f2⟩ := foldl_write_content t.win.elems t.win.file
    rw [h1, h2]
    refine ⟨⟨ht.bn_eq, ?_, ?_, ht.size_eq, ?_, ?_, ?_⟩, hrun, rfl, rfl, ?_⟩
    · simp only [List.flatten_nil, List.append_nil]
      rw [f1]; exact ht.stored
    · have := ht.pend_lt; simp; omega
    · simp only; rw [f2]; exact ht.can_write
    · intro _; exact ht.full_before hrun
    · intro hk; simp only at hk; rw [hrun] at hk; simp at hk
    · intro a ha
      have := List.eq_of_mem_replicate ha
      subst this
      simp only
      exact ⟨ht.bn_eq, by rw [f1]; exact ht.stored⟩
  unfold rStep
  split
  · rename_i hrun
    cases ev with
    | data n payload =>
      simp only
      split
      · rename_i hseq
        have hadd : s.win.add payload = ({ s.win with elems := s.win.elems ++ [payload] }, .ok ()) := by
          unfold Window.add
          have : ¬ s.win.len = s.win.size := by rw [hlen, h.size_eq]; have := h.pend_lt; omega
          simp [this]
        simp only [hadd]
        -- state after accepting the block, before any flush
        have hn : n = (s.accepted.length + 1) % 65536 := by
          rw [hseq, h.bn_eq]; omega
        by_cases hshort : payload.length < c.b
        · simp only [hshort, ↓reduceIte]
          -- final block
          let t : RState := { s with bn := n, win := { s.win with elems := s.win.elems ++ [payload] }, retry := 0,
                                     accepted := payload :: s.accepted }
          have hcw : t.win.file.canWrite = true := h.can_write
          obtain ⟨h1, h2⟩ := flushAck_spec c t hcw
          obtain ⟨f1, f2⟩ := foldl_write_content t.win.elems t.win.file
          have hst : t.win.file.content ++ t.win.elems.flatten = t.received.flatten := by
            simp only [t, RState.received, List.reverse_cons, List.flatten_append, List.flatten_cons,
              List.flatten_nil, List.append_nil]
            rw [← List.append_assoc, h.stored]; rfl
          show RInv c (markOk (flushAck c t)).1 ∧ _ ∧ _
          unfold markOk
          rw [h1, h2]
          simp only [t, hrun, ↓reduceIte]
          refine ⟨⟨?_, ?_, ?_, h.size_eq, ?_, ?_, ?_⟩, ?_, ?_⟩
          · simp only [List.length_cons]; exact hn
          · simp only [List.flatten_nil, List.append_nil]
            rw [f1]; exact hst
          · have := h.pend_lt; simp; omega
          · simp only; rw [f2]; exact h.can_write
          · intro hk; simp at hk
          · intro _
            exact ⟨rfl, payload, s.accepted, rfl, hshort, h.full_before hrun⟩
          · intro a ha
            have := List.eq_of_mem_replicate ha
            subst this
            simp only [List.length_cons]
            exact ⟨hn, by rw [f1]; exact hst, by first | rfl | trivial⟩
          · exact Or.inr ⟨n, payload, rfl, hn, rfl⟩
        · simp only [hshort, ↓reduceIte]
          let t : RState := { s with bn := n, win := { s.win with elems := s.win.elems ++ [payload] }, retry := 0,
                                     accepted := payload :: s.accepted }
          have hst : t.win.file.content ++ t.win.elems.flatten = t.received.flatten := by
            simp only [t, RState.received, List.reverse_cons, List.flatten_append, List.flatten_cons,
              List.flatten_nil, List.append_nil]
            rw [← List.append_assoc, h.stored]; rfl
          have hfullb : ∀ p ∈ t.accepted, c.b ≤ p.length := by
            intro p hp
            simp only [t, List.mem_cons] at hp
            rcases hp with rfl | hp
            · omega
            · exact h.full_before hrun p hp
          split
          · rename_i hisfull
            -- window full: flush
            have hisf : (s.win.elems.length + 1) % 65536 = c.w := by
              unfold Window.isFull at hisfull
              simp only [List.length_append, List.length_singleton, h.size_eq] at hisfull
              simpa using hisfull
            have hpl : s.win.elems.length + 1 = c.w := by
              have := h.pend_lt
              rw [Nat.mod_eq_of_lt (by omega)] at hisf; exact hisf
            have hcw : t.win.file.canWrite = true := h.can_write
            obtain ⟨h1, h2⟩ := flushAck_spec c t hcw
            obtain ⟨f1, f2⟩ := foldl_write_content t.win.elems t.win.file
            show RInv c (flushAck c t).1 ∧ _ ∧ _
            rw [h1, h2]
            simp only [t]
            refine ⟨⟨?_, ?_, ?_, h.size_eq, ?_, ?_, ?_⟩, ?_, ?_⟩
            · simp only [List.length_cons]; exact hn
            · simp only [List.flatten_nil, List.append_nil]
              rw [f1]; exact hst
            · have := h.pend_lt; simp; omega
            · simp only; rw [f2]; exact h.can_write
            · intro _; exact hfullb
            · intro hk; simp only at hk; rw [hrun] at hk; simp at hk
            · intro a ha
              have := List.eq_of_mem_replicate ha
              subst this
              simp only [List.length_cons]
              exact ⟨hn, by rw [f1]; exact hst, by first | rfl | trivial⟩
            · exact Or.inr ⟨n, payload, rfl, hn, rfl⟩
          · rename_i hnotfull
            have hpl : s.win.elems.length + 1 < c.w := by
              have hp := h.pend_lt
              by_cases he : s.win.elems.length + 1 = c.w
              · exfalso; apply hnotfull
                unfold Window.isFull
                simp only [List.length_append, List.length_singleton, h.size_eq, he]
                rw [Nat.mod_eq_of_lt hw]; simp
              · omega
            refine ⟨⟨?_, hst, ?_, h.size_eq, h.can_write, ?_, ?_⟩, by simp, ?_⟩
            · simp only [List.length_cons]; exact hn
            · simpa using hpl
            · intro _; exact hfullb
            · intro hk; simp only at hk; rw [hrun] at hk; simp at hk
            · exact Or.inr ⟨n, payload, rfl, hn, rfl⟩
      · split
        · -- duplicate of the block just buffered: ignored
          exact ⟨h, by simp, Or.inl rfl⟩
        -- out of sequence: flush and repeat the last acknowledgement
        obtain ⟨i1, _, i3, i4, i5⟩ := hflush s h hrun
        refine ⟨i1, ?_, Or.inl i3⟩
        intro a ha
        obtain ⟨a1, a2⟩ := i5 a ha
        rw [i3]
        refine ⟨a1, ?_, i4⟩
        unfold RState.received at a2 ⊢
        rw [i3]; exact a2
    | error =>
      refine ⟨⟨h.bn_eq, h.stored, h.pend_lt, h.size_eq, h.can_write, by intro hk; simp at hk,
        by intro hk; simp at hk⟩, by simp, Or.inl rfl⟩
    | fail =>
      simp only
      split
      · refine ⟨⟨h.bn_eq, h.stored, h.pend_lt, h.size_eq, h.can_write, by intro hk; simp at hk,
          by intro hk; simp at hk⟩, by simp, Or.inl rfl⟩
      · refine ⟨⟨h.bn_eq, h.stored, h.pend_lt, h.size_eq, h.can_write, ?_, ?_⟩, by simp, Or.inl rfl⟩
        · intro _; exact h.full_before hrun
        · intro hk; simp only at hk; rw [hrun] at hk; simp at hk
  · exact ⟨h, by simp, Or.inl rfl⟩

end Tftp
