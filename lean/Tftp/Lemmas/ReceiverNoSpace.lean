import Tftp.Lemmas.Receiver
/-!
The receiver on a target that cannot take a byte (`rInitUnwritable`): nothing is ever written, no ACK is emitted for a
block that carries data, and the only upload that succeeds is the empty one. -/
namespace Tftp

theorem flatten_of_all_empty (es : List Bytes) (h : es.any (fun d => !d.isEmpty) = false) : es.flatten = [] := by
  induction es with
  | nil => rfl
  | cons e es ih =>
    simp only [List.any_cons, Bool.or_eq_false_iff] at h
    have he : e = [] := by
      have := h.1
      cases e with
      | nil => rfl
      | cons _ _ => simp at this
    simp [he, ih h.2]

structure NSInv (s : RState) : Prop where
  cw : s.win.file.canWrite = false
  empty : s.win.file.content = []
  pend : s.status ≠ .failed → s.win.elems.flatten = s.received.flatten
  okEmpty : s.status = .ok → s.win.elems = []

theorem rInitUnwritable_inv (c : RCfg) : NSInv (rInitUnwritable c) := by
  refine ⟨rfl, ?_, ?_, ?_⟩
  · simp [rInitUnwritable, rInit, Window.new, FileSt.create, FileSt.content]
  · intro _; simp [rInitUnwritable, rInit, Window.new, RState.received]
  · intro h; simp [rInitUnwritable, rInit] at h

/-- `flushAck` on an unwritable target: it either fails (something non-empty is pending) or nothing at all was pending in bytes -/
theorem flushAck_ns (c : RCfg) (s : RState) (h : NSInv s) :
    (s.status ≠ .ok → NSInv (flushAck c s).1) ∧ (flushAck c s).1.accepted = s.accepted ∧
    (∀ a ∈ (flushAck c s).2, a.file.content = [] ∧ s.win.elems.flatten = [] ∧ (flushAck c s).1.win.elems = []) ∧
    ((flushAck c s).1.status = .failed ∨ ((flushAck c s).1.status = s.status ∧ (flushAck c s).1.win.elems = [])) := by
  by_cases hany : s.win.elems.any (fun d => !d.isEmpty) = true
  · have e : flushAck c s = ({ s with status := .failed }, []) := by
      unfold flushAck Window.empty; simp [h.cw, hany]
    rw [e]
    exact ⟨fun _ => ⟨h.cw, h.empty, fun hh => absurd rfl hh, fun hh => by simp at hh⟩, rfl, fun a ha => by simp at ha, Or.inl rfl⟩
  · have hany' : s.win.elems.any (fun d => !d.isEmpty) = false := by simpa using hany
    have hfl := flatten_of_all_empty _ hany'
    have hw := foldl_write_content s.win.elems s.win.file
    have e : flushAck c s = ({ s with win := { s.win with elems := [], file := s.win.elems.foldl FileSt.write s.win.file } },
        ackOut c.rep s.bn (s.win.elems.foldl FileSt.write s.win.file)) := by
      unfold flushAck Window.empty; simp [hany']
    have hc : (s.win.elems.foldl FileSt.write s.win.file).content = [] := by
      rw [hw.1, h.empty, hfl]; rfl
    rw [e]
    refine ⟨fun hnok => ⟨?_, hc, ?_, fun hh => absurd hh hnok⟩, rfl, ?_, Or.inr ⟨rfl, rfl⟩⟩
    · show (s.win.elems.foldl FileSt.write s.win.file).canWrite = false
      rw [hw.2]; exact h.cw
    · intro hs
      have := h.pend hs
      show ([] : List Bytes).flatten = s.received.flatten
      rw [← this, hfl]; rfl
    · intro a ha
      have := List.eq_of_mem_replicate ha
      subst this
      exact ⟨hc, hfl, rfl⟩

theorem markOk_ns (r : RState × List AckObs) (h : NSInv r.1) (he : r.1.status = .running → r.1.win.elems = []) :
    NSInv (markOk r).1 := by
  unfold markOk
  by_cases hr : r.1.status = .running
  · simp only [hr, if_true]
    exact ⟨h.cw, h.empty, fun _ => h.pend (by simp [hr]), fun _ => he hr⟩
  · simp only [hr, if_false]; exact h

theorem markOk_fields (r : RState × List AckObs) :
    (markOk r).1.accepted = r.1.accepted ∧ (markOk r).1.win = r.1.win ∧ (markOk r).2 = r.2 := by
  unfold markOk; split <;> exact ⟨rfl, rfl, rfl⟩

/-- one transition on an unwritable target -/
theorem rStep_ns (c : RCfg) (s : RState) (h : NSInv s) (ev : REv) :
    NSInv (rStep c s ev).1 ∧
    (∀ a ∈ (rStep c s ev).2, a.file.content = [] ∧ (rStep c s ev).1.received.flatten = [] ∧ (rStep c s ev).1.win.elems = []) := by
  -- flushing a state whose pending bytes are all that was received
  have hflush : ∀ t : RState, NSInv t → t.status = .running →
      NSInv (flushAck c t).1 ∧
      (∀ a ∈ (flushAck c t).2, a.file.content = [] ∧ (flushAck c t).1.received.flatten = [] ∧ (flushAck c t).1.win.elems = []) ∧
      ((flushAck c t).1.status = .running → (flushAck c t).1.win.elems = []) := by
    intro t ht hrun'
    have hrun : t.status ≠ .failed := by simp [hrun']
    obtain ⟨f1, f2, f3, f4⟩ := flushAck_ns c t ht
    have f1 := f1 (by simp [hrun'])
    refine ⟨f1, fun a ha => ?_, fun hh => by rcases f4 with f4 | f4 <;> simp_all⟩
    obtain ⟨h1, h2, h3⟩ := f3 a ha
    refine ⟨h1, ?_, h3⟩
    have hp := ht.pend hrun
    simp only [RState.received] at hp ⊢
    rw [f2, ← hp]; exact h2
  unfold rStep
  cases hst : s.status with
  | ok => exact ⟨h, by simp⟩
  | failed => exact ⟨h, by simp⟩
  | running =>
    have hrun : s.status ≠ .failed := by simp [hst]
    cases ev with
    | error => exact ⟨⟨h.cw, h.empty, by simp, by simp⟩, by simp⟩
    | fail =>
      simp only
      split
      · exact ⟨⟨h.cw, h.empty, by simp, by simp⟩, by simp⟩
      · exact ⟨⟨h.cw, h.empty, fun _ => h.pend hrun, by simp⟩, by simp⟩
    | data n payload =>
      simp only
      by_cases hseq : n = (s.bn + 1) % 65536
      · simp only [hseq, ↓reduceIte]
        by_cases hfull : s.win.len = s.win.size
        · have hadd : s.win.add payload = (s.win, .err) := by unfold Window.add; simp [hfull]
          simp only [hadd]
          exact ⟨⟨h.cw, h.empty, by simp, by simp⟩, by simp⟩
        · have hadd : s.win.add payload = ({ s.win with elems := s.win.elems ++ [payload] }, .ok ()) := by
            unfold Window.add; simp [hfull]
          simp only [hadd]
          let t : RState := { s with bn := (s.bn + 1) % 65536, win := { s.win with elems := s.win.elems ++ [payload] }, retry := 0,
                                     status := .running, accepted := payload :: s.accepted }
          have ht : NSInv t := by
            refine ⟨h.cw, h.empty, fun _ => ?_, fun hh => by simp [t] at hh⟩
            show (s.win.elems ++ [payload]).flatten = (payload :: s.accepted).reverse.flatten
            have := h.pend hrun
            simp only [RState.received] at this
            simp [this]
          have htr : t.status = .running := rfl
          by_cases hshort : payload.length < c.b
          · simp only [hshort, ↓reduceIte]
            show NSInv (markOk (flushAck c t)).1 ∧ ∀ a ∈ (markOk (flushAck c t)).2, _
            obtain ⟨m1, m2, m3⟩ := markOk_fields (flushAck c t)
            obtain ⟨g1, g2, g3⟩ := hflush t ht htr
            refine ⟨markOk_ns _ g1 g3, ?_⟩
            intro a ha
            rw [m3] at ha
            obtain ⟨h1, h2, h3⟩ := g2 a ha
            refine ⟨h1, ?_, ?_⟩
            · simp only [RState.received] at h2 ⊢
              rw [m1]; exact h2
            · rw [m2]; exact h3
          · simp only [hshort, ↓reduceIte]
            by_cases hisf : Window.isFull { s.win with elems := s.win.elems ++ [payload] } = true
            · simp only [hisf, ↓reduceIte]
              obtain ⟨g1, g2, _⟩ := hflush t ht htr
              exact ⟨g1, g2⟩
            · have hisf' : Window.isFull { s.win with elems := s.win.elems ++ [payload] } = false := by simpa using hisf
              simp only [hisf', Bool.false_eq_true, ↓reduceIte]
              exact ⟨ht, by simp⟩
      · simp only [hseq, ↓reduceIte]
        split
        · exact ⟨h, by simp⟩
        · obtain ⟨g1, g2, _⟩ := hflush s h hst
          exact ⟨g1, g2⟩

/-- every run on an unwritable target -/
theorem rRunFrom_ns (c : RCfg) (evs : List REv) (s : RState) (h : NSInv s) :
    NSInv (rRunFrom c s evs).2 ∧
    ∀ g ∈ (rRunFrom c s evs).1, ∀ a ∈ g, a.file.content = [] := by
  induction evs generalizing s with
  | nil => exact ⟨h, by simp [rRunFrom]⟩
  | cons e es ih =>
    have hs := rStep_ns c s h e
    have := ih _ hs.1
    simp only [rRunFrom]
    refine ⟨this.1, ?_⟩
    intro g hg a ha
    simp only [List.mem_cons] at hg
    rcases hg with rfl | hg
    · exact (hs.2 a ha).1
    · exact this.2 g hg a ha

end Tftp
