import Tftp.Model.ReceiverQ
import Tftp.Lemmas.Receiver
/-!
The receiver on a target with limited room (`Model/ReceiverQ.lean`): with unlimited room it is the receiver of `Model/Receiver.lean`;
with any room, at every moment of every run, the file is a prefix of the bytes received in sequence and never longer than the room
allowed, every ACK is emitted over a file that holds all of them, and success means the file holds everything.
-/
namespace Tftp

/-- what the write loop does -/
theorem writeQ_none (es : List Bytes) (f : FileSt) : writeQ f none es = (es.foldl FileSt.write f, none, true) := by
  induction es generalizing f with
  | nil => rfl
  | cons d ds ih => simp only [writeQ, List.foldl_cons]; exact ih _

theorem writeQ_some (es : List Bytes) (f : FileSt) (r : Nat) :
    (es.flatten.length ≤ r ∧ writeQ f (some r) es = (es.foldl FileSt.write f, some (r - es.flatten.length), true)) ∨
    (r < es.flatten.length ∧ ∃ f', writeQ f (some r) es = (f', some 0, false) ∧ f'.content = f.content ++ es.flatten.take r) := by
  induction es generalizing f r with
  | nil => exact Or.inl ⟨by simp, by simp [writeQ]⟩
  | cons d ds ih =>
    simp only [writeQ]
    by_cases hd : d.length ≤ r
    · simp only [hd, ↓reduceIte]
      rcases ih (f.write d) (r - d.length) with ⟨h1, h2⟩ | ⟨h1, f', h2, h3⟩
      · refine Or.inl ⟨by simp only [List.flatten_cons, List.length_append]; omega, ?_⟩
        rw [h2]
        simp only [List.foldl_cons, List.flatten_cons, List.length_append]
        congr 2; congr 1; omega
      · refine Or.inr ⟨by simp only [List.flatten_cons, List.length_append]; omega, f', h2, ?_⟩
        rw [h3, write_content]
        simp only [List.flatten_cons, List.append_assoc]
        congr 1
        rw [List.take_append]
        congr 1
        exact (List.take_of_length_le hd).symm
    · simp only [hd, ↓reduceIte]
      refine Or.inr ⟨by simp only [List.flatten_cons, List.length_append]; omega, _, rfl, ?_⟩
      rw [write_content]
      congr 1
      simp only [List.flatten_cons]
      rw [List.take_append]
      have : r - d.length = 0 := by omega
      simp [this]

/-- **refinement**: with unlimited room on a writable handle, the limited-room receiver is the receiver of `Model/Receiver.lean` -/
theorem rStepQ_none (c : RCfg) (s : RState) (hcw : s.win.file.canWrite = true) (ev : REv) :
    rStepQ c s none ev = ((rStep c s ev).1, none, (rStep c s ev).2) := by
  have hflush : ∀ t : RState, t.win.file.canWrite = true → flushAckQ c t none = ((flushAck c t).1, none, (flushAck c t).2) := by
    intro t ht
    unfold flushAckQ flushAck Window.empty
    rw [writeQ_none]
    simp [ht]
  unfold rStepQ rStep
  cases hst : s.status with
  | ok => rfl
  | failed => rfl
  | running =>
    cases ev with
    | error => rfl
    | fail => simp only; split <;> rfl
    | data n payload =>
      simp only
      by_cases hseq : n = (s.bn + 1) % 65536
      · simp only [hseq, ↓reduceIte]
        by_cases hfull : s.win.len = s.win.size
        · have hadd : s.win.add payload = (s.win, .err) := by unfold Window.add; simp [hfull]
          simp only [hadd]
        · have hadd : s.win.add payload = ({ s.win with elems := s.win.elems ++ [payload] }, .ok ()) := by
            unfold Window.add; simp [hfull]
          simp only [hadd]
          let t : RState := { s with bn := (s.bn + 1) % 65536, win := { s.win with elems := s.win.elems ++ [payload] }, retry := 0,
                                     status := .running, accepted := payload :: s.accepted }
          have htq : flushAckQ c t none = ((flushAck c t).1, none, (flushAck c t).2) := hflush t hcw
          by_cases hshort : payload.length < c.b
          · simp only [hshort, ↓reduceIte]
            show markOkQ (flushAckQ c t none) = ((markOk (flushAck c t)).1, none, (markOk (flushAck c t)).2)
            rw [htq]
            unfold markOkQ markOk
            simp only
          · simp only [hshort, ↓reduceIte]
            split
            · exact htq
            · rfl
      · simp only [hseq, ↓reduceIte]
        split
        · rfl
        · exact hflush s hcw

structure QInv (q : Option Nat) (s : RState) (room : Option Nat) : Prop where
  stored : s.status ≠ .failed → s.win.file.content ++ s.win.elems.flatten = s.received.flatten
  pre : s.win.file.content <+: s.received.flatten
  room_some : ∀ r, room = some r → ∃ q0, q = some q0 ∧ s.win.file.content.length + r = q0
  some_stays : ∀ q0, q = some q0 → ∃ r, room = some r
  okEmpty : s.status = .ok → s.win.elems = []

theorem qinv_init (c : RCfg) (q : Option Nat) : QInv q (rInit c) q := by
  refine ⟨fun _ => ?_, ?_, ?_, ?_, ?_⟩
  · simp [rInit, Window.new, FileSt.create, FileSt.content, RState.received]
  · simp [rInit, Window.new, FileSt.create, FileSt.content]
  · intro r hr; exact ⟨r, hr, by simp [rInit, Window.new, FileSt.create, FileSt.content]⟩
  · intro q0 hq; exact ⟨q0, hq⟩
  · intro h; simp [rInit] at h

/-- flushing a running state -/
theorem flushAckQ_inv (c : RCfg) (q : Option Nat) (s : RState) (room : Option Nat) (h : QInv q s room) (hrun : s.status = .running) :
    QInv q (flushAckQ c s room).1 (flushAckQ c s room).2.1 ∧ (flushAckQ c s room).1.accepted = s.accepted ∧
    (∀ a ∈ (flushAckQ c s room).2.2, a.file.content = s.received.flatten) ∧
    ((flushAckQ c s room).1.status = .failed ∨ ((flushAckQ c s room).1.status = .running ∧ (flushAckQ c s room).1.win.elems = [])) := by
  have hst := h.stored (by simp [hrun])
  unfold flushAckQ
  cases room with
  | none =>
    rw [writeQ_none]
    have hw := foldl_write_content s.win.elems s.win.file
    refine ⟨⟨fun _ => ?_, ?_, fun r hr => by simp at hr, h.some_stays, fun hk => rfl⟩, rfl, ?_, Or.inr ⟨hrun, rfl⟩⟩
    · show (s.win.elems.foldl FileSt.write s.win.file).content ++ ([] : List Bytes).flatten = s.received.flatten
      rw [hw.1, hst]; simp
    · show (s.win.elems.foldl FileSt.write s.win.file).content <+: s.received.flatten
      rw [hw.1, hst]; exact List.prefix_refl _
    · intro a ha
      have := List.eq_of_mem_replicate ha
      subst this
      show (s.win.elems.foldl FileSt.write s.win.file).content = s.received.flatten
      rw [hw.1, hst]
  | some r =>
    obtain ⟨q0, hq, hlen⟩ := h.room_some r rfl
    rcases writeQ_some s.win.elems s.win.file r with ⟨h1, h2⟩ | ⟨h1, f', h2, h3⟩
    · rw [h2]
      have hw := foldl_write_content s.win.elems s.win.file
      refine ⟨⟨fun _ => ?_, ?_, ?_, fun _ _ => ⟨_, rfl⟩, fun hk => rfl⟩, rfl, ?_, Or.inr ⟨hrun, rfl⟩⟩
      · show (s.win.elems.foldl FileSt.write s.win.file).content ++ ([] : List Bytes).flatten = s.received.flatten
        rw [hw.1, hst]; simp
      · show (s.win.elems.foldl FileSt.write s.win.file).content <+: s.received.flatten
        rw [hw.1, hst]; exact List.prefix_refl _
      · intro r' hr'
        have : r' = r - s.win.elems.flatten.length := by
          have : some (r - s.win.elems.flatten.length) = some r' := hr'
          exact (Option.some.inj this).symm
        refine ⟨q0, hq, ?_⟩
        show (s.win.elems.foldl FileSt.write s.win.file).content.length + r' = q0
        rw [hw.1, List.length_append, this]; omega
      · intro a ha
        have := List.eq_of_mem_replicate ha
        subst this
        show (s.win.elems.foldl FileSt.write s.win.file).content = s.received.flatten
        rw [hw.1, hst]
    · rw [h2]
      refine ⟨⟨fun hk => absurd rfl hk, ?_, ?_, fun _ _ => ⟨_, rfl⟩, fun hk => by simp at hk⟩, rfl, fun a ha => by simp at ha, Or.inl rfl⟩
      · show f'.content <+: s.received.flatten
        rw [h3, ← hst]
        exact (List.prefix_append_right_inj _).mpr (List.take_prefix _ _)
      · intro r' hr'
        have : r' = 0 := by
          have : some 0 = some r' := hr'
          exact (Option.some.inj this).symm
        refine ⟨q0, hq, ?_⟩
        show f'.content.length + r' = q0
        rw [h3, List.length_append, List.length_take, this]; omega

theorem markOkQ_fields (r : RState × Option Nat × List AckObs) :
    (markOkQ r).1.accepted = r.1.accepted ∧ (markOkQ r).1.win = r.1.win ∧ (markOkQ r).2 = r.2 := by
  unfold markOkQ; split <;> exact ⟨rfl, rfl, rfl⟩

theorem markOkQ_inv (q : Option Nat) (r : RState × Option Nat × List AckObs) (h : QInv q r.1 r.2.1)
    (he : r.1.status = .running → r.1.win.elems = []) : QInv q (markOkQ r).1 (markOkQ r).2.1 := by
  unfold markOkQ
  by_cases hr : r.1.status = .running
  · simp only [hr, ↓reduceIte]
    exact ⟨fun _ => h.stored (by rw [hr]; simp), h.pre, h.room_some, h.some_stays, fun _ => he hr⟩
  · simp only [hr, ↓reduceIte]; exact h

/-- one transition with any room -/
theorem rStepQ_inv (c : RCfg) (q : Option Nat) (s : RState) (room : Option Nat) (h : QInv q s room) (ev : REv) :
    QInv q (rStepQ c s room ev).1 (rStepQ c s room ev).2.1 ∧
    (∀ a ∈ (rStepQ c s room ev).2.2, a.file.content = (rStepQ c s room ev).1.received.flatten) := by
  unfold rStepQ
  cases hst : s.status with
  | ok => exact ⟨h, by simp⟩
  | failed => exact ⟨h, by simp⟩
  | running =>
    have hrun : s.status ≠ .failed := by simp [hst]
    cases ev with
    | error => exact ⟨⟨fun hk => absurd rfl hk, h.pre, h.room_some, h.some_stays, fun hk => by simp at hk⟩, by simp⟩
    | fail =>
      simp only
      split
      · exact ⟨⟨fun hk => absurd rfl hk, h.pre, h.room_some, h.some_stays, fun hk => by simp at hk⟩, by simp⟩
      · exact ⟨⟨fun _ => h.stored hrun, h.pre, h.room_some, h.some_stays, fun hk => by simp at hk⟩, by simp⟩
    | data n payload =>
      simp only
      by_cases hseq : n = (s.bn + 1) % 65536
      · simp only [hseq, ↓reduceIte]
        by_cases hfull : s.win.len = s.win.size
        · have hadd : s.win.add payload = (s.win, .err) := by unfold Window.add; simp [hfull]
          simp only [hadd]
          exact ⟨⟨fun hk => absurd rfl hk, h.pre, h.room_some, h.some_stays, fun hk => by simp at hk⟩, by simp⟩
        · have hadd : s.win.add payload = ({ s.win with elems := s.win.elems ++ [payload] }, .ok ()) := by
            unfold Window.add; simp [hfull]
          simp only [hadd]
          let t : RState := { s with bn := (s.bn + 1) % 65536, win := { s.win with elems := s.win.elems ++ [payload] }, retry := 0,
                                     status := .running, accepted := payload :: s.accepted }
          have hst' := h.stored hrun
          have ht : QInv q t room := by
            refine ⟨fun _ => ?_, ?_, h.room_some, h.some_stays, fun hk => by simp [t] at hk⟩
            · show s.win.file.content ++ (s.win.elems ++ [payload]).flatten = (payload :: s.accepted).reverse.flatten
              simp only [RState.received] at hst'
              simp [← hst', List.append_assoc]
            · show s.win.file.content <+: (payload :: s.accepted).reverse.flatten
              have := h.pre
              simp only [RState.received] at this
              simp only [List.reverse_cons, List.flatten_append]
              exact List.IsPrefix.trans this (List.prefix_append _ _)
          have htr : t.status = .running := rfl
          obtain ⟨g1, g2, g3, g4⟩ := flushAckQ_inv c q t room ht htr
          have hrec : (flushAckQ c t room).1.received.flatten = t.received.flatten := by simp only [RState.received, g2]
          by_cases hshort : payload.length < c.b
          · simp only [hshort, ↓reduceIte]
            show QInv q (markOkQ (flushAckQ c t room)).1 (markOkQ (flushAckQ c t room)).2.1 ∧
              ∀ a ∈ (markOkQ (flushAckQ c t room)).2.2, a.file.content = (markOkQ (flushAckQ c t room)).1.received.flatten
            obtain ⟨m1, _, m3⟩ := markOkQ_fields (flushAckQ c t room)
            have he : (flushAckQ c t room).1.status = .running → (flushAckQ c t room).1.win.elems = [] := by
              intro hk
              rcases g4 with g4 | ⟨_, g5⟩
              · rw [g4] at hk; simp at hk
              · exact g5
            refine ⟨markOkQ_inv q _ g1 he, fun a ha => ?_⟩
            rw [m3] at ha
            have : (markOkQ (flushAckQ c t room)).1.received.flatten = t.received.flatten := by
              simp only [RState.received, m1, g2]
            exact (g3 a ha).trans this.symm
          · simp only [hshort, ↓reduceIte]
            by_cases hisf : Window.isFull { s.win with elems := s.win.elems ++ [payload] } = true
            · simp only [hisf, ↓reduceIte]
              exact ⟨g1, fun a ha => (g3 a ha).trans (by rw [hrec])⟩
            · have hisf' : Window.isFull { s.win with elems := s.win.elems ++ [payload] } = false := by simpa using hisf
              simp only [hisf', Bool.false_eq_true, ↓reduceIte]
              exact ⟨ht, by simp⟩
      · simp only [hseq, ↓reduceIte]
        split
        · exact ⟨h, by simp⟩
        · obtain ⟨g1, g2, g3, _⟩ := flushAckQ_inv c q s room h hst
          have hrec : (flushAckQ c s room).1.received.flatten = s.received.flatten := by simp only [RState.received, g2]
          exact ⟨g1, fun a ha => (g3 a ha).trans (by rw [hrec])⟩

/-- every run with any room -/
theorem rRunFromQ_inv (c : RCfg) (q : Option Nat) (evs : List REv) (s : RState) (room : Option Nat) (h : QInv q s room) :
    QInv q (rRunFromQ c s room evs).2.1 (rRunFromQ c s room evs).2.2 := by
  induction evs generalizing s room with
  | nil => exact h
  | cons e es ih =>
    simp only [rRunFromQ]
    exact ih _ _ (rStepQ_inv c q s room h e).1

end Tftp
