import Tftp.Model.Sender
/-! Invariant of the sender (`send_file`) and what every transition emits. -/
namespace Tftp

/-- `k`-th (0-based) block of the file -/
def slice (b : Nat) (f : Bytes) (k : Nat) : Bytes := (f.drop (k * b)).take b

/-- number of blocks of a transfer: `N = |f| / b + 1` (the last one is short, possibly empty) -/
def nblocks (b : Nat) (f : Bytes) : Nat := f.length / b + 1

/-- block `k` (1-based) as the RFC numbers them -/
def blk (b : Nat) (f : Bytes) (k : Nat) : Bytes := slice b f (k - 1)

theorem drop_drop_mul (b : Nat) (f : Bytes) (k : Nat) :
    (f.drop (k * b)).drop b = f.drop ((k + 1) * b) := by
  rw [List.drop_drop]; congr 1; rw [Nat.add_mul]; omega

theorem slice_length (b : Nat) (f : Bytes) (k : Nat) :
    (slice b f k).length = min b (f.length - k * b) := by
  simp [slice]

/-- every block before the last has length `b`, the last one is shorter -/
theorem blk_length_lt_iff (b : Nat) (hb : 0 < b) (f : Bytes) (k : Nat) (hk1 : 1 ≤ k) (hk : k ≤ nblocks b f) :
    (blk b f k).length < b ↔ k = nblocks b f := by
  unfold blk nblocks at *
  rw [slice_length]
  have hdm := Nat.div_add_mod f.length b
  have hml := Nat.mod_lt f.length hb
  constructor
  · intro h
    by_cases hlt : k - 1 < f.length / b
    · exfalso
      have : (k - 1 + 1) * b ≤ f.length / b * b := Nat.mul_le_mul_right b hlt
      have h2 : f.length / b * b ≤ f.length := Nat.div_mul_le_self _ _
      rw [Nat.add_mul] at this
      omega
    · omega
  · intro h
    have hk' : k - 1 = f.length / b := by omega
    rw [hk']
    have : f.length / b * b = b * (f.length / b) := Nat.mul_comm _ _
    omega

theorem take_succ_block (b : Nat) (f : Bytes) (j : Nat) :
    f.take (j * b) ++ slice b f j = f.take ((j + 1) * b) := by
  unfold slice
  rw [Nat.add_mul, Nat.one_mul, List.take_add]

/-- blocks `1..j` concatenated are the first `j·b` bytes of the file -/
theorem blocks_flatten (b : Nat) (f : Bytes) (j : Nat) :
    ((List.range j).map (fun i => blk b f (i + 1))).flatten = f.take (j * b) := by
  induction j with
  | zero => simp
  | succ j ih =>
    rw [List.range_succ, List.map_append, List.flatten_append, ih]
    simp only [List.map_cons, List.map_nil, List.flatten_cons, List.flatten_nil, List.append_nil]
    unfold blk
    simp only [Nat.add_sub_cancel]
    exact take_succ_block b f j

theorem take_all_blocks (b : Nat) (hb : 0 < b) (f : Bytes) : f.take (nblocks b f * b) = f := by
  apply List.take_of_length_le
  unfold nblocks
  have := Nat.div_add_mod f.length b
  have := Nat.mod_lt f.length hb
  rw [Nat.add_mul, Nat.mul_comm]
  omega

/-! ### fill loop -/

theorem fillLoop_len (b n : Nat) (es : List Bytes) (rest : Bytes) :
    (fillLoop b n es rest).1.length ≤ es.length + n := by
  induction n generalizing es rest with
  | zero => simp [fillLoop]
  | succ n ih =>
    simp only [fillLoop]
    split
    · simp
    · have := ih (es ++ [rest.take b]) (rest.drop b)
      simp at this ⊢; omega

theorem fillLoop_mono (b n : Nat) (es : List Bytes) (rest : Bytes) :
    es.length ≤ (fillLoop b n es rest).1.length := by
  induction n generalizing es rest with
  | zero => simp [fillLoop]
  | succ n ih =>
    simp only [fillLoop]
    split
    · simp
    · have := ih (es ++ [rest.take b]) (rest.drop b)
      simp at this ⊢; omega

theorem fillLoop_content (b : Nat) (f : Bytes) (abs n : Nat) (es : List Bytes) (rest : Bytes)
    (hes : ∀ i, i < es.length → es[i]? = some (slice b f (abs + i)))
    (hrest : rest = f.drop ((abs + es.length) * b)) :
    ∀ i, i < (fillLoop b n es rest).1.length →
      (fillLoop b n es rest).1[i]? = some (slice b f (abs + i)) := by
  induction n generalizing es rest with
  | zero => simpa [fillLoop] using hes
  | succ n ih =>
    have hc : rest.take b = slice b f (abs + es.length) := by
      subst hrest; rfl
    have hes' : ∀ i, i < (es ++ [rest.take b]).length →
        (es ++ [rest.take b])[i]? = some (slice b f (abs + i)) := by
      intro i hi
      simp at hi
      by_cases h : i < es.length
      · rw [List.getElem?_append_left h]; exact hes i h
      · have : i = es.length := by omega
        subst this
        simp [hc]
    simp only [fillLoop]
    split
    · exact hes'
    · apply ih
      · exact hes'
      · subst hrest
        simp only [List.length_append, List.length_singleton]
        rw [drop_drop_mul]; congr 1

theorem fillLoop_spec (b : Nat) (hb : 0 < b) (f : Bytes) (abs n : Nat) (es : List Bytes) (rest : Bytes)
    (hrest : rest = f.drop ((abs + es.length) * b))
    (hcur : (abs + es.length) * b ≤ f.length) :
    es.length ≤ (fillLoop b n es rest).1.length ∧ (fillLoop b n es rest).1.length ≤ es.length + n ∧
    ((fillLoop b n es rest).2.2 = true → (fillLoop b n es rest).1.length = es.length + n ∧
        (fillLoop b n es rest).2.1 = f.drop ((abs + (fillLoop b n es rest).1.length) * b)
        ∧ (abs + (fillLoop b n es rest).1.length) * b ≤ f.length) ∧
    ((fillLoop b n es rest).2.2 = false → abs + (fillLoop b n es rest).1.length = f.length / b + 1) := by
  induction n generalizing es rest with
  | zero => simp [fillLoop, hrest, hcur]
  | succ n ih =>
    simp only [fillLoop]
    have hlen : (rest.take b).length = min b (f.length - (abs + es.length) * b) := by
      subst hrest; simp
    split
    · rename_i hne
      have hlt : f.length - (abs + es.length) * b < b := by
        rw [hlen] at hne; omega
      have hdiv : f.length / b = abs + es.length := by
        apply Nat.div_eq_of_lt_le
        · exact hcur
        · rw [Nat.add_mul, Nat.one_mul]; omega
      simp; omega
    · rename_i heq
      have heq' : (rest.take b).length = b := by simpa using heq
      have hfull : b ≤ f.length - (abs + es.length) * b := by
        rw [hlen] at heq'; omega
      have hcur' : (abs + (es ++ [rest.take b]).length) * b ≤ f.length := by
        simp only [List.length_append, List.length_singleton]
        rw [← Nat.add_assoc, Nat.add_mul, Nat.one_mul]; omega
      have hrest' : rest.drop b = f.drop ((abs + (es ++ [rest.take b]).length) * b) := by
        subst hrest
        simp only [List.length_append, List.length_singleton]
        rw [drop_drop_mul]; congr 1
      have := ih (es ++ [rest.take b]) (rest.drop b) hrest' hcur'
      simp only [List.length_append, List.length_singleton] at this ⊢
      obtain ⟨h1, h2, h3, h4⟩ := this
      refine ⟨by omega, by omega, ?_, h4⟩
      intro ht
      obtain ⟨a, b', c⟩ := h3 ht
      exact ⟨by omega, b', c⟩

/-! ### invariant -/

structure SInv (c : SCfg) (f : Bytes) (s : SState) : Prop where
  base_pos : 1 ≤ s.base
  bn_eq : s.bn = s.base % 65536
  elems_eq : ∀ i, i < s.win.elems.length → s.win.elems[i]? = some (slice c.b f (s.base - 1 + i))
  cur : s.win.eof = false → s.win.file.rest = f.drop ((s.base - 1 + s.win.elems.length) * c.b)
          ∧ (s.base - 1 + s.win.elems.length) * c.b ≤ f.length
  fin : s.win.eof = true → s.base - 1 + s.win.elems.length = f.length / c.b + 1
  len_le : s.win.elems.length ≤ c.w
  size_eq : s.win.size = c.w
  chunk_eq : s.win.chunk = c.b
  can_read : s.win.file.canRead = true
  filled_eq : s.filled = !s.win.eof
  retry_lt : s.status ≠ .failed → s.retry < Gen.maxRetries

/-- what an emitted packet may be: block `k` of the file with `1 ≤ k ≤ N`, inside the window
`[base, base + w)`, numbered `k mod 65536` — or the single ERROR of the handshake -/
def GoodData (c : SCfg) (f : Bytes) (base : Nat) (p : Packet) : Prop :=
  ∃ k, base ≤ k ∧ k < base + c.w ∧ 1 ≤ k ∧ k ≤ nblocks c.b f ∧ p = Packet.data (k % 65536) (blk c.b f k)

theorem mem_sendWindow (rep bn : Nat) (hbn : bn < 65536) (es : List Bytes) (p : Packet)
    (h : p ∈ sendWindow rep bn es) :
    ∃ i e, i < es.length ∧ es[i]? = some e ∧ p = Packet.data ((bn + i) % 65536) e := by
  induction es generalizing bn with
  | nil => simp [sendWindow] at h
  | cons c cs ih =>
    simp only [sendWindow, List.mem_append, sendPacket] at h
    rcases h with h | h
    · have := List.eq_of_mem_replicate h
      refine ⟨0, c, by simp, by simp, ?_⟩
      rw [this, Nat.add_zero, Nat.mod_eq_of_lt hbn]
    · obtain ⟨i, e, hi, he, hp⟩ := ih _ (Nat.mod_lt _ (by decide)) h
      refine ⟨i + 1, e, by simp; omega, by simpa using he, ?_⟩
      rw [hp]; congr 1; omega

theorem inv_range {c : SCfg} (hb : 0 < c.b) {f : Bytes} {s : SState} (h : SInv c f s) (i : Nat)
    (hi : i < s.win.elems.length) : s.base + i ≤ nblocks c.b f := by
  unfold nblocks
  cases heof : s.win.eof with
  | true => have := h.fin heof; omega
  | false =>
    have ⟨_, hc⟩ := h.cur heof
    have : s.base - 1 + s.win.elems.length ≤ f.length / c.b := by
      rw [Nat.le_div_iff_mul_le hb]; exact hc
    have := h.base_pos
    omega

theorem head_good {c : SCfg} (hb : 0 < c.b) {f : Bytes} {s : SState} (h : SInv c f s) :
    SInv c f (sHead c s).1 ∧ (sHead c s).1.base = s.base ∧ (sHead c s).1.status = s.status ∧
      ∀ p ∈ (sHead c s).2, GoodData c f s.base p := by
  unfold sHead
  split
  · refine ⟨⟨h.base_pos, h.bn_eq, h.elems_eq, h.cur, h.fin, h.len_le, h.size_eq, h.chunk_eq, h.can_read,
      h.filled_eq, h.retry_lt⟩, rfl, rfl, ?_⟩
    intro p hp
    have hbn : s.bn < 65536 := by rw [h.bn_eq]; exact Nat.mod_lt _ (by decide)
    obtain ⟨i, e, hi, he, hpe⟩ := mem_sendWindow c.rep s.bn hbn _ p hp
    have h1 := h.elems_eq i hi
    rw [he] at h1
    have he' : e = slice c.b f (s.base - 1 + i) := by simpa using h1
    have hbp := h.base_pos
    refine ⟨s.base + i, by omega, ?_, by omega, inv_range hb h i hi, ?_⟩
    · have := h.len_le; omega
    · rw [hpe, he', h.bn_eq]
      unfold blk
      congr 1
      · omega
      · congr 1; omega
  · exact ⟨h, rfl, rfl, by simp⟩

theorem fill_ok {c : SCfg} (hb : 0 < c.b) (hw : c.w < 65536) {f : Bytes} {s : SState} (h : SInv c f s) :
    ∃ w' fl, s.win.fill = (w', .ok fl) ∧
      SInv c f { s with win := w', filled := fl, retry := 0, since := c.timeout + Gen.timeoutBufferMs } ∧
      s.win.elems.length ≤ w'.elems.length ∧
      (w'.eof = false → w'.elems.length = c.w) ∧
      (s.win.eof = false → s.win.elems.length < c.w → s.win.elems.length < w'.elems.length) := by
  have hlen : s.win.len = s.win.elems.length := by
    unfold Window.len
    have := h.len_le
    exact Nat.mod_eq_of_lt (by omega)
  have hmr : 0 < Gen.maxRetries := by decide
  unfold Window.fill
  cases heof : s.win.eof with
  | true =>
    refine ⟨s.win, false, by simp, ?_, Nat.le_refl _, by simp [heof], by simp [heof]⟩
    exact ⟨h.base_pos, h.bn_eq, h.elems_eq, h.cur, h.fin, h.len_le, h.size_eq, h.chunk_eq, h.can_read,
      by simp [heof], fun _ => hmr⟩
  | false =>
    simp only [Bool.false_eq_true, ↓reduceIte, hlen, h.size_eq]
    by_cases hn : c.w - s.win.elems.length = 0
    · simp only [hn, ↓reduceIte]
      refine ⟨s.win, true, rfl, ?_, Nat.le_refl _, fun _ => by have := h.len_le; omega, fun _ hlt => by omega⟩
      exact ⟨h.base_pos, h.bn_eq, h.elems_eq, h.cur, h.fin, h.len_le, h.size_eq, h.chunk_eq, h.can_read,
        by simp [heof], fun _ => hmr⟩
    · simp only [hn, ↓reduceIte, h.can_read, Bool.not_true, Bool.false_eq_true, h.chunk_eq]
      obtain ⟨hrest, hcur⟩ := h.cur heof
      have spec := fillLoop_spec c.b hb f (s.base - 1) (c.w - s.win.elems.length) s.win.elems
        s.win.file.rest hrest hcur
      have cont := fillLoop_content c.b f (s.base - 1) (c.w - s.win.elems.length) s.win.elems
        s.win.file.rest h.elems_eq hrest
      obtain ⟨s1, s2, s3, s4⟩ := spec
      have hgrow : s.win.elems.length <
          (fillLoop c.b (c.w - s.win.elems.length) s.win.elems s.win.file.rest).1.length := by
        obtain ⟨m, hm⟩ : ∃ m, c.w - s.win.elems.length = m + 1 := ⟨c.w - s.win.elems.length - 1, by omega⟩
        rw [hm]
        simp only [fillLoop]
        split
        · simp
        · have hcur' : (s.base - 1 + (s.win.elems ++ [s.win.file.rest.take c.b]).length) * c.b ≤ f.length ∨ True := Or.inr trivial
          have := fillLoop_len c.b m (s.win.elems ++ [s.win.file.rest.take c.b]) (s.win.file.rest.drop c.b)
          have h2 := fillLoop_mono c.b m (s.win.elems ++ [s.win.file.rest.take c.b]) (s.win.file.rest.drop c.b)
          simp at h2 ⊢
          omega
      have hfresh : (fillLoop c.b (c.w - s.win.elems.length) s.win.elems s.win.file.rest).2.2 = true →
          (fillLoop c.b (c.w - s.win.elems.length) s.win.elems s.win.file.rest).1.length = c.w := by
        intro he
        have := (s3 he).1
        have hl := h.len_le
        omega
      refine ⟨_, _, rfl, ?_, s1, by intro he; simp at he; exact hfresh he, fun _ _ => hgrow⟩
      refine ⟨h.base_pos, h.bn_eq, cont, ?_, ?_, ?_, by first | exact h.size_eq | rfl,
        by first | exact h.chunk_eq | rfl, by first | exact h.can_read | rfl, by simp, fun _ => hmr⟩
      · intro he
        simp at he
        obtain ⟨_, b, c⟩ := s3 he
        exact ⟨b, c⟩
      · intro he
        simp at he
        exact s4 he
      · have := h.len_le
        simp only
        omega

theorem outer_good {c : SCfg} (hb : 0 < c.b) (hw : c.w < 65536) {f : Bytes} {s : SState} (h : SInv c f s) :
    SInv c f (sOuter c s).1 ∧ (sOuter c s).1.base = s.base ∧ (sOuter c s).1.status = s.status ∧
      ∀ p ∈ (sOuter c s).2, GoodData c f s.base p := by
  obtain ⟨w', fl, hfill, hinv, _, _, _⟩ := fill_ok hb hw h
  unfold sOuter
  rw [hfill]
  exact head_good hb hinv

theorem slide_inv {c : SCfg} {f : Bytes} {s : SState} (h : SInv c f s) (n : Nat)
    (hd : (n + 65536 - s.bn) % 65536 < s.win.elems.length) (hw : c.w < 65536) :
    SInv c f (slide s n ((n + 65536 - s.bn) % 65536)) := by
  generalize hdiff : (n + 65536 - s.bn) % 65536 = diff at hd
  have hb1 := h.base_pos
  have hlen := h.len_le
  unfold slide
  refine ⟨by simp, ?_, ?_, ?_, ?_, ?_, h.size_eq, h.chunk_eq, h.can_read, h.filled_eq, h.retry_lt⟩
  · have hbn := h.bn_eq
    simp only
    omega
  · intro i hi
    simp at hi ⊢
    have := h.elems_eq (diff + 1 + i) (by omega)
    rw [this]; congr 2; omega
  · intro he
    have ⟨a, b⟩ := h.cur he
    simp at hd ⊢
    have : s.base + diff + (s.win.elems.length - (diff + 1)) = s.base - 1 + s.win.elems.length := by omega
    rw [this]; exact ⟨a, b⟩
  · intro he
    have := h.fin he
    simp at hd ⊢
    omega
  · simp; omega

end Tftp
