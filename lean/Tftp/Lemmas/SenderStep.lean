import Tftp.Lemmas.Sender
/-! Every transition of the sender preserves the invariant and emits only good packets. -/
namespace Tftp

/-- an emitted packet: block `k` of the file, `1 ≤ k ≤ N`, numbered `k mod 65536`; or the single
ERROR 4 with which `check_response` answers a non-zero ACK -/
def GoodPkt (c : SCfg) (f : Bytes) (p : Packet) : Prop :=
  (∃ k, 1 ≤ k ∧ k ≤ nblocks c.b f ∧ p = Packet.data (k % 65536) (blk c.b f k)) ∨ p = illegalOp

theorem GoodData.toPkt {c : SCfg} {f : Bytes} {base : Nat} {p : Packet} (h : GoodData c f base p) :
    GoodPkt c f p := by
  obtain ⟨k, _, _, h1, h2, h3⟩ := h
  exact Or.inl ⟨k, h1, h2, h3⟩

theorem inv_status {c : SCfg} {f : Bytes} {s : SState} (h : SInv c f s) (st : Status)
    (hst : st = .failed ∨ (s.status ≠ .failed)) : SInv c f { s with status := st } := by
  refine ⟨h.base_pos, h.bn_eq, h.elems_eq, h.cur, h.fin, h.len_le, h.size_eq, h.chunk_eq, h.can_read,
    h.filled_eq, ?_⟩
  intro hne
  rcases hst with hst | hst
  · exact absurd hst hne
  · exact h.retry_lt hst

theorem init_inv (c : SCfg) (f : Bytes) :
    SInv c f { bn := 1, win := Window.new c.w c.b (FileSt.openRead f), filled := true, retry := 0,
               since := 0, status := .handshake, base := 1 } := by
  refine ⟨by simp, by simp, ?_, ?_, ?_, by simp [Window.new], rfl, rfl, rfl, rfl, fun _ => by show 0 < Gen.maxRetries; decide⟩
  · intro i hi; simp [Window.new] at hi
  · intro _; simp [Window.new, FileSt.openRead]
  · intro h; simp [Window.new] at h

/-- the invariant is preserved by every transition, the window only moves forward, and every
emitted packet is good and lies in the window `[base', base' + w)` of the state reached -/
theorem step_good {c : SCfg} (hb : 0 < c.b) (hw : c.w < 65536) {f : Bytes} {s : SState} (h : SInv c f s)
    (ev : SEv) (dt : Nat) :
    SInv c f (sStep c s ev dt).1 ∧ s.base ≤ (sStep c s ev dt).1.base ∧
      ∀ p ∈ (sStep c s ev dt).2, GoodData c f (sStep c s ev dt).1.base p ∨ p = illegalOp := by
  unfold sStep
  split
  · -- handshake
    rename_i hst
    have hrun : SInv c f { s with status := .running } := inv_status h _ (Or.inr (by simp [hst]))
    cases ev with
    | ack n =>
      simp only
      split
      · have := outer_good hb hw hrun
        exact ⟨this.1, by rw [this.2.1]; exact Nat.le_refl _, fun p hp => Or.inl (by rw [this.2.1]; exact this.2.2.2 p hp)⟩
      · exact ⟨inv_status h _ (Or.inl rfl), Nat.le_refl _, fun p hp => Or.inr (by simpa using hp)⟩
    | error => exact ⟨inv_status h _ (Or.inl rfl), Nat.le_refl _, by simp⟩
    | fail => exact ⟨inv_status h _ (Or.inl rfl), Nat.le_refl _, by simp⟩
    | other =>
      have := outer_good hb hw hrun
      exact ⟨this.1, by rw [this.2.1]; exact Nat.le_refl _, fun p hp => Or.inl (by rw [this.2.1]; exact this.2.2.2 p hp)⟩
  · -- running
    rename_i hst
    have h0 : SInv c f { s with since := s.since + dt } :=
      ⟨h.base_pos, h.bn_eq, h.elems_eq, h.cur, h.fin, h.len_le, h.size_eq, h.chunk_eq, h.can_read,
        h.filled_eq, h.retry_lt⟩
    have hlen : s.win.len = s.win.elems.length := by
      unfold Window.len
      have := h.len_le
      exact Nat.mod_eq_of_lt (by omega)
    have hfailstep : ∀ (s1 : SState), SInv c f s1 → s1.status = .running →
        (let s2 : SState := { s1 with retry := s1.retry + 1 }
         SInv c f (if s2.retry = Gen.maxRetries then ({ s2 with status := .failed }, []) else sHead c s2).1 ∧
         s1.base ≤ (if s2.retry = Gen.maxRetries then ({ s2 with status := .failed }, []) else sHead c s2).1.base ∧
         ∀ p ∈ (if s2.retry = Gen.maxRetries then ({ s2 with status := .failed }, ([] : List Packet)) else sHead c s2).2,
           GoodData c f (if s2.retry = Gen.maxRetries then ({ s2 with status := .failed }, ([] : List Packet)) else sHead c s2).1.base p ∨ p = illegalOp) := by
      intro s1 h1 hst1
      simp only
      split
      · refine ⟨⟨h1.base_pos, h1.bn_eq, h1.elems_eq, h1.cur, h1.fin, h1.len_le, h1.size_eq, h1.chunk_eq,
          h1.can_read, h1.filled_eq, fun hne => absurd rfl hne⟩, Nat.le_refl _, by simp⟩
      · rename_i hne
        have hr := h1.retry_lt (by simp [hst1])
        have h2 : SInv c f { s1 with retry := s1.retry + 1 } :=
          ⟨h1.base_pos, h1.bn_eq, h1.elems_eq, h1.cur, h1.fin, h1.len_le, h1.size_eq, h1.chunk_eq,
            h1.can_read, h1.filled_eq, fun _ => by simp only at hne ⊢; omega⟩
        have := head_good hb h2
        exact ⟨this.1, by rw [this.2.1]; exact Nat.le_refl _,
          fun p hp => Or.inl (by rw [this.2.1]; exact this.2.2.2 p hp)⟩
    cases ev with
    | ack n =>
      simp only [hlen]
      split
      · rename_i hd
        have hs' := slide_inv h0 n hd hw
        have hbase : s.base ≤ (slide { s with since := s.since + dt } n ((n + 65536 - s.bn) % 65536)).base := by
          simp [slide]; omega
        split
        · refine ⟨inv_status hs' _ (Or.inr ?_), hbase, by simp⟩
          simp [slide, hst]
        · have := outer_good hb hw hs'
          refine ⟨this.1, ?_, ?_⟩
          · rw [this.2.1]; exact hbase
          · intro p hp; rw [this.2.1]; exact Or.inl (this.2.2.2 p hp)
      · have := head_good hb h0
        exact ⟨this.1, by rw [this.2.1]; exact Nat.le_refl _,
          fun p hp => Or.inl (by rw [this.2.1]; exact this.2.2.2 p hp)⟩
    | error => exact ⟨inv_status h0 _ (Or.inl rfl), Nat.le_refl _, by simp⟩
    | other => exact hfailstep _ h0 hst
    | fail => exact hfailstep _ h0 hst
  · exact ⟨h, Nat.le_refl _, by simp⟩

/-- the running sender on an ACK inside the window, as one equation -/
theorem sStep_ack_inwindow (c : SCfg) (s : SState) (n dt : Nat) (hrun : s.status = .running)
    (hlen : s.win.len = s.win.elems.length) (hin : (n + 65536 - s.bn) % 65536 < s.win.elems.length) :
    sStep c s (.ack n) dt =
      (if !(slide { s with since := s.since + dt } n ((n + 65536 - s.bn) % 65536)).filled &&
          (slide { s with since := s.since + dt } n ((n + 65536 - s.bn) % 65536)).win.isEmpty
       then ({ (slide { s with since := s.since + dt } n ((n + 65536 - s.bn) % 65536)) with status := .ok }, [])
       else sOuter c (slide { s with since := s.since + dt } n ((n + 65536 - s.bn) % 65536))) := by
  obtain ⟨bn, win, filled, retry, since, status, base⟩ := s
  simp only at hrun hlen hin
  subst hrun
  unfold sStep
  simp only [hlen, hin, ↓reduceIte]

/-- all states and outputs of a run from a state satisfying the invariant -/
theorem runFrom_good {c : SCfg} (hb : 0 < c.b) (hw : c.w < 65536) {f : Bytes} :
    ∀ (evs : List (SEv × Nat)) (s : SState), SInv c f s →
      SInv c f (sRunFrom c s evs).2 ∧ ∀ g ∈ (sRunFrom c s evs).1, ∀ p ∈ g, GoodPkt c f p := by
  intro evs
  induction evs with
  | nil => intro s h; exact ⟨h, by simp [sRunFrom]⟩
  | cons e es ih =>
    intro s h
    obtain ⟨h1, _, h3⟩ := step_good hb hw h e.1 e.2
    obtain ⟨i1, i2⟩ := ih _ h1
    simp only [sRunFrom]
    refine ⟨i1, ?_⟩
    intro g hg p hp
    simp at hg
    rcases hg with hg | hg
    · subst hg
      rcases h3 p hp with hgd | hil
      · exact hgd.toPkt
      · exact Or.inr hil
    · exact i2 g hg p hp

theorem init_good {c : SCfg} (hb : 0 < c.b) (hw : c.w < 65536) (f : Bytes) (chk : Bool) :
    SInv c f (sInit c f chk).1 ∧ ∀ p ∈ (sInit c f chk).2, GoodPkt c f p := by
  unfold sInit
  have h0 := init_inv c f
  cases chk with
  | true => exact ⟨h0, by simp⟩
  | false =>
    have hrun := inv_status h0 .running (Or.inr (by simp))
    have := outer_good hb hw hrun
    exact ⟨this.1, fun p hp => (this.2.2.2 p hp).toPkt⟩

theorem run_good {c : SCfg} (hb : 0 < c.b) (hw : c.w < 65536) (f : Bytes) (chk : Bool)
    (evs : List (SEv × Nat)) :
    SInv c f (sRun c f chk evs).2 ∧ ∀ g ∈ (sRun c f chk evs).1, ∀ p ∈ g, GoodPkt c f p := by
  obtain ⟨h0, h1⟩ := init_good hb hw f chk
  obtain ⟨r1, r2⟩ := runFrom_good hb hw evs _ h0
  unfold sRun
  refine ⟨r1, ?_⟩
  intro g hg p hp
  simp at hg
  rcases hg with hg | hg
  · subst hg; exact h1 p hp
  · exact r2 g hg p hp

end Tftp
