import Tftp.Model.Server
/-! Lemmas about paths and option parsing of the server model. -/
namespace Tftp

/-! ### paths -/

theorem splitOnSlash_ne_nil (p : Bytes) : splitOnSlash p ≠ [] := by
  induction p with
  | nil => simp [splitOnSlash]
  | cons c rest ih =>
    unfold splitOnSlash
    split
    · simp
    · split <;> simp

theorem splitOnSlash_append_slash (a b : Bytes) :
    splitOnSlash (a ++ slash :: b) = splitOnSlash a ++ splitOnSlash b := by
  induction a with
  | nil =>
    simp only [List.nil_append]
    rw [splitOnSlash]
    cases h : splitOnSlash b with
    | nil => exact absurd h (splitOnSlash_ne_nil b)
    | cons cur more => simp [splitOnSlash, h]
  | cons c rest ih =>
    simp only [List.cons_append]
    rw [splitOnSlash, ih]
    cases h : splitOnSlash rest with
    | nil => exact absurd h (splitOnSlash_ne_nil rest)
    | cons cur more =>
      simp only [List.cons_append]
      conv => rhs; rw [splitOnSlash, h]
      split <;> simp

theorem components_append_slash (a b : Bytes) :
    components (a ++ slash :: b) = components a ++ components b := by
  unfold components
  rw [splitOnSlash_append_slash, List.filter_append]

/-- a string without the substring `..` has no `..` component -/
theorem splitOnSlash_no_dotdot (p : Bytes) (h : hasDotDot p = false) : [dot, dot] ∉ splitOnSlash p := by
  induction p with
  | nil => simp [splitOnSlash]
  | cons c rest ih =>
    have hrest : hasDotDot rest = false := by
      cases rest with
      | nil => simp [hasDotDot]
      | cons d r =>
        unfold hasDotDot at h
        simp only [Bool.or_eq_false_iff] at h
        exact h.2
    have ihr := ih hrest
    rw [splitOnSlash]
    cases hs : splitOnSlash rest with
    | nil => exact absurd hs (splitOnSlash_ne_nil rest)
    | cons cur more =>
      rw [hs] at ihr
      simp only
      split
      · intro hm
        simp at hm
        exact ihr (by simp [hm])
      · rename_i hc
        intro hm
        simp only [List.mem_cons] at hm
        rcases hm with hm | hm
        · -- c :: cur = [dot, dot]: then rest starts with dot and c = dot: substring `..`
          have hc1 : c = dot := by injection hm with h1 _; exact h1.symm
          have hcur : cur = [dot] := by injection hm with _ h2; exact h2.symm
          cases rest with
          | nil => simp [splitOnSlash] at hs; rw [← hs.1] at hcur; simp at hcur
          | cons d r =>
            rw [splitOnSlash] at hs
            cases hs2 : splitOnSlash r with
            | nil => exact absurd hs2 (splitOnSlash_ne_nil r)
            | cons cur2 more2 =>
              rw [hs2] at hs
              simp only at hs
              split at hs
              · simp at hs; rw [← hs.1] at hcur; simp at hcur
              · simp at hs
                rw [← hs.1] at hcur
                have hd : d = dot := by injection hcur
                unfold hasDotDot at h
                simp [hc1, hd] at h
        · exact ihr (by simp [hm])

theorem components_no_dotdot (p : Bytes) (h : hasDotDot p = false) : [dot, dot] ∉ components p := by
  unfold components
  intro hm
  exact splitOnSlash_no_dotdot p h (List.mem_filter.mp hm).1

theorem hasDotDot_append_left (a b : Bytes) (h : hasDotDot (a ++ b) = false) : hasDotDot b = false := by
  induction a with
  | nil => simpa using h
  | cons c rest ih =>
    apply ih
    cases hr : rest ++ b with
    | nil => simp [hasDotDot]
    | cons d r =>
      simp only [List.cons_append, hr] at h
      unfold hasDotDot at h
      simp only [Bool.or_eq_false_iff] at h
      exact h.2

theorem dropWhile_head_false {α : Type} (p : α → Bool) :
    ∀ (l : List α) (x : α) (xs : List α), l.dropWhile p = x :: xs → p x = false := by
  intro l
  induction l with
  | nil => intro x xs h; simp at h
  | cons a l ih =>
    intro x xs h
    simp only [List.dropWhile_cons] at h
    split at h
    · exact ih x xs h
    · rename_i hp
      injection h with h1 _
      rw [← h1]; simpa using hp

/-- `convert_file_path` never yields an absolute path -/
theorem convertFilePath_head (name : Bytes) : (convertFilePath name).head? ≠ some slash := by
  unfold convertFilePath
  generalize hd : name.dropWhile (fun c => c == slash || c == backslash) = d
  cases d with
  | nil => simp
  | cons x xs =>
    have hx : ¬ ((x == slash || x == backslash) = true) := by
      have := dropWhile_head_false (fun c => c == slash || c == backslash) name x xs hd
      intro h
      rw [h] at this
      exact Bool.noConfusion this
    simp only [List.map_cons, List.head?_cons]
    simp only [Bool.or_eq_true, beq_iff_eq, not_or] at hx
    intro h
    injection h with h
    split at h
    · rename_i hb; exact hx.2 (by simpa using hb)
    · exact hx.1 h

/-! ### options -/

/-- what `parse_options` guarantees about the worker's parameters -/
structure SaneOptions (wo : WorkerOptions) : Prop where
  blk_lo : Gen.blksizeMin ≤ wo.blockSize
  blk_hi : wo.blockSize ≤ Gen.blksizeMax
  tmo_lo : 1 ≤ wo.timeoutS
  tmo_hi : wo.timeoutS ≤ Gen.timeoutMax
  win_lo : 1 ≤ wo.windowSize
  win_hi : wo.windowSize ≤ 65535

theorem parseOptionsLoop_sane (rt : ReqType) (hchk : Gen.blksizeChecked = true) :
    ∀ (os : List TransferOption) (wo : WorkerOptions) (acc : List TransferOption) (wo' : WorkerOptions)
      (out : List TransferOption), SaneOptions wo → parseOptionsLoop rt os wo acc = some (wo', out) →
      SaneOptions wo' := by
  intro os
  induction os with
  | nil => intro wo acc wo' out h hp; simp [parseOptionsLoop] at hp; rw [← hp.1]; exact h
  | cons o rest ih =>
    intro wo acc wo' out h hp
    unfold parseOptionsLoop at hp
    split at hp
    · split at hp
      · simp at hp
      · rename_i hc
        simp only [hchk, Bool.true_and, Bool.or_eq_true, decide_eq_true_eq, not_or, Nat.not_lt] at hc
        refine ih _ _ _ _ ?_ hp
        exact ⟨hc.1, hc.2, h.tmo_lo, h.tmo_hi, h.win_lo, h.win_hi⟩
    · split at hp
      · refine ih _ _ _ _ ?_ hp
        exact ⟨h.blk_lo, h.blk_hi, h.tmo_lo, h.tmo_hi, h.win_lo, h.win_hi⟩
      · refine ih _ _ _ _ ?_ hp
        exact ⟨h.blk_lo, h.blk_hi, h.tmo_lo, h.tmo_hi, h.win_lo, h.win_hi⟩
    · split at hp
      · simp at hp
      · rename_i hc
        simp only [Bool.or_eq_true, decide_eq_true_eq, not_or, Nat.not_lt] at hc
        refine ih _ _ _ _ ?_ hp
        exact ⟨h.blk_lo, h.blk_hi, by show 1 ≤ o.value; omega, hc.2, h.win_lo, h.win_hi⟩
    · split at hp
      · simp at hp
      · rename_i hc
        simp only [Bool.or_eq_true, decide_eq_true_eq, not_or, Nat.not_lt] at hc
        refine ih _ _ _ _ ?_ hp
        exact ⟨h.blk_lo, h.blk_hi, h.tmo_lo, h.tmo_hi, by show 1 ≤ o.value; omega, hc.2⟩

theorem defaultOptions_sane : SaneOptions defaultOptions := by
  refine ⟨?_, ?_, ?_, ?_, ?_, ?_⟩ <;> decide

/-- the acknowledged list: same options in the same order; values unchanged except `tsize` on a read -/
def tsizeAck (rt : ReqType) (requested : Nat) : Nat :=
  match rt with
  | .read size => size
  | .write => requested

def AckOf (rt : ReqType) (req ack : TransferOption) : Prop :=
  ack.option = req.option ∧
  (req.option = .tsize → ack.value = tsizeAck rt req.value) ∧
  (req.option ≠ .tsize → ack.value = req.value)

theorem parseOptionsLoop_acks (rt : ReqType) :
    ∀ (os : List TransferOption) (wo : WorkerOptions) (acc : List TransferOption) (wo' : WorkerOptions)
      (out : List TransferOption), parseOptionsLoop rt os wo acc = some (wo', out) →
      ∃ tail, out = acc.reverse ++ tail ∧ tail.length = os.length ∧
        ∀ i, i < os.length → ∃ r a, os[i]? = some r ∧ tail[i]? = some a ∧ AckOf rt r a := by
  intro os
  induction os with
  | nil =>
    intro wo acc wo' out hp
    simp [parseOptionsLoop] at hp
    exact ⟨[], by simp [hp.2], rfl, by simp⟩
  | cons o rest ih =>
    intro wo acc wo' out hp
    have step : ∀ (wo1 : WorkerOptions) (a : TransferOption), AckOf rt o a →
        parseOptionsLoop rt rest wo1 (a :: acc) = some (wo', out) →
        ∃ tail, out = acc.reverse ++ tail ∧ tail.length = (o :: rest).length ∧
          ∀ i, i < (o :: rest).length → ∃ r a', (o :: rest)[i]? = some r ∧ tail[i]? = some a' ∧ AckOf rt r a' := by
      intro wo1 a ha hp1
      obtain ⟨tail, h1, h2, h3⟩ := ih _ _ _ _ hp1
      refine ⟨a :: tail, by simp [h1], by simp [h2], ?_⟩
      intro i hi
      cases i with
      | zero => exact ⟨o, a, by simp, by simp, ha⟩
      | succ j =>
        obtain ⟨r, a', e1, e2, e3⟩ := h3 j (by simp at hi; omega)
        exact ⟨r, a', by simpa using e1, by simpa using e2, e3⟩
    unfold parseOptionsLoop at hp
    split at hp
    · rename_i ho
      split at hp
      · simp at hp
      · exact step _ o ⟨rfl, (fun h => by rw [ho] at h; cases h), (fun _ => rfl)⟩ hp
    · rename_i ho
      split at hp
      · refine step _ _ ?_ hp
        exact ⟨rfl, (fun _ => rfl), (fun hne => absurd ho hne)⟩
      · exact step _ o ⟨rfl, (fun _ => rfl), (fun _ => rfl)⟩ hp
    · rename_i ho
      split at hp
      · simp at hp
      · exact step _ o ⟨rfl, (fun h => by rw [ho] at h; cases h), (fun _ => rfl)⟩ hp
    · rename_i ho
      split at hp
      · simp at hp
      · exact step _ o ⟨rfl, (fun h => by rw [ho] at h; cases h), (fun _ => rfl)⟩ hp

/-- an option value the server cannot honour makes `parse_options` fail -/
def Unhonourable (o : TransferOption) : Prop :=
  (o.option = .blksize ∧ (o.value < 8 ∨ o.value > 65464)) ∨
  (o.option = .timeout ∧ o.value = 0) ∨
  (o.option = .windowsize ∧ (o.value = 0 ∨ o.value > 65535))

theorem parseOptionsLoop_rejects (rt : ReqType) :
    ∀ (os : List TransferOption) (wo : WorkerOptions) (acc : List TransferOption),
      (∃ o ∈ os, Unhonourable o) → parseOptionsLoop rt os wo acc = none := by
  intro os
  induction os with
  | nil => intro wo acc h; simp at h
  | cons o rest ih =>
    intro wo acc h
    obtain ⟨x, hx, hu⟩ := h
    simp only [List.mem_cons] at hx
    unfold parseOptionsLoop
    rcases hx with rfl | hx
    · rcases hu with ⟨ho, hv⟩ | ⟨ho, hv⟩ | ⟨ho, hv⟩
      · simp only [ho]
        have : (Gen.blksizeChecked && (decide (x.value < Gen.blksizeMin) || decide (x.value > Gen.blksizeMax))) = true := by
          rcases hv with hv | hv
          · have : decide (x.value < Gen.blksizeMin) = true :=
              decide_eq_true (by show x.value < 8; omega)
            simp [Gen.blksizeChecked, this]
          · have : decide (x.value > Gen.blksizeMax) = true :=
              decide_eq_true (by show x.value > 65464; omega)
            simp [Gen.blksizeChecked, this]
        simp [this]
      · simp [ho, hv]
      · simp only [ho]
        have : (decide (x.value = 0) || decide (x.value > 65535)) = true := by
          simp only [Bool.or_eq_true, decide_eq_true_eq]; omega
        simp [this]
    · have hrest := fun wo1 acc1 => ih wo1 acc1 ⟨x, hx, hu⟩
      split
      · split
        · rfl
        · exact hrest _ _
      · split <;> exact hrest _ _
      · split
        · rfl
        · exact hrest _ _
      · split
        · rfl
        · exact hrest _ _

end Tftp
