/-! Shared basic types of the executable model (core Lean only, no proofs). -/
namespace Tftp

abbrev Bytes := List UInt8

/-- Result of a Rust function that returns `Result<T, _>` and can also panic. -/
inductive Outcome (α : Type) where
  | ok (a : α)
  | err
  | panic
deriving Repr, DecidableEq

namespace Outcome
def bind {α β : Type} (o : Outcome α) (f : α → Outcome β) : Outcome β :=
  match o with
  | .ok a => f a
  | .err => .err
  | .panic => .panic
def map {α β : Type} (f : α → β) (o : Outcome α) : Outcome β :=
  match o with
  | .ok a => .ok (f a)
  | .err => .err
  | .panic => .panic
end Outcome

/-- ASCII bytes of a string literal (only used on ASCII literals). -/
def ascii (s : String) : Bytes := s.toList.map (fun c => UInt8.ofNat c.toNat)

end Tftp
