import Tftp.Model.Server
/-!
Executable model of `src/client.rs`: the request the bundled client sends, what it adopts from the OACK,
where a download is stored, and what it does with the first reply.
-/
namespace Tftp

structure ClientCfg where
  blocksize : Nat
  windowsize : Nat          -- u16
  timeoutS : Nat
  upload : Bool
  filePath : Bytes          -- already passed through `convert_file_path` by the argument parser
  recvDir : Bytes
deriving Repr, DecidableEq

def octet : Bytes := [111, 99, 116, 101, 116]

/-- `Path::file_name`: the last component, unless there is none or it is `..` -/
def fileName (p : Bytes) : Option Bytes :=
  match (components p).getLast? with
  | some c => if c = [dot, dot] then none else some c
  | none => none

/-- the request datagram (`upload()` / `download()`): the four options, in this order -/
def clientRequest (c : ClientCfg) (fileSize : Nat) : Option Packet :=
  let opts (ts : Nat) : List TransferOption :=
    [{ option := .blksize, value := c.blocksize }, { option := .windowsize, value := c.windowsize },
     { option := .timeout, value := c.timeoutS }, { option := .tsize, value := ts }]
  if c.upload then (fileName c.filePath).map fun n => .wrq n octet (opts fileSize)
  else some (.rrq c.filePath octet (opts 0))

/-- `verify_oack`: block size and window size are taken from the OACK (last occurrence wins) -/
def verifyOack (c : ClientCfg) : List TransferOption → ClientCfg
  | [] => c
  | o :: os =>
    match o.option with
    | .blksize => verifyOack { c with blocksize := o.value } os
    | .windowsize => verifyOack { c with windowsize := o.value % 65536 } os
    | _ => verifyOack c os

inductive ClientAction where
  | transfer (cfg : ClientCfg) (sendAck0 : Bool)   -- start the worker with these parameters
  | fail                                           -- report the error; no worker, no file
deriving Repr, DecidableEq

/-- reaction to the first reply -/
def clientOnReply (c : ClientCfg) : Packet → ClientAction
  | .oack os => .transfer (verifyOack c os) (!c.upload)
  | .ack _ => if c.upload then .transfer { c with blocksize := Gen.clientDefaultBlocksize,
                                                  windowsize := Gen.clientDefaultWindowsize,
                                                  timeoutS := Gen.clientDefaultTimeoutS } false
              else .fail
  | _ => .fail

/-- where a download is stored: `<receive-directory>/<basename of the requested path>` -/
def downloadTarget (c : ClientCfg) : Option Bytes :=
  (fileName c.filePath).map fun n => joinPath c.recvDir n

end Tftp
