import Tftp.Model.Basic
import Tftp.Generated
/-!
Executable model of `src/packet.rs` and `src/convert.rs`.

`decode` is written slice-for-slice like `Packet::deserialize` / `parse_rq` / `parse_data` /
`parse_ack` / `parse_oack` / `parse_error` and `Convert::{to_u16,to_string}`: every slice
`buf[a..]`, `buf[a..b]` and every subtraction carries its bounds check and yields
`Outcome.panic` when Rust would panic.  `encode` mirrors `Packet::serialize`.
-/
namespace Tftp

inductive OptionType where
  | blksize | tsize | timeout | windowsize
deriving Repr, DecidableEq

structure TransferOption where
  option : OptionType
  value : Nat
deriving Repr, DecidableEq

inductive Opcode where
  | rrq | wrq | data | ack | error | oack
deriving Repr, DecidableEq

inductive ErrorCode where
  | notDefined | fileNotFound | accessViolation | diskFull
  | illegalOperation | unknownId | fileExists | noSuchUser
deriving Repr, DecidableEq

inductive Packet where
  | rrq (filename mode : Bytes) (options : List TransferOption)
  | wrq (filename mode : Bytes) (options : List TransferOption)
  | data (blockNum : Nat) (data : Bytes)
  | ack (blockNum : Nat)
  | error (code : ErrorCode) (msg : Bytes)
  | oack (options : List TransferOption)
deriving Repr, DecidableEq

/-! ### tables (values come from `Generated.lean`, i.e. from the current source text) -/

def Opcode.toU16 : Opcode → Nat
  | .rrq => Gen.opcodeRrq | .wrq => Gen.opcodeWrq | .data => Gen.opcodeData
  | .ack => Gen.opcodeAck | .error => Gen.opcodeError | .oack => Gen.opcodeOack

/-- `Opcode::from_u16`: the match arms in source order. -/
def Opcode.ofU16 (n : Nat) : Option Opcode :=
  if n = Gen.fromOpcodeRrq then some .rrq
  else if n = Gen.fromOpcodeWrq then some .wrq
  else if n = Gen.fromOpcodeData then some .data
  else if n = Gen.fromOpcodeAck then some .ack
  else if n = Gen.fromOpcodeError then some .error
  else if n = Gen.fromOpcodeOack then some .oack
  else none

def ErrorCode.toU16 : ErrorCode → Nat
  | .notDefined => Gen.errNotDefined | .fileNotFound => Gen.errFileNotFound
  | .accessViolation => Gen.errAccessViolation | .diskFull => Gen.errDiskFull
  | .illegalOperation => Gen.errIllegalOperation | .unknownId => Gen.errUnknownId
  | .fileExists => Gen.errFileExists | .noSuchUser => Gen.errNoSuchUser

def ErrorCode.ofU16 (n : Nat) : Option ErrorCode :=
  if n = Gen.fromErrNotDefined then some .notDefined
  else if n = Gen.fromErrFileNotFound then some .fileNotFound
  else if n = Gen.fromErrAccessViolation then some .accessViolation
  else if n = Gen.fromErrDiskFull then some .diskFull
  else if n = Gen.fromErrIllegalOperation then some .illegalOperation
  else if n = Gen.fromErrUnknownId then some .unknownId
  else if n = Gen.fromErrFileExists then some .fileExists
  else if n = Gen.fromErrNoSuchUser then some .noSuchUser
  else none

def OptionType.name : OptionType → Bytes
  | .blksize => Gen.nameBlksize
  | .tsize => Gen.nameTsize
  | .timeout => Gen.nameTimeout
  | .windowsize => Gen.nameWindowsize

/-- `OptionType::from_str` (exact match, arms in source order). -/
def OptionType.ofName (s : Bytes) : Option OptionType :=
  if s = Gen.fromNameBlksize then some .blksize
  else if s = Gen.fromNameTsize then some .tsize
  else if s = Gen.fromNameTimeout then some .timeout
  else if s = Gen.fromNameWindowsize then some .windowsize
  else none

/-! ### strings -/

/-- UTF-8 validity as decided by `String::from_utf8` (RFC 3629 well-formedness: no overlong
forms, no surrogates, ≤ U+10FFFF).  Theorems never unfold this definition: they hold for any
validator; the correspondence check ties this one to Rust. -/
def validUtf8 : Bytes → Bool
  | [] => true
  | b0 :: rest =>
    if b0 < 0x80 then validUtf8 rest
    else if b0 < 0xC2 then false
    else if b0 < 0xE0 then
      match rest with
      | b1 :: r => (0x80 ≤ b1 && b1 ≤ 0xBF) && validUtf8 r
      | _ => false
    else if b0 < 0xF0 then
      match rest with
      | b1 :: b2 :: r =>
        let lo : UInt8 := if b0 = 0xE0 then 0xA0 else 0x80
        let hi : UInt8 := if b0 = 0xED then 0x9F else 0xBF
        (lo ≤ b1 && b1 ≤ hi) && (0x80 ≤ b2 && b2 ≤ 0xBF) && validUtf8 r
      | _ => false
    else if b0 < 0xF5 then
      match rest with
      | b1 :: b2 :: b3 :: r =>
        let lo : UInt8 := if b0 = 0xF0 then 0x90 else 0x80
        let hi : UInt8 := if b0 = 0xF4 then 0x8F else 0xBF
        (lo ≤ b1 && b1 ≤ hi) && (0x80 ≤ b2 && b2 ≤ 0xBF) && (0x80 ≤ b3 && b3 ≤ 0xBF) && validUtf8 r
      | _ => false
    else false

/-- `str::to_lowercase` restricted to what can make the result equal an ASCII option name:
ASCII `A`–`Z` fold to `a`–`z`, U+212A KELVIN SIGN (`E2 84 AA`) folds to `k`; every other
character keeps at least one byte ≥ 0x80 and can never match. -/
def lowerName : Bytes → Bytes
  | [] => []
  | 0xE2 :: 0x84 :: 0xAA :: rest => 0x6B :: lowerName rest
  | b :: rest => (if 0x41 ≤ b ∧ b ≤ 0x5A then b + 32 else b) :: lowerName rest

/-- first NUL: `(bytes before it, bytes after it)` -/
def splitZero : Bytes → Option (Bytes × Bytes)
  | [] => none
  | b :: rest =>
    if b = 0 then some ([], rest)
    else match splitZero rest with
      | some (s, r) => some (b :: s, r)
      | none => none

/-- `Convert::to_string(buf, start)` : `buf[start..]` panics when `start > len`. -/
def toStr (buf : Bytes) (start : Nat) : Outcome (Bytes × Nat) :=
  if start > buf.length then .panic
  else match splitZero (buf.drop start) with
    | none => .err
    | some (s, _) => if validUtf8 s then .ok (s, start + s.length) else .err

/-- `Convert::to_u16(slice)` -/
def toU16 (slice : Bytes) : Option Nat :=
  match slice with
  | b0 :: b1 :: _ => some (b0.toNat * 256 + b1.toNat)
  | _ => none

/-! ### decimal numbers -/

def digitsAux : Nat → Nat → List UInt8 → List UInt8
  | 0, _, acc => acc
  | fuel+1, n, acc =>
    let acc' := UInt8.ofNat (48 + n % 10) :: acc
    if n < 10 then acc' else digitsAux fuel (n / 10) acc'

/-- `usize::to_string` -/
def toDec (n : Nat) : Bytes := digitsAux (n + 1) n []

def parseDigits : Bytes → Nat → Option Nat
  | [], acc => some acc
  | b :: rest, acc =>
    if 48 ≤ b.toNat ∧ b.toNat ≤ 57 then parseDigits rest (acc * 10 + (b.toNat - 48)) else none

def stripPlus : Bytes → Bytes
  | 0x2B :: rest => rest
  | s => s

/-- `str::parse::<usize>()`: optional `+`, at least one ASCII digit, value `< 2^64`. -/
def parseUsize (s : Bytes) : Option Nat :=
  let ds := stripPlus s
  if ds.isEmpty then none
  else match parseDigits ds 0 with
    | some n => if n < Gen.usizeBound then some n else none
    | none => none

/-! ### encode -/

def u16be (n : Nat) : Bytes := [UInt8.ofNat (n / 256), UInt8.ofNat (n % 256)]

def TransferOption.encode (o : TransferOption) : Bytes :=
  o.option.name ++ [0] ++ toDec o.value ++ [0]

def encodeOptions (os : List TransferOption) : Bytes :=
  os.flatMap TransferOption.encode

def encode : Packet → Bytes
  | .rrq f m os => u16be Opcode.rrq.toU16 ++ f ++ [0] ++ m ++ [0] ++ encodeOptions os
  | .wrq f m os => u16be Opcode.wrq.toU16 ++ f ++ [0] ++ m ++ [0] ++ encodeOptions os
  | .data n d => u16be Opcode.data.toU16 ++ u16be n ++ d
  | .ack n => u16be Opcode.ack.toU16 ++ u16be n
  | .error c m => u16be Opcode.error.toU16 ++ u16be c.toU16 ++ m ++ [0]
  | .oack os => u16be Opcode.oack.toU16 ++ encodeOptions os

/-! ### decode -/

/-- The `while zero_index < buf.len() - 1` loop shared by `parse_rq` and `parse_oack`.
`fuel` bounds the number of iterations (each one advances `zero_index` by at least 2);
running out of fuel is reported as `panic` and proved unreachable (`c10_total`). -/
def parseOptions (buf : Bytes) : Nat → Nat → List TransferOption → Outcome (List TransferOption)
  | 0, _, _ => .panic
  | fuel+1, zi, acc =>
    if buf.length = 0 then .panic            -- `buf.len() - 1` underflow
    else if zi < buf.length - 1 then
      match toStr buf (zi + 1) with
      | .panic => .panic
      | .err => .err
      | .ok (name, zi1) =>
        match toStr buf (zi1 + 1) with
        | .panic => .panic
        | .err => .err
        | .ok (value, zi2) =>
          match OptionType.ofName (lowerName name) with
          | some t =>
            match parseUsize value with
            | some v => parseOptions buf fuel zi2 (acc ++ [{ option := t, value := v }])
            | none => .err
          | none => parseOptions buf fuel zi2 acc
    else .ok acc

def parseRq (buf : Bytes) (isRrq : Bool) : Outcome Packet :=
  match toStr buf 2 with
  | .panic => .panic
  | .err => .err
  | .ok (filename, zi) =>
    match toStr buf (zi + 1) with
    | .panic => .panic
    | .err => .err
    | .ok (mode, zi) =>
      match parseOptions buf (buf.length + 1) zi [] with
      | .panic => .panic
      | .err => .err
      | .ok os => .ok (if isRrq then .rrq filename mode os else .wrq filename mode os)

/-- `"(no message)"` -/
def noMessage : Bytes := [40, 110, 111, 32, 109, 101, 115, 115, 97, 103, 101, 41]

/-- `Packet::deserialize` -/
def decode (buf : Bytes) : Outcome Packet :=
  if buf.length < 2 then .err
  else match toU16 (buf.take 2) with
    | none => .err
    | some op =>
      match Opcode.ofU16 op with
      | none => .err
      | some .rrq => parseRq buf true
      | some .wrq => parseRq buf false
      | some .data =>
        match toU16 (buf.drop 2) with        -- `&buf[2..]` is in bounds: len ≥ 2
        | none => .err
        | some n => if 4 > buf.length then .panic else .ok (.data n (buf.drop 4))
      | some .ack =>
        match toU16 (buf.drop 2) with
        | none => .err
        | some n => .ok (.ack n)
      | some .oack =>
        match parseOptions buf (buf.length + 1) 1 [] with
        | .panic => .panic
        | .err => .err
        | .ok os => .ok (.oack os)
      | some .error =>
        match toU16 (buf.drop 2) with
        | none => .err
        | some c =>
          match ErrorCode.ofU16 c with
          | none => .err
          | some code =>
            match toStr buf 4 with
            | .panic => .panic
            | .ok (msg, _) => .ok (.error code msg)
            | .err => .ok (.error code noMessage)

end Tftp
