import Tftp.Model.Server
/-!
Executable model of `Config::new` (`src/config.rs`) and `ClientConfig::new` (`src/client_config.rs`):
one left-to-right pass over the argument tokens. `IpAddr::from_str` and `Path::exists` are external:
they enter as oracle predicates on the token (`ipOk`, `exists`).
-/
namespace Tftp

/-- `str::parse::<uN>()` for an unsigned type with `bound = 2^N` -/
def parseUnsigned (bound : Nat) (s : Bytes) : Option Nat :=
  let ds := stripPlus s
  if ds.isEmpty then none
  else match parseDigits ds 0 with
    | some n => if n < bound then some n else none
    | none => none

structure Oracles where
  ipOk : Bytes → Bool
  pathExists : Bytes → Bool

structure Cfg where
  ip : Option Bytes          -- `none` = default 127.0.0.1
  port : Nat
  dir : Option Bytes         -- `none` = current working directory
  recvDir : Bytes            -- empty = not given
  sendDir : Bytes
  singlePort : Bool
  readOnly : Bool
  dup : Nat
  overwrite : Bool
  cleanOnError : Bool
deriving Repr, DecidableEq

def Cfg.default : Cfg :=
  { ip := none, port := Gen.defaultPort, dir := none, recvDir := [], sendDir := [], singlePort := false,
    readOnly := false, dup := 0, overwrite := false, cleanOnError := true }

inductive CfgResult (α : Type) where
  | ok (c : α)
  | err
  | help            -- `-h`: prints the usage and exits the process with status 0
deriving Repr, DecidableEq

/-- flag spellings -/
def fI : List Bytes := [ascii "-i", ascii "--ip-address"]
def fP : List Bytes := [ascii "-p", ascii "--port"]
def fD : List Bytes := [ascii "-d", ascii "--directory"]
def fRD : List Bytes := [ascii "-rd", ascii "--receive-directory"]
def fSD : List Bytes := [ascii "-sd", ascii "--send-directory"]
def fS : List Bytes := [ascii "-s", ascii "--single-port"]
def fR : List Bytes := [ascii "-r", ascii "--read-only"]
def fH : List Bytes := [ascii "-h", ascii "--help"]
def fDup : List Bytes := [ascii "--duplicate-packets"]
def fOw : List Bytes := [ascii "--overwrite"]
def fKeep : List Bytes := [ascii "--keep-on-error"]

/-- the `while let Some(arg) = args.next()` loop of `Config::new` -/
def parseServerArgs (o : Oracles) : List Bytes → Cfg → CfgResult Cfg
  | [], c => .ok c
  | a :: rest, c =>
    if a ∈ fI then
      match rest with
      | v :: rest' => if o.ipOk v then parseServerArgs o rest' { c with ip := some v } else .err
      | [] => .err
    else if a ∈ fP then
      match rest with
      | v :: rest' => match parseUnsigned 65536 v with
        | some n => parseServerArgs o rest' { c with port := n }
        | none => .err
      | [] => .err
    else if a ∈ fD then
      match rest with
      | v :: rest' => if o.pathExists v then parseServerArgs o rest' { c with dir := some v } else .err
      | [] => .err
    else if a ∈ fRD then
      match rest with
      | v :: rest' => if o.pathExists v then parseServerArgs o rest' { c with recvDir := v } else .err
      | [] => .err
    else if a ∈ fSD then
      match rest with
      | v :: rest' => if o.pathExists v then parseServerArgs o rest' { c with sendDir := v } else .err
      | [] => .err
    else if a ∈ fS then parseServerArgs o rest { c with singlePort := true }
    else if a ∈ fR then parseServerArgs o rest { c with readOnly := true }
    else if a ∈ fH then .help
    else if a ∈ fDup then
      match rest with
      | v :: rest' => match parseUnsigned 256 v with
        | some n => if n = Gen.dupPacketsBound then .err else parseServerArgs o rest' { c with dup := n }
        | none => .err
      | [] => .err
    else if a ∈ fOw then parseServerArgs o rest { c with overwrite := true }
    else if a ∈ fKeep then parseServerArgs o rest { c with cleanOnError := false }
    else .err

/-- the fall-back after the loop: receive/send directory = `-d` when not given -/
structure FinalCfg where
  c : Cfg
  recv : Option Bytes      -- `none` = current working directory
  send : Option Bytes
deriving Repr, DecidableEq

def finish (c : Cfg) : FinalCfg :=
  { c := c, recv := if c.recvDir.isEmpty then c.dir else some c.recvDir,
    send := if c.sendDir.isEmpty then c.dir else some c.sendDir }

/-- `Config::new(args)`: the first token (program name) is skipped -/
def serverConfig (o : Oracles) (args : List Bytes) : CfgResult FinalCfg :=
  match parseServerArgs o args.tail Cfg.default with
  | .ok c => .ok (finish c)
  | .err => .err
  | .help => .help

/-! ### client -/

structure CCfg where
  ip : Option Bytes
  port : Nat
  blocksize : Nat
  windowsize : Nat
  timeoutS : Nat
  upload : Bool
  recvDir : Bytes
  filePath : Bytes
  cleanOnError : Bool
deriving Repr, DecidableEq

def CCfg.default : CCfg :=
  { ip := none, port := Gen.clientDefaultPort, blocksize := Gen.clientDefaultBlocksize,
    windowsize := Gen.clientDefaultWindowsize, timeoutS := Gen.clientDefaultTimeoutS, upload := false,
    recvDir := [], filePath := [], cleanOnError := true }

def fB : List Bytes := [ascii "-b", ascii "--blocksize"]
def fW : List Bytes := [ascii "-w", ascii "--windowsize"]
def fT : List Bytes := [ascii "-t", ascii "--timeout"]
def fU : List Bytes := [ascii "-u", ascii "--upload"]
def fDl : List Bytes := [ascii "-d", ascii "--download"]

/-- `ClientConfig::new`: note that the program name is *not* skipped (it is taken as a file name and
overwritten by any later positional argument) -/
def parseClientArgs (o : Oracles) : List Bytes → CCfg → CfgResult CCfg
  | [], c => .ok c
  | a :: rest, c =>
    if a ∈ fI then
      match rest with
      | v :: rest' => if o.ipOk v then parseClientArgs o rest' { c with ip := some v } else .err
      | [] => .err
    else if a ∈ fP then
      match rest with
      | v :: rest' => match parseUnsigned 65536 v with
        | some n => parseClientArgs o rest' { c with port := n }
        | none => .err
      | [] => .err
    else if a ∈ fB then
      match rest with
      | v :: rest' => match parseUnsigned Gen.usizeBound v with
        | some n => parseClientArgs o rest' { c with blocksize := n }
        | none => .err
      | [] => .err
    else if a ∈ fW then
      match rest with
      | v :: rest' => match parseUnsigned 65536 v with
        | some n => parseClientArgs o rest' { c with windowsize := n }
        | none => .err
      | [] => .err
    else if a ∈ fT then
      match rest with
      | v :: rest' => match parseUnsigned Gen.usizeBound v with
        | some n => parseClientArgs o rest' { c with timeoutS := n }
        | none => .err
      | [] => .err
    else if a ∈ fRD then
      match rest with
      | v :: rest' => if o.pathExists v then parseClientArgs o rest' { c with recvDir := v } else .err
      | [] => .err
    else if a ∈ fU then parseClientArgs o rest { c with upload := true }
    else if a ∈ fDl then parseClientArgs o rest { c with upload := false }
    else if a ∈ fKeep then parseClientArgs o rest { c with cleanOnError := false }
    else if a ∈ fH then .help
    else parseClientArgs o rest { c with filePath := convertFilePath a }

def clientConfig (o : Oracles) (args : List Bytes) : CfgResult CCfg := parseClientArgs o args CCfg.default

end Tftp
