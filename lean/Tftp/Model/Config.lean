import Tftp.Model.Server
/-!
Executable model of `Config::new` (`src/config.rs`) and `ClientConfig::new` (`src/client_config.rs`):
one left-to-right pass over the argument tokens. `IpAddr::from_str` and `Path::exists` are external:
they enter as oracle predicates on the token (`ipOk`, `exists`).
-/
namespace Tftp

/-- `str::parse::<uN>()` for an unsigned type with `bound = 2^N` -/
def parseUnsigned (bound : Nat) (s : Bytes) : Option Nat :=
  let ds := stripPlus s
  if ds.isEmpty then none
  else match parseDigits ds 0 with
    | some n => if n < bound then some n else none
    | none => none

structure Oracles where
  ipOk : Bytes → Bool
  pathExists : Bytes → Bool

structure Cfg where
  ip : Option Bytes          -- `none` = default 127.0.0.1
  port : Nat
  dir : Option Bytes         -- `none` = current working directory
  recvDir : Bytes            -- empty = not given
  sendDir : Bytes
  singlePort : Bool
  readOnly : Bool
  dup : Nat
  overwrite : Bool
  cleanOnError : Bool
deriving Repr, DecidableEq

def Cfg.default : Cfg :=
  { ip := none, port := Gen.defaultPort, dir := none, recvDir := [], sendDir := [], singlePort := false,
    readOnly := false, dup := 0, overwrite := false, cleanOnError := true }

inductive CfgResult (α : Type) where
  | ok (c : α)
  | err
  | help            -- `-h`: prints the usage and exits the process with status 0
deriving Repr, DecidableEq

/-- flag spellings -/
def fI : List Bytes := [[45, 105], [45, 45, 105, 112, 45, 97, 100, 100, 114, 101, 115, 115]]  -- -i --ip-address
def fP : List Bytes := [[45, 112], [45, 45, 112, 111, 114, 116]]  -- -p --port
def fD : List Bytes := [[45, 100], [45, 45, 100, 105, 114, 101, 99, 116, 111, 114, 121]]  -- -d --directory
def fRD : List Bytes := [[45, 114, 100], [45, 45, 114, 101, 99, 101, 105, 118, 101, 45, 100, 105, 114, 101, 99, 116, 111, 114, 121]]  -- -rd --receive-directory
def fSD : List Bytes := [[45, 115, 100], [45, 45, 115, 101, 110, 100, 45, 100, 105, 114, 101, 99, 116, 111, 114, 121]]  -- -sd --send-directory
def fS : List Bytes := [[45, 115], [45, 45, 115, 105, 110, 103, 108, 101, 45, 112, 111, 114, 116]]  -- -s --single-port
def fR : List Bytes := [[45, 114], [45, 45, 114, 101, 97, 100, 45, 111, 110, 108, 121]]  -- -r --read-only
def fH : List Bytes := [[45, 104], [45, 45, 104, 101, 108, 112]]  -- -h --help
def fDup : List Bytes := [[45, 45, 100, 117, 112, 108, 105, 99, 97, 116, 101, 45, 112, 97, 99, 107, 101, 116, 115]]  -- --duplicate-packets
def fOw : List Bytes := [[45, 45, 111, 118, 101, 114, 119, 114, 105, 116, 101]]  -- --overwrite
def fKeep : List Bytes := [[45, 45, 107, 101, 101, 112, 45, 111, 110, 45, 101, 114, 114, 111, 114]]  -- --keep-on-error

/-- the `while let Some(arg) = args.next()` loop of `Config::new` -/
def parseServerArgs (o : Oracles) : List Bytes → Cfg → CfgResult Cfg
  | [], c => .ok c
  | a :: rest, c =>
    if a ∈ fI then
      match rest with
      | v :: rest' => if o.ipOk v then parseServerArgs o rest' { c with ip := some v } else .err
      | [] => .err
    else if a ∈ fP then
      match rest with
      | v :: rest' => match parseUnsigned 65536 v with
        | some n => parseServerArgs o rest' { c with port := n }
        | none => .err
      | [] => .err
    else if a ∈ fD then
      match rest with
      | v :: rest' => if o.pathExists v then parseServerArgs o rest' { c with dir := some v } else .err
      | [] => .err
    else if a ∈ fRD then
      match rest with
      | v :: rest' => if o.pathExists v then parseServerArgs o rest' { c with recvDir := v } else .err
      | [] => .err
    else if a ∈ fSD then
      match rest with
      | v :: rest' => if o.pathExists v then parseServerArgs o rest' { c with sendDir := v } else .err
      | [] => .err
    else if a ∈ fS then parseServerArgs o rest { c with singlePort := true }
    else if a ∈ fR then parseServerArgs o rest { c with readOnly := true }
    else if a ∈ fH then .help
    else if a ∈ fDup then
      match rest with
      | v :: rest' => match parseUnsigned 256 v with
        | some n => if n = Gen.dupPacketsBound then .err else parseServerArgs o rest' { c with dup := n }
        | none => .err
      | [] => .err
    else if a ∈ fOw then parseServerArgs o rest { c with overwrite := true }
    else if a ∈ fKeep then parseServerArgs o rest { c with cleanOnError := false }
    else .err

/-- the fall-back after the loop: receive/send directory = `-d` when not given -/
structure FinalCfg where
  c : Cfg
  recv : Option Bytes      -- `none` = current working directory
  send : Option Bytes
deriving Repr, DecidableEq

def finish (c : Cfg) : FinalCfg :=
  { c := c, recv := if c.recvDir.isEmpty then c.dir else some c.recvDir,
    send := if c.sendDir.isEmpty then c.dir else some c.sendDir }

/-- `Config::new(args)`: the first token (program name) is skipped -/
def serverConfig (o : Oracles) (args : List Bytes) : CfgResult FinalCfg :=
  match parseServerArgs o args.tail Cfg.default with
  | .ok c => .ok (finish c)
  | .err => .err
  | .help => .help

/-! ### client -/

structure CCfg where
  ip : Option Bytes
  port : Nat
  blocksize : Nat
  windowsize : Nat
  timeoutS : Nat
  upload : Bool
  recvDir : Bytes
  filePath : Bytes
  cleanOnError : Bool
deriving Repr, DecidableEq

def CCfg.default : CCfg :=
  { ip := none, port := Gen.clientDefaultPort, blocksize := Gen.clientDefaultBlocksize,
    windowsize := Gen.clientDefaultWindowsize, timeoutS := Gen.clientDefaultTimeoutS, upload := false,
    recvDir := [], filePath := [], cleanOnError := true }

def fB : List Bytes := [[45, 98], [45, 45, 98, 108, 111, 99, 107, 115, 105, 122, 101]]  -- -b --blocksize
def fW : List Bytes := [[45, 119], [45, 45, 119, 105, 110, 100, 111, 119, 115, 105, 122, 101]]  -- -w --windowsize
def fT : List Bytes := [[45, 116], [45, 45, 116, 105, 109, 101, 111, 117, 116]]  -- -t --timeout
def fU : List Bytes := [[45, 117], [45, 45, 117, 112, 108, 111, 97, 100]]  -- -u --upload
def fDl : List Bytes := [[45, 100], [45, 45, 100, 111, 119, 110, 108, 111, 97, 100]]  -- -d --download

/-- `ClientConfig::new`: note that the program name is *not* skipped (it is taken as a file name and
overwritten by any later positional argument) -/
def parseClientArgs (o : Oracles) : List Bytes → CCfg → CfgResult CCfg
  | [], c => .ok c
  | a :: rest, c =>
    if a ∈ fI then
      match rest with
      | v :: rest' => if o.ipOk v then parseClientArgs o rest' { c with ip := some v } else .err
      | [] => .err
    else if a ∈ fP then
      match rest with
      | v :: rest' => match parseUnsigned 65536 v with
        | some n => parseClientArgs o rest' { c with port := n }
        | none => .err
      | [] => .err
    else if a ∈ fB then
      match rest with
      | v :: rest' => match parseUnsigned Gen.usizeBound v with
        | some n => parseClientArgs o rest' { c with blocksize := n }
        | none => .err
      | [] => .err
    else if a ∈ fW then
      match rest with
      | v :: rest' => match parseUnsigned 65536 v with
        | some n => parseClientArgs o rest' { c with windowsize := n }
        | none => .err
      | [] => .err
    else if a ∈ fT then
      match rest with
      | v :: rest' => match parseUnsigned Gen.usizeBound v with
        | some n => parseClientArgs o rest' { c with timeoutS := n }
        | none => .err
      | [] => .err
    else if a ∈ fRD then
      match rest with
      | v :: rest' => if o.pathExists v then parseClientArgs o rest' { c with recvDir := v } else .err
      | [] => .err
    else if a ∈ fU then parseClientArgs o rest { c with upload := true }
    else if a ∈ fDl then parseClientArgs o rest { c with upload := false }
    else if a ∈ fKeep then parseClientArgs o rest { c with cleanOnError := false }
    else if a ∈ fH then .help
    else parseClientArgs o rest { c with filePath := convertFilePath a }

def clientConfig (o : Oracles) (args : List Bytes) : CfgResult CCfg := parseClientArgs o args CCfg.default

end Tftp
