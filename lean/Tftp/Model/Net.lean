import Tftp.Model.Sender
import Tftp.Model.Receiver
/-!
Closed-loop simulator: the sender model and the receiver model connected by two FIFO queues with a
fault schedule (drop / duplicate, per datagram ordinal and direction). A time-out is delivered to every
running side only when both queues are empty (quiescence). Because each side is a deterministic
function of the sequence of events it receives and time-outs fire only at quiescence, the order in
which the two queues are served does not change what either side sees; the simulator serves DATA first.
-/
namespace Tftp

structure Faults where
  dropData : List Nat      -- ordinals (0-based, per direction) of datagrams that are lost
  dupData : List Nat       -- ordinals delivered twice
  dropAck : List Nat
  dupAck : List Nat
deriving Repr

def Faults.none : Faults := { dropData := [], dupData := [], dropAck := [], dupAck := [] }

structure NetState where
  s : SState
  r : RState
  dq : List (Nat × Bytes)  -- DATA in flight: (number, payload)
  aq : List Nat            -- ACK numbers in flight
  nd : Nat                 -- DATA datagrams emitted so far
  na : Nat                 -- ACK datagrams emitted so far
  timeouts : Nat           -- quiescent time-outs so far
deriving Repr

/-- apply the fault schedule to a batch of emitted datagrams starting at ordinal `n` -/
def applyFaults {α : Type} (drop dup : List Nat) : Nat → List α → List α
  | _, [] => []
  | n, x :: xs =>
    (if drop.contains n then [] else if dup.contains n then [x, x] else [x]) ++ applyFaults drop dup (n + 1) xs

def dataOf : List Packet → List (Nat × Bytes)
  | [] => []
  | .data n d :: ps => (n, d) :: dataOf ps
  | _ :: ps => dataOf ps

def emitData (fl : Faults) (st : NetState) (out : List Packet) : NetState :=
  let ds := dataOf out
  { st with dq := st.dq ++ applyFaults fl.dropData fl.dupData st.nd ds, nd := st.nd + ds.length }

def emitAcks (fl : Faults) (st : NetState) (out : List AckObs) : NetState :=
  let as := out.map (·.n)
  { st with aq := st.aq ++ applyFaults fl.dropAck fl.dupAck st.na as, na := st.na + as.length }

def senderRunning (s : SState) : Bool := s.status == .running || s.status == .handshake
def receiverRunning (r : RState) : Bool := r.status == .running

/-- one scheduling step; `none` when the run is over (both ended, or ended + nothing in flight) -/
def netStep (sc : SCfg) (rc : RCfg) (fl : Faults) (st : NetState) : Option NetState :=
  match st.dq with
  | (n, d) :: rest =>
    let st := { st with dq := rest }
    if receiverRunning st.r then
      let x := rStep rc st.r (.data n d)
      some (emitAcks fl { st with r := x.1 } x.2)
    else some st                       -- receiver gone: the datagram is discarded
  | [] =>
    match st.aq with
    | n :: rest =>
      let st := { st with aq := rest }
      if senderRunning st.s then
        let x := sStep sc st.s (.ack n) 0
        some (emitData fl { st with s := x.1 } x.2)
      else some st
    | [] =>
      if !senderRunning st.s && !receiverRunning st.r then none
      else
        -- quiescence: every running side times out
        let st := { st with timeouts := st.timeouts + 1 }
        let st := if receiverRunning st.r then { st with r := (rStep rc st.r .fail).1 } else st
        if senderRunning st.s then
          let x := sStep sc st.s .fail sc.timeout
          some (emitData fl { st with s := x.1 } x.2)
        else some st

def netRun (sc : SCfg) (rc : RCfg) (fl : Faults) : Nat → NetState → NetState
  | 0, st => st
  | fuel+1, st =>
    match netStep sc rc fl st with
    | none => st
    | some st' => netRun sc rc fl fuel st'

/-- a data-phase transfer of `f` from the sender model to the receiver model -/
def netInit (sc : SCfg) (rc : RCfg) (fl : Faults) (f : Bytes) : NetState :=
  let i := sInit sc f false
  emitData fl { s := i.1, r := rInit rc, dq := [], aq := [], nd := 0, na := 0, timeouts := 0 } i.2

end Tftp
