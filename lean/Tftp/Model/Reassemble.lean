import Tftp.Model.Codec
/-! The in-order reassembling client of property C01 (specification-level, not part of the code base). -/
namespace Tftp

structure RxClient where
  next : Nat       -- 1-based index of the block expected next
  acc : Bytes      -- bytes stored so far
  done : Bool      -- a short block has been accepted: the copy is complete
deriving Repr, DecidableEq

def RxClient.init : RxClient := { next := 1, acc := [], done := false }

/-- accepts a DATA datagram iff it carries the expected number; everything else is ignored -/
def RxClient.step (b : Nat) (s : RxClient) (p : Packet) : RxClient :=
  match p with
  | .data n d =>
    if s.done then s
    else if n = s.next % 65536 then { next := s.next + 1, acc := s.acc ++ d, done := d.length < b }
    else s
  | _ => s

def reassemble (b : Nat) (ps : List Packet) : RxClient := ps.foldl (RxClient.step b) RxClient.init

end Tftp
