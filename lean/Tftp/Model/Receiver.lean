import Tftp.Model.Window
import Tftp.Model.Codec
/-!
Executable model of `Worker::receive_file` and of the `receive()` wrapper
(`File::create`, and `fs::remove_file` on failure when `clean_on_error`).
-/
namespace Tftp

inductive REv where
  | data (n : Nat) (payload : Bytes)   -- `Ok(Packet::Data { .. })`
  | error                              -- `Ok(Packet::Error { .. })`
  | fail                               -- `Err(_)` or any other packet kind (the `_` arm)
deriving Repr, DecidableEq

inductive RStatus where
  | running | ok | failed
deriving Repr, DecidableEq

structure RCfg where
  b : Nat
  w : Nat
  rep : Nat
  cleanOnError : Bool
deriving Repr

structure RState where
  bn : Nat             -- block_number (u16): last in-sequence block accepted
  win : Window
  retry : Nat
  status : RStatus
  accepted : List Bytes  -- ghost: payloads accepted so far, oldest first (reversed storage: newest first)
deriving Repr

/-- an emitted ACK together with the file content at the instant of emission -/
structure AckObs where
  n : Nat
  file : FileSt        -- the file at the instant of emission (`file.content` are its bytes)
deriving Repr, DecidableEq

def ackOut (rep n : Nat) (file : FileSt) : List AckObs := List.replicate rep { n := n, file := file }

/-- `window.empty()?; self.send_packet(&Packet::Ack(block_number))?` -/
def flushAck (c : RCfg) (s : RState) : RState × List AckObs :=
  match s.win.empty with
  | (w', .ok _) => ({ s with win := w' }, ackOut c.rep s.bn w'.file)
  | (w', _) => ({ s with win := w', status := .failed }, [])

/-- `receive_file` returns `Ok(())` after the final block unless flushing failed -/
def markOk (r : RState × List AckObs) : RState × List AckObs :=
  (if r.1.status = .running then { r.1 with status := .ok } else r.1, r.2)

def rStep (c : RCfg) (s : RState) (ev : REv) : RState × List AckObs :=
  match s.status with
  | .running =>
    match ev with
    | .data n payload =>
      if n = (s.bn + 1) % 65536 then
        match s.win.add payload with
        | (w', .ok _) =>
          let s1 := { s with bn := n, win := w', retry := 0, accepted := payload :: s.accepted }
          if payload.length < c.b then
            -- final block: flush, acknowledge, done
            markOk (flushAck c s1)
          else if w'.isFull then
            -- window full: flush, acknowledge, next window (`retry_cnt = 0`)
            flushAck c s1
          else (s1, [])
        | (w', _) => ({ s with win := w', status := .failed }, [])
      else if n = s.bn && !s.win.isEmpty then
        -- a duplicate of the block just buffered (its acknowledgement is still to come): ignored
        (s, [])
      else
        -- out of sequence: flush what is pending and repeat the last acknowledgement
        flushAck c s
    | .error => ({ s with status := .failed }, [])
    | .fail =>
      let s := { s with retry := s.retry + 1 }
      if s.retry = Gen.maxRetries then ({ s with status := .failed }, []) else (s, [])
  | _ => (s, [])

def rInit (c : RCfg) : RState :=
  { bn := 0, win := Window.new c.w c.b FileSt.create, retry := 0, status := .running, accepted := [] }

/-- the worker on a target that can be created but not written (`ENOSPC`, `EFBIG`, ... on every non-empty `write_all`) -/
def rInitUnwritable (c : RCfg) : RState :=
  { rInit c with win := Window.new c.w c.b { FileSt.create with canWrite := false } }

def rRunFrom (c : RCfg) : RState → List REv → List (List AckObs) × RState
  | s, [] => ([], s)
  | s, e :: es =>
    let r := rStep c s e
    let rr := rRunFrom c r.1 es
    (r.2 :: rr.1, rr.2)

def rRun (c : RCfg) (evs : List REv) : List (List AckObs) × RState := rRunFrom c (rInit c) evs

/-- the file as left by the `receive()` wrapper once the worker has ended:
`none` = removed (failure with clean-on-error) -/
def rFinalFile (c : RCfg) (s : RState) : Option Bytes :=
  match s.status with
  | .failed => if c.cleanOnError then none else some s.win.file.content
  | _ => some s.win.file.content

end Tftp
