import Tftp.Model.Receiver
/-!
`receive_file` on a target with limited room (disk full, quota, `RLIMIT_FSIZE`): `room = none` is the unlimited target of
`Model/Receiver.lean` (proved equal in `Lemmas/ReceiverQ.lean`), `room = some r` takes `r` more bytes. `Window::empty` writes the
buffered blocks one `write_all` at a time; the first block that does not fit is written as far as it fits and the flush fails,
leaving the buffered blocks where they are.
-/
namespace Tftp

/-- the `for data in &self.elements { self.file.write_all(data)? }` loop against `room`; returns the file, the room left, success -/
def writeQ (f : FileSt) : Option Nat → List Bytes → FileSt × Option Nat × Bool
  | room, [] => (f, room, true)
  | none, d :: ds => writeQ (f.write d) none ds
  | some r, d :: ds =>
    if d.length ≤ r then writeQ (f.write d) (some (r - d.length)) ds
    else (f.write (d.take r), some 0, false)

/-- `window.empty()?; self.send_packet(&Packet::Ack(block_number))?` -/
def flushAckQ (c : RCfg) (s : RState) (room : Option Nat) : RState × Option Nat × List AckObs :=
  match writeQ s.win.file room s.win.elems with
  | (f', room', true) => ({ s with win := { s.win with elems := [], file := f' } }, room', ackOut c.rep s.bn f')
  | (f', room', false) => ({ s with win := { s.win with file := f' }, status := .failed }, room', [])

def markOkQ (r : RState × Option Nat × List AckObs) : RState × Option Nat × List AckObs :=
  (if r.1.status = .running then { r.1 with status := .ok } else r.1, r.2.1, r.2.2)

/-- `rStep` with the room threaded through (same structure, `flushAckQ` for `flushAck`) -/
def rStepQ (c : RCfg) (s : RState) (room : Option Nat) (ev : REv) : RState × Option Nat × List AckObs :=
  match s.status with
  | .running =>
    match ev with
    | .data n payload =>
      if n = (s.bn + 1) % 65536 then
        match s.win.add payload with
        | (w', .ok _) =>
          let s1 := { s with bn := n, win := w', retry := 0, accepted := payload :: s.accepted }
          if payload.length < c.b then markOkQ (flushAckQ c s1 room)
          else if w'.isFull then flushAckQ c s1 room
          else (s1, room, [])
        | (w', _) => ({ s with win := w', status := .failed }, room, [])
      else if n = s.bn && !s.win.isEmpty then (s, room, [])
      else flushAckQ c s room
    | .error => ({ s with status := .failed }, room, [])
    | .fail =>
      let s := { s with retry := s.retry + 1 }
      if s.retry = Gen.maxRetries then ({ s with status := .failed }, room, []) else (s, room, [])
  | _ => (s, room, [])

def rRunFromQ (c : RCfg) : RState → Option Nat → List REv → List (List AckObs) × RState × Option Nat
  | s, room, [] => ([], s, room)
  | s, room, e :: es =>
    let r := rStepQ c s room e
    let rr := rRunFromQ c r.1 r.2.1 es
    (r.2.2 :: rr.1, rr.2)

end Tftp
