import Tftp.Model.Window
import Tftp.Model.Codec
/-!
Executable model of `Worker::send_file` (+ `check_response`, `send_window`, `send_packet`).

One transition per receive attempt: `step cfg s ev dt` consumes what `socket.recv()` returned
(`ev`) after `dt` milliseconds and yields the packets emitted before the next `recv` (or the end).
-/
namespace Tftp

/-- what one `socket.recv()` call returns, as far as the worker distinguishes -/
inductive SEv where
  | ack (n : Nat)      -- `Ok(Packet::Ack(n))`
  | error              -- `Ok(Packet::Error { .. })`
  | other              -- `Ok(_)`: any other well-formed packet
  | fail               -- `Err(_)`: time-out, I/O error, undecodable datagram
deriving Repr, DecidableEq

inductive Status where
  | handshake          -- inside `check_response`, waiting for the reply to the OACK
  | running
  | ok                 -- `send_file` returned `Ok(())`
  | failed             -- `send_file` returned `Err(_)`
deriving Repr, DecidableEq

structure SCfg where
  b : Nat              -- blk_size
  w : Nat              -- windowsize (u16)
  timeout : Nat        -- ms
  rep : Nat            -- repeat_amount (u8)
deriving Repr

structure SState where
  bn : Nat             -- block_number (u16)
  win : Window
  filled : Bool
  retry : Nat
  since : Nat          -- ms since `time`
  status : Status
  base : Nat           -- ghost: absolute 1-based index of the block at the window front
deriving Repr

/-- `send_packet`: `repeat_amount` copies back to back -/
def sendPacket (rep : Nat) (p : Packet) : List Packet := List.replicate rep p

/-- `send_window` -/
def sendWindow (rep : Nat) (bn : Nat) : List Bytes → List Packet
  | [] => []
  | c :: cs => sendPacket rep (.data bn c) ++ sendWindow rep ((bn + 1) % 65536) cs

/-- head of the inner loop: `if time.elapsed() >= self.timeout { send_window; time = now }` -/
def sHead (c : SCfg) (s : SState) : SState × List Packet :=
  if s.since ≥ c.timeout then ({ s with since := 0 }, sendWindow c.rep s.bn s.win.elems) else (s, [])

/-- start of an outer iteration: `fill`, `retry_cnt = 0`, `time = now - (timeout + TIMEOUT_BUFFER)` -/
def sOuter (c : SCfg) (s : SState) : SState × List Packet :=
  match s.win.fill with
  | (w', .ok filled) =>
    sHead c { s with win := w', filled := filled, retry := 0, since := c.timeout + Gen.timeoutBufferMs }
  | (w', _) => ({ s with win := w', status := .failed }, [])

/-- in-window ACK: `block_number = ack + 1; window.remove(diff + 1)` -/
def slide (s : SState) (n diff : Nat) : SState :=
  { s with bn := (n + 1) % 65536, base := s.base + diff + 1,
           win := { s.win with elems := s.win.elems.drop (diff + 1) } }

def illegalOp : Packet := .error .illegalOperation (ascii "invalid oack response")

def sStep (c : SCfg) (s : SState) (ev : SEv) (dt : Nat) : SState × List Packet :=
  match s.status with
  | .handshake =>
    -- `check_response`
    match ev with
    | .ack n =>
      if n = 0 then sOuter c { s with status := .running }
      else ({ s with status := .failed }, [illegalOp])
    | .error => ({ s with status := .failed }, [])
    | .fail => ({ s with status := .failed }, [])
    | .other => sOuter c { s with status := .running }
  | .running =>
    let s := { s with since := s.since + dt }
    match ev with
    | .ack n =>
      let diff := (n + 65536 - s.bn) % 65536
      if diff < s.win.len then
        let s' := slide s n diff
        if !s'.filled && s'.win.isEmpty then ({ s' with status := .ok }, [])
        else sOuter c s'
      else sHead c s
    | .error => ({ s with status := .failed }, [])
    | _ =>
      let s := { s with retry := s.retry + 1 }
      if s.retry = Gen.maxRetries then ({ s with status := .failed }, []) else sHead c s
  | _ => (s, [])

def sInit (c : SCfg) (f : Bytes) (checkResponse : Bool) : SState × List Packet :=
  let s0 : SState := { bn := 1, win := Window.new c.w c.b (FileSt.openRead f), filled := true, retry := 0,
                       since := 0, status := .handshake, base := 1 }
  if checkResponse then (s0, []) else sOuter c { s0 with status := .running }

/-- all output groups: group 0 precedes the first `recv`, group `i` follows the `i`-th `recv` -/
def sRunFrom (c : SCfg) : SState → List (SEv × Nat) → List (List Packet) × SState
  | s, [] => ([], s)
  | s, e :: es =>
    let r := sStep c s e.1 e.2
    let rr := sRunFrom c r.1 es
    (r.2 :: rr.1, rr.2)

def sRun (c : SCfg) (f : Bytes) (chk : Bool) (evs : List (SEv × Nat)) : List (List Packet) × SState :=
  let i := sInit c f chk
  let rr := sRunFrom c i.1 evs
  (i.2 :: rr.1, rr.2)

end Tftp
