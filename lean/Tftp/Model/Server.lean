import Tftp.Model.Sender
import Tftp.Model.Receiver
/-!
Executable model of `src/server.rs`: what `Server::listen` does with one datagram
(`handle_rrq`, `handle_wrq`, `route_packet`, `convert_file_path`, `validate_file_path`,
`check_file_exists`, `parse_options`, `accept_request`) over an abstract file system.

Paths are byte strings as in the Rust `String`s; the fragment of `std::path` and of POSIX path
resolution that the code relies on is modelled here (no symlinks): `PathBuf::join` of a relative
path, component-wise resolution with empty and `.` components skipped.
-/
namespace Tftp

def slash : UInt8 := 0x2F
def backslash : UInt8 := 0x5C
def dot : UInt8 := 0x2E

/-- `filename.trim_start_matches(|c| c == '/' || c == '\\')` then `.replace('\\', "/")` (Unix) -/
def convertFilePath (name : Bytes) : Bytes :=
  (name.dropWhile (fun c => c == slash || c == backslash)).map (fun c => if c == backslash then slash else c)

/-- `PathBuf::join` with a path that is not absolute: a separator is inserted unless the base ends with one -/
def joinPath (dir rel : Bytes) : Bytes :=
  if dir.getLast? == some slash || dir.isEmpty then dir ++ rel else dir ++ [slash] ++ rel

/-- `str::contains("..")` -/
def hasDotDot : Bytes → Bool
  | a :: b :: rest => (a == dot && b == dot) || hasDotDot (b :: rest)
  | _ => false

/-- `validate_file_path`: for a path obtained by `join`ing a relative path onto the directory the
`ancestors().any(|a| a == directory)` clause is always true; what decides is the `..` test on the
whole string -/
def validateFilePath (file : Bytes) : Bool := !hasDotDot file

/-- path components as the kernel (and `Path::components`) sees them: split on `/`, skip empty and `.` -/
def splitOnSlash : Bytes → List Bytes
  | [] => [[]]
  | c :: rest =>
    match splitOnSlash rest with
    | [] => [[c]]   -- unreachable
    | cur :: more => if c == slash then [] :: cur :: more else (c :: cur) :: more

def components (p : Bytes) : List Bytes :=
  (splitOnSlash p).filter (fun s => !s.isEmpty && s != [dot])

/-- does the string force its target to be a directory (`x/`, `x/.`)? -/
def mustBeDir (p : Bytes) : Bool :=
  match (splitOnSlash p).getLast? with
  | some last => last.isEmpty || last == [dot]
  | none => false

inductive FsNode where
  | file (content : Bytes)
  | dir
deriving Repr, DecidableEq

/-- a file system: absolute component lists of everything that exists (directories included) -/
abbrev Fs := List (List Bytes × FsNode)

/-- `NAME_MAX`: a longer component makes every system call fail with `ENAMETOOLONG` -/
def nameMax : Nat := 255

def Fs.lookup (fs : Fs) (cs : List Bytes) : Option FsNode :=
  if cs.isEmpty then some .dir
  else if cs.any (fun c => c.length > nameMax) then none
  else (fs.find? (fun e => e.1 == cs)).map (·.2)

/-- `Path::exists` / `stat` -/
def Fs.stat (fs : Fs) (p : Bytes) : Option FsNode :=
  match fs.lookup (components p) with
  | some (.file c) => if mustBeDir p then none else some (.file c)
  | r => r

def Fs.set (fs : Fs) (cs : List Bytes) (n : FsNode) : Fs :=
  (fs.filter (fun e => e.1 != cs)) ++ [(cs, n)]

def Fs.remove (fs : Fs) (cs : List Bytes) : Fs := fs.filter (fun e => e.1 != cs)

/-- can `File::create(p)` succeed: the parent is an existing directory and the target is not a directory -/
def Fs.canCreate (fs : Fs) (p : Bytes) : Bool :=
  let cs := components p
  if cs.isEmpty || mustBeDir p || cs.any (fun c => c.length > nameMax) then false
  else match fs.lookup cs.dropLast, fs.lookup cs with
    | some .dir, some .dir => false
    | some .dir, _ => true
    | _, _ => false

structure SrvCfg where
  singlePort : Bool
  readOnly : Bool
  overwrite : Bool
  cleanOnError : Bool
  dup : Nat                -- duplicate_packets
  sendDir : Bytes
  recvDir : Bytes
deriving Repr

structure WorkerOptions where
  blockSize : Nat
  transferSize : Nat
  timeoutS : Nat
  windowSize : Nat
deriving Repr, DecidableEq

inductive ReqType where
  | read (size : Nat)
  | write
deriving Repr, DecidableEq

/-- `parse_options`: returns the worker options and the (possibly rewritten) option list, or `none`
for `Err(..)` -/
def parseOptionsLoop (rt : ReqType) : List TransferOption → WorkerOptions → List TransferOption →
    Option (WorkerOptions × List TransferOption)
  | [], wo, acc => some (wo, acc.reverse)
  | o :: rest, wo, acc =>
    match o.option with
    | .blksize =>
      if Gen.blksizeChecked && (o.value < Gen.blksizeMin || o.value > Gen.blksizeMax) then none
      else parseOptionsLoop rt rest { wo with blockSize := o.value } (o :: acc)
    | .tsize =>
      match rt with
      | .read size => parseOptionsLoop rt rest { wo with transferSize := size } ({ o with value := size } :: acc)
      | .write => parseOptionsLoop rt rest { wo with transferSize := o.value } (o :: acc)
    | .timeout =>
      if o.value = 0 || o.value > Gen.timeoutMax then none
      else parseOptionsLoop rt rest { wo with timeoutS := o.value } (o :: acc)
    | .windowsize =>
      if o.value = 0 || o.value > 65535 then none
      else parseOptionsLoop rt rest { wo with windowSize := o.value } (o :: acc)

def defaultOptions : WorkerOptions :=
  { blockSize := Gen.defaultBlockSize, transferSize := 0, timeoutS := Gen.defaultTimeoutS,
    windowSize := Gen.defaultWindowSize }

def parseWorkerOptions (os : List TransferOption) (rt : ReqType) : Option (WorkerOptions × List TransferOption) :=
  parseOptionsLoop rt os defaultOptions []

inductive Src where
  | listener      -- sent from the listening socket
  | transfer      -- sent from the transfer's own socket (= the listening port in single-port mode)
deriving Repr, DecidableEq

inductive WorkerKind where
  | send | receive
deriving Repr, DecidableEq

structure WorkerSpec where
  kind : WorkerKind
  path : Bytes
  opts : WorkerOptions
  checkResponse : Bool     -- `worker.send(!options.is_empty())`
  rep : Nat
deriving Repr

/-- everything `listen` does in reaction to one datagram -/
structure Reaction where
  reply : Option (Src × Packet)
  worker : Option WorkerSpec
deriving Repr

def noReaction : Reaction := { reply := none, worker := none }

def errorReply (code : ErrorCode) : Reaction :=
  { reply := some (.listener, .error code []), worker := none }   -- message text is not modelled

/-- `check_file_exists` -/
def checkFileExists (fs : Fs) (file : Bytes) : ErrorCode :=
  if !validateFilePath file then .accessViolation
  else if (fs.stat file).isNone then .fileNotFound
  else .fileExists

def fileSize (fs : Fs) (p : Bytes) : Nat :=
  match fs.stat p with
  | some (.file c) => c.length
  | _ => 4096        -- `metadata().len()` of a directory (ext4/tmpfs differ; only used for `tsize`)

def handleRrq (cfg : SrvCfg) (fs : Fs) (filename : Bytes) (options : List TransferOption) : Reaction :=
  let path := joinPath cfg.sendDir (convertFilePath filename)
  match checkFileExists fs path with
  | .fileNotFound => errorReply .fileNotFound
  | .accessViolation => errorReply .accessViolation
  | .fileExists =>
    match parseWorkerOptions options (.read (fileSize fs path)) with
    | none => noReaction
    | some (wo, opts') =>
      { reply := if opts'.isEmpty then none else some (.transfer, .oack opts'),
        worker := some { kind := .send, path := path, opts := wo, checkResponse := !opts'.isEmpty,
                         rep := cfg.dup + 1 } }
  | _ => noReaction

def handleWrq (cfg : SrvCfg) (fs : Fs) (filename : Bytes) (options : List TransferOption) : Reaction :=
  let path := joinPath cfg.recvDir (convertFilePath filename)
  let initializeWrite : Reaction :=
    match parseWorkerOptions options .write with
    | none => noReaction
    | some (wo, opts') =>
      { reply := some (.transfer, if opts'.isEmpty then .ack 0 else .oack opts'),
        worker := some { kind := .receive, path := path, opts := wo, checkResponse := false,
                         rep := cfg.dup + 1 } }
  match checkFileExists fs path with
  | .fileExists => if cfg.overwrite then initializeWrite else errorReply .fileExists
  | .accessViolation => errorReply .accessViolation
  | .fileNotFound => initializeWrite
  | _ => noReaction

/-- `listen` on a datagram from an endpoint that owns no transfer -/
def handleDatagram (cfg : SrvCfg) (fs : Fs) (largest : Nat) (dgram : Bytes) : Reaction :=
  let bufSize := (if cfg.singlePort then largest else Gen.maxRequestPacketSize) + 4
  match decode (dgram.take bufSize) with
  | .ok (.rrq filename _ options) => handleRrq cfg fs filename options
  | .ok (.wrq filename _ options) =>
    if cfg.readOnly then errorReply .accessViolation else handleWrq cfg fs filename options
  | .ok _ => errorReply .illegalOperation      -- `route_packet` finds no client
  | _ => noReaction                            -- undecodable: ignored

end Tftp
