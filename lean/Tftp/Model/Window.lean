import Tftp.Model.Basic
/-!
Executable model of `src/window.rs` (public `Window` API over a `File`).

The file is modelled by what this one handle can observe: the bytes still ahead of the cursor
(`rest`), the initial content, and the chunks written through the handle.  Three open modes are
distinguished, the ones the code base uses: `File::open` (read only), `File::create` (write only,
truncated) and read+append (the unit tests).  A regular file's `read` returns
`min(n, remaining)` bytes (short read ⇔ end of file) — modelled, not verified.
-/
namespace Tftp

structure FileSt where
  initial : Bytes              -- content when the handle was opened (after truncation for `create`)
  rest : Bytes                 -- bytes ahead of the read cursor
  writtenRev : List Bytes      -- chunks written through this handle, newest first
  wlen : Nat                   -- total number of bytes written through this handle
  canRead : Bool
  canWrite : Bool
deriving Repr, DecidableEq

def FileSt.content (f : FileSt) : Bytes := f.initial ++ f.writtenRev.reverse.flatten

/-- `File::open(path)` on a file holding `c` -/
def FileSt.openRead (c : Bytes) : FileSt :=
  { initial := c, rest := c, writtenRev := [], wlen := 0, canRead := true, canWrite := false }
/-- `File::create(path)` -/
def FileSt.create : FileSt :=
  { initial := [], rest := [], writtenRev := [], wlen := 0, canRead := false, canWrite := true }
/-- `OpenOptions::new().read(true).append(true).create(true)` on a file holding `c` -/
def FileSt.openAppend (c : Bytes) : FileSt :=
  { initial := c, rest := c, writtenRev := [], wlen := 0, canRead := true, canWrite := true }

/-- `write_all`: appends (both writable modes write at the end) and leaves the cursor at the end;
an empty buffer performs no system call at all (no effect, cannot fail) -/
def FileSt.write (f : FileSt) (d : Bytes) : FileSt :=
  if d.isEmpty then f
  else { f with writtenRev := d :: f.writtenRev, wlen := f.wlen + d.length, rest := [] }

structure Window where
  elems : List Bytes
  size : Nat                   -- u16
  chunk : Nat                  -- usize
  file : FileSt
  eof : Bool                   -- set by `fill` once it has handed out the short (final) piece
deriving Repr, DecidableEq

def Window.new (size chunk : Nat) (file : FileSt) : Window :=
  { elems := [], size := size, chunk := chunk, file := file, eof := false }

/-- `self.elements.len() as u16` -/
def Window.len (w : Window) : Nat := w.elems.length % 65536
def Window.isEmpty (w : Window) : Bool := w.elems.isEmpty
def Window.isFull (w : Window) : Bool := w.elems.length % 65536 == w.size

/-- the `for _ in self.len()..self.size` loop of `fill` with `n` iterations left;
returns `(elements, rest of file, filled?)` -/
def fillLoop (b : Nat) : Nat → List Bytes → Bytes → (List Bytes × Bytes × Bool)
  | 0, es, rest => (es, rest, true)
  | n+1, es, rest =>
    let c := rest.take b
    if c.length ≠ b then (es ++ [c], rest.drop b, false)
    else fillLoop b n (es ++ [c]) (rest.drop b)

/-- `Window::fill` — `Ok(true)`: window full, more data may follow; `Ok(false)`: the final
(short) piece has been handed out (now or earlier). -/
def Window.fill (w : Window) : Window × Outcome Bool :=
  if w.eof then (w, .ok false)
  else
    let n := w.size - w.len
    if n = 0 then (w, .ok true)
    else if !w.file.canRead then (w, .err)
    else
      let r := fillLoop w.chunk n w.elems w.file.rest
      ({ w with elems := r.1, file := { w.file with rest := r.2.1 }, eof := !r.2.2 }, .ok r.2.2)

/-- `Window::empty` -/
def Window.empty (w : Window) : Window × Outcome Unit :=
  if !w.file.canWrite && w.elems.any (fun d => !d.isEmpty) then (w, .err)   -- first non-empty `write_all` fails
  else ({ w with elems := [], file := w.elems.foldl FileSt.write w.file }, .ok ())

/-- `Window::remove(amount)` -/
def Window.remove (w : Window) (amount : Nat) : Window × Outcome Unit :=
  if amount > w.len then (w, .err)
  else ({ w with elems := w.elems.drop amount }, .ok ())

/-- `Window::add(data)` -/
def Window.add (w : Window) (d : Bytes) : Window × Outcome Unit :=
  if w.len = w.size then (w, .err)
  else ({ w with elems := w.elems ++ [d] }, .ok ())

end Tftp
