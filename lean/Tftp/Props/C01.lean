import Tftp.Lemmas.SenderStep
import Tftp.Model.Reassemble
import Tftp.Props.C11
import Tftp.Lemmas.Net
import Tftp.Lemmas.NetTotal
import Tftp.Lemmas.NetSafe
/-!
# C01 — Download fidelity

`sRun c f chk evs` is the whole observable behaviour of `Worker::send_file` on file `f` for the
receive history `evs` (every list of ACK numbers — also bogus ones —, ERRORs, stray packets, failed
receives and elapsed times), with (`chk = true`) or without the OACK handshake.
-/
namespace Tftp

/-- Every datagram the sender ever emits — for every file, block size ≥ 1, window size ≤ 65535,
repeat count and receive history — is DATA `(k mod 65536, bytes [(k-1)·b, k·b) of the file)` for
some `1 ≤ k ≤ N` (or the one ERROR 4 of the handshake). -/
theorem c01_data_is_slice (c : SCfg) (hb : 0 < c.b) (hw : c.w < 65536) (f : Bytes) (chk : Bool)
    (evs : List (SEv × Nat)) :
    ∀ g ∈ (sRun c f chk evs).1, ∀ p ∈ g, GoodPkt c f p :=
  (run_good hb hw f chk evs).2

/-- `blk k` is literally the file bytes `[(k-1)·b, k·b)` -/
theorem c01_blk_is_file_range (b : Nat) (f : Bytes) (k : Nat) :
    blk b f k = (f.drop ((k - 1) * b)).take b := rfl

/-- the last block of the transfer is the first one shorter than `blksize`
(empty when the size is an exact multiple); nothing beyond it is ever sent (`k ≤ N` above) -/
theorem c01_last_is_first_short (b : Nat) (hb : 0 < b) (f : Bytes) (k : Nat) (hk1 : 1 ≤ k)
    (hk : k ≤ nblocks b f) : (blk b f k).length < b ↔ k = nblocks b f :=
  blk_length_lt_iff b hb f k hk1 hk

theorem c01_exact_multiple_ends_empty (b : Nat) (hb : 0 < b) (f : Bytes) (h : f.length % b = 0) :
    blk b f (nblocks b f) = [] := by
  unfold blk nblocks slice
  have : (f.length / b + 1 - 1) * b = f.length := by
    have := Nat.div_add_mod f.length b
    rw [Nat.mul_comm]; simp; omega
  rw [this]
  simp

/-- on the wire: opcode 3, block number big-endian, then exactly the payload -/
theorem c01_wire_layout (n : Nat) (d : Bytes) :
    encode (.data n d) = [0, 3, UInt8.ofNat (n / 256), UInt8.ofNat (n % 256)] ++ d :=
  c11_layout_data n d

/-! ### reassembly: any loss, duplication and reordering of the emitted datagrams -/

structure RxInv (b : Nat) (f : Bytes) (r : RxClient) : Prop where
  pos : 1 ≤ r.next
  acc_eq : r.acc = f.take ((r.next - 1) * b)
  done_all : r.done = true → r.next - 1 = nblocks b f
  open_lt : r.done = false → r.next - 1 < nblocks b f

theorem rx_step_inv (c : SCfg) (hb : 0 < c.b) (f : Bytes) (hN : nblocks c.b f ≤ 65535) (r : RxClient)
    (p : Packet) (hp : GoodPkt c f p) (h : RxInv c.b f r) : RxInv c.b f (RxClient.step c.b r p) := by
  rcases hp with ⟨k, hk1, hkN, rfl⟩ | rfl
  · unfold RxClient.step
    simp only
    split
    · exact h
    · rename_i hdone
      have hd : r.done = false := by simpa using hdone
      have hlt := h.open_lt hd
      have hpos := h.pos
      split
      · rename_i heq
        have hk : r.next = k := by
          have h1 : k % 65536 = k := Nat.mod_eq_of_lt (by omega)
          have h2 : r.next % 65536 = r.next := Nat.mod_eq_of_lt (by omega)
          omega
        have hshort := blk_length_lt_iff c.b hb f k hk1 hkN
        refine ⟨by simp, ?_, ?_, ?_⟩
        · simp only [Nat.add_sub_cancel]
          rw [h.acc_eq, hk]
          have := take_succ_block c.b f (k - 1)
          unfold blk
          rw [this]
          congr 2; omega
        · intro hdn
          simp only [decide_eq_true_eq] at hdn
          simp only [Nat.add_sub_cancel]
          rw [hk]
          exact hshort.mp hdn
        · intro hdn
          simp only [decide_eq_false_iff_not] at hdn
          simp only [Nat.add_sub_cancel]
          rw [hk]
          have : k ≠ nblocks c.b f := fun he => hdn (hshort.mpr he)
          omega
      · exact h
  · exact h

/-- **Reassembly (transfers of at most 65535 blocks).** Take the datagrams the sender emitted under
any receive history, apply any loss, duplication and reordering (`ps` is *any* list drawn from
them): a client that reassembles in-order blocks holds a prefix of the file made of whole blocks,
and when it considers the copy complete the copy is byte-identical. Never a corrupted one. -/
theorem c01_reassembly_small (c : SCfg) (hb : 0 < c.b) (hw : c.w < 65536) (f : Bytes) (chk : Bool)
    (evs : List (SEv × Nat)) (hN : nblocks c.b f ≤ 65535) (ps : List Packet)
    (hsub : ∀ p ∈ ps, ∃ g ∈ (sRun c f chk evs).1, p ∈ g) :
    (reassemble c.b ps).acc = f.take (((reassemble c.b ps).next - 1) * c.b) ∧
    ((reassemble c.b ps).done = true → (reassemble c.b ps).acc = f) := by
  have hgood : ∀ p ∈ ps, GoodPkt c f p := by
    intro p hp
    obtain ⟨g, hg, hpg⟩ := hsub p hp
    exact c01_data_is_slice c hb hw f chk evs g hg p hpg
  have key : ∀ (ps : List Packet) (r : RxClient), (∀ p ∈ ps, GoodPkt c f p) → RxInv c.b f r →
      RxInv c.b f (ps.foldl (RxClient.step c.b) r) := by
    intro ps
    induction ps with
    | nil => intro r _ h; exact h
    | cons p ps ih =>
      intro r hg h
      simp only [List.foldl_cons]
      exact ih _ (fun q hq => hg q (by simp [hq])) (rx_step_inv c hb f hN r p (hg p (by simp)) h)
  have h0 : RxInv c.b f RxClient.init := by
    refine ⟨by simp [RxClient.init], by simp [RxClient.init], by simp [RxClient.init], ?_⟩
    intro _; simp [RxClient.init, nblocks]
  have hinv : RxInv c.b f (reassemble c.b ps) := key ps _ hgood h0
  refine ⟨hinv.acc_eq, ?_⟩
  intro hd
  rw [hinv.acc_eq, hinv.done_all hd]
  apply List.take_of_length_le
  unfold nblocks
  have := Nat.div_add_mod f.length c.b
  have := Nat.mod_lt f.length hb
  rw [Nat.add_mul, Nat.mul_comm]
  omega

/-! non-vacuity: a concrete run -/
example : (sRun { b := 2, w := 2, timeout := 5000, rep := 1 } [1, 2, 3] false [(.ack 1, 0), (.ack 2, 0)]).1 =
    [[.data 1 [1, 2], .data 2 [3]], [.data 2 [3]], []] := by decide

end Tftp

namespace Tftp

/-- **never a corrupted copy, in the closed loop**: the download's receiver (the bundled client's
`receive_file`, or any receiver that behaves like the model) fed by this sender through a network that
loses and duplicates datagrams at will ends with a byte-identical copy or with no completed copy -/
theorem c01_closed_loop_no_corruption (sc : SCfg) (rc : RCfg) (hb : 0 < sc.b) (hw1 : 1 ≤ sc.w) (hw : sc.w < 65536)
    (hrb : rc.b = sc.b) (hrw : rc.w = sc.w) (fl : Faults) (f : Bytes) (hN : nblocks sc.b f ≤ 65535) (fuel : Nat) :
    (netRun sc rc fl fuel (netInit sc rc fl f)).r.status = .ok →
      (netRun sc rc fl fuel (netInit sc rc fl f)).r.win.file.content = f :=
  (closed_loop_safety sc rc hb hw1 hw hrb hrw fl f hN fuel).2

end Tftp

namespace Tftp

/-- **the outcome of a download through a lossy network, any length**: for every file (no bound on the number of
blocks), block size, window size and every schedule of lost and duplicated datagrams, the closed loop ends, and
at its end the receiving side either holds a byte-identical copy and reports success, or reports failure - it
never reports success with anything else -/
theorem c01_closed_loop_outcome (sc : SCfg) (rc : RCfg) (hb : 0 < sc.b) (hw1 : 1 ≤ sc.w) (hw : sc.w < 65536)
    (hrep : sc.rep = 1) (ht : 0 < sc.timeout) (hrb : rc.b = sc.b) (hrw : rc.w = sc.w) (hrrep : rc.rep = 1)
    (fl : Faults) (f : Bytes) :
    ∃ fuel,
      ((netRun sc rc fl fuel (netInit sc rc fl f)).r.status = .ok ∧
        (netRun sc rc fl fuel (netInit sc rc fl f)).r.win.file.content = f) ∨
      (netRun sc rc fl fuel (netInit sc rc fl f)).r.status = .failed := by
  obtain ⟨fuel, h⟩ := closed_loop_total sc rc ⟨⟨hb, hw1, hw, hrep, hrb, hrw, hrrep⟩, ht⟩ fl f
  refine ⟨fuel, ?_⟩
  rcases h with ⟨h1, h2, _⟩ | ⟨h1, _⟩
  · exact Or.inl ⟨h1, h2⟩
  · exact Or.inr h1

end Tftp

namespace Tftp

/-- **never a wrong copy reported complete - at any moment, for any length**: for every file (no bound on the
number of blocks, so also beyond the 16-bit wrap), block size, window size, every schedule of lost and duplicated
datagrams and every number of steps of the closed loop: if the receiving side reports success, its file is
byte-identical to the sender's. (`c01_closed_loop_no_corruption` says the same, and more about the accepted
prefix, for at most 65535 blocks; this theorem removes the bound.) -/
theorem c01_never_a_wrong_copy (sc : SCfg) (rc : RCfg) (hb : 0 < sc.b) (hw1 : 1 ≤ sc.w) (hw : sc.w < 65536)
    (hrep : sc.rep = 1) (ht : 0 < sc.timeout) (hrb : rc.b = sc.b) (hrw : rc.w = sc.w) (hrrep : rc.rep = 1)
    (fl : Faults) (f : Bytes) (fuel : Nat) :
    (netRun sc rc fl fuel (netInit sc rc fl f)).r.status = .ok →
      (netRun sc rc fl fuel (netInit sc rc fl f)).r.win.file.content = f :=
  closed_loop_never_wrong sc rc ⟨⟨hb, hw1, hw, hrep, hrb, hrw, hrrep⟩, ht⟩ fl f fuel

end Tftp

namespace Tftp

/-- **what has been accepted is always a prefix of the file - at every moment, for any length**: for every file
(no bound on the number of blocks), block size, window size, every schedule of lost and duplicated datagrams and
every number of steps of the closed loop, the blocks the receiving side has accepted so far are exactly blocks
`1..j` of the sender's file, in order. (This removes the 65535-block bound of `c01_closed_loop_no_corruption` for
the FIFO closed loop; the open-system statement with reordering keeps the bound.) -/
theorem c01_accepted_prefix_any_length (sc : SCfg) (rc : RCfg) (hb : 0 < sc.b) (hw1 : 1 ≤ sc.w) (hw : sc.w < 65536)
    (hrep : sc.rep = 1) (ht : 0 < sc.timeout) (hrb : rc.b = sc.b) (hrw : rc.w = sc.w) (hrrep : rc.rep = 1)
    (fl : Faults) (f : Bytes) (fuel : Nat) :
    (netRun sc rc fl fuel (netInit sc rc fl f)).r.received =
      blocksUpTo sc.b f (netRun sc rc fl fuel (netInit sc rc fl f)).r.received.length :=
  closed_loop_accepted_prefix sc rc ⟨⟨hb, hw1, hw, hrep, hrb, hrw, hrrep⟩, ht⟩ fl f fuel

end Tftp
