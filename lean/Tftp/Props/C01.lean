import Tftp.Model.Sender
import Tftp.Model.Receiver
