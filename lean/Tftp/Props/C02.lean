import Tftp.Lemmas.Receiver
import Tftp.Lemmas.Sender
/-!
# C02 — Upload fidelity: stored file = in-order blocks once each; ACK implies stored

`RReach c s`: `s` is reachable by `receive_file` under *some* arrival history — any sequence of DATA
datagrams with arbitrary numbers and payloads (duplicates, reordering, blocks from the future),
peer ERRORs, and failed receives (time-outs, undecodable datagrams, stray ACK/OACK/requests).
-/
namespace Tftp

inductive RReach (c : RCfg) : RState → Prop where
  | init : RReach c (rInit c)
  | step (s : RState) (ev : REv) : RReach c s → RReach c (rStep c s ev).1

theorem rreach_inv (c : RCfg) (hw1 : 1 ≤ c.w) (hw : c.w < 65536) (s : RState) (h : RReach c s) : RInv c s := by
  induction h with
  | init => exact rInit_inv c hw1
  | step s ev _ ih => exact (rStep_good c hw s ih ev).1

/-- **ACK implies stored, and only in-sequence blocks are acknowledged.** In every reachable state, for
every next event: each ACK the receiver emits carries `K mod 65536` where `K` is the number of blocks
received in sequence so far, and at that instant the file on disk already equals the concatenation
of those `K` payloads in order (nothing is left pending in memory). -/
theorem c02_ack_implies_stored (c : RCfg) (hw1 : 1 ≤ c.w) (hw : c.w < 65536) (s : RState) (h : RReach c s)
    (ev : REv) :
    ∀ a ∈ (rStep c s ev).2,
      a.n = (rStep c s ev).1.received.length % 65536 ∧
      a.file.content = (rStep c s ev).1.received.flatten ∧
      (rStep c s ev).1.win.elems = [] := by
  intro a ha
  have := (rStep_good c hw s (rreach_inv c hw1 hw s h) ev).2.1 a ha
  simpa [RState.received] using this

/-- **each block once, in order.** The list of accepted payloads changes only by appending the payload
of a DATA datagram whose number is (count so far + 1) mod 65536; duplicates, blocks from the future,
stray packets and failures never reach the file. -/
theorem c02_accept_in_sequence (c : RCfg) (hw1 : 1 ≤ c.w) (hw : c.w < 65536) (s : RState) (h : RReach c s)
    (ev : REv) :
    (rStep c s ev).1.received = s.received ∨
    ∃ n p, ev = .data n p ∧ n = (s.received.length + 1) % 65536 ∧ (rStep c s ev).1.received = s.received ++ [p] := by
  rcases (rStep_good c hw s (rreach_inv c hw1 hw s h) ev).2.2 with h1 | ⟨n, p, h1, h2, h3⟩
  · left; unfold RState.received; rw [h1]
  · right
    refine ⟨n, p, h1, by simpa [RState.received] using h2, ?_⟩
    unfold RState.received; rw [h3]; simp

/-- what is on disk plus what is pending in the window is always exactly the accepted payloads in
order: the file only ever grows by appending them -/
theorem c02_file_is_prefix (c : RCfg) (hw1 : 1 ≤ c.w) (hw : c.w < 65536) (s : RState) (h : RReach c s) :
    s.win.file.content ++ s.win.elems.flatten = s.received.flatten :=
  (rreach_inv c hw1 hw s h).stored

/-- **final file.** When the receiver ends successfully the file equals the concatenation of the
accepted payloads; the last one is the first short one, all earlier ones are full blocks. -/
theorem c02_final_file (c : RCfg) (hw1 : 1 ≤ c.w) (hw : c.w < 65536) (s : RState) (h : RReach c s)
    (hok : s.status = .ok) :
    s.win.file.content = s.received.flatten ∧
    ∃ p rest, s.accepted = p :: rest ∧ p.length < c.b ∧ ∀ q ∈ rest, c.b ≤ q.length := by
  have hi := rreach_inv c hw1 hw s h
  obtain ⟨he, hx⟩ := hi.ok_final hok
  refine ⟨?_, hx⟩
  have := hi.stored
  rw [he] at this
  simpa using this

/-- reachable when every arriving DATA datagram is a block of the file `f` (any order, loss, duplication) -/
inductive RReachFrom (c : RCfg) (f : Bytes) : RState → Prop where
  | init : RReachFrom c f (rInit c)
  | step (s : RState) (ev : REv) : RReachFrom c f s →
      (∀ n p, ev = .data n p → ∃ k, 1 ≤ k ∧ k ≤ nblocks c.b f ∧ n = k % 65536 ∧ p = blk c.b f k) →
      RReachFrom c f (rStep c s ev).1

theorem RReachFrom.reach {c : RCfg} {f : Bytes} {s : RState} (h : RReachFrom c f s) : RReach c s := by
  induction h with
  | init => exact .init
  | step s ev _ _ ih => exact .step s ev ih

/-- **conformant sender, at most 65535 blocks.** If every DATA datagram that arrives — in whatever
order, with whatever loss and duplication — is a block `(k mod 65536, blk k)` of one file `f`, then in
every reachable state the accepted payloads are exactly blocks `1..j` of `f` in order, and a successful
end means the stored file is byte-identical to `f`. -/
theorem c02_conformant_sender (c : RCfg) (hb : 0 < c.b) (hw1 : 1 ≤ c.w) (hw : c.w < 65536) (f : Bytes)
    (hN : nblocks c.b f ≤ 65535) (s : RState) (h : RReachFrom c f s) :
    s.received = (List.range s.received.length).map (fun i => blk c.b f (i + 1)) ∧
    s.received.length ≤ nblocks c.b f ∧
    (s.status = .ok → s.win.file.content = f) := by
  have key : s.received = (List.range s.received.length).map (fun i => blk c.b f (i + 1)) ∧
      s.received.length ≤ nblocks c.b f := by
    induction h with
    | init => simp [rInit, RState.received]
    | step s ev hr hconf ih =>
      obtain ⟨ih1, ih2⟩ := ih
      have hinv := rreach_inv c hw1 hw s hr.reach
      rcases c02_accept_in_sequence c hw1 hw s hr.reach ev with h1 | ⟨n, p, hev, hn, h3⟩
      · rw [h1]; exact ⟨ih1, ih2⟩
      · -- a block was accepted: the receiver was running
        have hrun : s.status = .running := by
          cases hst : s.status with
          | running => rfl
          | ok =>
            exfalso
            have : rStep c s ev = (s, []) := by unfold rStep; simp [hst]
            rw [this] at h3
            have := congrArg List.length h3
            simp at this
          | failed =>
            exfalso
            have : rStep c s ev = (s, []) := by unfold rStep; simp [hst]
            rw [this] at h3
            have := congrArg List.length h3
            simp at this
        obtain ⟨k, hk1, hkN, hnk, hpk⟩ := hconf n p hev
        -- all accepted so far are full blocks, so fewer than N have been accepted
        have hlt : s.received.length < nblocks c.b f := by
          by_cases hz : s.received.length = 0
          · rw [hz]; unfold nblocks; exact Nat.succ_pos _
          · have hpos : 1 ≤ s.received.length := by omega
            have hlast : s.received[s.received.length - 1]? = some (blk c.b f (s.received.length - 1 + 1)) := by
              rw [ih1]
              simp only [List.length_map, List.length_range]
              rw [List.getElem?_map, List.getElem?_range (by omega)]
              rfl
            have hmem : blk c.b f (s.received.length - 1 + 1) ∈ s.accepted := by
              have := List.mem_of_getElem? hlast
              simpa [RState.received] using this
            have hfull := hinv.full_before hrun _ hmem
            have hne : s.received.length ≠ nblocks c.b f := by
              intro he
              have := (blk_length_lt_iff c.b hb f s.received.length hpos (by omega)).mpr he
              rw [show s.received.length - 1 + 1 = s.received.length from by omega] at hfull
              omega
            omega
        have hk : k = s.received.length + 1 := by
          have h1 : k % 65536 = k := Nat.mod_eq_of_lt (by omega)
          have h2 : (s.received.length + 1) % 65536 = s.received.length + 1 := Nat.mod_eq_of_lt (by omega)
          omega
        rw [h3]
        refine ⟨?_, by simp; omega⟩
        simp only [List.length_append, List.length_singleton]
        rw [List.range_succ, List.map_append, ← ih1, hpk, hk]
        rfl
  refine ⟨key.1, key.2, ?_⟩
  intro hok
  obtain ⟨hcont, p, rest, hacc, hshort, _⟩ := c02_final_file c hw1 hw s h.reach hok
  have hlen : s.received.length = rest.length + 1 := by simp [RState.received, hacc]
  have hp : p = blk c.b f s.received.length := by
    have h1 : s.received[s.received.length - 1]? = some p := by
      simp [RState.received, hacc]
    rw [key.1] at h1
    simp only [List.length_map, List.length_range] at h1
    rw [List.getElem?_map, List.getElem?_range (by omega)] at h1
    simp at h1
    rw [← h1]; congr 1; omega
  have hfin : s.received.length = nblocks c.b f := by
    rw [hp] at hshort
    exact (blk_length_lt_iff c.b hb f _ (by omega) key.2).mp hshort
  rw [hcont, key.1, blocks_flatten, hfin, take_all_blocks c.b hb f]

/-- what a `UdpSocket`'s `recv_with_size(blk_size)` hands to the worker: the datagram read into `blk_size + 4` bytes, i.e. a DATA payload
longer than the block size is cut to it (a peer that ignores what it acknowledged; the kernel's truncation is assumed, section 10.6) -/
def REv.cut (b : Nat) : REv → REv
  | .data n p => .data n (p.take b)
  | e => e

/-- **over-long DATA is cut, never stored in excess**: whatever the peer sends, every block the receiver accepts and stores has at most
block-size bytes (so a file of k accepted blocks is at most k·b bytes long, and an over-long block counts as a full one) -/
theorem c02_oversize_data_is_cut (c : RCfg) (hw1 : 1 ≤ c.w) (hw : c.w < 65536) (evs : List REv) :
    ∀ p ∈ (rRun c (evs.map (REv.cut c.b))).2.accepted, p.length ≤ c.b := by
  unfold rRun
  have key : ∀ (es : List REv) (s : RState), RInv c s → (∀ p ∈ s.accepted, p.length ≤ c.b) →
      ∀ p ∈ (rRunFrom c s (es.map (REv.cut c.b))).2.accepted, p.length ≤ c.b := by
    intro es
    induction es with
    | nil => intro s _ h; simpa [rRunFrom] using h
    | cons e es ih =>
      intro s hinv h
      simp only [List.map_cons, rRunFrom]
      obtain ⟨hinv', _, hacc⟩ := rStep_good c hw s hinv (REv.cut c.b e)
      refine ih _ hinv' ?_
      rcases hacc with hacc | ⟨n, p, hev, _, hacc⟩
      · rw [hacc]; exact h
      · rw [hacc]
        intro q hq
        simp only [List.mem_cons] at hq
        rcases hq with rfl | hq
        · cases e with
          | data n' p' =>
            simp only [REv.cut, REv.data.injEq] at hev
            rw [← hev.2]; simp [List.length_take]; omega
          | error => simp [REv.cut] at hev
          | fail => simp [REv.cut] at hev
        · exact h q hq
  exact key evs (rInit c) (rInit_inv c hw1) (by simp [rInit])

/-! non-vacuity: a reachable successful state with duplicates and a stray failure on the way -/
example : (rRun { b := 2, w := 2, rep := 1, cleanOnError := true }
    [.data 1 [1, 2], .data 1 [1, 2], .fail, .data 2 [3, 4], .data 3 [5]]).2.status = .ok := by decide

end Tftp
