import Tftp.Lemmas.Server
/-!
# C03 — Directory confinement

Semantic ground: POSIX lexical resolution without symbolic links. For a path whose components
contain no `..`, resolution visits exactly `components p` in order, so "inside `dir`" is
"`components dir` is a prefix of `components p`". Modelled, not verified: `PathBuf::join`,
`Path::ancestors`/`==`, kernel path resolution, absence of symlinks in the served tree.
-/
namespace Tftp

/-- the converted file name never starts with `/`: `join` appends, it can never replace the directory -/
theorem c03_convert_relative (name : Bytes) : (convertFilePath name).head? ≠ some slash :=
  convertFilePath_head name

/-- a validated path has no `..` component … -/
theorem c03_no_dotdot_component (p : Bytes) (h : validateFilePath p = true) : [dot, dot] ∉ components p := by
  apply components_no_dotdot
  simpa [validateFilePath] using h

/-- … and it resolves inside the directory: every file name, any bytes at all -/
theorem c03_validated_is_inside (dir name : Bytes)
    (_h : validateFilePath (joinPath dir (convertFilePath name)) = true) :
    components dir <+: components (joinPath dir (convertFilePath name)) := by
  unfold joinPath
  split
  · rename_i hc
    simp only [Bool.or_eq_true, beq_iff_eq, List.isEmpty_iff] at hc
    rcases hc with hc | hc
    · -- dir = d ++ [slash]
      obtain ⟨d, hd⟩ : ∃ d, dir = d ++ [slash] := by
        have := List.getLast?_eq_some_iff.mp hc
        obtain ⟨ys, hys⟩ := this
        exact ⟨ys, hys⟩
      rw [hd]
      have h1 : d ++ [slash] ++ convertFilePath name = d ++ slash :: convertFilePath name := by simp
      have h2 : d ++ [slash] = d ++ slash :: [] := by simp
      rw [h1]
      have h3 : components (d ++ [slash]) = components d := by
        have : d ++ [slash] = d ++ slash :: [] := by simp
        rw [this, components_append_slash]
        simp [components, splitOnSlash]
      rw [h3, components_append_slash d (convertFilePath name)]
      exact List.prefix_append _ _
    · rw [hc]; simp [components, splitOnSlash]
  · have h1 : dir ++ [slash] ++ convertFilePath name = dir ++ slash :: convertFilePath name := by simp
    rw [h1, components_append_slash]
    exact List.prefix_append _ _

/-- a request whose path fails validation is answered with exactly one ERROR 2 from the listening
socket and starts nothing: RRQ and WRQ, every flag setting -/
theorem c03_refusal_has_no_effect (cfg : SrvCfg) (fs : Fs) (name : Bytes) (os : List TransferOption) :
    (validateFilePath (joinPath cfg.sendDir (convertFilePath name)) = false →
      handleRrq cfg fs name os = errorReply .accessViolation) ∧
    (validateFilePath (joinPath cfg.recvDir (convertFilePath name)) = false →
      handleWrq cfg fs name os = errorReply .accessViolation) := by
  constructor
  · intro h
    unfold handleRrq checkFileExists
    simp [h]
  · intro h
    unfold handleWrq checkFileExists
    simp [h]

theorem checkFileExists_valid {fs : Fs} {p : Bytes} (h : checkFileExists fs p ≠ .accessViolation) :
    validateFilePath p = true := by
  unfold checkFileExists at h
  split at h
  · exact absurd rfl h
  · rename_i hv; simpa using hv

theorem rrq_worker (cfg : SrvCfg) (fs : Fs) (name : Bytes) (os : List TransferOption) (w : WorkerSpec)
    (h : (handleRrq cfg fs name os).worker = some w) :
    validateFilePath w.path = true ∧ w.kind = .send ∧ w.path = joinPath cfg.sendDir (convertFilePath name) := by
  unfold handleRrq at h
  simp only at h
  cases hce : checkFileExists fs (joinPath cfg.sendDir (convertFilePath name)) with
  | fileExists =>
    have hv := checkFileExists_valid (fs := fs) (p := joinPath cfg.sendDir (convertFilePath name)) (by rw [hce]; simp)
    rw [hce] at h
    simp only at h
    cases hp : parseWorkerOptions os (.read (fileSize fs (joinPath cfg.sendDir (convertFilePath name)))) with
    | none => rw [hp] at h; simp [noReaction] at h
    | some r =>
      obtain ⟨wo, opts'⟩ := r
      rw [hp] at h
      simp at h
      rw [← h]
      exact ⟨hv, rfl, rfl⟩
  | fileNotFound => rw [hce] at h; simp [errorReply] at h
  | accessViolation => rw [hce] at h; simp [errorReply] at h
  | notDefined => rw [hce] at h; simp [noReaction] at h
  | diskFull => rw [hce] at h; simp [noReaction] at h
  | illegalOperation => rw [hce] at h; simp [noReaction] at h
  | unknownId => rw [hce] at h; simp [noReaction] at h
  | noSuchUser => rw [hce] at h; simp [noReaction] at h

theorem wrq_worker (cfg : SrvCfg) (fs : Fs) (name : Bytes) (os : List TransferOption) (w : WorkerSpec)
    (h : (handleWrq cfg fs name os).worker = some w) :
    validateFilePath w.path = true ∧ w.kind = .receive ∧ w.path = joinPath cfg.recvDir (convertFilePath name) := by
  unfold handleWrq at h
  simp only at h
  have hinit : validateFilePath (joinPath cfg.recvDir (convertFilePath name)) = true →
      (match parseWorkerOptions os .write with
        | none => noReaction
        | some (wo, opts') =>
          ({ reply := some (.transfer, if opts'.isEmpty then .ack 0 else .oack opts'),
             worker := some { kind := .receive, path := joinPath cfg.recvDir (convertFilePath name),
                              opts := wo, checkResponse := false, rep := cfg.dup + 1 } } : Reaction)).worker = some w →
      validateFilePath w.path = true ∧ w.kind = .receive ∧ w.path = joinPath cfg.recvDir (convertFilePath name) := by
    intro hv hw
    cases hp : parseWorkerOptions os .write with
    | none => rw [hp] at hw; simp [noReaction] at hw
    | some r =>
      obtain ⟨wo, opts'⟩ := r
      rw [hp] at hw
      simp at hw
      rw [← hw]
      exact ⟨hv, rfl, rfl⟩
  cases hce : checkFileExists fs (joinPath cfg.recvDir (convertFilePath name)) with
  | fileExists =>
    have hv := checkFileExists_valid (fs := fs) (p := joinPath cfg.recvDir (convertFilePath name)) (by rw [hce]; simp)
    rw [hce] at h
    simp only at h
    split at h
    · exact hinit hv h
    · simp [errorReply] at h
  | fileNotFound =>
    have hv := checkFileExists_valid (fs := fs) (p := joinPath cfg.recvDir (convertFilePath name)) (by rw [hce]; simp)
    rw [hce] at h
    exact hinit hv h
  | accessViolation => rw [hce] at h; simp [errorReply] at h
  | notDefined => rw [hce] at h; simp [noReaction] at h
  | diskFull => rw [hce] at h; simp [noReaction] at h
  | illegalOperation => rw [hce] at h; simp [noReaction] at h
  | unknownId => rw [hce] at h; simp [noReaction] at h
  | noSuchUser => rw [hce] at h; simp [noReaction] at h

/-- every worker the listener starts works on the validated path inside the right directory:
`send` workers under the send directory, `receive` workers under the receive directory -/
theorem c03_effects_confined (cfg : SrvCfg) (fs : Fs) (largest : Nat) (dgram : Bytes) (w : WorkerSpec)
    (h : (handleDatagram cfg fs largest dgram).worker = some w) :
    ∃ name, validateFilePath w.path = true ∧
      ((w.kind = .send ∧ w.path = joinPath cfg.sendDir (convertFilePath name)) ∨
       (w.kind = .receive ∧ w.path = joinPath cfg.recvDir (convertFilePath name))) := by
  unfold handleDatagram at h
  simp only at h
  generalize decode (dgram.take ((if cfg.singlePort then largest else Gen.maxRequestPacketSize) + 4)) = d at h
  cases d with
  | ok p =>
    cases p with
    | rrq f m os =>
      obtain ⟨h1, h2, h3⟩ := rrq_worker cfg fs f os w h
      exact ⟨f, h1, Or.inl ⟨h2, h3⟩⟩
    | wrq f m os =>
      simp only at h
      split at h
      · simp [errorReply] at h
      · obtain ⟨h1, h2, h3⟩ := wrq_worker cfg fs f os w h
        exact ⟨f, h1, Or.inr ⟨h2, h3⟩⟩
    | data n d => simp [errorReply] at h
    | ack n => simp [errorReply] at h
    | error c m => simp [errorReply] at h
    | oack os => simp [errorReply] at h
  | err => simp [noReaction] at h
  | panic => simp [noReaction] at h

/-! non-vacuity -/
example : validateFilePath (joinPath [0x2F, 0x64] (convertFilePath [0x2F, 0x5C, 0x61, 0x5C, 0x62])) = true ∧
    components (joinPath [0x2F, 0x64] (convertFilePath [0x2F, 0x5C, 0x61, 0x5C, 0x62])) = [[0x64], [0x61], [0x62]] := by
  decide
example : validateFilePath (joinPath [0x2F, 0x64] (convertFilePath [0x2E, 0x2E, 0x2F, 0x78])) = false := by decide

end Tftp
