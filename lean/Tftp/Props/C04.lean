import Tftp.Model.Net
