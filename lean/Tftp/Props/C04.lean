import Tftp.Props.C07
import Tftp.Props.C08
import Tftp.Props.C02
import Tftp.Model.Net
import Tftp.Lemmas.Net
import Tftp.Lemmas.NetLoss
import Tftp.Lemmas.NetLossW
import Tftp.Lemmas.NetTotal
import Tftp.Lemmas.NetSafe
/-!
# C04 — Loss tolerance

Two layers.

**Open system (proved here, every arrival history).** The only ways a data-phase worker can fail, and what
each side does to recover: a time-out re-emits the whole outstanding window, an ACK inside the window
slides it and renews the retry budget, a stale ACK changes nothing, a retransmitted block is
re-acknowledged (so a sender whose ACK was lost can go on), an accepted block renews the receiver's budget.

**Closed system.** `netRun` (`Model/Net.lean`) connects the two models through FIFO queues with a fault
schedule. The fault-free case is proved for every file, block size and window size
(`c14_fault_free_transfer` in `Props/C14.lean`). Safety holds under every fault schedule
(`c04_closed_loop_safety`). That every schedule with fewer than `MAX_RETRIES` losses (and any
duplications) ends with a byte-identical copy - together with the RFC's one exception - is proved for every
window size, file and number of blocks: `c04_loss_tolerance` (`Lemmas/NetLossW.lean`); the lock-step case
`c04_lockstep_loss_tolerance` (`Lemmas/NetLoss.lean`) was proved first and is kept. What is proved is "fewer
than `MAX_RETRIES` losses in total", which implies the property's "fewer than `MAX_RETRIES` consecutive failed
attempts" hypothesis only in one direction; schedules with more losses in total but never six in a row, and
reordering/delay, are enumerated against the real workers (see DESIGN.md). `c04_closed_loop_partial` is the
anchor of that enumeration.
-/
namespace Tftp

/-- **sender: abort only after the budget.** From a running state that satisfies the invariant, one receive
attempt ends the transfer in failure only if it is a peer ERROR, or a failed attempt (time-out,
undecodable or stray datagram) that is the `MAX_RETRIES`-th since the window last moved. No ACK — in the
window, stale, duplicate or from the future — ever fails the transfer. -/
theorem c04_sender_abort_only_after_budget (c : SCfg) (hb : 0 < c.b) (hw : c.w < 65536) (f : Bytes) (s : SState)
    (h : SInv c f s) (hrun : s.status = .running) (ev : SEv) (dt : Nat)
    (hfail : (sStep c s ev dt).1.status = .failed) :
    ev = .error ∨ ((ev = .fail ∨ ev = .other) ∧ s.retry + 1 = Gen.maxRetries) := by
  cases ev with
  | error => exact Or.inl rfl
  | fail =>
    rcases fail_step c s .fail dt hrun (Or.inl rfl) with ⟨_, h2⟩ | ⟨h1, _⟩
    · exact Or.inr ⟨Or.inl rfl, h2⟩
    · rw [h1] at hfail; simp at hfail
  | other =>
    rcases fail_step c s .other dt hrun (Or.inr rfl) with ⟨_, h2⟩ | ⟨h1, _⟩
    · exact Or.inr ⟨Or.inr rfl, h2⟩
    · rw [h1] at hfail; simp at hfail
  | ack n =>
    exfalso
    obtain ⟨bn, win, filled, retry, since, status, base⟩ := s
    simp only at hrun
    subst hrun
    have hlen : win.len = win.elems.length := by
      unfold Window.len; have := h.len_le; exact Nat.mod_eq_of_lt (by simp only at this; omega)
    have h0 : SInv c f { bn := bn, win := win, filled := filled, retry := retry, since := since + dt,
                         status := .running, base := base } :=
      ⟨h.base_pos, h.bn_eq, h.elems_eq, h.cur, h.fin, h.len_le, h.size_eq, h.chunk_eq, h.can_read,
        h.filled_eq, h.retry_lt⟩
    unfold sStep at hfail
    simp only [hlen] at hfail
    split at hfail
    · rename_i hd
      have hs' := slide_inv h0 n hd hw
      split at hfail
      · simp at hfail
      · have ho := (outer_good hb hw hs').2.2.1
        simp only at ho hfail
        rw [ho] at hfail
        simp [slide] at hfail
    · have hh := (head_good hb h0).2.2.1
      simp only at hh hfail
      rw [hh] at hfail
      simp at hfail

/-- **sender: a time-out re-emits the entire outstanding window** with the same numbers and contents -/
theorem c04_timeout_resends_window (c : SCfg) (s : SState) (hrun : s.status = .running) (dt : Nat)
    (hbudget : s.retry + 1 ≠ Gen.maxRetries) (ht : s.since + dt ≥ c.timeout) :
    (sStep c s .fail dt).2 = sendWindow c.rep s.bn s.win.elems ∧
    (sStep c s .fail dt).1.win = s.win ∧ (sStep c s .fail dt).1.bn = s.bn ∧
    (sStep c s .fail dt).1.status = .running := by
  unfold sStep
  simp only [hrun, hbudget, ↓reduceIte]
  unfold sHead
  simp [ht, hrun]

/-- **sender: a stale acknowledgement neither spends the retry budget nor cancels the retransmission that is due**: a stale or
duplicate ACK arriving before the interval has elapsed leaves the retry counter alone, and the next failed receive attempt once the
interval (counted from the last transmission, not from the stale ACK) has elapsed re-emits the whole outstanding window. (In real time the
socket wait restarts at the stale ACK, so the attempt fails later; that it is then answered by the window is this statement, and the
`staleretx` scenario observes it on the real server.) -/
theorem c04_stale_ack_keeps_retransmission_due (c : SCfg) (hw : c.w < 65536) (f : Bytes) (s : SState) (h : SInv c f s)
    (hrun : s.status = .running) (n dt1 dt2 : Nat)
    (hstale : ¬ (n + 65536 - s.bn) % 65536 < s.win.elems.length) (ht1 : s.since + dt1 < c.timeout)
    (hbudget : s.retry + 1 ≠ Gen.maxRetries) (ht2 : s.since + dt1 + dt2 ≥ c.timeout) :
    (sStep c s (.ack n) dt1).1.retry = s.retry ∧ (sStep c s (.ack n) dt1).2 = [] ∧
    (sStep c (sStep c s (.ack n) dt1).1 .fail dt2).2 = sendWindow c.rep s.bn s.win.elems ∧
    (sStep c (sStep c s (.ack n) dt1).1 .fail dt2).1.status = .running := by
  rw [c08_stale_ack_is_noop c hw f s h hrun n dt1 hstale ht1]
  have := c04_timeout_resends_window c { s with since := s.since + dt1 } hrun dt2 hbudget ht2
  exact ⟨rfl, rfl, this.1, this.2.2.2⟩

/-- **sender: an ACK inside the window renews the retry budget** -/
theorem c04_progress_renews_budget (c : SCfg) (hb : 0 < c.b) (hw : c.w < 65536) (f : Bytes) (s : SState)
    (h : SInv c f s) (hrun : s.status = .running) (n dt : Nat)
    (hin : (n + 65536 - s.bn) % 65536 < s.win.elems.length) :
    (sStep c s (.ack n) dt).1.status = .ok ∨ (sStep c s (.ack n) dt).1.retry = 0 := by
  have hlen : s.win.len = s.win.elems.length := by
    unfold Window.len; have := h.len_le; exact Nat.mod_eq_of_lt (by omega)
  have h0 : SInv c f { s with since := s.since + dt } :=
    ⟨h.base_pos, h.bn_eq, h.elems_eq, h.cur, h.fin, h.len_le, h.size_eq, h.chunk_eq, h.can_read,
      h.filled_eq, h.retry_lt⟩
  have hs' := slide_inv h0 n hin hw
  obtain ⟨w', fl, hfill, _, _, _, _⟩ := fill_ok hb hw hs'
  unfold sStep
  simp only [hrun, hlen, hin, ↓reduceIte]
  split
  · left; rfl
  · right
    unfold sOuter
    simp only [slide] at hfill ⊢
    rw [hfill]
    simp only
    unfold sHead
    split <;> rfl

/-- **receiver: abort only after the budget** -/
theorem c04_receiver_abort_only_after_budget (c : RCfg) (hw : c.w < 65536) (s : RState) (h : RInv c s)
    (hrun : s.status = .running) (ev : REv) (hfail : (rStep c s ev).1.status = .failed) :
    ev = .error ∨ (ev = .fail ∧ s.retry + 1 = Gen.maxRetries) := by
  cases ev with
  | error => exact Or.inl rfl
  | fail =>
    rcases r_fail_step c s hrun with ⟨_, h2⟩ | ⟨h1, _⟩
    · exact Or.inr ⟨rfl, h2⟩
    · rw [h1] at hfail; simp at hfail
  | data n payload =>
    exfalso
    obtain ⟨bn, win, retry, status, accepted⟩ := s
    simp only at hrun
    subst hrun
    have hlen : win.len = win.elems.length := by
      unfold Window.len; have := h.pend_lt; exact Nat.mod_eq_of_lt (by simp only at this; omega)
    have hadd : win.add payload = ({ win with elems := win.elems ++ [payload] }, .ok ()) := by
      unfold Window.add
      have : ¬ win.len = win.size := by
        rw [hlen]; have h1 := h.size_eq; have h2 := h.pend_lt; simp only at h1 h2; omega
      simp [this]
    have hfl : ∀ t : RState, t.win.file.canWrite = true → t.status = .running → (flushAck c t).1.status = .running := by
      intro t ht hr
      rw [(flushAck_spec c t ht).1]; exact hr
    have hcw : win.file.canWrite = true := h.can_write
    unfold rStep at hfail
    simp only at hfail
    split at hfail
    · simp only [hadd] at hfail
      split at hfail
      · unfold markOk at hfail
        have := hfl { bn := n, win := { win with elems := win.elems ++ [payload] }, retry := 0, status := .running,
                      accepted := payload :: accepted } hcw rfl
        simp only [this, ↓reduceIte] at hfail
        simp at hfail
      · split at hfail
        · have := hfl { bn := n, win := { win with elems := win.elems ++ [payload] }, retry := 0, status := .running,
                        accepted := payload :: accepted } hcw rfl
          rw [this] at hfail; simp at hfail
        · simp at hfail
    · split at hfail
      · simp at hfail
      · have := hfl { bn := bn, win := win, retry := retry, status := .running, accepted := accepted } hcw rfl
        rw [this] at hfail; simp at hfail

/-- **receiver: a retransmitted block is re-acknowledged.** When nothing is pending (the last ACK went out
and may have been lost) any DATA that is not the next expected one — in particular the retransmission
of the block just acknowledged — makes the receiver repeat the ACK of the last in-sequence block;
its state is unchanged. This is what repairs a lost ACK. -/
theorem c04_reack_on_retransmission (c : RCfg) (s : RState) (hrun : s.status = .running)
    (hcw : s.win.file.canWrite = true) (hnone : s.win.elems = []) (n : Nat) (payload : Bytes)
    (hseq : n ≠ (s.bn + 1) % 65536) :
    (rStep c s (.data n payload)).2 = ackOut c.rep s.bn s.win.file ∧
    (rStep c s (.data n payload)).1.accepted = s.accepted ∧ (rStep c s (.data n payload)).1.bn = s.bn ∧
    (rStep c s (.data n payload)).1.status = .running := by
  have hemp : s.win.isEmpty = true := by simp [Window.isEmpty, hnone]
  unfold rStep
  simp only [hrun, hseq, ↓reduceIte, hemp]
  simp only [Bool.not_true, Bool.and_false, Bool.false_eq_true, ↓reduceIte]
  obtain ⟨h1, h2⟩ := flushAck_spec c s hcw
  rw [h1, h2]
  simp [hnone, hrun]

/-- **receiver: every accepted block renews the retry budget** (not only every completed window) -/
theorem c04_accept_renews_budget (c : RCfg) (s : RState) (hrun : s.status = .running) (n : Nat) (payload : Bytes)
    (hseq : n = (s.bn + 1) % 65536) :
    (rStep c s (.data n payload)).1.status = .failed ∨ (rStep c s (.data n payload)).1.retry = 0 := by
  unfold rStep
  simp only [hrun, hseq, ↓reduceIte]
  split
  · split
    · right
      unfold markOk flushAck
      split <;> (simp only; split <;> rfl)
    · split
      · right; unfold flushAck; split <;> rfl
      · right; rfl
  · left; rfl

/-- the retry budget is the constant of the source (`MAX_RETRIES`) and at least six: fewer than six
consecutive failed receive attempts never exhaust it -/
theorem c04_six_le_budget : 6 ≤ Gen.maxRetries := by decide

/-- **closed loop, partial**: without faults the lock-step transfer of an empty file completes — the
smallest instance of the closed-loop claim, kept as the anchor of the simulator; the general statement
is enumerated against the implementation (see header) -/
theorem c04_closed_loop_partial (b : Nat) (hb : 0 < b) :
    let sc : SCfg := { b := b, w := 1, timeout := 5000, rep := 1 }
    let rc : RCfg := { b := b, w := 1, rep := 1, cleanOnError := true }
    let st := netRun sc rc Faults.none 4 (netInit sc rc Faults.none [])
    st.s.status = .ok ∧ st.r.status = .ok ∧ st.r.win.file.content = [] := by
  have h0 : ¬ (0 = b) := by omega
  have hlt : (0 : Nat) < b := hb
  simp [netRun, netStep, netInit, sInit, sOuter, sHead, Window.fill, Window.new, Window.len, FileSt.openRead,
    fillLoop, sendWindow, sendPacket, emitData, dataOf, applyFaults, Faults.none, rInit, receiverRunning,
    senderRunning, rStep, Window.add, FileSt.create, markOk, flushAck, Window.empty, Window.isFull, ackOut,
    emitAcks, sStep, slide, Window.isEmpty, FileSt.write, FileSt.content, h0, hlt, Gen.timeoutBufferMs]

/-! non-vacuity: a lost DATA and a lost ACK in a three-block transfer with windowsize 2 -/
def exSc : SCfg := { b := 2, w := 2, timeout := 5, rep := 1 }
def exRc : RCfg := { b := 2, w := 2, rep := 1, cleanOnError := true }
def exFl : Faults := { dropData := [1], dupData := [], dropAck := [0], dupAck := [] }

example : (netRun exSc exRc exFl 60 (netInit exSc exRc exFl [1, 2, 3, 4, 5])).s.status = .ok ∧
    (netRun exSc exRc exFl 60 (netInit exSc exRc exFl [1, 2, 3, 4, 5])).r.status = .ok ∧
    (netRun exSc exRc exFl 60 (netInit exSc exRc exFl [1, 2, 3, 4, 5])).r.win.file.content = [1, 2, 3, 4, 5] := by
  decide

end Tftp

namespace Tftp

/-- **closed loop, safety under every fault schedule** (at most 65535 blocks): whatever datagrams are lost
or duplicated in either direction, and however long the loop runs, the receiving side has accepted
exactly blocks `1..j` of the sender's file, and if it ends successfully its file is byte-identical.
(Liveness — that it *does* end successfully when fewer than 6 datagrams are lost — is what is enumerated
against the real workers; the fault-free case is `c14_fault_free_transfer`.) -/
theorem c04_closed_loop_safety (sc : SCfg) (rc : RCfg) (hb : 0 < sc.b) (hw1 : 1 ≤ sc.w) (hw : sc.w < 65536)
    (hrb : rc.b = sc.b) (hrw : rc.w = sc.w) (fl : Faults) (f : Bytes) (hN : nblocks sc.b f ≤ 65535) (fuel : Nat) :
    (netRun sc rc fl fuel (netInit sc rc fl f)).r.received =
        blocksUpTo sc.b f (netRun sc rc fl fuel (netInit sc rc fl f)).r.received.length ∧
    ((netRun sc rc fl fuel (netInit sc rc fl f)).r.status = .ok →
        (netRun sc rc fl fuel (netInit sc rc fl f)).r.win.file.content = f) :=
  closed_loop_safety sc rc hb hw1 hw hrb hrw fl f hN fuel

end Tftp

namespace Tftp

/-- **closed loop, liveness under loss - lock-step** (windowsize 1, i.e. RFC 1350): for every file, every
block size >= 1 and every positive retransmission interval, and for every fault schedule that duplicates any
datagrams in either direction and loses fewer datagrams in total than `MAX_RETRIES` (so in particular any
single lost DATA or ACK), there is a point at which the closed loop of the sender model and the receiver
model has reached its end with: the receiver ended successfully, its file byte-identical to the sender's;
the sender ended successfully too - or gave up, which happens only if the final acknowledgement (the last
one the receiver emitted, ordinal `na - 1`) is among the lost ones: the exception RFC 1350 permits. No bound
on the number of blocks: the proof goes through the 16-bit wrap. "Fewer than `MAX_RETRIES` in total" is
stronger than the property's "fewer than `MAX_RETRIES` consecutive failed attempts"; the consecutive form
and windowsize >= 2 are enumerated, not proved. -/
theorem c04_lockstep_loss_tolerance (sc : SCfg) (rc : RCfg) (hb : 0 < sc.b) (hw : sc.w = 1) (hrep : sc.rep = 1)
    (ht : 0 < sc.timeout) (hrb : rc.b = sc.b) (hrw : rc.w = 1) (hrrep : rc.rep = 1) (fl : Faults)
    (hbudget : fl.dropData.length + fl.dropAck.length < Gen.maxRetries) (f : Bytes) :
    ∃ fuel,
      (netRun sc rc fl fuel (netInit sc rc fl f)).r.status = .ok ∧
      (netRun sc rc fl fuel (netInit sc rc fl f)).r.win.file.content = f ∧
      ((netRun sc rc fl fuel (netInit sc rc fl f)).s.status = .ok ∨
        ((netRun sc rc fl fuel (netInit sc rc fl f)).s.status = .failed ∧
          (netRun sc rc fl fuel (netInit sc rc fl f)).s.retry = Gen.maxRetries ∧
          fl.dropAck.contains ((netRun sc rc fl fuel (netInit sc rc fl f)).na - 1) = true)) :=
  lockstep_loss_tolerance sc rc ⟨hb, hw, hrep, ht, hrb, hrw, hrrep⟩ fl hbudget f

/-- in particular: if no acknowledgement is lost, both sides end successfully -/
theorem c04_lockstep_data_loss_only (sc : SCfg) (rc : RCfg) (hb : 0 < sc.b) (hw : sc.w = 1) (hrep : sc.rep = 1)
    (ht : 0 < sc.timeout) (hrb : rc.b = sc.b) (hrw : rc.w = 1) (hrrep : rc.rep = 1) (fl : Faults)
    (hack : fl.dropAck = []) (hbudget : fl.dropData.length < Gen.maxRetries) (f : Bytes) :
    ∃ fuel,
      (netRun sc rc fl fuel (netInit sc rc fl f)).s.status = .ok ∧
      (netRun sc rc fl fuel (netInit sc rc fl f)).r.status = .ok ∧
      (netRun sc rc fl fuel (netInit sc rc fl f)).r.win.file.content = f := by
  obtain ⟨fuel, h1, h2, h3⟩ := c04_lockstep_loss_tolerance sc rc hb hw hrep ht hrb hrw hrrep fl
    (by rw [hack]; simpa using hbudget) f
  refine ⟨fuel, ?_, h1, h2⟩
  rcases h3 with h3 | ⟨_, _, h4⟩
  · exact h3
  · rw [hack] at h4; simp at h4

/-! non-vacuity: a lock-step configuration and a schedule with five losses and two duplications meet the
hypotheses; run on a three-block file the simulator ends as the theorem says: the final ACK (ordinal 3) is
lost, so the sender gives up while the receiver holds the complete file - RFC 1350's exception -/
def exLockSc : SCfg := { b := 2, w := 1, timeout := 5, rep := 1 }
def exLockRc : RCfg := { b := 2, w := 1, rep := 1, cleanOnError := true }
def exLockFl : Faults := { dropData := [0, 1, 3], dupData := [2], dropAck := [1, 3], dupAck := [0] }

example : 0 < exLockSc.b ∧ exLockSc.w = 1 ∧ exLockSc.rep = 1 ∧ 0 < exLockSc.timeout ∧ exLockRc.b = exLockSc.b ∧
    exLockRc.w = 1 ∧ exLockRc.rep = 1 ∧ exLockFl.dropData.length + exLockFl.dropAck.length < Gen.maxRetries := by
  decide

example : (netRun exLockSc exLockRc exLockFl 200 (netInit exLockSc exLockRc exLockFl [1, 2, 3, 4, 5])).r.status = .ok ∧
    (netRun exLockSc exLockRc exLockFl 200 (netInit exLockSc exLockRc exLockFl [1, 2, 3, 4, 5])).r.win.file.content = [1, 2, 3, 4, 5] ∧
    (netRun exLockSc exLockRc exLockFl 200 (netInit exLockSc exLockRc exLockFl [1, 2, 3, 4, 5])).s.status = .failed ∧
    (netRun exLockSc exLockRc exLockFl 200 (netInit exLockSc exLockRc exLockFl [1, 2, 3, 4, 5])).na - 1 = 3 := by
  decide

end Tftp

namespace Tftp

/-- **closed loop, liveness under loss - every window size**: for every file, every block size >= 1, every
window size 1..65535 and every positive retransmission interval, and for every fault schedule that
duplicates any datagrams in either direction and loses fewer datagrams in total than `MAX_RETRIES` (in
particular any single lost DATA or ACK), the closed loop of the sender model and the receiver model reaches
its end with the receiver ended successfully and its file byte-identical to the sender's; the sender has
ended successfully too, or has given up - and that only if the final acknowledgement (ordinal `na - 1`, the
last the receiver emitted) is among the lost ones: the exception RFC 1350 permits. No bound on the number of
blocks. The proof (`Lemmas/NetLossW.lean`) is an inductive invariant over `netStep` with ghost block numbers
for everything in flight, an abstract run of the receiver over the DATA still to be delivered (`willAck`: an
acknowledgement inside the sender's window is on its way), the lemma that a loss-free burst of the whole
window always produces one (`willAck_burst`), a debt counter (every quiescent time-out is paid for by a
counted loss) and one numeric termination measure. -/
theorem c04_loss_tolerance (sc : SCfg) (rc : RCfg) (hb : 0 < sc.b) (hw1 : 1 ≤ sc.w) (hw : sc.w < 65536)
    (hrep : sc.rep = 1) (ht : 0 < sc.timeout) (hrb : rc.b = sc.b) (hrw : rc.w = sc.w) (hrrep : rc.rep = 1)
    (fl : Faults) (hbudget : fl.dropData.length + fl.dropAck.length < Gen.maxRetries) (f : Bytes) :
    ∃ fuel,
      (netRun sc rc fl fuel (netInit sc rc fl f)).r.status = .ok ∧
      (netRun sc rc fl fuel (netInit sc rc fl f)).r.win.file.content = f ∧
      ((netRun sc rc fl fuel (netInit sc rc fl f)).s.status = .ok ∨
        ((netRun sc rc fl fuel (netInit sc rc fl f)).s.status = .failed ∧
          (netRun sc rc fl fuel (netInit sc rc fl f)).s.retry = Gen.maxRetries ∧
          fl.dropAck.contains ((netRun sc rc fl fuel (netInit sc rc fl f)).na - 1) = true)) :=
  loss_tolerance sc rc ⟨⟨hb, hw1, hw, hrep, hrb, hrw, hrrep⟩, ht⟩ fl hbudget f

/-- in particular, the loss of any one DATA datagram (no other fault) never fails a transfer: both sides end
successfully with identical files -/
theorem c04_single_data_loss (sc : SCfg) (rc : RCfg) (hb : 0 < sc.b) (hw1 : 1 ≤ sc.w) (hw : sc.w < 65536)
    (hrep : sc.rep = 1) (ht : 0 < sc.timeout) (hrb : rc.b = sc.b) (hrw : rc.w = sc.w) (hrrep : rc.rep = 1)
    (k : Nat) (f : Bytes) :
    ∃ fuel,
      (netRun sc rc ⟨[k], [], [], []⟩ fuel (netInit sc rc ⟨[k], [], [], []⟩ f)).s.status = .ok ∧
      (netRun sc rc ⟨[k], [], [], []⟩ fuel (netInit sc rc ⟨[k], [], [], []⟩ f)).r.status = .ok ∧
      (netRun sc rc ⟨[k], [], [], []⟩ fuel (netInit sc rc ⟨[k], [], [], []⟩ f)).r.win.file.content = f := by
  obtain ⟨fuel, h1, h2, h3⟩ := c04_loss_tolerance sc rc hb hw1 hw hrep ht hrb hrw hrrep ⟨[k], [], [], []⟩
    (by show 1 + 0 < Gen.maxRetries; decide) f
  refine ⟨fuel, ?_, h1, h2⟩
  rcases h3 with h3 | ⟨_, _, h4⟩
  · exact h3
  · simp at h4

/-- the hypotheses of `c04_loss_tolerance` are met by the windowed example above (`exSc`, `exRc`, `exFl`: one
DATA and one ACK lost, windowsize 2), whose run is evaluated there -/
example : 0 < exSc.b ∧ 1 ≤ exSc.w ∧ exSc.w < 65536 ∧ exSc.rep = 1 ∧ 0 < exSc.timeout ∧ exRc.b = exSc.b ∧
    exRc.w = exSc.w ∧ exRc.rep = 1 ∧ exFl.dropData.length + exFl.dropAck.length < Gen.maxRetries := by decide

end Tftp

namespace Tftp

/-- **the closed loop under every fault schedule - the property at its literal strength** (FIFO network): for
every file, block size >= 1, window size 1..65535, positive retransmission interval, and for EVERY schedule of
lost and duplicated datagrams - no bound on how many - the closed loop of the sender model and the receiver
model runs to an end, and the end is one of exactly two kinds:
* the receiving side has ended successfully and its file is byte-identical to the sender's; the sending side
  has ended successfully, or has given up with its retry counter at `MAX_RETRIES` (this is the RFC 1350
  exception: the final acknowledgement never reached it);
* both sides have given up, each with its retry counter at `MAX_RETRIES`.
The retry counter of either model is, by definition of `sStep` / `rStep`, the number of consecutive failed
receive attempts since the window last moved (sender) or a block was last accepted (receiver); so a transfer
in which neither side ever sees `MAX_RETRIES` consecutive failed attempts completes successfully, whatever
else is lost or repeated, and no schedule makes the loop run for ever. -/
theorem c04_closed_loop_total (sc : SCfg) (rc : RCfg) (hb : 0 < sc.b) (hw1 : 1 ≤ sc.w) (hw : sc.w < 65536)
    (hrep : sc.rep = 1) (ht : 0 < sc.timeout) (hrb : rc.b = sc.b) (hrw : rc.w = sc.w) (hrrep : rc.rep = 1)
    (fl : Faults) (f : Bytes) :
    ∃ fuel,
      ((netRun sc rc fl fuel (netInit sc rc fl f)).r.status = .ok ∧
        (netRun sc rc fl fuel (netInit sc rc fl f)).r.win.file.content = f ∧
        ((netRun sc rc fl fuel (netInit sc rc fl f)).s.status = .ok ∨
          ((netRun sc rc fl fuel (netInit sc rc fl f)).s.status = .failed ∧
            (netRun sc rc fl fuel (netInit sc rc fl f)).s.retry = Gen.maxRetries))) ∨
      ((netRun sc rc fl fuel (netInit sc rc fl f)).r.status = .failed ∧
        (netRun sc rc fl fuel (netInit sc rc fl f)).r.retry = Gen.maxRetries ∧
        (netRun sc rc fl fuel (netInit sc rc fl f)).s.status = .failed ∧
        (netRun sc rc fl fuel (netInit sc rc fl f)).s.retry = Gen.maxRetries) :=
  closed_loop_total sc rc ⟨⟨hb, hw1, hw, hrep, hrb, hrw, hrrep⟩, ht⟩ fl f

/-! non-vacuity of the second kind of end: the first DATA datagram lost six times in a row (beyond the budget) -
both models give up with their counters at `MAX_RETRIES` -/
def exDeadFl : Faults := { dropData := [0, 1, 2, 3, 4, 5], dupData := [], dropAck := [], dupAck := [] }

example : (netRun exLockSc exLockRc exDeadFl 50 (netInit exLockSc exLockRc exDeadFl [1, 2, 3])).r.status = .failed ∧
    (netRun exLockSc exLockRc exDeadFl 50 (netInit exLockSc exLockRc exDeadFl [1, 2, 3])).r.retry = Gen.maxRetries ∧
    (netRun exLockSc exLockRc exDeadFl 50 (netInit exLockSc exLockRc exDeadFl [1, 2, 3])).s.status = .failed := by
  decide

end Tftp

namespace Tftp

/-- **success on the sending side means the copy has arrived**: at every moment of every run of the closed loop -
every fault schedule, every file length and window size - if the sending side has ended successfully then the
receiving side has ended successfully too and its file is byte-identical. (The converse fails only in RFC 1350's
permitted way: the final acknowledgement may be lost, see `c04_closed_loop_total`.) -/
theorem c04_sender_success_means_delivered (sc : SCfg) (rc : RCfg) (hb : 0 < sc.b) (hw1 : 1 ≤ sc.w) (hw : sc.w < 65536)
    (hrep : sc.rep = 1) (ht : 0 < sc.timeout) (hrb : rc.b = sc.b) (hrw : rc.w = sc.w) (hrrep : rc.rep = 1)
    (fl : Faults) (f : Bytes) (fuel : Nat) :
    (netRun sc rc fl fuel (netInit sc rc fl f)).s.status = .ok →
      (netRun sc rc fl fuel (netInit sc rc fl f)).r.status = .ok ∧
      (netRun sc rc fl fuel (netInit sc rc fl f)).r.win.file.content = f :=
  closed_loop_sender_success sc rc ⟨⟨hb, hw1, hw, hrep, hrb, hrw, hrrep⟩, ht⟩ fl f fuel

end Tftp
