import Tftp.Props.C09
import Tftp.Props.C10
/-!
# C05 — Listener availability: no datagram sequence stops the server from serving

The listener's state that a datagram can influence is `largest` (`largest_block_size`, the size of the
receive buffer in single-port mode) — and the `clients` map, which only routes. What can take the
listener down in the Rust code is (1) a panic while decoding, (2) `vec![0; largest + 4]` overflowing or
failing to allocate, (3) a worker parameter the worker cannot survive. The theorems exclude these for
every datagram and every history of datagrams.

Partial by nature (runtime behaviour no model here exhibits): heap exhaustion, thread-creation
failure under flood, `println!` to a closed stdout.
-/
namespace Tftp

/-- new value of `largest_block_size` after the reaction to one datagram -/
def nextLargest (cfg : SrvCfg) (largest : Nat) (r : Reaction) : Nat :=
  match r.worker with
  | some w => if cfg.singlePort then max largest w.opts.blockSize else largest
  | none => largest

/-- the receive buffer the listener allocates stays between 512+4 and 65464+4 bytes -/
def ListenerInv (largest : Nat) : Prop := 512 ≤ largest ∧ largest ≤ 65464

def SaneWorker (w : WorkerSpec) : Prop :=
  8 ≤ w.opts.blockSize ∧ w.opts.blockSize ≤ 65464 ∧ 1 ≤ w.opts.windowSize ∧ w.opts.windowSize ≤ 65535 ∧
  1 ≤ w.opts.timeoutS ∧ w.opts.timeoutS ≤ 255

theorem worker_opts_sane (cfg : SrvCfg) (fs : Fs) (largest : Nat) (dgram : Bytes) (w : WorkerSpec)
    (h : (handleDatagram cfg fs largest dgram).worker = some w) : SaneWorker w := by
  have hrrq : ∀ f os, (handleRrq cfg fs f os).worker = some w → SaneWorker w := by
    intro f os hw
    unfold handleRrq at hw
    simp only at hw
    cases hce : checkFileExists fs (joinPath cfg.sendDir (convertFilePath f)) <;> rw [hce] at hw <;>
      simp only [errorReply, noReaction] at hw <;> try (simp at hw; done)
    cases hp : parseWorkerOptions os (.read (fileSize fs (joinPath cfg.sendDir (convertFilePath f)))) with
    | none => rw [hp] at hw; simp [noReaction] at hw
    | some r =>
      obtain ⟨wo, opts'⟩ := r
      rw [hp] at hw
      simp at hw
      have := c09_worker_params_sane os _ wo opts' hp
      rw [← hw]
      exact this
  have hwrq : ∀ f os, (handleWrq cfg fs f os).worker = some w → SaneWorker w := by
    intro f os hw
    unfold handleWrq at hw
    simp only at hw
    have hinit : ∀ (r : Reaction), r = (match parseWorkerOptions os .write with
        | none => noReaction
        | some (wo, opts') =>
          ({ reply := some (.transfer, if opts'.isEmpty then .ack 0 else .oack opts'),
             worker := some { kind := .receive, path := joinPath cfg.recvDir (convertFilePath f),
                              opts := wo, checkResponse := false, rep := cfg.dup + 1 } } : Reaction)) →
        r.worker = some w → SaneWorker w := by
      intro r hr hrw
      rw [hr] at hrw
      cases hp : parseWorkerOptions os .write with
      | none => rw [hp] at hrw; simp [noReaction] at hrw
      | some rr =>
        obtain ⟨wo, opts'⟩ := rr
        rw [hp] at hrw
        simp at hrw
        have := c09_worker_params_sane os _ wo opts' hp
        rw [← hrw]
        exact this
    cases hce : checkFileExists fs (joinPath cfg.recvDir (convertFilePath f)) <;> rw [hce] at hw <;>
      simp only [errorReply, noReaction] at hw <;> try (simp at hw; done)
    · exact hinit _ rfl hw
    · by_cases how : cfg.overwrite = true
      · simp only [how, ↓reduceIte] at hw
        exact hinit _ rfl hw
      · simp [how] at hw
  unfold handleDatagram at h
  simp only at h
  generalize decode (dgram.take ((if cfg.singlePort then largest else Gen.maxRequestPacketSize) + 4)) = d at h
  cases d with
  | ok p =>
    cases p with
    | rrq f m os => exact hrrq f os h
    | wrq f m os =>
      simp only at h
      by_cases hro : cfg.readOnly = true
      · simp [hro, errorReply] at h
      · simp only [hro] at h
        exact hwrq f os h
    | data n d => simp [errorReply] at h
    | ack n => simp [errorReply] at h
    | error c m => simp [errorReply] at h
    | oack os => simp [errorReply] at h
  | err => simp [noReaction] at h
  | panic => simp [noReaction] at h

/-- **one datagram**: whatever bytes arrive, decoding does not panic, the reaction is defined, and the
listener's buffer size stays within bounds (so `vec![0; largest + 4]` neither overflows nor asks for
more than 65468 bytes) -/
theorem c05_listen_step (cfg : SrvCfg) (fs : Fs) (largest : Nat) (dgram : Bytes) (h : ListenerInv largest) :
    decode (dgram.take ((if cfg.singlePort then largest else Gen.maxRequestPacketSize) + 4)) ≠ .panic ∧
    ListenerInv (nextLargest cfg largest (handleDatagram cfg fs largest dgram)) := by
  refine ⟨decode_ne_panic _, ?_⟩
  unfold nextLargest
  cases hw : (handleDatagram cfg fs largest dgram).worker with
  | none => exact h
  | some w =>
    simp only
    have hs := worker_opts_sane cfg fs largest dgram w hw
    unfold SaneWorker at hs
    split
    · unfold ListenerInv at h ⊢
      omega
    · exact h

/-- **any history**: the invariant holds after every sequence of datagrams, for every evolution of
the file system in between -/
theorem c05_any_history (cfg : SrvCfg) (dgrams : List (Fs × Bytes)) :
    ListenerInv (dgrams.foldl (fun l d => nextLargest cfg l (handleDatagram cfg d.1 l d.2)) Gen.defaultBlockSize) := by
  have key : ∀ (ds : List (Fs × Bytes)) (l : Nat), ListenerInv l →
      ListenerInv (ds.foldl (fun l d => nextLargest cfg l (handleDatagram cfg d.1 l d.2)) l) := by
    intro ds
    induction ds with
    | nil => intro l h; exact h
    | cons d ds ih =>
      intro l h
      simp only [List.foldl_cons]
      exact ih _ (c05_listen_step cfg d.1 l d.2 h).2
  exact key dgrams _ (by unfold ListenerInv; decide)

/-- **a probe is served independently of what came before**: for a datagram that fits the smallest
receive buffer, the reaction is a function of the configuration, the file system and the datagram
alone — not of `largest` nor of anything accumulated from earlier datagrams -/
theorem c05_probe_independent (cfg : SrvCfg) (fs : Fs) (l1 l2 : Nat) (dgram : Bytes)
    (h1 : ListenerInv l1) (h2 : ListenerInv l2) (hlen : dgram.length ≤ Gen.maxRequestPacketSize + 4) :
    handleDatagram cfg fs l1 dgram = handleDatagram cfg fs l2 dgram := by
  have ht : ∀ l, ListenerInv l →
      dgram.take ((if cfg.singlePort then l else Gen.maxRequestPacketSize) + 4) = dgram := by
    intro l hl
    apply List.take_of_length_le
    unfold ListenerInv at hl
    have : Gen.maxRequestPacketSize = 512 := by decide
    split <;> omega
  unfold handleDatagram
  simp only [ht l1 h1, ht l2 h2]

/-- every worker the listener starts gets parameters it can survive: `timeout + 1 s` cannot overflow,
the block buffers are at most 65468 bytes, the window fits `u16` -/
theorem c05_worker_params (cfg : SrvCfg) (fs : Fs) (largest : Nat) (dgram : Bytes) (w : WorkerSpec)
    (h : (handleDatagram cfg fs largest dgram).worker = some w) :
    8 ≤ w.opts.blockSize ∧ w.opts.blockSize ≤ 65464 ∧ 1 ≤ w.opts.windowSize ∧ w.opts.windowSize ≤ 65535 ∧
    1 ≤ w.opts.timeoutS ∧ w.opts.timeoutS ≤ 255 :=
  worker_opts_sane cfg fs largest dgram w h

/-! non-vacuity -/
example : ListenerInv Gen.defaultBlockSize := by unfold ListenerInv; decide

end Tftp
