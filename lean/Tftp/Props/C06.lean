import Tftp.Props.C03
import Tftp.Lemmas.Receiver
/-!
# C06 — Access policy: read-only, no-overwrite and not-found are refused without effect

`handleDatagram` is everything the listener does for one datagram. A `Reaction` with
`worker = none` starts nothing: no file is opened, created, truncated or removed (all file-system
effects of the server happen inside workers).
-/
namespace Tftp

/-- the decoded request, as the listener sees it (after truncation to its receive buffer) -/
def decoded (cfg : SrvCfg) (largest : Nat) (dgram : Bytes) : Outcome Packet :=
  decode (dgram.take ((if cfg.singlePort then largest else Gen.maxRequestPacketSize) + 4))

/-- **read-only**: every write request is refused with ERROR 2 from the listening socket; nothing starts -/
theorem c06_read_only (cfg : SrvCfg) (fs : Fs) (largest : Nat) (dgram : Bytes) (f m : Bytes)
    (os : List TransferOption) (hro : cfg.readOnly = true) (hd : decoded cfg largest dgram = .ok (.wrq f m os)) :
    handleDatagram cfg fs largest dgram = { reply := some (.listener, .error .accessViolation []), worker := none } := by
  unfold decoded at hd
  unfold handleDatagram
  simp only [hd, hro, ↓reduceIte, errorReply]

/-- **no overwrite**: a write request naming something that exists is refused with ERROR 6; nothing starts,
so the existing file stays byte-identical -/
theorem c06_no_overwrite (cfg : SrvCfg) (fs : Fs) (name : Bytes) (os : List TransferOption)
    (how : cfg.overwrite = false)
    (hvalid : validateFilePath (joinPath cfg.recvDir (convertFilePath name)) = true)
    (hex : (fs.stat (joinPath cfg.recvDir (convertFilePath name))).isSome = true) :
    handleWrq cfg fs name os = { reply := some (.listener, .error .fileExists []), worker := none } := by
  have hce : checkFileExists fs (joinPath cfg.recvDir (convertFilePath name)) = .fileExists := by
    unfold checkFileExists
    have : (fs.stat (joinPath cfg.recvDir (convertFilePath name))).isNone = false := by
      cases h : fs.stat (joinPath cfg.recvDir (convertFilePath name)) with
      | none => rw [h] at hex; simp at hex
      | some _ => rfl
    simp [hvalid, this]
  unfold handleWrq
  simp only [hce, how, errorReply]
  simp

/-- **not found**: a read request for a valid but missing path is refused with ERROR 1 -/
theorem c06_not_found (cfg : SrvCfg) (fs : Fs) (name : Bytes) (os : List TransferOption)
    (hvalid : validateFilePath (joinPath cfg.sendDir (convertFilePath name)) = true)
    (hmiss : fs.stat (joinPath cfg.sendDir (convertFilePath name)) = none) :
    handleRrq cfg fs name os = { reply := some (.listener, .error .fileNotFound []), worker := none } := by
  have hce : checkFileExists fs (joinPath cfg.sendDir (convertFilePath name)) = .fileNotFound := by
    unfold checkFileExists
    simp [hvalid, hmiss]
  unfold handleRrq
  simp only [hce, errorReply]

/-- **refusals come from the listening port and start no transfer**: whenever the reaction to a datagram
is an ERROR packet, it is sent by the listener and there is no worker -/
theorem c06_refusals_from_listener (cfg : SrvCfg) (fs : Fs) (largest : Nat) (dgram : Bytes) (src : Src)
    (code : ErrorCode) (msg : Bytes)
    (h : (handleDatagram cfg fs largest dgram).reply = some (src, .error code msg)) :
    src = .listener ∧ (handleDatagram cfg fs largest dgram).worker = none := by
  have hrrq : ∀ f os, (handleRrq cfg fs f os).reply = some (src, .error code msg) →
      src = .listener ∧ (handleRrq cfg fs f os).worker = none := by
    intro f os hr
    unfold handleRrq at hr ⊢
    simp only at hr ⊢
    cases hce : checkFileExists fs (joinPath cfg.sendDir (convertFilePath f)) with
    | fileNotFound =>
      rw [hce] at hr
      simp [errorReply] at hr ⊢
      first | exact ⟨hr.1.symm, trivial⟩ | exact hr.1.symm
    | accessViolation =>
      rw [hce] at hr
      simp [errorReply] at hr ⊢
      first | exact ⟨hr.1.symm, trivial⟩ | exact hr.1.symm
    | fileExists =>
      rw [hce] at hr
      simp only at hr
      cases hp : parseWorkerOptions os (.read (fileSize fs (joinPath cfg.sendDir (convertFilePath f)))) with
      | none => rw [hp] at hr; simp [noReaction] at hr
      | some r =>
        obtain ⟨wo, opts'⟩ := r
        rw [hp] at hr
        simp only at hr
        split at hr <;> simp at hr
    | notDefined => rw [hce] at hr; simp [noReaction] at hr
    | diskFull => rw [hce] at hr; simp [noReaction] at hr
    | illegalOperation => rw [hce] at hr; simp [noReaction] at hr
    | unknownId => rw [hce] at hr; simp [noReaction] at hr
    | noSuchUser => rw [hce] at hr; simp [noReaction] at hr
  have hwrq : ∀ f os, (handleWrq cfg fs f os).reply = some (src, .error code msg) →
      src = .listener ∧ (handleWrq cfg fs f os).worker = none := by
    intro f os hr
    have hinit : ∀ (r : Reaction), r = (match parseWorkerOptions os .write with
        | none => noReaction
        | some (wo, opts') =>
          ({ reply := some (.transfer, if opts'.isEmpty then .ack 0 else .oack opts'),
             worker := some { kind := .receive, path := joinPath cfg.recvDir (convertFilePath f),
                              opts := wo, checkResponse := false, rep := cfg.dup + 1 } } : Reaction)) →
          r.reply ≠ some (src, .error code msg) := by
      intro r hr
      rw [hr]
      cases hp : parseWorkerOptions os .write with
      | none => simp [noReaction]
      | some r =>
        obtain ⟨wo, opts'⟩ := r
        simp only
        split <;> simp
    unfold handleWrq at hr ⊢
    simp only at hr ⊢
    cases hce : checkFileExists fs (joinPath cfg.recvDir (convertFilePath f)) with
    | fileNotFound =>
      rw [hce] at hr
      exact absurd hr (hinit _ rfl)
    | accessViolation =>
      rw [hce] at hr
      simp [errorReply] at hr ⊢
      first | exact ⟨hr.1.symm, trivial⟩ | exact hr.1.symm
    | fileExists =>
      rw [hce] at hr
      simp only at hr
      by_cases how : cfg.overwrite = true
      · simp only [how, ↓reduceIte] at hr
        exact absurd hr (hinit _ rfl)
      · simp only [how] at hr ⊢
        simp [errorReply] at hr ⊢
        first | exact ⟨hr.1.symm, trivial⟩ | exact hr.1.symm
    | notDefined => rw [hce] at hr; simp [noReaction] at hr
    | diskFull => rw [hce] at hr; simp [noReaction] at hr
    | illegalOperation => rw [hce] at hr; simp [noReaction] at hr
    | unknownId => rw [hce] at hr; simp [noReaction] at hr
    | noSuchUser => rw [hce] at hr; simp [noReaction] at hr
  unfold handleDatagram at h ⊢
  simp only at h ⊢
  generalize decode (dgram.take ((if cfg.singlePort then largest else Gen.maxRequestPacketSize) + 4)) = d at h ⊢
  cases d with
  | ok p =>
    cases p with
    | rrq f m os => exact hrrq f os h
    | wrq f m os =>
      simp only at h ⊢
      by_cases hro : cfg.readOnly = true
      · simp only [hro, ↓reduceIte] at h ⊢
        simp [errorReply] at h ⊢
        first | exact ⟨h.1.symm, trivial⟩ | exact h.1.symm
      · simp only [hro] at h ⊢
        exact hwrq f os h
    | data n d => simp [errorReply] at h ⊢; first | exact ⟨h.1.symm, trivial⟩ | exact h.1.symm
    | ack n => simp [errorReply] at h ⊢; first | exact ⟨h.1.symm, trivial⟩ | exact h.1.symm
    | error c m => simp [errorReply] at h ⊢; first | exact ⟨h.1.symm, trivial⟩ | exact h.1.symm
    | oack os => simp [errorReply] at h ⊢; first | exact ⟨h.1.symm, trivial⟩ | exact h.1.symm
  | err => simp [noReaction] at h
  | panic => simp [noReaction] at h

/-- **overwrite replaces the old content entirely**: an accepted write request starts a receive worker,
and a receive worker starts from `File::create` — an empty file — so by C02 (`c02_final_file`) what a
completed upload leaves is exactly the uploaded content, whatever was there before -/
theorem c06_overwrite_truncates (c : RCfg) :
    (rInit c).win.file.content = [] ∧ (rInit c).win.file.initial = [] := by
  simp [rInit, Window.new, FileSt.create, FileSt.content]

/-! non-vacuity: the decision on concrete requests -/
def exCfg : SrvCfg :=
  { singlePort := false, readOnly := false, overwrite := false, cleanOnError := true, dup := 0, sendDir := [0x2F, 0x64], recvDir := [0x2F, 0x64] }

example : (handleWrq exCfg [([[0x64], [0x61]], .file [1])] [0x61] []).reply = some (.listener, .error .fileExists []) := by
  decide

end Tftp
