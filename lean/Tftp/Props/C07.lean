import Tftp.Lemmas.SenderStep
import Tftp.Model.Receiver
import Tftp.Lemmas.NetTotal
/-!
# C07 — Termination: transfers end at the final block, on ERROR, or after bounded retry
-/
namespace Tftp

/-! ## sender -/

/-- once ended (`Ok` or `Err` returned) the worker emits nothing and never changes again -/
theorem c07_quiet_after_end (c : SCfg) (s : SState) (ev : SEv) (dt : Nat)
    (h : s.status = .ok ∨ s.status = .failed) : sStep c s ev dt = (s, []) := by
  unfold sStep
  rcases h with h | h <;> simp [h]

theorem c07_quiet_run_after_end (c : SCfg) (s : SState) (evs : List (SEv × Nat))
    (h : s.status = .ok ∨ s.status = .failed) :
    (sRunFrom c s evs).2 = s ∧ ∀ g ∈ (sRunFrom c s evs).1, g = [] := by
  induction evs with
  | nil => simp [sRunFrom]
  | cons e es ih =>
    simp only [sRunFrom, c07_quiet_after_end c s e.1 e.2 h]
    refine ⟨ih.1, ?_⟩
    intro g hg
    simp at hg
    rcases hg with hg | hg
    · exact hg
    · exact ih.2 g hg

/-- a peer ERROR ends the transfer at once, in the data phase and in the handshake, with no output -/
theorem c07_stop_on_error (c : SCfg) (s : SState) (dt : Nat) (h : s.status = .running ∨ s.status = .handshake) :
    (sStep c s .error dt).1.status = .failed ∧ (sStep c s .error dt).2 = [] := by
  unfold sStep
  rcases h with h | h <;> simp [h]

/-- reply to the OACK: only ACK 0 (or a stray non-ACK, non-ERROR packet) starts the data phase;
ERROR, a failed receive, or ACK n ≠ 0 end the transfer without a single DATA
(ACK n ≠ 0 is answered by exactly one ERROR 4) -/
theorem c07_handshake (c : SCfg) (s : SState) (ev : SEv) (dt : Nat) (h : s.status = .handshake) :
    (ev = .error ∨ ev = .fail → sStep c s ev dt = ({ s with status := .failed }, [])) ∧
    (∀ n, n ≠ 0 → sStep c s (.ack n) dt = ({ s with status := .failed }, [illegalOp])) ∧
    (ev = .ack 0 ∨ ev = .other → sStep c s ev dt = sOuter c { s with status := .running }) := by
  unfold sStep
  refine ⟨?_, ?_, ?_⟩
  · rintro (rfl | rfl) <;> simp [h]
  · intro n hn; simp [h, hn]
  · rintro (rfl | rfl) <;> simp [h]

/-- the sender never emits a block beyond the file's final block `N` -/
theorem c07_never_beyond_final (c : SCfg) (hb : 0 < c.b) (hw : c.w < 65536) (f : Bytes) (chk : Bool)
    (evs : List (SEv × Nat)) :
    ∀ g ∈ (sRun c f chk evs).1, ∀ p ∈ g, ∀ n d, p = .data n d →
      ∃ k, 1 ≤ k ∧ k ≤ nblocks c.b f ∧ n = k % 65536 ∧ d = blk c.b f k := by
  intro g hg p hp n d hpd
  rcases (run_good hb hw f chk evs).2 g hg p hp with ⟨k, h1, h2, h3⟩ | h
  · subst hpd
    injection h3 with h4 h5
    exact ⟨k, h1, h2, h4, h5⟩
  · subst hpd; simp [illegalOp] at h

/-- an acknowledgement of the last outstanding block when the final block has been read
ends the transfer successfully with no further output -/
theorem c07_stop_on_final_ack (c : SCfg) (hw : c.w < 65536) (f : Bytes) (s : SState) (h : SInv c f s)
    (hrun : s.status = .running) (heof : s.win.eof = true) (hne : 0 < s.win.elems.length)
    (n dt : Nat) (hn : (n + 65536 - s.bn) % 65536 = s.win.elems.length - 1) :
    (sStep c s (.ack n) dt).1.status = .ok ∧ (sStep c s (.ack n) dt).2 = [] := by
  have hlen : s.win.len = s.win.elems.length := by
    unfold Window.len
    have := h.len_le
    exact Nat.mod_eq_of_lt (by omega)
  have hfilled : s.filled = false := by rw [h.filled_eq, heof]; rfl
  unfold sStep
  simp only [hrun, hlen, hn]
  have hlt : s.win.elems.length - 1 < s.win.elems.length := by omega
  simp only [hlt, ↓reduceIte]
  have hdrop : List.drop (s.win.elems.length - 1 + 1) s.win.elems = [] := by
    apply List.drop_eq_nil_of_le; omega
  simp [slide, Window.isEmpty, hfilled, hdrop]

/-- one more failed receive attempt: the retry counter grows by one, or the worker ends -/
theorem fail_step (c : SCfg) (s : SState) (ev : SEv) (dt : Nat) (hrun : s.status = .running)
    (hev : ev = .fail ∨ ev = .other) :
    ((sStep c s ev dt).1.status = .failed ∧ s.retry + 1 = Gen.maxRetries) ∨
    ((sStep c s ev dt).1.status = .running ∧ (sStep c s ev dt).1.retry = s.retry + 1) := by
  unfold sStep
  rcases hev with rfl | rfl
  all_goals
    simp only [hrun]
    by_cases hr : s.retry + 1 = Gen.maxRetries
    · left; simp [hr]
    · right
      simp only [hr, ↓reduceIte]
      unfold sHead
      split <;> simp [hrun]

/-- **bounded silence**: from every running state, `MAX_RETRIES` consecutive failed receive attempts
(time-outs, undecodable or stray datagrams) end the transfer — it never waits or retransmits forever -/
theorem c07_bounded_silence (c : SCfg) (f : Bytes) :
    ∀ (evs : List (SEv × Nat)) (s : SState), SInv c f s → s.status = .running →
      (∀ e ∈ evs, e.1 = .fail ∨ e.1 = .other) → Gen.maxRetries - s.retry ≤ evs.length →
      (sRunFrom c s evs).2.status = .failed := by
  intro evs
  induction evs with
  | nil =>
    intro s h hrun _ hlen
    have := h.retry_lt (by simp [hrun])
    simp at hlen; omega
  | cons e es ih =>
    intro s h hrun hall hlen
    simp only [sRunFrom]
    have hb1 : SInv c f (sStep c s e.1 e.2).1 → True := fun _ => trivial
    rcases fail_step c s e.1 e.2 hrun (hall e (by simp)) with ⟨hf, _⟩ | ⟨hr, hre⟩
    · have := (c07_quiet_run_after_end c (sStep c s e.1 e.2).1 es (Or.inr hf)).1
      rw [this]; exact hf
    · -- still running: the invariant only matters through `retry < MAX_RETRIES`, re-established below
      have hlt : (sStep c s e.1 e.2).1.retry < Gen.maxRetries := by
        rw [hre]
        have := h.retry_lt (by simp [hrun])
        rcases fail_step c s e.1 e.2 hrun (hall e (by simp)) with ⟨hf, _⟩ | _
        · rw [hr] at hf; simp at hf
        · by_cases heq : s.retry + 1 = Gen.maxRetries
          · exfalso
            have hs : (sStep c s e.1 e.2).1.status = .failed := by
              unfold sStep
              rcases hall e (by simp) with he | he <;> simp [he, hrun, heq]
            rw [hr] at hs; simp at hs
          · omega
      exact ih_aux c f es (sStep c s e.1 e.2).1 hr hlt (fun x hx => hall x (by simp [hx]))
        (by rw [hre]; simp at hlen; omega)
where
  ih_aux (c : SCfg) (f : Bytes) : ∀ (evs : List (SEv × Nat)) (s : SState), s.status = .running →
      s.retry < Gen.maxRetries → (∀ e ∈ evs, e.1 = .fail ∨ e.1 = .other) →
      Gen.maxRetries - s.retry ≤ evs.length → (sRunFrom c s evs).2.status = .failed := by
    intro evs
    induction evs with
    | nil => intro s _ hlt _ hlen; simp at hlen; omega
    | cons e es ih =>
      intro s hrun hlt hall hlen
      simp only [sRunFrom]
      rcases fail_step c s e.1 e.2 hrun (hall e (by simp)) with ⟨hf, _⟩ | ⟨hr, hre⟩
      · have := (c07_quiet_run_after_end c (sStep c s e.1 e.2).1 es (Or.inr hf)).1
        rw [this]; exact hf
      · have hne : s.retry + 1 ≠ Gen.maxRetries := by
          intro heq
          have hs : (sStep c s e.1 e.2).1.status = .failed := by
            unfold sStep
            rcases hall e (by simp) with he | he <;> simp [he, hrun, heq]
          rw [hr] at hs; simp at hs
        exact ih _ hr (by rw [hre]; omega) (fun x hx => hall x (by simp [hx]))
          (by rw [hre]; simp at hlen; omega)

/-- the retry budget is positive and is what the source says (`MAX_RETRIES`) -/
theorem c07_max_retries_pos : 0 < Gen.maxRetries := by decide

/-! ## receiver -/

theorem c07_receiver_quiet_after_end (c : RCfg) (s : RState) (ev : REv)
    (h : s.status = .ok ∨ s.status = .failed) : rStep c s ev = (s, []) := by
  unfold rStep
  rcases h with h | h <;> simp [h]

theorem c07_receiver_stop_on_error (c : RCfg) (s : RState) (h : s.status = .running) :
    (rStep c s .error).1.status = .failed ∧ (rStep c s .error).2 = [] := by
  unfold rStep; simp [h]

/-- the final (short) block is flushed, acknowledged, and the receiver ends — nothing more follows -/
theorem c07_receiver_stops_after_final (c : RCfg) (s : RState) (n : Nat) (payload : Bytes)
    (hrun : s.status = .running) (hseq : n = (s.bn + 1) % 65536) (hshort : payload.length < c.b) :
    (rStep c s (.data n payload)).1.status = .ok ∨ (rStep c s (.data n payload)).1.status = .failed := by
  unfold rStep
  simp only [hrun, hseq, ↓reduceIte]
  split
  · simp only [hshort, ↓reduceIte]
    unfold markOk flushAck
    split <;> simp
  · right; rfl

theorem r_fail_step (c : RCfg) (s : RState) (hrun : s.status = .running) :
    ((rStep c s .fail).1.status = .failed ∧ s.retry + 1 = Gen.maxRetries) ∨
    ((rStep c s .fail).1.status = .running ∧ (rStep c s .fail).1.retry = s.retry + 1) := by
  unfold rStep
  simp only [hrun]
  by_cases hr : s.retry + 1 = Gen.maxRetries
  · left; simp [hr]
  · right; simp [hr, hrun]

/-- bounded silence, receiving side -/
theorem c07_receiver_bounded_silence (c : RCfg) :
    ∀ (n : Nat) (s : RState), s.status = .running → s.retry < Gen.maxRetries →
      Gen.maxRetries - s.retry ≤ n →
      (rRunFrom c s (List.replicate n .fail)).2.status = .failed := by
  intro n
  induction n with
  | zero => intro s _ hlt hlen; omega
  | succ n ih =>
    intro s hrun hlt hlen
    simp only [List.replicate_succ, rRunFrom]
    rcases r_fail_step c s hrun with ⟨hf, _⟩ | ⟨hr, hre⟩
    · have hq : ∀ (m : Nat) (t : RState), t.status = .failed →
          (rRunFrom c t (List.replicate m .fail)).2.status = .failed := by
        intro m
        induction m with
        | zero => intro t ht; simpa [rRunFrom] using ht
        | succ m ihm =>
          intro t ht
          simp only [List.replicate_succ, rRunFrom, c07_receiver_quiet_after_end c t .fail (Or.inr ht)]
          exact ihm t ht
      exact hq n _ hf
    · have hne : s.retry + 1 ≠ Gen.maxRetries := by
        intro heq
        have hs : (rStep c s .fail).1.status = .failed := by
          unfold rStep; simp [hrun, heq]
        rw [hr] at hs; simp at hs
      exact ih _ hr (by rw [hre]; omega) (by rw [hre]; omega)

end Tftp

namespace Tftp

/-- **no schedule makes a transfer run for ever**: in the closed loop of the two models, for every file, block
size, window size and for every schedule of lost and duplicated datagrams (unbounded), there is a point at which
both sides have ended (neither is running any more) -/
theorem c07_closed_loop_always_ends (sc : SCfg) (rc : RCfg) (hb : 0 < sc.b) (hw1 : 1 ≤ sc.w) (hw : sc.w < 65536)
    (hrep : sc.rep = 1) (ht : 0 < sc.timeout) (hrb : rc.b = sc.b) (hrw : rc.w = sc.w) (hrrep : rc.rep = 1)
    (fl : Faults) (f : Bytes) :
    ∃ fuel,
      senderRunning (netRun sc rc fl fuel (netInit sc rc fl f)).s = false ∧
      receiverRunning (netRun sc rc fl fuel (netInit sc rc fl f)).r = false := by
  obtain ⟨fuel, h⟩ := closed_loop_total sc rc ⟨⟨hb, hw1, hw, hrep, hrb, hrw, hrrep⟩, ht⟩ fl f
  refine ⟨fuel, ?_, ?_⟩
  · rcases h with ⟨_, _, h3 | ⟨h3, _⟩⟩ | ⟨_, _, h3, _⟩ <;> simp [senderRunning, h3]
  · rcases h with ⟨h1, _, _⟩ | ⟨h1, _, _, _⟩ <;> simp [receiverRunning, h1]

end Tftp
