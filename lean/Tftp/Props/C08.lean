import Tftp.Lemmas.SenderStep
import Tftp.Model.Receiver
/-!
# C08 — Window flow control; retransmit only on timeout or gap, never on duplicate ACK
-/
namespace Tftp

theorem sendWindow_length (rep bn : Nat) (es : List Bytes) :
    (sendWindow rep bn es).length = rep * es.length := by
  induction es generalizing bn with
  | nil => simp [sendWindow]
  | cons e es ih => simp [sendWindow, sendPacket, ih, Nat.mul_add]; omega

/-- shape of what one transition emits: nothing, the handshake ERROR, or exactly the window of the
state reached — at most `windowsize` blocks, starting at the block after the last accepted ACK -/
theorem c08_outstanding_le_w (c : SCfg) (hb : 0 < c.b) (hw : c.w < 65536) (f : Bytes) (s : SState)
    (h : SInv c f s) (ev : SEv) (dt : Nat) :
    (sStep c s ev dt).2 = [] ∨ (sStep c s ev dt).2 = [illegalOp] ∨
    ((sStep c s ev dt).2 = sendWindow c.rep (sStep c s ev dt).1.bn (sStep c s ev dt).1.win.elems ∧
      (sStep c s ev dt).1.win.elems.length ≤ c.w ∧
      (sStep c s ev dt).1.bn = (sStep c s ev dt).1.base % 65536) := by
  have hinv := (step_good hb hw h ev dt).1
  have hshape : ∀ t : SState, (sHead c t).2 = [] ∨
      (sHead c t).2 = sendWindow c.rep (sHead c t).1.bn (sHead c t).1.win.elems := by
    intro t; unfold sHead; split <;> simp
  have houter : ∀ t : SState, (sOuter c t).2 = [] ∨
      (sOuter c t).2 = sendWindow c.rep (sOuter c t).1.bn (sOuter c t).1.win.elems := by
    intro t; unfold sOuter; split
    · exact hshape _
    · left; rfl
  have key : (sStep c s ev dt).2 = [] ∨ (sStep c s ev dt).2 = [illegalOp] ∨
      (sStep c s ev dt).2 = sendWindow c.rep (sStep c s ev dt).1.bn (sStep c s ev dt).1.win.elems := by
    unfold sStep
    split
    · cases ev with
      | ack n =>
        simp only
        split
        · rcases houter { s with status := .running } with h1 | h1
          · exact Or.inl h1
          · exact Or.inr (Or.inr h1)
        · exact Or.inr (Or.inl rfl)
      | error => exact Or.inl rfl
      | fail => exact Or.inl rfl
      | other =>
        rcases houter { s with status := .running } with h1 | h1
        · exact Or.inl h1
        · exact Or.inr (Or.inr h1)
    · cases ev with
      | ack n =>
        simp only
        split
        · split
          · exact Or.inl rfl
          · rcases houter _ with h1 | h1
            · exact Or.inl h1
            · exact Or.inr (Or.inr h1)
        · rcases hshape _ with h1 | h1
          · exact Or.inl h1
          · exact Or.inr (Or.inr h1)
      | error => exact Or.inl rfl
      | fail =>
        simp only
        split
        · exact Or.inl rfl
        · rcases hshape _ with h1 | h1
          · exact Or.inl h1
          · exact Or.inr (Or.inr h1)
      | other =>
        simp only
        split
        · exact Or.inl rfl
        · rcases hshape _ with h1 | h1
          · exact Or.inl h1
          · exact Or.inr (Or.inr h1)
    · exact Or.inl rfl
  rcases key with k | k | k
  · exact Or.inl k
  · exact Or.inr (Or.inl k)
  · exact Or.inr (Or.inr ⟨k, hinv.len_le, hinv.bn_eq⟩)

/-- **a duplicate or stale acknowledgement is a no-op**: for every window size up to 65535, an ACK whose
number is not that of an outstanding block — in particular a repetition of the last ACK — triggers
neither a transmission nor an abort while the timeout has not elapsed; only the clock moves -/
theorem c08_stale_ack_is_noop (c : SCfg) (hw : c.w < 65536) (f : Bytes) (s : SState) (h : SInv c f s)
    (hrun : s.status = .running) (n dt : Nat)
    (hstale : ¬ (n + 65536 - s.bn) % 65536 < s.win.elems.length) (ht : s.since + dt < c.timeout) :
    sStep c s (.ack n) dt = ({ s with since := s.since + dt }, []) := by
  have hlen : s.win.len = s.win.elems.length := by
    unfold Window.len
    have := h.len_le
    exact Nat.mod_eq_of_lt (by omega)
  unfold sStep
  simp only [hrun, hlen, hstale, ↓reduceIte]
  unfold sHead
  have : ¬ (s.since + dt ≥ c.timeout) := by omega
  simp [this, hrun]

/-- the previous ACK repeated is such a stale ACK, whatever the window size (this is the statement
that was false at `windowsize = 65535` before the repair) -/
theorem c08_duplicate_ack_is_stale (c : SCfg) (hw : c.w < 65536) (f : Bytes) (s : SState) (h : SInv c f s) :
    ¬ ((s.base - 1) % 65536 + 65536 - s.bn) % 65536 < s.win.elems.length := by
  have := h.len_le
  have := h.bn_eq
  have := h.base_pos
  omega

/-- acknowledgements are cumulative: an ACK for the `(diff+1)`-th outstanding block slides the window
past exactly that block, and transmission resumes with block `n + 1` at its front -/
theorem c08_cumulative (c : SCfg) (hb : 0 < c.b) (hw : c.w < 65536) (f : Bytes) (s : SState) (h : SInv c f s)
    (hrun : s.status = .running) (n dt : Nat)
    (hin : (n + 65536 - s.bn) % 65536 < s.win.elems.length) :
    (sStep c s (.ack n) dt).1.base = s.base + (n + 65536 - s.bn) % 65536 + 1 ∧
    (sStep c s (.ack n) dt).1.bn = (n + 1) % 65536 ∧
    ((sStep c s (.ack n) dt).1.status = .ok ∨
      (sStep c s (.ack n) dt).2 = sendWindow c.rep ((n + 1) % 65536) (sStep c s (.ack n) dt).1.win.elems) := by
  have hlen : s.win.len = s.win.elems.length := by
    unfold Window.len
    have := h.len_le
    exact Nat.mod_eq_of_lt (by omega)
  have h0 : SInv c f { s with since := s.since + dt } :=
    ⟨h.base_pos, h.bn_eq, h.elems_eq, h.cur, h.fin, h.len_le, h.size_eq, h.chunk_eq, h.can_read,
      h.filled_eq, h.retry_lt⟩
  have hs' := slide_inv h0 n hin hw
  obtain ⟨w', fl, hfill, hinv, _, _, _⟩ := fill_ok hb hw hs'
  unfold sStep
  simp only [hrun, hlen, hin, ↓reduceIte]
  split
  · simp [slide]
  · unfold sOuter
    simp only [slide] at hfill ⊢
    rw [hfill]
    simp only
    unfold sHead
    have : c.timeout + Gen.timeoutBufferMs ≥ c.timeout := by omega
    simp [this]

/-- a burst is emitted only right after an acknowledgement inside the window, or when the negotiated
timeout has elapsed since the last transmission — never otherwise -/
theorem c08_burst_causes (c : SCfg) (hw : c.w < 65536) (f : Bytes) (s : SState) (h : SInv c f s)
    (hrun : s.status = .running) (ev : SEv) (dt : Nat) (hout : (sStep c s ev dt).2 ≠ []) :
    (∃ n, ev = .ack n ∧ (n + 65536 - s.bn) % 65536 < s.win.elems.length) ∨ s.since + dt ≥ c.timeout := by
  have hlen : s.win.len = s.win.elems.length := by
    unfold Window.len
    have := h.len_le
    exact Nat.mod_eq_of_lt (by omega)
  have hhead : ∀ t : SState, (sHead c t).2 ≠ [] → t.since ≥ c.timeout := by
    intro t ht
    unfold sHead at ht
    split at ht
    · assumption
    · simp at ht
  unfold sStep at hout
  simp only [hrun] at hout
  cases ev with
  | ack n =>
    simp only [hlen] at hout
    by_cases hin : (n + 65536 - s.bn) % 65536 < s.win.elems.length
    · exact Or.inl ⟨n, rfl, hin⟩
    · simp only [hin, ↓reduceIte] at hout
      exact Or.inr (hhead _ hout)
  | error => simp at hout
  | fail =>
    simp only at hout
    split at hout
    · simp at hout
    · exact Or.inr (hhead _ hout)
  | other =>
    simp only at hout
    split at hout
    · simp at hout
    · exact Or.inr (hhead _ hout)

/-! ## receiver: acknowledge at the latest after `windowsize` in-order blocks, and on the final block -/

/-- pending blocks never reach `windowsize` between two transitions … -/
def RPending (c : RCfg) (s : RState) : Prop :=
  s.win.elems.length < c.w ∧ s.win.size = c.w ∧ s.win.file.canWrite = true

theorem window_empty_ok (w : Window) (h : w.file.canWrite = true) :
    ∃ w', w.empty = (w', .ok ()) ∧ w'.elems = [] ∧ w'.size = w.size ∧ w'.file.canWrite = true := by
  unfold Window.empty
  simp only [h, Bool.not_true, Bool.false_and, Bool.false_eq_true, ↓reduceIte]
  refine ⟨_, rfl, rfl, rfl, ?_⟩
  simp only
  generalize w.elems = es
  generalize hf : w.file = fl at h
  clear hf
  induction es generalizing fl with
  | nil => simpa using h
  | cons e es ih =>
    simp only [List.foldl_cons]
    apply ih
    unfold FileSt.write
    split <;> simp [h]

/-- … and the step that receives the `windowsize`-th in-order block, or the final (short) block,
emits the acknowledgement (after flushing: nothing stays pending) -/
theorem c08_receiver_acks_by_w (c : RCfg) (hw1 : 1 ≤ c.w) (hw : c.w < 65536) (s : RState) (hp : RPending c s)
    (hrun : s.status = .running) (n : Nat) (payload : Bytes) (hseq : n = (s.bn + 1) % 65536) :
    RPending c (rStep c s (.data n payload)).1 ∧
    ((payload.length < c.b ∨ s.win.elems.length + 1 = c.w) →
      (rStep c s (.data n payload)).2 = ackOut c.rep n (rStep c s (.data n payload)).1.win.file ∧
      (rStep c s (.data n payload)).1.win.elems = []) := by
  obtain ⟨hlt, hsz, hcw⟩ := hp
  have hlen : s.win.len = s.win.elems.length := by
    unfold Window.len; exact Nat.mod_eq_of_lt (by omega)
  have hadd : s.win.add payload = ({ s.win with elems := s.win.elems ++ [payload] }, .ok ()) := by
    unfold Window.add
    have : ¬ s.win.len = s.win.size := by rw [hlen, hsz]; omega
    simp [this]
  obtain ⟨w', he, hnil, hsz', hcw'⟩ := window_empty_ok { s.win with elems := s.win.elems ++ [payload] } hcw
  unfold rStep
  simp only [hrun, hseq, ↓reduceIte, hadd]
  by_cases hshort : payload.length < c.b
  · simp only [hshort, ↓reduceIte]
    unfold markOk flushAck
    simp only [he, hrun, ↓reduceIte]
    refine ⟨⟨by simp [hnil]; omega, by simpa using hsz'.trans hsz, by simpa using hcw'⟩, ?_⟩
    intro _
    simp [hnil]
  · simp only [hshort, ↓reduceIte]
    by_cases hfull : s.win.elems.length + 1 = c.w
    · have hisfull : ({ s.win with elems := s.win.elems ++ [payload] } : Window).isFull = true := by
        unfold Window.isFull
        simp only [List.length_append, List.length_singleton, hsz]
        rw [hfull, Nat.mod_eq_of_lt hw]; simp
      simp only [hisfull, ↓reduceIte]
      unfold flushAck
      simp only [he]
      refine ⟨⟨by simp [hnil]; omega, by simpa using hsz'.trans hsz, by simpa using hcw'⟩, ?_⟩
      intro _
      simp [hnil]
    · have hnotfull : ({ s.win with elems := s.win.elems ++ [payload] } : Window).isFull = false := by
        unfold Window.isFull
        simp only [List.length_append, List.length_singleton, hsz]
        have : (s.win.elems.length + 1) % 65536 = s.win.elems.length + 1 := Nat.mod_eq_of_lt (by omega)
        rw [this]; simp; omega
      simp only [hnotfull, Bool.false_eq_true, ↓reduceIte]
      refine ⟨⟨by simp; omega, by simpa using hsz, by simpa using hcw⟩, ?_⟩
      intro hor
      rcases hor with h1 | h1
      · first | exact h1.elim | exact absurd h1 hshort
      · first | exact h1.elim | exact absurd h1 hfull

end Tftp
