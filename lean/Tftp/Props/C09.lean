import Tftp.Props.C03
import Tftp.Lemmas.SenderStep
/-!
# C09 — Option negotiation: OACK is truthful and the transfer uses exactly its values

The option list that reaches `handle_rrq`/`handle_wrq` is the list of *recognised* options of the
request (unknown names are dropped by the decoder, names compared case-insensitively: see
`c09_name_case`). `parseWorkerOptions` mirrors `parse_options`; its guards come from the current
source text through `Generated.lean`.
-/
namespace Tftp

/-- **OACK exactly when at least one recognised option was requested.** For an accepted read request the
first reply is an OACK iff the recognised-option list is non-empty, otherwise nothing precedes DATA 1
(`checkResponse = false`); for an accepted write request it is an OACK iff non-empty, otherwise ACK 0. -/
theorem c09_oack_iff (cfg : SrvCfg) (fs : Fs) (name : Bytes) (os : List TransferOption) (w : WorkerSpec) :
    ((handleRrq cfg fs name os).worker = some w →
      (os ≠ [] → ∃ acked, (handleRrq cfg fs name os).reply = some (.transfer, .oack acked) ∧ w.checkResponse = true) ∧
      (os = [] → (handleRrq cfg fs name os).reply = none ∧ w.checkResponse = false)) ∧
    ((handleWrq cfg fs name os).worker = some w →
      (os ≠ [] → ∃ acked, (handleWrq cfg fs name os).reply = some (.transfer, .oack acked)) ∧
      (os = [] → (handleWrq cfg fs name os).reply = some (.transfer, .ack 0))) := by
  have hlen : ∀ rt wo opts', parseWorkerOptions os rt = some (wo, opts') → (opts' = [] ↔ os = []) := by
    intro rt wo opts' hp
    obtain ⟨tail, h1, h2, _⟩ := parseOptionsLoop_acks rt os defaultOptions [] wo opts' hp
    simp at h1
    rw [h1]
    constructor
    · intro h; rw [h] at h2; exact List.eq_nil_of_length_eq_zero h2.symm
    · intro h; rw [h] at h2; exact List.eq_nil_of_length_eq_zero h2
  constructor
  · intro hw
    unfold handleRrq at hw ⊢
    simp only at hw ⊢
    cases hce : checkFileExists fs (joinPath cfg.sendDir (convertFilePath name)) <;> rw [hce] at hw <;>
      simp only [errorReply, noReaction] at hw ⊢ <;> try (simp at hw; done)
    cases hp : parseWorkerOptions os (.read (fileSize fs (joinPath cfg.sendDir (convertFilePath name)))) with
    | none => rw [hp] at hw; simp [noReaction] at hw
    | some r =>
      obtain ⟨wo, opts'⟩ := r
      rw [hp] at hw
      simp at hw
      have hl := hlen _ wo opts' hp
      simp only
      constructor
      · intro hne
        have : opts' ≠ [] := fun h => hne (hl.mp h)
        refine ⟨opts', by simp [this], ?_⟩
        rw [← hw]; simp [this]
      · intro he
        have : opts' = [] := hl.mpr he
        refine ⟨by simp [this], ?_⟩
        rw [← hw]; simp [this]
  · intro hw
    unfold handleWrq at hw ⊢
    simp only at hw ⊢
    have hinit : ∀ (r : Reaction), r = (match parseWorkerOptions os .write with
        | none => noReaction
        | some (wo, opts') =>
          ({ reply := some (.transfer, if opts'.isEmpty then .ack 0 else .oack opts'),
             worker := some { kind := .receive, path := joinPath cfg.recvDir (convertFilePath name),
                              opts := wo, checkResponse := false, rep := cfg.dup + 1 } } : Reaction)) →
        r.worker = some w →
        (os ≠ [] → ∃ acked, r.reply = some (.transfer, .oack acked)) ∧
        (os = [] → r.reply = some (.transfer, .ack 0)) := by
      intro r hr hrw
      rw [hr] at hrw ⊢
      cases hp : parseWorkerOptions os .write with
      | none => rw [hp] at hrw; simp [noReaction] at hrw
      | some rr =>
        obtain ⟨wo, opts'⟩ := rr
        have hl := hlen _ wo opts' hp
        simp only
        constructor
        · intro hne
          have : opts' ≠ [] := fun h => hne (hl.mp h)
          exact ⟨opts', by simp [this]⟩
        · intro he
          have : opts' = [] := hl.mpr he
          simp [this]
    cases hce : checkFileExists fs (joinPath cfg.recvDir (convertFilePath name)) <;> rw [hce] at hw <;>
      simp only [errorReply, noReaction] at hw ⊢ <;> try (simp at hw; done)
    · exact hinit _ rfl hw
    · by_cases how : cfg.overwrite = true
      · simp only [how, ↓reduceIte] at hw ⊢
        exact hinit _ rfl hw
      · simp [how, errorReply] at hw

/-- **the OACK is truthful.** It lists exactly the requested recognised options, in request order; each
value equals the requested one — so never exceeds it — except `tsize` on a read request, which carries
the file's true size (on a write request the client's value is echoed). -/
theorem c09_oack_subset (os : List TransferOption) (rt : ReqType) (wo : WorkerOptions)
    (acked : List TransferOption) (h : parseWorkerOptions os rt = some (wo, acked)) :
    acked.length = os.length ∧
    ∀ i, i < os.length → ∃ r a, os[i]? = some r ∧ acked[i]? = some a ∧ a.option = r.option ∧
      (r.option ≠ .tsize → a.value = r.value) ∧
      (r.option = .tsize → a.value = tsizeAck rt r.value) := by
  obtain ⟨tail, h1, h2, h3⟩ := parseOptionsLoop_acks rt os defaultOptions [] wo acked h
  simp at h1
  subst h1
  refine ⟨h2, ?_⟩
  intro i hi
  obtain ⟨r, a, e1, e2, e3, e4, e5⟩ := h3 i hi
  exact ⟨r, a, e1, e2, e3, e5, e4⟩

/-- **values the server cannot honour are never acknowledged**: a request carrying `timeout 0`,
`windowsize 0` or `> 65535`, or `blksize` outside `8..65464` gets no OACK and starts no transfer -/
theorem c09_invalid_never_acked (cfg : SrvCfg) (fs : Fs) (name : Bytes) (os : List TransferOption)
    (hbad : ∃ o ∈ os, Unhonourable o) :
    (∀ acked, (handleRrq cfg fs name os).reply ≠ some (.transfer, .oack acked)) ∧
    (handleRrq cfg fs name os).worker = none ∧
    (∀ acked, (handleWrq cfg fs name os).reply ≠ some (.transfer, .oack acked)) ∧
    (handleWrq cfg fs name os).worker = none := by
  have hnone : ∀ rt, parseWorkerOptions os rt = none := fun rt => parseOptionsLoop_rejects rt os _ _ hbad
  refine ⟨?_, ?_, ?_, ?_⟩
  · intro acked
    unfold handleRrq
    simp only [hnone]
    split <;> simp [errorReply, noReaction]
  · unfold handleRrq
    simp only [hnone]
    split <;> simp [errorReply, noReaction]
  · intro acked
    unfold handleWrq
    simp only [hnone]
    split
    · split <;> simp [errorReply, noReaction]
    · simp [errorReply]
    · simp [noReaction]
    · simp [noReaction]
  · unfold handleWrq
    simp only [hnone]
    split
    · split <;> simp [errorReply, noReaction]
    · simp [errorReply]
    · simp [noReaction]
    · simp [noReaction]

/-- **the transfer uses precisely the acknowledged values**, and they are values the worker can honour:
block length `8..65464`, `1..65535` blocks per window, retransmission interval `1..255` s; RFC 1350
defaults (512 bytes, lock-step, 5 s) when nothing was acknowledged -/
theorem c09_worker_params_sane (os : List TransferOption) (rt : ReqType) (wo : WorkerOptions)
    (acked : List TransferOption) (h : parseWorkerOptions os rt = some (wo, acked)) :
    8 ≤ wo.blockSize ∧ wo.blockSize ≤ 65464 ∧ 1 ≤ wo.windowSize ∧ wo.windowSize ≤ 65535 ∧
    1 ≤ wo.timeoutS ∧ wo.timeoutS ≤ 255 := by
  have hs := parseOptionsLoop_sane rt (by decide) os defaultOptions [] wo acked defaultOptions_sane h
  have h1 := hs.blk_lo
  have h2 := hs.blk_hi
  have h3 := hs.tmo_hi
  simp only [Gen.blksizeMin, Gen.blksizeMax, Gen.timeoutMax] at h1 h2 h3
  exact ⟨h1, h2, hs.win_lo, hs.win_hi, hs.tmo_lo, h3⟩

theorem c09_defaults : parseWorkerOptions [] .write = some (defaultOptions, []) ∧
    defaultOptions.blockSize = 512 ∧ defaultOptions.windowSize = 1 ∧ defaultOptions.timeoutS = 5 := by
  decide

/-- a single acknowledged option sets exactly its parameter (the last one wins when repeated) -/
theorem c09_worker_uses_last (rt : ReqType) (pre : List TransferOption) (o : TransferOption)
    (wo : WorkerOptions) (acked : List TransferOption)
    (h : parseWorkerOptions (pre ++ [o]) rt = some (wo, acked)) :
    (o.option = .blksize → wo.blockSize = o.value) ∧
    (o.option = .windowsize → wo.windowSize = o.value) ∧
    (o.option = .timeout → wo.timeoutS = o.value) := by
  have key : ∀ (pre : List TransferOption) (w0 : WorkerOptions) (acc : List TransferOption),
      parseOptionsLoop rt (pre ++ [o]) w0 acc = some (wo, acked) →
      (o.option = .blksize → wo.blockSize = o.value) ∧
      (o.option = .windowsize → wo.windowSize = o.value) ∧
      (o.option = .timeout → wo.timeoutS = o.value) := by
    intro pre
    induction pre with
    | nil =>
      intro w0 acc hp
      simp only [List.nil_append] at hp
      unfold parseOptionsLoop at hp
      split at hp
      · rename_i ho
        split at hp
        · simp at hp
        · simp [parseOptionsLoop] at hp
          rw [← hp.1]; simp [ho]
      · rename_i ho
        split at hp <;> (simp [parseOptionsLoop] at hp; rw [← hp.1]; simp [ho])
      · rename_i ho
        split at hp
        · simp at hp
        · simp [parseOptionsLoop] at hp
          rw [← hp.1]; simp [ho]
      · rename_i ho
        split at hp
        · simp at hp
        · simp [parseOptionsLoop] at hp
          rw [← hp.1]; simp [ho]
    | cons p ps ih =>
      intro w0 acc hp
      simp only [List.cons_append] at hp
      unfold parseOptionsLoop at hp
      split at hp
      · split at hp
        · simp at hp
        · exact ih _ _ hp
      · split at hp <;> exact ih _ _ hp
      · split at hp
        · simp at hp
        · exact ih _ _ hp
      · split at hp
        · simp at hp
        · exact ih _ _ hp
  exact key pre _ _ h

/-! names: every ASCII case variant of the four names is recognised -/

def asciiLower (b : UInt8) : UInt8 := if 0x41 ≤ b ∧ b ≤ 0x5A then b + 32 else b

theorem lowerName_cons (b : UInt8) (rest : Bytes) (hb : b ≠ 0xE2) :
    lowerName (b :: rest) = asciiLower b :: lowerName rest := by
  conv => lhs; unfold lowerName
  split
  · rename_i heq; simp at heq
  · rename_i heq; simp at heq; exact absurd heq.1 hb
  · rename_i heq; simp at heq; obtain ⟨rfl, rfl⟩ := heq; rfl

theorem lowerName_ascii (s : Bytes) (h : ∀ b ∈ s, b < 0x80) : lowerName s = s.map asciiLower := by
  induction s with
  | nil => simp [lowerName]
  | cons b rest ih =>
    have hb : b < 0x80 := h b (by simp)
    have hr : ∀ x ∈ rest, x < 0x80 := fun x hx => h x (by simp [hx])
    have hne : b ≠ 0xE2 := by
      intro he; subst he; exact absurd hb (by decide)
    rw [lowerName_cons b rest hne, List.map_cons, ih hr]

/-- **case-insensitive names**: any spelling whose ASCII lower-casing is the option's name is recognised -/
theorem c09_name_case (s : Bytes) (t : OptionType) (hascii : ∀ b ∈ s, b < 0x80)
    (h : s.map asciiLower = t.name) : OptionType.ofName (lowerName s) = some t := by
  rw [lowerName_ascii s hascii, h]
  cases t <;> decide

/-- U+212A KELVIN SIGN lower-cases to `k` (Rust `to_lowercase` is Unicode-aware): `bl<K>size` is `blksize` -/
theorem c09_kelvin : OptionType.ofName (lowerName [0x62, 0x6C, 0xE2, 0x84, 0xAA, 0x73, 0x69, 0x7A, 0x65]) = some .blksize := by
  decide

/-! non-vacuity -/
example : parseWorkerOptions [{ option := .blksize, value := 1428 }, { option := .tsize, value := 0 }] (.read 777) =
    some ({ blockSize := 1428, transferSize := 777, timeoutS := 5, windowSize := 1 },
          [{ option := .blksize, value := 1428 }, { option := .tsize, value := 777 }]) := by decide
example : Unhonourable { option := .blksize, value := 7 } := Or.inl ⟨rfl, Or.inl (by decide)⟩

end Tftp

namespace Tftp

/-- the sender configuration the server derives from the acknowledged options -/
def senderCfgOf (w : WorkerSpec) : SCfg :=
  { b := w.opts.blockSize, w := w.opts.windowSize, timeout := w.opts.timeoutS * 1000, rep := w.rep }

/-- **the transfer uses exactly the acknowledged values.** For a read request the server accepts, the
worker's parameters are the ones `parse_options` computed (the values in the OACK, `c09_oack_subset`),
and with those parameters — by C01 and C08 — every DATA block the transfer ever emits is a slice of the
file of exactly the acknowledged block length (the last one shorter), for every receive history. -/
theorem c09_transfer_uses_acked_values (cfg : SrvCfg) (fs : Fs) (name : Bytes) (os : List TransferOption)
    (w : WorkerSpec) (hw : (handleRrq cfg fs name os).worker = some w) :
    (∃ acked, parseWorkerOptions os (.read (fileSize fs (joinPath cfg.sendDir (convertFilePath name)))) =
        some (w.opts, acked)) ∧
    w.rep = cfg.dup + 1 ∧
    ∀ (f : Bytes) (chk : Bool) (evs : List (SEv × Nat)),
      ∀ g ∈ (sRun (senderCfgOf w) f chk evs).1, ∀ p ∈ g, GoodPkt (senderCfgOf w) f p := by
  have hopts : ∃ acked, parseWorkerOptions os (.read (fileSize fs (joinPath cfg.sendDir (convertFilePath name)))) =
      some (w.opts, acked) ∧ w.rep = cfg.dup + 1 := by
    unfold handleRrq at hw
    simp only at hw
    cases hce : checkFileExists fs (joinPath cfg.sendDir (convertFilePath name)) <;> rw [hce] at hw <;>
      simp only [errorReply, noReaction] at hw <;> try (simp at hw; done)
    cases hp : parseWorkerOptions os (.read (fileSize fs (joinPath cfg.sendDir (convertFilePath name)))) with
    | none => rw [hp] at hw; simp [noReaction] at hw
    | some r =>
      obtain ⟨wo, opts'⟩ := r
      rw [hp] at hw
      simp at hw
      rw [← hw]
      exact ⟨opts', rfl, rfl⟩
  obtain ⟨acked, hp, hrep⟩ := hopts
  refine ⟨⟨acked, hp⟩, hrep, ?_⟩
  have hs := c09_worker_params_sane os _ w.opts acked hp
  intro f chk evs
  exact (run_good (c := senderCfgOf w) (by show 0 < w.opts.blockSize; omega) (by show w.opts.windowSize < 65536; omega) f chk evs).2

end Tftp
