import Tftp.Lemmas.CodecTotal
import Tftp.Props.C11
/-!
# C10 — Decoder totality: any byte string decodes to a packet or an error, never a panic

`decode` mirrors `Packet::deserialize` slice for slice; every `buf[a..]`, `buf[a..b]` and
`buf.len() - 1` of the Rust source is a point where the model can return `Outcome.panic`.
-/
namespace Tftp

/-- no byte string makes the decoder panic (slice out of bounds, subtraction underflow, or
non-termination of the option loop) -/
theorem c10_total (buf : Bytes) : decode buf ≠ .panic := decode_ne_panic buf

/-- so the result is a packet or an error -/
theorem c10_result (buf : Bytes) : decode buf = .err ∨ ∃ p, decode buf = .ok p := by
  cases h : decode buf with
  | ok p => exact Or.inr ⟨p, rfl⟩
  | err => exact Or.inl rfl
  | panic => exact absurd h (decode_ne_panic buf)

/-- whatever is accepted is a well-formed packet … -/
theorem c10_accepted_wf (buf : Bytes) (p : Packet) (h : decode buf = .ok p) : WF p := decode_wf h

/-- … and is stable: re-encoding it and decoding again yields the same packet -/
theorem c10_stable (buf : Bytes) (p : Packet) (h : decode buf = .ok p) : decode (encode p) = .ok p :=
  decode_encode p (decode_wf h)

/-! rejection clauses -/

theorem c10_reject_short (buf : Bytes) (h : buf.length < 2) : decode buf = .err := by
  unfold decode; simp [h]

theorem c10_reject_opcode (b0 b1 : UInt8) (rest : Bytes)
    (h : ¬ (1 ≤ b0.toNat * 256 + b1.toNat ∧ b0.toNat * 256 + b1.toNat ≤ 6)) :
    decode (b0 :: b1 :: rest) = .err := by
  have hnone : Opcode.ofU16 (b0.toNat * 256 + b1.toNat) = none := by
    cases hh : Opcode.ofU16 (b0.toNat * 256 + b1.toNat) with
    | none => rfl
    | some o =>
      exfalso; apply h
      exact (c11_opcode_range _).mp (by simp [hh])
  unfold decode
  simp [toU16, hnone]

/-- DATA, ACK and ERROR shorter than their 4-byte fixed header are rejected -/
theorem c10_reject_short_header (op : UInt8) (tail : Bytes) (hop : op = 3 ∨ op = 4 ∨ op = 5)
    (h : tail.length < 2) : decode (0 :: op :: tail) = .err := by
  have h3 : Opcode.ofU16 3 = some .data := by decide
  have h4 : Opcode.ofU16 4 = some .ack := by decide
  have h5 : Opcode.ofU16 5 = some .error := by decide
  match tail, h with
  | [], _ => rcases hop with rfl | rfl | rfl <;> simp [decode, toU16, h3, h4, h5]
  | [x], _ => rcases hop with rfl | rfl | rfl <;> simp [decode, toU16, h3, h4, h5]

/-- ERROR with a code above 7 is rejected -/
theorem c10_reject_error_code (c0 c1 : UInt8) (tail : Bytes) (h : 7 < c0.toNat * 256 + c1.toNat) :
    decode (0 :: 5 :: c0 :: c1 :: tail) = .err := by
  have hnone : ErrorCode.ofU16 (c0.toNat * 256 + c1.toNat) = none := by
    cases hh : ErrorCode.ofU16 (c0.toNat * 256 + c1.toNat) with
    | none => rfl
    | some c =>
      have := (c11_errorcode_range (c0.toNat * 256 + c1.toNat)).mp (by simp [hh])
      omega
  unfold decode
  have : Opcode.ofU16 5 = some .error := by decide
  simp [toU16, this, hnone]

/-- a request whose file name has no NUL terminator is rejected -/
theorem c10_reject_rq_missing_nul (op : UInt8) (tail : Bytes) (hop : op = 1 ∨ op = 2)
    (h : (0 : UInt8) ∉ tail) : decode (0 :: op :: tail) = .err := by
  have hs : toStr (0 :: op :: tail) 2 = .err := by
    unfold toStr
    simp [splitZero_none tail h]
  rcases hop with rfl | rfl
  · unfold decode
    have : Opcode.ofU16 1 = some .rrq := by decide
    simp [toU16, this, parseRq, hs]
  · unfold decode
    have : Opcode.ofU16 2 = some .wrq := by decide
    simp [toU16, this, parseRq, hs]

/-- a request whose mode string has no NUL terminator is rejected -/
theorem c10_reject_rq_mode_missing_nul (op : UInt8) (name tail : Bytes) (hop : op = 1 ∨ op = 2)
    (hn : (0 : UInt8) ∉ name) (h : (0 : UInt8) ∉ tail) : decode (0 :: op :: (name ++ 0 :: tail)) = .err := by
  have hb : (0 : UInt8) :: op :: (name ++ 0 :: tail) = [0, op] ++ (name ++ 0 :: tail) := by simp
  have hs1 := toStr_at' [0, op] name tail 2 (by simp) hn
  have hs2 : toStr ([0, op] ++ (name ++ 0 :: tail)) (2 + name.length + 1) = .err := by
    unfold toStr
    have : ¬ 2 + name.length + 1 > ([0, op] ++ (name ++ 0 :: tail)).length := by simp; omega
    simp only [this, ↓reduceIte]
    have hd : List.drop (2 + name.length + 1) ([0, op] ++ (name ++ 0 :: tail)) = tail := by
      have : [0, op] ++ (name ++ 0 :: tail) = ([0, op] ++ name ++ [0]) ++ tail := by simp
      rw [this]
      have hl : 2 + name.length + 1 = ([0, op] ++ name ++ [0]).length := by simp; omega
      rw [hl, List.drop_left]
    rw [hd, splitZero_none tail h]
  have key : ∀ isRrq, parseRq ([0, op] ++ (name ++ 0 :: tail)) isRrq = .err := by
    intro isRrq
    unfold parseRq
    rw [hs1]
    by_cases hv : validUtf8 name = true
    · simp only [hv, ↓reduceIte]
      rw [show ([0, op] : Bytes).length + name.length + 1 = 2 + name.length + 1 from by simp, hs2]
    · simp [hv]
  have h1 : Opcode.ofU16 1 = some .rrq := by decide
  have h2 : Opcode.ofU16 2 = some .wrq := by decide
  rw [hb]
  rcases hop with rfl | rfl
  · have := key true
    unfold decode
    simp [toU16, h1]
    simpa using this
  · have := key false
    unfold decode
    simp [toU16, h2]
    simpa using this

/-- an OACK whose first option is recognised but carries a value that is not `[+]digits < 2^64`
is rejected (the same loop parses the options of RRQ and WRQ) -/
theorem c10_reject_nonnumeric (name value rest : Bytes) (t : OptionType)
    (hn0 : (0 : UInt8) ∉ name) (hv0 : (0 : UInt8) ∉ value)
    (hname : OptionType.ofName (lowerName name) = some t) (hval : parseUsize value = none) :
    decode ([0, 6] ++ (name ++ 0 :: (value ++ 0 :: rest))) = .err := by
  have hop : Opcode.ofU16 6 = some .oack := by decide
  have hs1 := toStr_at' [0, 6] name (value ++ 0 :: rest) 2 (by simp) hn0
  have hb2 : [0, 6] ++ (name ++ 0 :: (value ++ 0 :: rest)) = ([0, 6] ++ name ++ [0]) ++ (value ++ 0 :: rest) := by simp
  have hs2 := toStr_at' ([0, 6] ++ name ++ [0]) value rest (2 + name.length + 1) (by simp; omega) hv0
  unfold decode
  simp only [List.length_append, List.length_cons, List.length_nil]
  have hl : ¬ (0 + 1 + 1 + (name.length + (value.length + (rest.length + 1) + 1)) < 2) := by omega
  simp only [hl, ↓reduceIte]
  have htake : List.take 2 ([0, 6] ++ (name ++ 0 :: (value ++ 0 :: rest))) = [0, 6] := by simp
  rw [htake]
  simp only [toU16]
  have : (0 : UInt8).toNat * 256 + (6 : UInt8).toNat = 6 := by decide
  rw [this, hop]
  simp only
  unfold parseOptions
  simp only [List.length_append, List.length_cons, List.length_nil]
  have h1 : ¬ (0 + 1 + 1 + (name.length + (value.length + (rest.length + 1) + 1)) = 0) := by omega
  have h2 : 1 < 0 + 1 + 1 + (name.length + (value.length + (rest.length + 1) + 1)) - 1 := by omega
  simp only [h1, ↓reduceIte, h2]
  rw [show 1 + 1 = 2 from rfl, hs1]
  by_cases hv : validUtf8 name = true
  · simp only [hv, ↓reduceIte]
    rw [hb2, show ([0, 6] : Bytes).length + name.length + 1 = 2 + name.length + 1 from by simp, hs2]
    by_cases hv2 : validUtf8 value = true
    · simp [hv2, hname, hval]
    · simp [hv2]
  · simp [hv]

/-! non-vacuity -/
example : decode [0, 6, 66, 76, 75, 83, 73, 90, 69, 0, 45, 49, 0] = .err := by decide  -- "BLKSIZE" "-1"
example : decode [0, 1, 97, 0, 111, 0, 0xE2, 0x84, 0xAA, 0, 0] = .ok (.rrq [97] [111] []) := by decide  -- unknown option dropped

end Tftp
