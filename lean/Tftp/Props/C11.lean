import Tftp.Lemmas.CodecRoundTrip
/-!
# C11 — Codec round-trip and RFC wire layout for all six packet kinds

Property theorems only (helper lemmas live in `Tftp/Lemmas`).  `WF p` is exactly what the Rust type
`Packet` can hold (`String` = valid UTF-8, `usize < 2^64`, `u16 < 65536`) minus strings containing
NUL, which the property statement excludes ("any filename, mode and message without NUL").
-/
namespace Tftp

/-- decoding the encoding returns the identical packet — every well-formed packet of all six kinds -/
theorem c11_decode_encode (p : Packet) (h : WF p) : decode (encode p) = .ok p :=
  decode_encode p h

/-- hence the encoding is injective on well-formed packets -/
theorem c11_encode_injective (p q : Packet) (hp : WF p) (hq : WF q) (h : encode p = encode q) : p = q := by
  have h1 := decode_encode p hp
  have h2 := decode_encode q hq
  rw [h] at h1
  rw [h1] at h2
  injection h2

/-! RFC 1350 / 2347 byte layout, one equation per packet kind -/

theorem c11_layout_rrq (f m : Bytes) (os : List TransferOption) :
    encode (.rrq f m os) = [0, 1] ++ f ++ [0] ++ m ++ [0] ++ encodeOptions os := by
  simp [encode, u16be, Opcode.toU16, Gen.opcodeRrq]

theorem c11_layout_wrq (f m : Bytes) (os : List TransferOption) :
    encode (.wrq f m os) = [0, 2] ++ f ++ [0] ++ m ++ [0] ++ encodeOptions os := by
  simp [encode, u16be, Opcode.toU16, Gen.opcodeWrq]

theorem c11_layout_data (n : Nat) (d : Bytes) :
    encode (.data n d) = [0, 3, UInt8.ofNat (n / 256), UInt8.ofNat (n % 256)] ++ d := by
  simp [encode, u16be, Opcode.toU16, Gen.opcodeData]

theorem c11_layout_ack (n : Nat) :
    encode (.ack n) = [0, 4, UInt8.ofNat (n / 256), UInt8.ofNat (n % 256)] := by
  simp [encode, u16be, Opcode.toU16, Gen.opcodeAck]

theorem c11_layout_error (c : ErrorCode) (m : Bytes) :
    encode (.error c m) = [0, 5, 0, UInt8.ofNat c.toU16] ++ m ++ [0] := by
  cases c <;> simp [encode, u16be, Opcode.toU16, Gen.opcodeError, ErrorCode.toU16,
    Gen.errNotDefined, Gen.errFileNotFound, Gen.errAccessViolation, Gen.errDiskFull,
    Gen.errIllegalOperation, Gen.errUnknownId, Gen.errFileExists, Gen.errNoSuchUser]

theorem c11_layout_oack (os : List TransferOption) :
    encode (.oack os) = [0, 6] ++ encodeOptions os := by
  simp [encode, u16be, Opcode.toU16, Gen.opcodeOack]

/-- one option = lower-case name, NUL, decimal ASCII value, NUL -/
theorem c11_layout_option (t : OptionType) (v : Nat) :
    TransferOption.encode { option := t, value := v } = t.name ++ [0] ++ toDec v ++ [0] := rfl

theorem c11_option_names :
    OptionType.blksize.name = [98, 108, 107, 115, 105, 122, 101] ∧
    OptionType.tsize.name = [116, 115, 105, 122, 101] ∧
    OptionType.timeout.name = [116, 105, 109, 101, 111, 117, 116] ∧
    OptionType.windowsize.name = [119, 105, 110, 100, 111, 119, 115, 105, 122, 101] := by
  decide

/-- decimal ASCII: digits only, no leading garbage, and it parses back to the value -/
theorem c11_toDec_parse (n : Nat) (h : n < 2 ^ 64) :
    parseUsize (toDec n) = some n ∧ (∀ d ∈ toDec n, 48 ≤ d.toNat ∧ d.toNat ≤ 57) ∧ toDec n ≠ [] :=
  ⟨parseUsize_toDec n (by simpa [Gen.usizeBound] using h), toDec_digits n, toDec_ne_nil n⟩

/-- opcode conversions are mutually inverse over all of `u16` (and beyond): exactly 1..6 accepted -/
theorem c11_opcode_inverse (n : Nat) (o : Opcode) : Opcode.ofU16 n = some o ↔ o.toU16 = n := by
  constructor
  · intro h
    unfold Opcode.ofU16 at h
    repeat' split at h
    all_goals first | (simp at h; subst h; subst_vars; rfl) | simp at h
  · intro h
    subst h
    cases o <;> decide

theorem c11_opcode_range (n : Nat) : (Opcode.ofU16 n).isSome ↔ 1 ≤ n ∧ n ≤ 6 := by
  unfold Opcode.ofU16
  repeat' split
  all_goals simp only [Gen.fromOpcodeRrq, Gen.fromOpcodeWrq, Gen.fromOpcodeData, Gen.fromOpcodeAck,
    Gen.fromOpcodeError, Gen.fromOpcodeOack] at *
  all_goals simp
  all_goals omega

theorem c11_errorcode_inverse (n : Nat) (c : ErrorCode) : ErrorCode.ofU16 n = some c ↔ c.toU16 = n := by
  constructor
  · intro h
    unfold ErrorCode.ofU16 at h
    repeat' split at h
    all_goals first | (simp at h; subst h; subst_vars; rfl) | simp at h
  · intro h
    subst h
    cases c <;> decide

theorem c11_errorcode_range (n : Nat) : (ErrorCode.ofU16 n).isSome ↔ n ≤ 7 := by
  unfold ErrorCode.ofU16
  repeat' split
  all_goals simp only [Gen.fromErrNotDefined, Gen.fromErrFileNotFound, Gen.fromErrAccessViolation,
    Gen.fromErrDiskFull, Gen.fromErrIllegalOperation, Gen.fromErrUnknownId, Gen.fromErrFileExists,
    Gen.fromErrNoSuchUser] at *
  all_goals simp
  all_goals omega

/-- big-endian 16-bit numbers round-trip -/
theorem c11_u16_roundtrip (n : Nat) (h : n < 65536) (rest : Bytes) : toU16 (u16be n ++ rest) = some n :=
  toU16_u16be n h rest

/-! non-vacuity: concrete non-trivial packets satisfy `WF` -/
example : WF (.rrq [0x61, 0xC3, 0xA9] [111, 99, 116, 101, 116]
    [{ option := .blksize, value := 1428 }, { option := .tsize, value := 18446744073709551615 }]) := by
  refine ⟨⟨by decide, by decide⟩, ⟨by decide, by decide⟩, ?_⟩
  intro o ho
  simp at ho
  rcases ho with rfl | rfl <;> simp [WFOpt, Gen.usizeBound]
example : WF (.data 65535 [1, 2, 3]) := by simp [WF]
example : WF (.error .fileExists []) := ⟨by decide, by decide⟩

end Tftp
