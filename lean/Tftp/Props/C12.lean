import Tftp.Model.Server
/-!
# C12 — Concurrent transfers are isolated; datagrams are demultiplexed by endpoint

The server as a whole = the listener + one worker state per client endpoint. A datagram from endpoint
`ep` is handed to the transfer registered for `ep` (single-port mode: the `clients` map; multi-port mode:
the kernel's source filter of the connected socket — a modelled assumption) and to nobody else. The
theorems below hold for *any* per-transfer step function (so in particular for the sender and receiver
models of C01/C02): they say there is no shared logical state through which transfers could interfere.

Partial by nature: real thread scheduling, `mpsc`, and the thread-safety of the shared `UdpSocket` are
runtime behaviour; two uploads to the same target path are excluded (see C13).
-/
namespace Tftp

/-- transfers keyed by client endpoint -/
abbrev Transfers (σ : Type) := Nat → Option σ

def upd {σ : Type} (g : Transfers σ) (ep : Nat) (v : Option σ) : Transfers σ :=
  fun e => if e = ep then v else g e

/-- a datagram `ev` from endpoint `ep`: stepped by the transfer `ep` owns; `none` output = the endpoint owns
no transfer (the listener answers with ERROR 4) -/
def gstep {σ ε ο : Type} (step : σ → ε → σ × ο) (g : Transfers σ) (ep : Nat) (ev : ε) : Transfers σ × Option ο :=
  match g ep with
  | some s => (upd g ep (some (step s ev).1), some (step s ev).2)
  | none => (g, none)

def grun {σ ε ο : Type} (step : σ → ε → σ × ο) : Transfers σ → List (Nat × ε) → Transfers σ × List (Nat × Option ο)
  | g, [] => (g, [])
  | g, (ep, ev) :: rest =>
    let r := gstep step g ep ev
    let rr := grun step r.1 rest
    (rr.1, (ep, r.2) :: rr.2)

/-- what transfer `ep` does on its own, fed only its own datagrams -/
def solo {σ ε ο : Type} (step : σ → ε → σ × ο) : Option σ → List ε → Option σ × List (Option ο)
  | st, [] => (st, [])
  | none, _ :: rest => let rr := solo step none rest; (rr.1, none :: rr.2)
  | some s, ev :: rest => let rr := solo step (some (step s ev).1) rest; (rr.1, some (step s ev).2 :: rr.2)

/-- **routing**: the reaction to a datagram from `ep` is determined by the transfer registered for `ep` alone -/
theorem c12_routing {σ ε ο : Type} (step : σ → ε → σ × ο) (g g' : Transfers σ) (ep : Nat) (ev : ε)
    (h : g ep = g' ep) : (gstep step g ep ev).2 = (gstep step g' ep ev).2 ∧
      (gstep step g ep ev).1 ep = (gstep step g' ep ev).1 ep := by
  unfold gstep
  rw [← h]
  cases g ep <;> simp [upd, h]

/-- **frame**: a datagram from another endpoint leaves a transfer's state untouched -/
theorem c12_frame {σ ε ο : Type} (step : σ → ε → σ × ο) (g : Transfers σ) (ep ep' : Nat) (ev : ε)
    (hne : ep' ≠ ep) : (gstep step g ep ev).1 ep' = g ep' := by
  unfold gstep
  cases g ep <;> simp [upd, hne]

/-- datagrams from an endpoint that owns no transfer change nothing at all -/
theorem c12_foreign_changes_nothing {σ ε ο : Type} (step : σ → ε → σ × ο) (g : Transfers σ) (ep : Nat) (ev : ε)
    (h : g ep = none) : gstep step g ep ev = (g, none) := by
  unfold gstep; simp [h]

/-- **commute**: datagrams of different endpoints can be processed in either order -/
theorem c12_commute {σ ε ο : Type} (step : σ → ε → σ × ο) (g : Transfers σ) (e1 e2 : Nat) (v1 v2 : ε)
    (hne : e1 ≠ e2) :
    (gstep step (gstep step g e1 v1).1 e2 v2).1 = (gstep step (gstep step g e2 v2).1 e1 v1).1 ∧
    (gstep step (gstep step g e1 v1).1 e2 v2).2 = (gstep step g e2 v2).2 ∧
    (gstep step (gstep step g e2 v2).1 e1 v1).2 = (gstep step g e1 v1).2 := by
  have f12 := c12_frame step g e1 e2 v1 (Ne.symm hne)
  have f21 := c12_frame step g e2 e1 v2 hne
  refine ⟨?_, (c12_routing step _ g e2 v2 f12).1, (c12_routing step _ g e1 v1 f21).1⟩
  funext e
  unfold gstep
  cases h1 : g e1 <;> cases h2 : g e2 <;> simp only [upd, h1, h2, hne, Ne.symm hne, ↓reduceIte]
  · by_cases he : e = e1
    · subst he; simp [hne]
    · by_cases he2 : e = e2
      · subst he2; simp [Ne.symm hne]
      · simp [he, he2]

/-- **projection**: for every interleaving of the datagrams of any number of endpoints, what transfer `ep`
ends up with, and everything it emits, equals its solo run on the subsequence of its own datagrams -/
theorem c12_projection {σ ε ο : Type} (step : σ → ε → σ × ο) (ep : Nat) :
    ∀ (evs : List (Nat × ε)) (g : Transfers σ),
      (grun step g evs).1 ep = (solo step (g ep) ((evs.filter (fun x => x.1 == ep)).map (·.2))).1 ∧
      ((grun step g evs).2.filter (fun x => x.1 == ep)).map (·.2) =
        (solo step (g ep) ((evs.filter (fun x => x.1 == ep)).map (·.2))).2 := by
  intro evs
  induction evs with
  | nil => intro g; simp [grun, solo]
  | cons e rest ih =>
    intro g
    obtain ⟨e1, ev⟩ := e
    simp only [grun]
    by_cases he : e1 = ep
    · subst he
      have ihg := ih (gstep step g e1 ev).1
      simp only [List.filter_cons, beq_self_eq_true, ↓reduceIte, List.map_cons]
      cases hg : g e1 with
      | none =>
        have : gstep step g e1 ev = (g, none) := c12_foreign_changes_nothing step g e1 ev hg
        rw [this] at ihg ⊢
        simp only at ihg ⊢
        rw [hg] at ihg
        simp only [solo]
        exact ⟨ihg.1, by rw [ihg.2]⟩
      | some s =>
        have h1 : (gstep step g e1 ev).1 e1 = some (step s ev).1 := by unfold gstep; simp [hg, upd]
        have h2 : (gstep step g e1 ev).2 = some (step s ev).2 := by unfold gstep; simp [hg]
        rw [h1] at ihg
        simp only [solo]
        exact ⟨ihg.1, by rw [ihg.2, h2]⟩
    · have ihg := ih (gstep step g e1 ev).1
      have hf := c12_frame step g e1 ep ev (Ne.symm he)
      rw [hf] at ihg
      have hb : (e1 == ep) = false := by simpa using he
      simp only [List.filter_cons, hb, Bool.false_eq_true, ↓reduceIte]
      exact ihg

/-- **well-formed non-request packets from an endpoint that owns no transfer are answered with an ERROR**
(code 4, from the listening socket) and start nothing — DATA, ACK, OACK and ERROR alike -/
theorem c12_foreign_nonrequest_gets_error (cfg : SrvCfg) (fs : Fs) (largest : Nat) (dgram : Bytes) (p : Packet)
    (hd : decode (dgram.take ((if cfg.singlePort then largest else Gen.maxRequestPacketSize) + 4)) = .ok p)
    (hp : (∃ n d, p = .data n d) ∨ (∃ n, p = .ack n) ∨ (∃ os, p = .oack os) ∨ (∃ c m, p = .error c m)) :
    handleDatagram cfg fs largest dgram = { reply := some (.listener, .error .illegalOperation []), worker := none } := by
  unfold handleDatagram
  simp only [hd]
  rcases hp with ⟨n, d, rfl⟩ | ⟨n, rfl⟩ | ⟨os, rfl⟩ | ⟨c, m, rfl⟩ <;> rfl

/-! non-vacuity: two counters stepped in an interleaved order -/
example : (grun (fun (s : Nat) (e : Nat) => (s + e, s)) (fun ep => if ep < 2 then some 0 else none)
    [(0, 1), (1, 10), (0, 2), (7, 5), (1, 20)]).1 0 = some 3 := by decide

end Tftp
