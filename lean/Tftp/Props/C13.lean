import Tftp.Props.C02
import Tftp.Lemmas.ReceiverNoSpace
import Tftp.Lemmas.ReceiverQ
/-!
# C13 — Failed uploads are cleaned up without harming completed ones

`rFinalFile c s` is what the `receive()` wrapper leaves at the target path once the worker has ended
(`none` = removed). The first part of the property is proved for every reachable receiver state
(single owner of the path). The second part — a stale earlier transfer never removes a later completed
upload — is **false of the current code**: `c13_stale_cleanup_witness` is a kernel-checked history that
ends with the completed file removed; it is replayed on the real workers on every run and recorded as a
known finding (DESIGN.md section 6, D6).
-/
namespace Tftp

/-- **failure**: with clean-on-error the partial file is removed; otherwise what is kept is a prefix of
the bytes received in sequence (what had been flushed before the failure) -/
theorem c13_failed_upload (c : RCfg) (hw1 : 1 ≤ c.w) (hw : c.w < 65536) (s : RState) (h : RReach c s)
    (hf : s.status = .failed) :
    (c.cleanOnError = true → rFinalFile c s = none) ∧
    (c.cleanOnError = false → ∃ kept, rFinalFile c s = some kept ∧ kept <+: s.received.flatten) := by
  unfold rFinalFile
  simp only [hf]
  constructor
  · intro hc; simp [hc]
  · intro hc
    simp only [hc]
    refine ⟨s.win.file.content, by simp, ?_⟩
    have := c02_file_is_prefix c hw1 hw s h
    rw [← this]
    exact List.prefix_append _ _

/-- **success**: the file holds exactly the uploaded content -/
theorem c13_completed_upload (c : RCfg) (hw1 : 1 ≤ c.w) (hw : c.w < 65536) (s : RState) (h : RReach c s)
    (hok : s.status = .ok) : rFinalFile c s = some s.received.flatten := by
  unfold rFinalFile
  simp only [hok]
  rw [(c02_final_file c hw1 hw s h hok).1]

/-! ### two transfers on one path -/

/-- the effects the `receive()` wrappers of two workers have on one path -/
inductive PathOp where
  | create              -- `File::create`: create or truncate
  | append (d : Bytes)  -- flushed blocks
  | failClean           -- the worker failed with clean-on-error: `fs::remove_file`
  | failKeep
deriving Repr, DecidableEq

def pathStep (st : Option Bytes) : PathOp → Option Bytes
  | .create => some []
  | .append d => some (st.getD [] ++ d)     -- writing through an open handle
  | .failClean => none
  | .failKeep => st

/-- **witness (defect D6)**: WRQ x is accepted (worker A creates x), the retransmitted WRQ x is accepted too
(worker B truncates x), the client completes its upload with B, then A — which never heard anything —
runs into its retry limit and removes x: the completed upload is gone. -/
theorem c13_stale_cleanup_witness (content : Bytes) :
    [PathOp.create, PathOp.create, PathOp.append content, PathOp.failClean].foldl pathStep none = none := rfl

/-- with keep-on-error the same history leaves the completed upload intact -/
theorem c13_stale_keep (content : Bytes) :
    [PathOp.create, PathOp.create, PathOp.append content, PathOp.failKeep].foldl pathStep none = some content := by
  simp [List.foldl, pathStep]

/-- a single owner: create, flushed blocks, then failure with clean-on-error leaves nothing; success leaves
the content (the path-level view of the two theorems above) -/
theorem c13_single_owner_partial (blocks : List Bytes) :
    ((PathOp.create :: blocks.map PathOp.append) ++ [PathOp.failClean]).foldl pathStep none = none ∧
    (PathOp.create :: blocks.map PathOp.append).foldl pathStep none = some blocks.flatten := by
  constructor
  · rw [List.foldl_append]; simp [List.foldl, pathStep]
  · simp only [List.foldl_cons, pathStep]
    have : ∀ (bs : List Bytes) (acc : Bytes), (bs.map PathOp.append).foldl pathStep (some acc) = some (acc ++ bs.flatten) := by
      intro bs
      induction bs with
      | nil => intro acc; simp
      | cons b bs ih => intro acc; simp only [List.map_cons, List.foldl_cons, pathStep, Option.getD_some]; rw [ih]; simp
    simpa using this blocks []

/-! ### write errors -/

/-- **write error**: on a target that can be created but takes no byte (`ENOSPC`/`EFBIG` on every non-empty write), for every
script of events: nothing is ever written, every ACK that is emitted is emitted over an empty file, the only upload that can
be reported complete is the one that carries no data at all, and a failed one is removed under clean-on-error (kept, empty,
under keep-on-error). -/
theorem c13_write_error (c : RCfg) (evs : List REv) :
    let r := rRunFrom c (rInitUnwritable c) evs
    r.2.win.file.content = [] ∧
    (∀ g ∈ r.1, ∀ a ∈ g, a.file.content = []) ∧
    (r.2.status = .ok → r.2.received.flatten = []) ∧
    (r.2.status = .failed → c.cleanOnError = true → rFinalFile c r.2 = none) ∧
    (r.2.status = .failed → c.cleanOnError = false → rFinalFile c r.2 = some []) := by
  intro r
  obtain ⟨hinv, hacks⟩ := rRunFrom_ns c evs (rInitUnwritable c) (rInitUnwritable_inv c)
  refine ⟨hinv.empty, hacks, ?_, ?_, ?_⟩
  · intro hok
    have h1 := hinv.pend (by rw [hok]; simp)
    have h2 := hinv.okEmpty hok
    rw [← h1, h2]; rfl
  · intro hf hc
    unfold rFinalFile
    simp only [hf, hc, if_true]
  · intro hf hc
    unfold rFinalFile
    simp only [hf, hc, Bool.false_eq_true, if_false]
    exact congrArg some hinv.empty

/-- **write error at any point**: the target takes `q` more bytes (`none` = unlimited; `Model/ReceiverQ.lean`: the blocks of a flush
are written one `write_all` at a time, the first that does not fit is written as far as it fits, then the flush fails). For every room
and every script of events, at the end of the run: the file is a prefix of the bytes received in sequence and not longer than the room;
a run that ended in success stored everything; a failed one is removed under clean-on-error, and what keep-on-error keeps is that prefix. -/
theorem c13_write_error_at_any_point (c : RCfg) (q : Option Nat) (evs : List REv) :
    let r := rRunFromQ c (rInit c) q evs
    r.2.1.win.file.content <+: r.2.1.received.flatten ∧
    (∀ q0, q = some q0 → r.2.1.win.file.content.length ≤ q0) ∧
    (r.2.1.status = .ok → r.2.1.win.file.content = r.2.1.received.flatten) ∧
    (r.2.1.status = .failed → c.cleanOnError = true → rFinalFile c r.2.1 = none) ∧
    (r.2.1.status = .failed → c.cleanOnError = false →
      ∃ kept, rFinalFile c r.2.1 = some kept ∧ kept <+: r.2.1.received.flatten) := by
  intro r
  have hinv := rRunFromQ_inv c q evs (rInit c) q (qinv_init c q)
  refine ⟨hinv.pre, ?_, ?_, ?_, ?_⟩
  · intro q0 hq
    obtain ⟨r0, hr0⟩ := hinv.some_stays q0 hq
    obtain ⟨q1, hq1, hlen⟩ := hinv.room_some r0 hr0
    have : q1 = q0 := by rw [hq] at hq1; exact (Option.some.inj hq1).symm
    have hlen' : (rRunFromQ c (rInit c) q evs).2.1.win.file.content.length + r0 = q1 := hlen
    show (rRunFromQ c (rInit c) q evs).2.1.win.file.content.length ≤ q0
    omega
  · intro hok
    have h1 := hinv.stored (by rw [hok]; simp)
    rw [hinv.okEmpty hok] at h1
    simpa using h1
  · intro hf hc
    unfold rFinalFile
    simp only [hf, hc, if_true]
  · intro hf hc
    unfold rFinalFile
    simp only [hf, hc, Bool.false_eq_true, if_false]
    exact ⟨_, rfl, hinv.pre⟩

/-- ... and at every moment of such a run an acknowledgement is emitted only over a file that holds every byte received in sequence
(C02's "ACK means stored" survives write errors: the block that did not fit is never acknowledged) -/
theorem c13_ack_means_stored_with_any_room (c : RCfg) (q : Option Nat) (evs : List REv) (ev : REv) :
    let r := rRunFromQ c (rInit c) q evs
    ∀ a ∈ (rStepQ c r.2.1 r.2.2 ev).2.2, a.file.content = (rStepQ c r.2.1 r.2.2 ev).1.received.flatten := by
  intro r
  exact (rStepQ_inv c q _ _ (rRunFromQ_inv c q evs (rInit c) q (qinv_init c q)) ev).2

/-- with unlimited room the limited-room receiver is the receiver all other theorems are about -/
theorem c13_unlimited_room_is_the_receiver (c : RCfg) (s : RState) (hcw : s.win.file.canWrite = true) (ev : REv) :
    rStepQ c s none ev = ((rStep c s ev).1, none, (rStep c s ev).2) := rStepQ_none c s hcw ev

/-- a 4-byte room: the first block is stored and acknowledged, the second fits half and fails the upload -/
example : (rRunFromQ { b := 4, w := 1, rep := 1, cleanOnError := false } (rInit { b := 4, w := 1, rep := 1, cleanOnError := false }) (some 6)
    [.data 1 [1, 2, 3, 4], .data 2 [5, 6, 7, 8]]).2.1.status = .failed ∧
    (rRunFromQ { b := 4, w := 1, rep := 1, cleanOnError := false } (rInit { b := 4, w := 1, rep := 1, cleanOnError := false }) (some 6)
    [.data 1 [1, 2, 3, 4], .data 2 [5, 6, 7, 8]]).2.1.win.file.content = [1, 2, 3, 4, 5, 6] := by decide

/-- a data-carrying upload to such a target does fail (the guard of `c13_write_error` is met by real runs) -/
example : (rRunFrom { b := 4, w := 2, rep := 1, cleanOnError := true } (rInitUnwritable { b := 4, w := 2, rep := 1, cleanOnError := true })
    [.data 1 [1, 2, 3, 4], .data 2 [5, 6, 7, 8]]).2.status = .failed := by decide
/-- ... and the empty upload succeeds -/
example : (rRunFrom { b := 4, w := 2, rep := 1, cleanOnError := true } (rInitUnwritable { b := 4, w := 2, rep := 1, cleanOnError := true })
    [.data 1 []]).2.status = .ok := by decide

/-! non-vacuity -/
example : (rRun { b := 4, w := 2, rep := 1, cleanOnError := false } [.data 1 [1, 2, 3, 4], .data 2 [5, 6, 7, 8], .data 3 [9, 9, 9, 9], .error]).2.status = .failed ∧
    rFinalFile { b := 4, w := 2, rep := 1, cleanOnError := false }
      (rRun { b := 4, w := 2, rep := 1, cleanOnError := false } [.data 1 [1, 2, 3, 4], .data 2 [5, 6, 7, 8], .data 3 [9, 9, 9, 9], .error]).2 =
      some [1, 2, 3, 4, 5, 6, 7, 8] := by decide

end Tftp
