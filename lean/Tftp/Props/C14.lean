import Tftp.Model.Client
import Tftp.Props.C04
import Tftp.Lemmas.Net
/-!
# C14 — Bundled client and server interoperate byte-exactly for every option choice

The transfer itself is the closed loop of `Model/Net.lean` (the client's worker *is* the same
`Worker::send` / `Worker::receive` code as the server's): see C04 for what is proved about it and what is
enumerated against the real workers. Here: the client-side glue.
Partial by nature: kernel socket buffers and real timers (a burst larger than the socket buffer is
recovered by the re-acknowledgement of C04, at the price of time-outs).
-/
namespace Tftp

/-- the client always sends the four options, in the order blksize, windowsize, timeout, tsize; a read
request names the path as given, a write request names the basename -/
theorem c14_client_request (c : ClientCfg) (size : Nat) :
    (c.upload = false → clientRequest c size = some (.rrq c.filePath octet
      [{ option := .blksize, value := c.blocksize }, { option := .windowsize, value := c.windowsize },
       { option := .timeout, value := c.timeoutS }, { option := .tsize, value := 0 }])) ∧
    (c.upload = true → ∀ n, fileName c.filePath = some n → clientRequest c size = some (.wrq n octet
      [{ option := .blksize, value := c.blocksize }, { option := .windowsize, value := c.windowsize },
       { option := .timeout, value := c.timeoutS }, { option := .tsize, value := size }])) := by
  unfold clientRequest
  constructor
  · intro h; simp [h]
  · intro h n hn; simp [h, hn]

/-- the server acknowledges the client's options unchanged when they are valid (C09), and the client adopts
exactly what the OACK says: both ends run the transfer with the same block length and window -/
theorem c14_client_adopts_oack (c : ClientCfg) (b w : Nat) (hw : w < 65536) (rest : List TransferOption)
    (hrest : ∀ o ∈ rest, o.option ≠ .blksize ∧ o.option ≠ .windowsize) :
    (verifyOack c ({ option := .blksize, value := b } :: { option := .windowsize, value := w } :: rest)).blocksize = b ∧
    (verifyOack c ({ option := .blksize, value := b } :: { option := .windowsize, value := w } :: rest)).windowsize = w := by
  have key : ∀ (rest : List TransferOption) (c : ClientCfg), (∀ o ∈ rest, o.option ≠ .blksize ∧ o.option ≠ .windowsize) →
      (verifyOack c rest).blocksize = c.blocksize ∧ (verifyOack c rest).windowsize = c.windowsize := by
    intro rest
    induction rest with
    | nil => intro c _; simp [verifyOack]
    | cons o os ih =>
      intro c h
      have ho := h o (by simp)
      have hos : ∀ x ∈ os, x.option ≠ .blksize ∧ x.option ≠ .windowsize := fun x hx => h x (by simp [hx])
      unfold verifyOack
      cases hopt : o.option with
      | blksize => exact absurd hopt ho.1
      | windowsize => exact absurd hopt ho.2
      | tsize => simp only; exact ih c hos
      | timeout => simp only; exact ih c hos
  simp only [verifyOack]
  have := key rest { c with blocksize := b, windowsize := w % 65536 } hrest
  simp only at this
  rw [this.1, this.2, Nat.mod_eq_of_lt hw]
  exact ⟨rfl, rfl⟩

/-- a download is stored as `<receive-directory>/<basename of the requested path>` -/
theorem c14_download_target (c : ClientCfg) (n : Bytes) (h : fileName c.filePath = some n) :
    downloadTarget c = some (joinPath c.recvDir n) := by
  simp [downloadTarget, h]

/-- when the server refuses the request with an ERROR (or answers with anything that is not an
OACK/ACK) the client starts no worker and therefore creates no file -/
theorem c14_refusal_creates_nothing (c : ClientCfg) (code : ErrorCode) (msg : Bytes) :
    clientOnReply c (.error code msg) = .fail := rfl

/-- an upload acknowledged with a plain ACK falls back to the RFC 1350 defaults on the client side too -/
theorem c14_upload_plain_ack_defaults (c : ClientCfg) (h : c.upload = true) (n : Nat) :
    clientOnReply c (.ack n) = .transfer { c with blocksize := 512, windowsize := 1, timeoutS := 5 } false := by
  simp [clientOnReply, h, Gen.clientDefaultBlocksize, Gen.clientDefaultWindowsize, Gen.clientDefaultTimeoutS]

/-- the sender and receiver configurations the two ends derive from one negotiated option set -/
def loopSender (b w timeout : Nat) : SCfg := { b := b, w := w, timeout := timeout, rep := 1 }
def loopReceiver (b w : Nat) (clean : Bool) : RCfg := { b := b, w := w, rep := 1, cleanOnError := clean }

/-- **fault-free transfer**: for every file (any length: empty, exact multiples, more than 65535 blocks),
every block size ≥ 1 (so all of 8..65464) and every window size 1..65535, the sending worker and the
receiving worker — the same code on the client and on the server side — connected through loss-free FIFO
queues end both successfully with the receiver's file byte-identical to the sender's, and no time-out is
ever needed. Proved by an inductive invariant over the scheduler steps of `netRun` (the receiver is `j`
blocks into the sender's window / the window's acknowledgement is in flight), not by bounded search. -/
theorem c14_fault_free_transfer (f : Bytes) (b w timeout : Nat) (clean : Bool) (hb : 0 < b) (hw1 : 1 ≤ w)
    (hw : w < 65536) :
    ∃ fuel,
      (netRun (loopSender b w timeout) (loopReceiver b w clean) Faults.none fuel
        (netInit (loopSender b w timeout) (loopReceiver b w clean) Faults.none f)).s.status = .ok ∧
      (netRun (loopSender b w timeout) (loopReceiver b w clean) Faults.none fuel
        (netInit (loopSender b w timeout) (loopReceiver b w clean) Faults.none f)).r.status = .ok ∧
      (netRun (loopSender b w timeout) (loopReceiver b w clean) Faults.none fuel
        (netInit (loopSender b w timeout) (loopReceiver b w clean) Faults.none f)).r.win.file.content = f := by
  have lc : LoopCfg (loopSender b w timeout) (loopReceiver b w clean) :=
    ⟨hb, hw1, hw, rfl, rfl, rfl, rfl⟩
  obtain ⟨fuel, hd⟩ := fault_free_transfer _ _ lc f
  exact ⟨fuel, hd.sok, hd.rok, hd.file⟩

/-! non-vacuity -/
example : fileName [115, 117, 98, 47, 102, 46, 98] = some [102, 46, 98] := by decide   -- "sub/f.b" -> "f.b"

end Tftp
