import Tftp.Model.Client
import Tftp.Props.C04
import Tftp.Lemmas.Net
import Tftp.Lemmas.NetTotal
/-!
# C14 — Bundled client and server interoperate byte-exactly for every option choice

The transfer itself is the closed loop of `Model/Net.lean` (the client's worker *is* the same
`Worker::send` / `Worker::receive` code as the server's): see C04 for what is proved about it and what is
enumerated against the real workers. Here: the client-side glue.
Partial by nature: kernel socket buffers and real timers (a burst larger than the socket buffer is
recovered by the re-acknowledgement of C04, at the price of time-outs).
-/
namespace Tftp

/-- the client always sends the four options, in the order blksize, windowsize, timeout, tsize; a read
request names the path as given, a write request names the basename -/
theorem c14_client_request (c : ClientCfg) (size : Nat) :
    (c.upload = false → clientRequest c size = some (.rrq c.filePath octet
      [{ option := .blksize, value := c.blocksize }, { option := .windowsize, value := c.windowsize },
       { option := .timeout, value := c.timeoutS }, { option := .tsize, value := 0 }])) ∧
    (c.upload = true → ∀ n, fileName c.filePath = some n → clientRequest c size = some (.wrq n octet
      [{ option := .blksize, value := c.blocksize }, { option := .windowsize, value := c.windowsize },
       { option := .timeout, value := c.timeoutS }, { option := .tsize, value := size }])) := by
  unfold clientRequest
  constructor
  · intro h; simp [h]
  · intro h n hn; simp [h, hn]

/-- the server acknowledges the client's options unchanged when they are valid (C09), and the client adopts
exactly what the OACK says: both ends run the transfer with the same block length and window -/
theorem c14_client_adopts_oack (c : ClientCfg) (b w : Nat) (hw : w < 65536) (rest : List TransferOption)
    (hrest : ∀ o ∈ rest, o.option ≠ .blksize ∧ o.option ≠ .windowsize) :
    (verifyOack c ({ option := .blksize, value := b } :: { option := .windowsize, value := w } :: rest)).blocksize = b ∧
    (verifyOack c ({ option := .blksize, value := b } :: { option := .windowsize, value := w } :: rest)).windowsize = w := by
  have key : ∀ (rest : List TransferOption) (c : ClientCfg), (∀ o ∈ rest, o.option ≠ .blksize ∧ o.option ≠ .windowsize) →
      (verifyOack c rest).blocksize = c.blocksize ∧ (verifyOack c rest).windowsize = c.windowsize := by
    intro rest
    induction rest with
    | nil => intro c _; simp [verifyOack]
    | cons o os ih =>
      intro c h
      have ho := h o (by simp)
      have hos : ∀ x ∈ os, x.option ≠ .blksize ∧ x.option ≠ .windowsize := fun x hx => h x (by simp [hx])
      unfold verifyOack
      cases hopt : o.option with
      | blksize => exact absurd hopt ho.1
      | windowsize => exact absurd hopt ho.2
      | tsize => simp only; exact ih c hos
      | timeout => simp only; exact ih c hos
  simp only [verifyOack]
  have := key rest { c with blocksize := b, windowsize := w % 65536 } hrest
  simp only at this
  rw [this.1, this.2, Nat.mod_eq_of_lt hw]
  exact ⟨rfl, rfl⟩

/-- a download is stored as `<receive-directory>/<basename of the requested path>` -/
theorem c14_download_target (c : ClientCfg) (n : Bytes) (h : fileName c.filePath = some n) :
    downloadTarget c = some (joinPath c.recvDir n) := by
  simp [downloadTarget, h]

/-- when the server refuses the request with an ERROR (or answers with anything that is not an
OACK/ACK) the client starts no worker and therefore creates no file -/
theorem c14_refusal_creates_nothing (c : ClientCfg) (code : ErrorCode) (msg : Bytes) :
    clientOnReply c (.error code msg) = .fail := rfl

/-- an upload acknowledged with a plain ACK falls back to the RFC 1350 defaults on the client side too -/
theorem c14_upload_plain_ack_defaults (c : ClientCfg) (h : c.upload = true) (n : Nat) :
    clientOnReply c (.ack n) = .transfer { c with blocksize := 512, windowsize := 1, timeoutS := 5 } false := by
  simp [clientOnReply, h, Gen.clientDefaultBlocksize, Gen.clientDefaultWindowsize, Gen.clientDefaultTimeoutS]

/-- the sender and receiver configurations the two ends derive from one negotiated option set -/
def loopSender (b w timeout : Nat) : SCfg := { b := b, w := w, timeout := timeout, rep := 1 }
def loopReceiver (b w : Nat) (clean : Bool) : RCfg := { b := b, w := w, rep := 1, cleanOnError := clean }

/-- **fault-free transfer**: for every file (any length: empty, exact multiples, more than 65535 blocks),
every block size ≥ 1 (so all of 8..65464) and every window size 1..65535, the sending worker and the
receiving worker — the same code on the client and on the server side — connected through loss-free FIFO
queues end both successfully with the receiver's file byte-identical to the sender's, and no time-out is
ever needed. Proved by an inductive invariant over the scheduler steps of `netRun` (the receiver is `j`
blocks into the sender's window / the window's acknowledgement is in flight), not by bounded search. -/
theorem c14_fault_free_transfer (f : Bytes) (b w timeout : Nat) (clean : Bool) (hb : 0 < b) (hw1 : 1 ≤ w)
    (hw : w < 65536) :
    ∃ fuel,
      (netRun (loopSender b w timeout) (loopReceiver b w clean) Faults.none fuel
        (netInit (loopSender b w timeout) (loopReceiver b w clean) Faults.none f)).s.status = .ok ∧
      (netRun (loopSender b w timeout) (loopReceiver b w clean) Faults.none fuel
        (netInit (loopSender b w timeout) (loopReceiver b w clean) Faults.none f)).r.status = .ok ∧
      (netRun (loopSender b w timeout) (loopReceiver b w clean) Faults.none fuel
        (netInit (loopSender b w timeout) (loopReceiver b w clean) Faults.none f)).r.win.file.content = f := by
  have lc : LoopCfg (loopSender b w timeout) (loopReceiver b w clean) :=
    ⟨hb, hw1, hw, rfl, rfl, rfl, rfl⟩
  obtain ⟨fuel, hd⟩ := fault_free_transfer _ _ lc f
  exact ⟨fuel, hd.sok, hd.rok, hd.file⟩

/-! non-vacuity -/
example : fileName [115, 117, 98, 47, 102, 46, 98] = some [102, 46, 98] := by decide   -- "sub/f.b" -> "f.b"

end Tftp

namespace Tftp

/-- the four options of the client's request, as `clientRequest` builds them -/
def clientOptions (c : ClientCfg) (ts : Nat) : List TransferOption :=
  [{ option := .blksize, value := c.blocksize }, { option := .windowsize, value := c.windowsize },
   { option := .timeout, value := c.timeoutS }, { option := .tsize, value := ts }]

/-- **negotiation**: for every option choice inside the documented ranges the server's `parse_options` accepts
the client's request options, runs the worker with exactly the client's block size, window size and time-out,
and the OACK it builds makes the client (`verify_oack`) keep exactly these values - both ends of the data phase
use the same parameters -/
theorem c14_negotiation (c : ClientCfg) (rt : ReqType) (ts : Nat)
    (hb : Gen.blksizeMin ≤ c.blocksize ∧ c.blocksize ≤ Gen.blksizeMax)
    (hw : 1 ≤ c.windowsize ∧ c.windowsize ≤ 65535) (ht : 1 ≤ c.timeoutS ∧ c.timeoutS ≤ Gen.timeoutMax) :
    ∃ wo acks, parseWorkerOptions (clientOptions c ts) rt = some (wo, acks) ∧
      wo.blockSize = c.blocksize ∧ wo.windowSize = c.windowsize ∧ wo.timeoutS = c.timeoutS ∧
      (verifyOack c acks).blocksize = c.blocksize ∧ (verifyOack c acks).windowsize = c.windowsize := by
  have h1 : ¬ (c.blocksize < Gen.blksizeMin) := by omega
  have h2 : ¬ (c.blocksize > Gen.blksizeMax) := by omega
  have h3 : ¬ (c.windowsize = 0) := by omega
  have h4 : ¬ (c.windowsize > 65535) := by omega
  have h5 : ¬ (c.timeoutS = 0) := by omega
  have h6 : ¬ (c.timeoutS > Gen.timeoutMax) := by omega
  have hmod : c.windowsize % 65536 = c.windowsize := Nat.mod_eq_of_lt (by omega)
  cases rt with
  | read size =>
    refine ⟨{ blockSize := c.blocksize, transferSize := size, timeoutS := c.timeoutS, windowSize := c.windowsize },
      [{ option := .blksize, value := c.blocksize }, { option := .windowsize, value := c.windowsize },
       { option := .timeout, value := c.timeoutS }, { option := .tsize, value := size }], ?_, rfl, rfl, rfl, ?_⟩
    · simp only [parseWorkerOptions, clientOptions, parseOptionsLoop, h1, h2, h3, h4, h5, h6, decide_false, Bool.or_self,
        Bool.and_false, Bool.false_eq_true, ↓reduceIte]
      rfl
    · simp [verifyOack, hmod]
  | write =>
    refine ⟨{ blockSize := c.blocksize, transferSize := ts, timeoutS := c.timeoutS, windowSize := c.windowsize },
      [{ option := .blksize, value := c.blocksize }, { option := .windowsize, value := c.windowsize },
       { option := .timeout, value := c.timeoutS }, { option := .tsize, value := ts }], ?_, rfl, rfl, rfl, ?_⟩
    · simp only [parseWorkerOptions, clientOptions, parseOptionsLoop, h1, h2, h3, h4, h5, h6, decide_false, Bool.or_self,
        Bool.and_false, Bool.false_eq_true, ↓reduceIte]
      rfl
    · simp [verifyOack, hmod]

/-- **client and server, end to end** (download): for every option choice of the client inside the documented
ranges, every file and every schedule of lost and duplicated datagrams, the parameters the server's worker gets
from `parse_options` on the client's request and the parameters the client keeps after `verify_oack` on the
server's OACK drive a data phase (the closed loop of the two worker models) that runs to an end, and that end is
success with a byte-identical file on the receiving side, or both-sided / sender-sided give-up after
`MAX_RETRIES` consecutive failed attempts; with fewer than `MAX_RETRIES` losses it is success -/
theorem c14_end_to_end (c : ClientCfg) (f : Bytes) (clean : Bool)
    (hb : Gen.blksizeMin ≤ c.blocksize ∧ c.blocksize ≤ Gen.blksizeMax)
    (hw : 1 ≤ c.windowsize ∧ c.windowsize ≤ 65535) (ht : 1 ≤ c.timeoutS ∧ c.timeoutS ≤ Gen.timeoutMax) :
    ∃ wo acks, parseWorkerOptions (clientOptions c 0) (.read f.length) = some (wo, acks) ∧
      ∀ fl : Faults,
        (∃ fuel, TotalDone f
          (netRun { b := wo.blockSize, w := wo.windowSize, timeout := wo.timeoutS * 1000, rep := 1 }
            { b := (verifyOack c acks).blocksize, w := (verifyOack c acks).windowsize, rep := 1, cleanOnError := clean }
            fl fuel
            (netInit { b := wo.blockSize, w := wo.windowSize, timeout := wo.timeoutS * 1000, rep := 1 }
              { b := (verifyOack c acks).blocksize, w := (verifyOack c acks).windowsize, rep := 1, cleanOnError := clean }
              fl f))) ∧
        (fl.dropData.length + fl.dropAck.length < Gen.maxRetries →
          ∃ fuel,
            (netRun { b := wo.blockSize, w := wo.windowSize, timeout := wo.timeoutS * 1000, rep := 1 }
              { b := (verifyOack c acks).blocksize, w := (verifyOack c acks).windowsize, rep := 1, cleanOnError := clean }
              fl fuel
              (netInit { b := wo.blockSize, w := wo.windowSize, timeout := wo.timeoutS * 1000, rep := 1 }
                { b := (verifyOack c acks).blocksize, w := (verifyOack c acks).windowsize, rep := 1, cleanOnError := clean }
                fl f)).r.win.file.content = f) := by
  obtain ⟨wo, acks, hp, h1, h2, h3, h4, h5⟩ := c14_negotiation c (.read f.length) 0 hb hw ht
  refine ⟨wo, acks, hp, ?_⟩
  intro fl
  have hbmin : 0 < Gen.blksizeMin := by decide
  have lc : LoopCfgT { b := wo.blockSize, w := wo.windowSize, timeout := wo.timeoutS * 1000, rep := 1 }
      { b := (verifyOack c acks).blocksize, w := (verifyOack c acks).windowsize, rep := 1, cleanOnError := clean } :=
    ⟨⟨by show 0 < wo.blockSize; omega, by show 1 ≤ wo.windowSize; omega, by show wo.windowSize < 65536; omega, rfl,
      by show (verifyOack c acks).blocksize = wo.blockSize; omega,
      by show (verifyOack c acks).windowsize = wo.windowSize; omega, rfl⟩,
      by show 0 < wo.timeoutS * 1000; omega⟩
  refine ⟨closed_loop_total _ _ lc fl f, ?_⟩
  intro hbud
  obtain ⟨fuel, _, hfile, _⟩ := loss_tolerance _ _ lc fl hbud f
  exact ⟨fuel, hfile⟩

end Tftp
