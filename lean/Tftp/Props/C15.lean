import Tftp.Props.C01
import Tftp.Props.C08
import Tftp.Lemmas.Net
import Tftp.Lemmas.NetLossW
/-!
# C15 — Block-number wrap-around

The theorems of C01, C07 and C08 are proved for files of *any* length: `k` ranges over all of
`1..N` with no bound on `N`, wire numbers are `k mod 65536`. What is specific to the wrap is stated here.
-/
namespace Tftp

/-- an acknowledgement number is attributed to at most one outstanding block: since the window holds
at most `windowsize ≤ 65535 < 65536` blocks, two distinct outstanding blocks never share a wire number -/
theorem c15_ack_unique_in_window (c : SCfg) (hw : c.w < 65536) (f : Bytes) (s : SState) (h : SInv c f s)
    (i j : Nat) (hi : i < s.win.elems.length) (hj : j < s.win.elems.length)
    (heq : (s.bn + i) % 65536 = (s.bn + j) % 65536) : i = j := by
  have := h.len_le
  omega

/-- an accepted ACK `n` moves the window to exactly the block after the one it names — the absolute
index advances by `diff + 1 ≤ windowsize`, never by 65536 more or less — and the wire number of the
new front is that absolute index mod 65536 (across the wrap: …, 65535, 0, 1, …) -/
theorem c15_slide_exact (c : SCfg) (hb : 0 < c.b) (hw : c.w < 65536) (f : Bytes) (s : SState) (h : SInv c f s)
    (hrun : s.status = .running) (n dt : Nat) (hin : (n + 65536 - s.bn) % 65536 < s.win.elems.length) :
    (sStep c s (.ack n) dt).1.base = s.base + (n + 65536 - s.bn) % 65536 + 1 ∧
    (s.base + (n + 65536 - s.bn) % 65536) % 65536 = n % 65536 ∧
    (sStep c s (.ack n) dt).1.bn = (sStep c s (.ack n) dt).1.base % 65536 := by
  have h1 := c08_cumulative c hb hw f s h hrun n dt hin
  have hinv := (step_good hb hw h (.ack n) dt).1
  refine ⟨h1.1, ?_, hinv.bn_eq⟩
  have := h.bn_eq
  have := h.len_le
  omega

/-- the sender's data theorem with the wrap made explicit: block `k` of a file with more than 65535
blocks is emitted as number `k mod 65536` carrying exactly its own bytes -/
theorem c15_sender_any_length (c : SCfg) (hb : 0 < c.b) (hw : c.w < 65536) (f : Bytes) (chk : Bool)
    (evs : List (SEv × Nat)) (_hlong : 65535 < nblocks c.b f) :
    ∀ g ∈ (sRun c f chk evs).1, ∀ p ∈ g, GoodPkt c f p :=
  c01_data_is_slice c hb hw f chk evs

/-- the receiver's expected number after 65535 is 0 -/
theorem c15_receiver_expected_wraps (c : RCfg) (s : RState) (hrun : s.status = .running) (hbn : s.bn = 65535)
    (payload : Bytes) (hfull : ¬ payload.length < c.b) :
    (rStep c s (.data 0 payload)).1.bn = 0 ∨ (rStep c s (.data 0 payload)).1.status = .failed := by
  unfold rStep
  simp only [hrun, hbn]
  have : (0 : Nat) = (65535 + 1) % 65536 := by decide
  simp only [← this, ↓reduceIte]
  split
  · simp only [hfull, ↓reduceIte]
    split
    · unfold flushAck
      split <;> simp
    · left; rfl
  · right; rfl

/-! non-vacuity: a window straddling the wrap (file of 65537 one-byte blocks would be large; the
arithmetic fact is shown on the numbers) -/
example : (65535 + 1) % 65536 = 0 ∧ (65534 + 3) % 65536 = 1 := by decide

end Tftp

namespace Tftp

/-- **a transfer of more than 65535 blocks completes byte-identically** in the fault-free closed loop, for
every window size (so also for windows that straddle 65535 → 0): the general completion theorem has no
bound on the number of blocks; here it is instantiated at `N > 65535` -/
theorem c15_long_transfer_completes (f : Bytes) (b w timeout : Nat) (hb : 0 < b) (hw1 : 1 ≤ w) (hw : w < 65536)
    (_hlong : 65535 < nblocks b f) :
    ∃ fuel,
      (netRun { b := b, w := w, timeout := timeout, rep := 1 } { b := b, w := w, rep := 1, cleanOnError := true }
        Faults.none fuel
        (netInit { b := b, w := w, timeout := timeout, rep := 1 } { b := b, w := w, rep := 1, cleanOnError := true }
          Faults.none f)).r.win.file.content = f ∧
      (netRun { b := b, w := w, timeout := timeout, rep := 1 } { b := b, w := w, rep := 1, cleanOnError := true }
        Faults.none fuel
        (netInit { b := b, w := w, timeout := timeout, rep := 1 } { b := b, w := w, rep := 1, cleanOnError := true }
          Faults.none f)).s.status = .ok := by
  have lc : LoopCfg { b := b, w := w, timeout := timeout, rep := 1 } { b := b, w := w, rep := 1, cleanOnError := true } :=
    ⟨hb, hw1, hw, rfl, rfl, rfl, rfl⟩
  obtain ⟨fuel, hd⟩ := fault_free_transfer _ _ lc f
  exact ⟨fuel, hd.file, hd.sok⟩

end Tftp

namespace Tftp

/-- **a transfer of more than 65535 blocks survives loss and duplication at and around the wrap**: for every
window size and every fault schedule with any duplications and fewer than `MAX_RETRIES` losses - wherever
they fall, so also on the datagrams numbered 65535, 0, 1 - the closed loop ends with the receiver's file
byte-identical (instance of the loss-tolerance theorem, which has no bound on the number of blocks) -/
theorem c15_long_transfer_loss_tolerance (f : Bytes) (b w timeout : Nat) (hb : 0 < b) (hw1 : 1 ≤ w) (hw : w < 65536)
    (ht : 0 < timeout) (_hlong : 65535 < nblocks b f) (fl : Faults)
    (hbudget : fl.dropData.length + fl.dropAck.length < Gen.maxRetries) :
    ∃ fuel,
      (netRun { b := b, w := w, timeout := timeout, rep := 1 } { b := b, w := w, rep := 1, cleanOnError := true }
        fl fuel
        (netInit { b := b, w := w, timeout := timeout, rep := 1 } { b := b, w := w, rep := 1, cleanOnError := true }
          fl f)).r.status = .ok ∧
      (netRun { b := b, w := w, timeout := timeout, rep := 1 } { b := b, w := w, rep := 1, cleanOnError := true }
        fl fuel
        (netInit { b := b, w := w, timeout := timeout, rep := 1 } { b := b, w := w, rep := 1, cleanOnError := true }
          fl f)).r.win.file.content = f := by
  have lc : LoopCfgT { b := b, w := w, timeout := timeout, rep := 1 } { b := b, w := w, rep := 1, cleanOnError := true } :=
    ⟨⟨hb, hw1, hw, rfl, rfl, rfl, rfl⟩, ht⟩
  obtain ⟨fuel, h1, h2, _⟩ := loss_tolerance _ _ lc fl hbudget f
  exact ⟨fuel, h1, h2⟩

end Tftp
