import Tftp.Lemmas.SenderStep
import Tftp.Model.Receiver
/-!
# C16 — Duplicate-packets mode repeats data-phase datagrams N+1 times, stays correct

`rep = N + 1` is the `repeat_amount` the server passes to its workers.
-/
namespace Tftp

/-- every DATA/ACK of the data phase `r` times back to back; the handshake ERROR once -/
def stutter (r : Nat) (ps : List Packet) : List Packet :=
  ps.flatMap fun p => if p = illegalOp then [p] else List.replicate r p

theorem sendWindow_stutter (r bn : Nat) (es : List Bytes) :
    sendWindow r bn es = stutter r (sendWindow 1 bn es) := by
  induction es generalizing bn with
  | nil => simp [sendWindow, stutter]
  | cons e es ih =>
    simp only [sendWindow, sendPacket, ih]
    unfold stutter
    simp [illegalOp]

/-- same configuration except for the repeat count -/
def SCfg.withRep (c : SCfg) (r : Nat) : SCfg := { c with rep := r }

theorem sHead_stutter (c : SCfg) (r : Nat) (s : SState) :
    (sHead (c.withRep r) s).1 = (sHead (c.withRep 1) s).1 ∧
    (sHead (c.withRep r) s).2 = stutter r (sHead (c.withRep 1) s).2 := by
  unfold sHead SCfg.withRep
  simp only
  split
  · exact ⟨rfl, sendWindow_stutter r s.bn s.win.elems⟩
  · exact ⟨rfl, by simp [stutter]⟩

theorem sOuter_stutter (c : SCfg) (r : Nat) (s : SState) :
    (sOuter (c.withRep r) s).1 = (sOuter (c.withRep 1) s).1 ∧
    (sOuter (c.withRep r) s).2 = stutter r (sOuter (c.withRep 1) s).2 := by
  unfold sOuter
  split
  · exact sHead_stutter c r _
  · exact ⟨rfl, by simp [stutter]⟩

/-- **stutter**: for every state, event and elapsed time, a sender with repeat count `r` moves to the
same state as one with repeat count 1 and emits the `r`-fold stutter of its output -/
theorem c16_stutter_step (c : SCfg) (r : Nat) (s : SState) (ev : SEv) (dt : Nat) :
    (sStep (c.withRep r) s ev dt).1 = (sStep (c.withRep 1) s ev dt).1 ∧
    (sStep (c.withRep r) s ev dt).2 = stutter r (sStep (c.withRep 1) s ev dt).2 := by
  have hnil : stutter r [] = [] := by simp [stutter]
  have hill : stutter r [illegalOp] = [illegalOp] := by simp [stutter]
  unfold sStep
  split
  · cases ev with
    | ack n =>
      simp only
      split
      · exact sOuter_stutter c r _
      · exact ⟨rfl, hill.symm⟩
    | error => exact ⟨rfl, hnil.symm⟩
    | fail => exact ⟨rfl, hnil.symm⟩
    | other => exact sOuter_stutter c r _
  · cases ev with
    | ack n =>
      simp only
      split
      · split
        · exact ⟨rfl, hnil.symm⟩
        · exact sOuter_stutter c r _
      · exact sHead_stutter c r _
    | error => exact ⟨rfl, hnil.symm⟩
    | fail =>
      simp only
      split
      · exact ⟨rfl, hnil.symm⟩
      · exact sHead_stutter c r _
    | other =>
      simp only
      split
      · exact ⟨rfl, hnil.symm⟩
      · exact sHead_stutter c r _
  · exact ⟨rfl, hnil.symm⟩

/-- lifted to whole runs: same final state, every output group stuttered -/
theorem c16_stutter (c : SCfg) (r : Nat) (f : Bytes) (chk : Bool) (evs : List (SEv × Nat)) :
    (sRun (c.withRep r) f chk evs).2 = (sRun (c.withRep 1) f chk evs).2 ∧
    (sRun (c.withRep r) f chk evs).1 = (sRun (c.withRep 1) f chk evs).1.map (stutter r) := by
  have hfrom : ∀ (evs : List (SEv × Nat)) (s : SState),
      (sRunFrom (c.withRep r) s evs).2 = (sRunFrom (c.withRep 1) s evs).2 ∧
      (sRunFrom (c.withRep r) s evs).1 = (sRunFrom (c.withRep 1) s evs).1.map (stutter r) := by
    intro evs
    induction evs with
    | nil => intro s; simp [sRunFrom]
    | cons e es ih =>
      intro s
      obtain ⟨h1, h2⟩ := c16_stutter_step c r s e.1 e.2
      simp only [sRunFrom, h1, h2, List.map_cons]
      exact ⟨(ih _).1, by rw [(ih _).2]⟩
  have hinit : (sInit (c.withRep r) f chk).1 = (sInit (c.withRep 1) f chk).1 ∧
      (sInit (c.withRep r) f chk).2 = stutter r (sInit (c.withRep 1) f chk).2 := by
    unfold sInit
    cases chk with
    | true => exact ⟨rfl, by simp [stutter]⟩
    | false => exact sOuter_stutter c r _
  unfold sRun
  simp only [hinit.1, hinit.2, List.map_cons]
  exact ⟨(hfrom _ _).1, by rw [(hfrom _ _).2]⟩

/-- each DATA block is emitted exactly `r` times back to back -/
theorem c16_data_repeated (r bn : Nat) (e : Bytes) (es : List Bytes) :
    sendWindow r bn (e :: es) = List.replicate r (.data bn e) ++ sendWindow r ((bn + 1) % 65536) es := rfl

/-- the receiver emits each data-phase ACK exactly `r` times back to back -/
theorem c16_ack_repeated (r n : Nat) (file : FileSt) :
    ackOut r n file = List.replicate r { n := n, file := file } := rfl

/-- the receiver's states do not depend on the repeat count, its ACK groups are `r` copies of one ACK -/
theorem c16_receiver_step (c : RCfg) (r : Nat) (s : RState) (ev : REv) :
    (rStep { c with rep := r } s ev).1 = (rStep { c with rep := 1 } s ev).1 ∧
    (rStep { c with rep := r } s ev).2 = (rStep { c with rep := 1 } s ev).2.flatMap (List.replicate r) := by
  have hflush : ∀ t : RState, (flushAck { c with rep := r } t).1 = (flushAck { c with rep := 1 } t).1 ∧
      (flushAck { c with rep := r } t).2 = (flushAck { c with rep := 1 } t).2.flatMap (List.replicate r) := by
    intro t
    unfold flushAck
    split <;> simp [ackOut]
  have hnil : ([] : List AckObs) = ([] : List AckObs).flatMap (List.replicate r) := by simp
  have markOk_congr : ∀ (a b : RState × List AckObs), a.1 = b.1 →
      a.2 = b.2.flatMap (List.replicate r) →
      (markOk a).1 = (markOk b).1 ∧ (markOk a).2 = (markOk b).2.flatMap (List.replicate r) := by
    intro a b h1 h2
    unfold markOk
    rw [h1, h2]
    exact ⟨rfl, rfl⟩
  unfold rStep
  split
  · cases ev with
    | data n payload =>
      simp only
      split
      · split
        · split
          · exact markOk_congr _ _ (hflush _).1 (hflush _).2
          · split
            · exact hflush _
            · exact ⟨rfl, hnil⟩
        · exact ⟨rfl, hnil⟩
      · split
        · exact ⟨rfl, hnil⟩
        · exact hflush _
    | error => exact ⟨rfl, hnil⟩
    | fail =>
      simp only
      split <;> simp
  · exact ⟨rfl, hnil⟩

/-- **lifted to whole uploads**: for every event script the receiver with repeat count `r` goes through the
same states as the one with repeat count 1 — so it accepts the same blocks, stores the same file and ends the
same way — and every group of acknowledgements it emits is the group of the plain receiver with each ACK
`r` times back to back -/
theorem c16_receiver_run (c : RCfg) (r : Nat) (evs : List REv) :
    (rRun { c with rep := r } evs).2 = (rRun { c with rep := 1 } evs).2 ∧
    (rRun { c with rep := r } evs).1 = (rRun { c with rep := 1 } evs).1.map (·.flatMap (List.replicate r)) := by
  have hfrom : ∀ (evs : List REv) (s : RState),
      (rRunFrom { c with rep := r } s evs).2 = (rRunFrom { c with rep := 1 } s evs).2 ∧
      (rRunFrom { c with rep := r } s evs).1 =
        (rRunFrom { c with rep := 1 } s evs).1.map (·.flatMap (List.replicate r)) := by
    intro evs
    induction evs with
    | nil => intro s; simp [rRunFrom]
    | cons e es ih =>
      intro s
      obtain ⟨h1, h2⟩ := c16_receiver_step c r s e
      simp only [rRunFrom, h1, h2, List.map_cons]
      exact ⟨(ih _).1, by rw [(ih _).2]⟩
  unfold rRun
  have hi : rInit { c with rep := r } = rInit { c with rep := 1 } := rfl
  rw [hi]
  exact hfrom evs _

/-- `--duplicate-packets n` is accepted by the configuration parser only below the bound of the source
(`u8::MAX`), so `n + 1` fits the `u8` repeat count -/
theorem c16_dup_bound : Gen.dupPacketsBound = 255 ∧ Gen.dupPacketsBound - 1 + 1 < 256 := by decide

/-! non-vacuity -/
example : (sRun (({ b := 2, w := 1, timeout := 5, rep := 9 } : SCfg).withRep 3) [1, 2, 3] false [(.ack 1, 0)]).1 =
    [[.data 1 [1, 2], .data 1 [1, 2], .data 1 [1, 2]], [.data 2 [3], .data 2 [3], .data 2 [3]]] := by decide

end Tftp
