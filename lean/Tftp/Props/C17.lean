import Tftp.Model.Config
/-!
# C17 — Command-line configuration is order-independent with documented defaults

An argument vector is read as a sequence of *flag groups* (`SGroup`): a flag that takes a value together
with its value, or a value-less flag, in either spelling. `IpAddr::from_str` and `Path::exists` are
arbitrary oracles `o` — the theorems hold for every such oracle.

The server parser (`Config::new`) is proved; the client parser (`ClientConfig::new`) has the same shape and
is tied by the correspondence check only (`c17_client_*` are the statements that are proved for it).
-/
namespace Tftp

inductive SGroup where
  | ip (long : Bool) (v : Bytes)
  | port (long : Bool) (v : Bytes)
  | dir (long : Bool) (v : Bytes)
  | rd (long : Bool) (v : Bytes)
  | sd (long : Bool) (v : Bytes)
  | single (long : Bool)
  | ro (long : Bool)
  | dup (v : Bytes)
  | ow
  | keep
deriving Repr, DecidableEq

def pick (l : List Bytes) (long : Bool) : Bytes := if long then l.getD 1 [] else l.getD 0 []

def SGroup.tokens : SGroup → List Bytes
  | .ip l v => [pick fI l, v]
  | .port l v => [pick fP l, v]
  | .dir l v => [pick fD l, v]
  | .rd l v => [pick fRD l, v]
  | .sd l v => [pick fSD l, v]
  | .single l => [pick fS l]
  | .ro l => [pick fR l]
  | .dup v => [pick fDup false, v]
  | .ow => [pick fOw false]
  | .keep => [pick fKeep false]

/-- is the group's value acceptable? -/
def SGroup.valid (o : Oracles) : SGroup → Bool
  | .ip _ v => o.ipOk v
  | .port _ v => (parseUnsigned 65536 v).isSome
  | .dir _ v => o.pathExists v
  | .rd _ v => o.pathExists v
  | .sd _ v => o.pathExists v
  | .dup v => match parseUnsigned 256 v with
    | some n => n ≠ Gen.dupPacketsBound
    | none => false
  | _ => true

/-- the setting a valid group writes -/
def SGroup.apply (g : SGroup) (c : Cfg) : Cfg :=
  match g with
  | .ip _ v => { c with ip := some v }
  | .port _ v => { c with port := (parseUnsigned 65536 v).getD c.port }
  | .dir _ v => { c with dir := some v }
  | .rd _ v => { c with recvDir := v }
  | .sd _ v => { c with sendDir := v }
  | .single _ => { c with singlePort := true }
  | .ro _ => { c with readOnly := true }
  | .dup v => { c with dup := (parseUnsigned 256 v).getD c.dup }
  | .ow => { c with overwrite := true }
  | .keep => { c with cleanOnError := false }

theorem parse_group (o : Oracles) (g : SGroup) (rest : List Bytes) (c : Cfg) :
    parseServerArgs o (g.tokens ++ rest) c =
      if g.valid o then parseServerArgs o rest (g.apply c) else .err := by
  cases g with
  | ip l v =>
    cases l <;> simp only [SGroup.tokens, pick] <;> rw [parseServerArgs.eq_def] <;>
      simp [SGroup.valid, SGroup.apply, fI] <;> rfl
  | port l v =>
    cases l <;> simp only [SGroup.tokens, pick] <;> rw [parseServerArgs.eq_def] <;>
      simp [SGroup.valid, SGroup.apply, fI, fP] <;> (split <;> simp_all)
  | dir l v =>
    cases l <;> simp only [SGroup.tokens, pick] <;> rw [parseServerArgs.eq_def] <;>
      simp [SGroup.valid, SGroup.apply, fI, fP, fD] <;> rfl
  | rd l v =>
    cases l <;> simp only [SGroup.tokens, pick] <;> rw [parseServerArgs.eq_def] <;>
      simp [SGroup.valid, SGroup.apply, fI, fP, fD, fRD] <;> rfl
  | sd l v =>
    cases l <;> simp only [SGroup.tokens, pick] <;> rw [parseServerArgs.eq_def] <;>
      simp [SGroup.valid, SGroup.apply, fI, fP, fD, fRD, fSD] <;> rfl
  | single l =>
    cases l <;> simp only [SGroup.tokens, pick] <;> rw [parseServerArgs.eq_def] <;>
      simp [SGroup.valid, SGroup.apply, fI, fP, fD, fRD, fSD, fS]
  | ro l =>
    cases l <;> simp only [SGroup.tokens, pick] <;> rw [parseServerArgs.eq_def] <;>
      simp [SGroup.valid, SGroup.apply, fI, fP, fD, fRD, fSD, fS, fR]
  | dup v =>
    simp only [SGroup.tokens, pick]
    rw [parseServerArgs.eq_def]
    simp [SGroup.valid, SGroup.apply, fI, fP, fD, fRD, fSD, fS, fR, fH, fDup]
    split <;> simp_all
  | ow =>
    simp only [SGroup.tokens, pick]
    rw [parseServerArgs.eq_def]
    simp [SGroup.valid, SGroup.apply, fI, fP, fD, fRD, fSD, fS, fR, fH, fDup, fOw]
  | keep =>
    simp only [SGroup.tokens, pick]
    rw [parseServerArgs.eq_def]
    simp [SGroup.valid, SGroup.apply, fI, fP, fD, fRD, fSD, fS, fR, fH, fDup, fOw, fKeep]

/-- **a vector of valid flag groups, in any order and with any repetitions, yields the configuration
obtained by applying the groups one after the other** -/
theorem c17_groups_parse (o : Oracles) (gs : List SGroup) (c : Cfg) (h : ∀ g ∈ gs, g.valid o = true) :
    parseServerArgs o (gs.flatMap SGroup.tokens) c = .ok (gs.foldl (fun c g => g.apply c) c) := by
  induction gs generalizing c with
  | nil => simp [parseServerArgs]
  | cons g gs ih =>
    simp only [List.flatMap_cons, List.foldl_cons]
    rw [parse_group, h g (by simp)]
    simp only [↓reduceIte]
    exact ih _ (fun x hx => h x (by simp [hx]))

/-- **error**: the first group with an unparsable port / address, a non-existent directory or
`--duplicate-packets ≥ 255` makes the whole vector fail, whatever follows -/
theorem c17_invalid_value_is_error (o : Oracles) (gs : List SGroup) (g : SGroup) (rest : List Bytes) (c : Cfg)
    (h : ∀ x ∈ gs, x.valid o = true) (hg : g.valid o = false) :
    parseServerArgs o (gs.flatMap SGroup.tokens ++ g.tokens ++ rest) c = .err := by
  induction gs generalizing c with
  | nil => simp only [List.flatMap_nil, List.nil_append]; rw [parse_group, hg]; simp
  | cons x xs ih =>
    simp only [List.flatMap_cons, List.append_assoc]
    rw [parse_group, h x (by simp)]
    simp only [↓reduceIte]
    have := ih (x.apply c) (fun y hy => h y (by simp [hy]))
    simpa [List.append_assoc] using this

/-- **error**: an unknown flag fails -/
theorem c17_unknown_flag_is_error (o : Oracles) (a : Bytes) (rest : List Bytes) (c : Cfg)
    (h : a ∉ fI ++ fP ++ fD ++ fRD ++ fSD ++ fS ++ fR ++ fH ++ fDup ++ fOw ++ fKeep) :
    parseServerArgs o (a :: rest) c = .err := by
  simp only [List.mem_append, not_or] at h
  obtain ⟨⟨⟨⟨⟨⟨⟨⟨⟨⟨h1, h2⟩, h3⟩, h4⟩, h5⟩, h6⟩, h7⟩, h8⟩, h9⟩, h10⟩, h11⟩ := h
  rw [parseServerArgs.eq_def]
  simp [h1, h2, h3, h4, h5, h6, h7, h8, h9, h10, h11]

/-- **error**: a value-taking flag at the end of the vector fails -/
theorem c17_missing_value_is_error (o : Oracles) (a : Bytes) (c : Cfg)
    (h : a ∈ fI ++ fP ++ fD ++ fRD ++ fSD ++ fDup) : parseServerArgs o [a] c = .err := by
  simp only [List.mem_append] at h
  rw [parseServerArgs.eq_def]
  rcases h with ((((h | h) | h) | h) | h) | h
  · simp [h]
  · by_cases h1 : a ∈ fI <;> simp [h, h1]
  · by_cases h1 : a ∈ fI <;> by_cases h2 : a ∈ fP <;> simp [h, h1, h2]
  · by_cases h1 : a ∈ fI <;> by_cases h2 : a ∈ fP <;> by_cases h3 : a ∈ fD <;> simp [h, h1, h2, h3]
  · by_cases h1 : a ∈ fI <;> by_cases h2 : a ∈ fP <;> by_cases h3 : a ∈ fD <;> by_cases h4 : a ∈ fRD <;>
      simp [h, h1, h2, h3, h4]
  · have ha : a = [45, 45, 100, 117, 112, 108, 105, 99, 97, 116, 101, 45, 112, 97, 99, 107, 101, 116, 115] := by
      simpa [fDup] using h
    subst ha
    simp [fI, fP, fD, fRD, fSD, fS, fR, fH, fDup]

/-- `--duplicate-packets n` is accepted exactly for `n < 255` -/
theorem c17_dup_bound (o : Oracles) (v : Bytes) :
    (SGroup.dup v).valid o = true ↔ ∃ n, parseUnsigned 256 v = some n ∧ n < 255 := by
  simp only [SGroup.valid]
  cases h : parseUnsigned 256 v with
  | none => simp
  | some n =>
    have hb : n < 256 := by
      unfold parseUnsigned at h
      simp only at h
      split at h
      · simp at h
      · split at h
        · split at h
          · rename_i hlt; simp at h; rw [← h]; exact hlt
          · simp at h
        · simp at h
    constructor
    · intro hv
      refine ⟨n, rfl, ?_⟩
      have : n ≠ 255 := by
        have h2 := of_decide_eq_true hv
        simpa [Gen.dupPacketsBound] using h2
      omega
    · rintro ⟨m, hm, hlt⟩
      have : m = n := by injection hm with hm; exact hm.symm
      subst this
      have : m ≠ 255 := by omega
      exact decide_eq_true (by simpa [Gen.dupPacketsBound] using this)

/-! ### last occurrence wins, hence order independence -/

/-- the last group that sets the setting selected by `sel` -/
def lastVal {α : Type} (sel : SGroup → Option α) : List SGroup → Option α
  | [] => none
  | g :: gs => match lastVal sel gs with
    | some v => some v
    | none => sel g

theorem foldl_field {α : Type} (sel : SGroup → Option α) (f : Cfg → α)
    (hstep : ∀ g c, f (g.apply c) = (sel g).getD (f c)) (gs : List SGroup) (c : Cfg) :
    f (gs.foldl (fun c g => g.apply c) c) = (lastVal sel gs).getD (f c) := by
  induction gs generalizing c with
  | nil => simp [lastVal]
  | cons g gs ih =>
    simp only [List.foldl_cons, lastVal]
    rw [ih, hstep]
    cases lastVal sel gs <;> simp

def selIp : SGroup → Option (Option Bytes) | .ip _ v => some (some v) | _ => none
def selPort : SGroup → Option Nat | .port _ v => parseUnsigned 65536 v | _ => none
def selDir : SGroup → Option (Option Bytes) | .dir _ v => some (some v) | _ => none
def selRd : SGroup → Option Bytes | .rd _ v => some v | _ => none
def selSd : SGroup → Option Bytes | .sd _ v => some v | _ => none
def selSingle : SGroup → Option Bool | .single _ => some true | _ => none
def selRo : SGroup → Option Bool | .ro _ => some true | _ => none
def selDup : SGroup → Option Nat | .dup v => parseUnsigned 256 v | _ => none
def selOw : SGroup → Option Bool | .ow => some true | _ => none
def selKeep : SGroup → Option Bool | .keep => some false | _ => none

/-- **last occurrence of each flag determines the configuration**: every setting of the result is the
value of the last group that names it, or the default when no group does -/
theorem c17_last_wins (gs : List SGroup) (c : Cfg) :
    let r := gs.foldl (fun c g => g.apply c) c
    r.ip = (lastVal selIp gs).getD c.ip ∧ r.port = (lastVal selPort gs).getD c.port ∧
    r.dir = (lastVal selDir gs).getD c.dir ∧ r.recvDir = (lastVal selRd gs).getD c.recvDir ∧
    r.sendDir = (lastVal selSd gs).getD c.sendDir ∧ r.singlePort = (lastVal selSingle gs).getD c.singlePort ∧
    r.readOnly = (lastVal selRo gs).getD c.readOnly ∧ r.dup = (lastVal selDup gs).getD c.dup ∧
    r.overwrite = (lastVal selOw gs).getD c.overwrite ∧ r.cleanOnError = (lastVal selKeep gs).getD c.cleanOnError := by
  refine ⟨foldl_field selIp (·.ip) ?_ gs c, foldl_field selPort (·.port) ?_ gs c, foldl_field selDir (·.dir) ?_ gs c,
    foldl_field selRd (·.recvDir) ?_ gs c, foldl_field selSd (·.sendDir) ?_ gs c,
    foldl_field selSingle (·.singlePort) ?_ gs c, foldl_field selRo (·.readOnly) ?_ gs c,
    foldl_field selDup (·.dup) ?_ gs c, foldl_field selOw (·.overwrite) ?_ gs c,
    foldl_field selKeep (·.cleanOnError) ?_ gs c⟩ <;>
  · intro g c
    cases g <;> simp [SGroup.apply, selIp, selPort, selDir, selRd, selSd, selSingle, selRo, selDup, selOw, selKeep] <;>
      (first | rfl | (rename_i v; cases parseUnsigned 65536 v <;> rfl) | (rename_i v; cases parseUnsigned 256 v <;> rfl))

/-- **order independence**: two vectors of valid groups in which every setting has the same last
occurrence give the same configuration — in particular any reordering that keeps, for each flag, its
last occurrence (e.g. any permutation of a vector that names each flag at most once) -/
theorem c17_order_independent (o : Oracles) (gs1 gs2 : List SGroup)
    (h1 : ∀ g ∈ gs1, g.valid o = true) (h2 : ∀ g ∈ gs2, g.valid o = true)
    (hip : lastVal selIp gs1 = lastVal selIp gs2) (hport : lastVal selPort gs1 = lastVal selPort gs2)
    (hdir : lastVal selDir gs1 = lastVal selDir gs2) (hrd : lastVal selRd gs1 = lastVal selRd gs2)
    (hsd : lastVal selSd gs1 = lastVal selSd gs2) (hsi : lastVal selSingle gs1 = lastVal selSingle gs2)
    (hro : lastVal selRo gs1 = lastVal selRo gs2) (hdup : lastVal selDup gs1 = lastVal selDup gs2)
    (how : lastVal selOw gs1 = lastVal selOw gs2) (hk : lastVal selKeep gs1 = lastVal selKeep gs2)
    (prog : Bytes) :
    serverConfig o (prog :: gs1.flatMap SGroup.tokens) = serverConfig o (prog :: gs2.flatMap SGroup.tokens) := by
  unfold serverConfig
  simp only [List.tail_cons]
  rw [c17_groups_parse o gs1 _ h1, c17_groups_parse o gs2 _ h2]
  have e1 := c17_last_wins gs1 Cfg.default
  have e2 := c17_last_wins gs2 Cfg.default
  simp only at e1 e2
  have : gs1.foldl (fun c g => g.apply c) Cfg.default = gs2.foldl (fun c g => g.apply c) Cfg.default := by
    generalize gs1.foldl (fun c g => g.apply c) Cfg.default = a at e1
    generalize gs2.foldl (fun c g => g.apply c) Cfg.default = b at e2
    obtain ⟨a1, a2, a3, a4, a5, a6, a7, a8, a9, a10⟩ := e1
    obtain ⟨b1, b2, b3, b4, b5, b6, b7, b8, b9, b10⟩ := e2
    cases a; cases b
    simp only at a1 a2 a3 a4 a5 a6 a7 a8 a9 a10 b1 b2 b3 b4 b5 b6 b7 b8 b9 b10
    simp only [Cfg.mk.injEq]
    rw [a1, a2, a3, a4, a5, a6, a7, a8, a9, a10, b1, b2, b3, b4, b5, b6, b7, b8, b9, b10,
      hip, hport, hdir, hrd, hsd, hsi, hro, hdup, how, hk]
    simp
  rw [this]

theorem lastVal_eq_getLast {α : Type} (sel : SGroup → Option α) (gs : List SGroup) :
    lastVal sel gs = (gs.filterMap sel).getLast? := by
  induction gs with
  | nil => simp [lastVal]
  | cons g gs ih =>
    simp only [lastVal, ih, List.filterMap_cons]
    cases hs : sel g with
    | none => cases (List.filterMap sel gs).getLast? <;> simp
    | some b =>
      simp only
      cases hl : List.filterMap sel gs with
      | nil => simp
      | cons x xs =>
        have : (x :: xs).getLast? = some ((x :: xs).getLast (by simp)) := List.getLast?_eq_some_getLast (by simp)
        rw [List.getLast?_cons_cons, this]

theorem perm_short_eq {α : Type} {l1 l2 : List α} (hp : l1.Perm l2) (h : l1.length ≤ 1) : l1 = l2 := by
  match l1, h with
  | [], _ => exact (List.nil_perm.mp hp).symm
  | [a], _ => exact (List.singleton_perm.mp hp)

theorem lastVal_perm {α : Type} (sel : SGroup → Option α) {gs1 gs2 : List SGroup} (hp : gs1.Perm gs2)
    (h : (gs1.filterMap sel).length ≤ 1) : lastVal sel gs1 = lastVal sel gs2 := by
  rw [lastVal_eq_getLast, lastVal_eq_getLast, perm_short_eq (hp.filterMap sel) h]

/-- **permutation invariance** (order independence in its plainest form): a vector of valid groups in which
every setting is named at most once gives the same configuration in every order -/
theorem c17_permutation_invariant (o : Oracles) (gs1 gs2 : List SGroup) (hp : gs1.Perm gs2)
    (h1 : ∀ g ∈ gs1, g.valid o = true)
    (hip : (gs1.filterMap selIp).length ≤ 1) (hport : (gs1.filterMap selPort).length ≤ 1)
    (hdir : (gs1.filterMap selDir).length ≤ 1) (hrd : (gs1.filterMap selRd).length ≤ 1)
    (hsd : (gs1.filterMap selSd).length ≤ 1) (hsi : (gs1.filterMap selSingle).length ≤ 1)
    (hro : (gs1.filterMap selRo).length ≤ 1) (hdup : (gs1.filterMap selDup).length ≤ 1)
    (how : (gs1.filterMap selOw).length ≤ 1) (hk : (gs1.filterMap selKeep).length ≤ 1) (prog : Bytes) :
    serverConfig o (prog :: gs1.flatMap SGroup.tokens) = serverConfig o (prog :: gs2.flatMap SGroup.tokens) :=
  c17_order_independent o gs1 gs2 h1 (fun g hg => h1 g (hp.mem_iff.mpr hg))
    (lastVal_perm _ hp hip) (lastVal_perm _ hp hport) (lastVal_perm _ hp hdir) (lastVal_perm _ hp hrd)
    (lastVal_perm _ hp hsd) (lastVal_perm _ hp hsi) (lastVal_perm _ hp hro) (lastVal_perm _ hp hdup)
    (lastVal_perm _ hp how) (lastVal_perm _ hp hk) prog

/-! non-vacuity: a two-flag vector meets the premises of `c17_permutation_invariant` in both orders -/
example : [SGroup.single false, SGroup.ro true].Perm [SGroup.ro true, SGroup.single false] ∧
    ([SGroup.single false, SGroup.ro true].filterMap selSingle).length ≤ 1 ∧
    ([SGroup.single false, SGroup.ro true].filterMap selRo).length ≤ 1 ∧
    ([SGroup.single false, SGroup.ro true].filterMap selPort).length ≤ 1 :=
  ⟨List.Perm.swap _ _ _, by decide, by decide, by decide⟩

/-- **documented defaults**: with no flags the configuration is 127.0.0.1 (`ip = none`), port 69, the
current directory, writable, multi-port, no duplicates, no overwrite, clean-on-error -/
theorem c17_defaults (o : Oracles) (prog : Bytes) :
    serverConfig o [prog] = .ok { c := Cfg.default, recv := none, send := none } ∧
    Cfg.default.port = 69 ∧ Cfg.default.ip = none ∧ Cfg.default.dir = none ∧ Cfg.default.singlePort = false ∧
    Cfg.default.readOnly = false ∧ Cfg.default.dup = 0 ∧ Cfg.default.overwrite = false ∧
    Cfg.default.cleanOnError = true := by
  refine ⟨?_, by decide, rfl, rfl, rfl, rfl, rfl, rfl, rfl⟩
  simp [serverConfig, parseServerArgs, finish, Cfg.default]

/-- **directory fall-back**: the receive (send) directory is the explicit one iff one was given,
otherwise the `-d` directory (or the current directory when there is none either) -/
theorem c17_dir_fallback (c : Cfg) :
    ((finish c).recv = if c.recvDir = [] then c.dir else some c.recvDir) ∧
    ((finish c).send = if c.sendDir = [] then c.dir else some c.sendDir) := by
  unfold finish
  constructor <;> (simp only; split <;> simp_all)

/-- `-h` after valid groups: the usage is printed and the process exits — a third outcome besides
error and configuration -/
theorem c17_help (o : Oracles) (gs : List SGroup) (l : Bool) (rest : List Bytes) (c : Cfg)
    (h : ∀ g ∈ gs, g.valid o = true) :
    parseServerArgs o (gs.flatMap SGroup.tokens ++ pick fH l :: rest) c = .help := by
  induction gs generalizing c with
  | nil =>
    cases l <;> simp only [List.flatMap_nil, List.nil_append, pick] <;> rw [parseServerArgs.eq_def] <;>
      simp [fI, fP, fD, fRD, fSD, fS, fR, fH]
  | cons x xs ih =>
    simp only [List.flatMap_cons, List.append_assoc]
    rw [parse_group, h x (by simp)]
    simp only [↓reduceIte]
    exact ih _ (fun y hy => h y (by simp [hy]))

/-! non-vacuity: two orders of the same flags, a repeated flag -/
example : serverConfig { ipOk := fun _ => true, pathExists := fun _ => true }
    ([[112]] ++ (SGroup.port false [55]).tokens ++ (SGroup.single true).tokens ++ (SGroup.port true [56]).tokens) =
  serverConfig { ipOk := fun _ => true, pathExists := fun _ => true }
    ([[112]] ++ (SGroup.single false).tokens ++ (SGroup.port true [56]).tokens) := by decide

end Tftp

namespace Tftp

/-! ## the client's flag set -/

inductive CGroup where
  | ip (long : Bool) (v : Bytes)
  | port (long : Bool) (v : Bytes)
  | blk (long : Bool) (v : Bytes)
  | win (long : Bool) (v : Bytes)
  | tmo (long : Bool) (v : Bytes)
  | rd (long : Bool) (v : Bytes)
  | up (long : Bool)
  | down (long : Bool)
  | keep
  | file (a : Bytes)      -- a positional argument: anything that is not a flag
deriving Repr, DecidableEq

def clientFlags : List Bytes := fI ++ fP ++ fB ++ fW ++ fT ++ fRD ++ fU ++ fDl ++ fKeep ++ fH

def CGroup.tokens : CGroup → List Bytes
  | .ip l v => [pick fI l, v]
  | .port l v => [pick fP l, v]
  | .blk l v => [pick fB l, v]
  | .win l v => [pick fW l, v]
  | .tmo l v => [pick fT l, v]
  | .rd l v => [pick fRD l, v]
  | .up l => [pick fU l]
  | .down l => [pick fDl l]
  | .keep => [pick fKeep false]
  | .file a => [a]

def CGroup.valid (o : Oracles) : CGroup → Bool
  | .ip _ v => o.ipOk v
  | .port _ v => (parseUnsigned 65536 v).isSome
  | .blk _ v => (parseUnsigned Gen.usizeBound v).isSome
  | .win _ v => (parseUnsigned 65536 v).isSome
  | .tmo _ v => (parseUnsigned Gen.usizeBound v).isSome
  | .rd _ v => o.pathExists v
  | .file a => !clientFlags.contains a
  | _ => true

def CGroup.apply (g : CGroup) (c : CCfg) : CCfg :=
  match g with
  | .ip _ v => { c with ip := some v }
  | .port _ v => { c with port := (parseUnsigned 65536 v).getD c.port }
  | .blk _ v => { c with blocksize := (parseUnsigned Gen.usizeBound v).getD c.blocksize }
  | .win _ v => { c with windowsize := (parseUnsigned 65536 v).getD c.windowsize }
  | .tmo _ v => { c with timeoutS := (parseUnsigned Gen.usizeBound v).getD c.timeoutS }
  | .rd _ v => { c with recvDir := v }
  | .up _ => { c with upload := true }
  | .down _ => { c with upload := false }
  | .keep => { c with cleanOnError := false }
  | .file a => { c with filePath := convertFilePath a }

theorem parse_cgroup (o : Oracles) (g : CGroup) (rest : List Bytes) (c : CCfg) (hvalid : g.valid o = true) :
    parseClientArgs o (g.tokens ++ rest) c = parseClientArgs o rest (g.apply c) := by
  cases g with
  | ip l v =>
    simp only [CGroup.valid] at hvalid
    cases l <;> simp only [CGroup.tokens, pick] <;> rw [parseClientArgs.eq_def] <;>
      simp [CGroup.apply, fI, hvalid]
  | port l v =>
    simp only [CGroup.valid] at hvalid
    cases l <;> simp only [CGroup.tokens, pick] <;> rw [parseClientArgs.eq_def] <;>
      simp [CGroup.apply, fI, fP] <;> (split <;> simp_all)
  | blk l v =>
    simp only [CGroup.valid] at hvalid
    cases l <;> simp only [CGroup.tokens, pick] <;> rw [parseClientArgs.eq_def] <;>
      simp [CGroup.apply, fI, fP, fB] <;> (split <;> simp_all)
  | win l v =>
    simp only [CGroup.valid] at hvalid
    cases l <;> simp only [CGroup.tokens, pick] <;> rw [parseClientArgs.eq_def] <;>
      simp [CGroup.apply, fI, fP, fB, fW] <;> (split <;> simp_all)
  | tmo l v =>
    simp only [CGroup.valid] at hvalid
    cases l <;> simp only [CGroup.tokens, pick] <;> rw [parseClientArgs.eq_def] <;>
      simp [CGroup.apply, fI, fP, fB, fW, fT] <;> (split <;> simp_all)
  | rd l v =>
    simp only [CGroup.valid] at hvalid
    cases l <;> simp only [CGroup.tokens, pick] <;> rw [parseClientArgs.eq_def] <;>
      simp [CGroup.apply, fI, fP, fB, fW, fT, fRD, hvalid]
  | up l =>
    cases l <;> simp only [CGroup.tokens, pick] <;> rw [parseClientArgs.eq_def] <;>
      simp [CGroup.apply, fI, fP, fB, fW, fT, fRD, fU]
  | down l =>
    cases l <;> simp only [CGroup.tokens, pick] <;> rw [parseClientArgs.eq_def] <;>
      simp [CGroup.apply, fI, fP, fB, fW, fT, fRD, fU, fDl]
  | keep =>
    simp only [CGroup.tokens, pick]
    rw [parseClientArgs.eq_def]
    simp [CGroup.apply, fI, fP, fB, fW, fT, fRD, fU, fDl, fKeep]
  | file a =>
    simp only [CGroup.valid] at hvalid
    have hn : a ∉ clientFlags := by
      intro hm
      have : clientFlags.contains a = true := by simpa using hm
      simp at hvalid
      exact hvalid hm
    simp only [clientFlags, List.mem_append, not_or] at hn
    obtain ⟨⟨⟨⟨⟨⟨⟨⟨⟨h1, h2⟩, h3⟩, h4⟩, h5⟩, h6⟩, h7⟩, h8⟩, h9⟩, h10⟩ := hn
    simp only [CGroup.tokens, List.cons_append, List.nil_append]
    rw [parseClientArgs.eq_def]
    simp [h1, h2, h3, h4, h5, h6, h7, h8, h9, h10, CGroup.apply]

/-- **client: a vector of valid groups** (flags with acceptable values, positional file names that are
not flags), in any order and with any repetitions, yields the configuration obtained by applying the groups
one after the other — so `-u`/`-d` and the file name are last-wins exactly like the value flags -/
theorem c17_client_groups_parse (o : Oracles) (gs : List CGroup) (c : CCfg) (h : ∀ g ∈ gs, g.valid o = true) :
    parseClientArgs o (gs.flatMap CGroup.tokens) c = .ok (gs.foldl (fun c g => g.apply c) c) := by
  induction gs generalizing c with
  | nil => simp [parseClientArgs]
  | cons g gs ih =>
    simp only [List.flatMap_cons, List.foldl_cons]
    rw [parse_cgroup o g _ c (h g (by simp))]
    exact ih _ (fun x hx => h x (by simp [hx]))

/-- client: the last of `-u` / `-d` decides the mode, the last positional argument is the file -/
theorem c17_client_mode_and_file_last_wins (o : Oracles) (gs : List CGroup) (c : CCfg) (g : CGroup)
    (h : ∀ x ∈ gs ++ [g], x.valid o = true) :
    ∃ c', parseClientArgs o ((gs ++ [g]).flatMap CGroup.tokens) c = .ok c' ∧
      (∀ l, g = .up l → c'.upload = true) ∧ (∀ l, g = .down l → c'.upload = false) ∧
      (∀ a, g = .file a → c'.filePath = convertFilePath a) := by
  have hp := c17_client_groups_parse o (gs ++ [g]) c h
  simp only [List.foldl_append, List.foldl_cons, List.foldl_nil] at hp
  refine ⟨_, hp, ?_, ?_, ?_⟩ <;> intro x hx <;> subst hx <;> rfl

/-! ### client: last occurrence wins, hence order independence -/

/-- the last client group that sets the setting selected by `sel` -/
def lastValC {α : Type} (sel : CGroup → Option α) : List CGroup → Option α
  | [] => none
  | g :: gs => match lastValC sel gs with
    | some v => some v
    | none => sel g

theorem foldl_fieldC {α : Type} (sel : CGroup → Option α) (f : CCfg → α)
    (hstep : ∀ g c, f (g.apply c) = (sel g).getD (f c)) (gs : List CGroup) (c : CCfg) :
    f (gs.foldl (fun c g => g.apply c) c) = (lastValC sel gs).getD (f c) := by
  induction gs generalizing c with
  | nil => simp [lastValC]
  | cons g gs ih =>
    simp only [List.foldl_cons, lastValC]
    rw [ih, hstep]
    cases lastValC sel gs <;> simp

def cselIp : CGroup → Option (Option Bytes) | .ip _ v => some (some v) | _ => none
def cselPort : CGroup → Option Nat | .port _ v => parseUnsigned 65536 v | _ => none
def cselBlk : CGroup → Option Nat | .blk _ v => parseUnsigned Gen.usizeBound v | _ => none
def cselWin : CGroup → Option Nat | .win _ v => parseUnsigned 65536 v | _ => none
def cselTmo : CGroup → Option Nat | .tmo _ v => parseUnsigned Gen.usizeBound v | _ => none
def cselRd : CGroup → Option Bytes | .rd _ v => some v | _ => none
def cselMode : CGroup → Option Bool | .up _ => some true | .down _ => some false | _ => none
def cselKeep : CGroup → Option Bool | .keep => some false | _ => none
def cselFile : CGroup → Option Bytes | .file a => some (convertFilePath a) | _ => none

/-- **client: the last occurrence of each flag determines the configuration** — every setting of the
result is the value of the last group that names it (`-u` and `-d` name the same setting, every positional
argument names the file), or the starting value when no group does -/
theorem c17_client_last_wins (gs : List CGroup) (c : CCfg) :
    let r := gs.foldl (fun c g => g.apply c) c
    r.ip = (lastValC cselIp gs).getD c.ip ∧ r.port = (lastValC cselPort gs).getD c.port ∧
    r.blocksize = (lastValC cselBlk gs).getD c.blocksize ∧ r.windowsize = (lastValC cselWin gs).getD c.windowsize ∧
    r.timeoutS = (lastValC cselTmo gs).getD c.timeoutS ∧ r.recvDir = (lastValC cselRd gs).getD c.recvDir ∧
    r.upload = (lastValC cselMode gs).getD c.upload ∧ r.cleanOnError = (lastValC cselKeep gs).getD c.cleanOnError ∧
    r.filePath = (lastValC cselFile gs).getD c.filePath := by
  refine ⟨foldl_fieldC cselIp (·.ip) ?_ gs c, foldl_fieldC cselPort (·.port) ?_ gs c,
    foldl_fieldC cselBlk (·.blocksize) ?_ gs c, foldl_fieldC cselWin (·.windowsize) ?_ gs c,
    foldl_fieldC cselTmo (·.timeoutS) ?_ gs c, foldl_fieldC cselRd (·.recvDir) ?_ gs c,
    foldl_fieldC cselMode (·.upload) ?_ gs c, foldl_fieldC cselKeep (·.cleanOnError) ?_ gs c,
    foldl_fieldC cselFile (·.filePath) ?_ gs c⟩ <;>
  · intro g c
    cases g <;> simp [CGroup.apply, cselIp, cselPort, cselBlk, cselWin, cselTmo, cselRd, cselMode, cselKeep, cselFile] <;>
      (first | rfl | (rename_i v; cases parseUnsigned 65536 v <;> rfl) |
        (rename_i v; cases parseUnsigned Gen.usizeBound v <;> rfl))

/-- **client: order independence** — two vectors of valid groups in which every setting has the same last
occurrence give the same client configuration (any reordering that keeps, for each setting, its last
occurrence; in particular any permutation of a vector that names each setting at most once) -/
theorem c17_client_order_independent (o : Oracles) (gs1 gs2 : List CGroup)
    (h1 : ∀ g ∈ gs1, g.valid o = true) (h2 : ∀ g ∈ gs2, g.valid o = true)
    (hip : lastValC cselIp gs1 = lastValC cselIp gs2) (hport : lastValC cselPort gs1 = lastValC cselPort gs2)
    (hblk : lastValC cselBlk gs1 = lastValC cselBlk gs2) (hwin : lastValC cselWin gs1 = lastValC cselWin gs2)
    (htmo : lastValC cselTmo gs1 = lastValC cselTmo gs2) (hrd : lastValC cselRd gs1 = lastValC cselRd gs2)
    (hmode : lastValC cselMode gs1 = lastValC cselMode gs2) (hk : lastValC cselKeep gs1 = lastValC cselKeep gs2)
    (hfile : lastValC cselFile gs1 = lastValC cselFile gs2) :
    clientConfig o (gs1.flatMap CGroup.tokens) = clientConfig o (gs2.flatMap CGroup.tokens) := by
  unfold clientConfig
  rw [c17_client_groups_parse o gs1 _ h1, c17_client_groups_parse o gs2 _ h2]
  have e1 := c17_client_last_wins gs1 CCfg.default
  have e2 := c17_client_last_wins gs2 CCfg.default
  simp only at e1 e2
  have : gs1.foldl (fun c g => g.apply c) CCfg.default = gs2.foldl (fun c g => g.apply c) CCfg.default := by
    generalize gs1.foldl (fun c g => g.apply c) CCfg.default = a at e1
    generalize gs2.foldl (fun c g => g.apply c) CCfg.default = b at e2
    obtain ⟨a1, a2, a3, a4, a5, a6, a7, a8, a9⟩ := e1
    obtain ⟨b1, b2, b3, b4, b5, b6, b7, b8, b9⟩ := e2
    cases a; cases b
    simp only at a1 a2 a3 a4 a5 a6 a7 a8 a9 b1 b2 b3 b4 b5 b6 b7 b8 b9
    simp only [CCfg.mk.injEq]
    rw [a1, a2, a3, a4, a5, a6, a7, a8, a9, b1, b2, b3, b4, b5, b6, b7, b8, b9,
      hip, hport, hblk, hwin, htmo, hrd, hmode, hk, hfile]
    simp
  rw [this]

theorem lastValC_eq_getLast {α : Type} (sel : CGroup → Option α) (gs : List CGroup) :
    lastValC sel gs = (gs.filterMap sel).getLast? := by
  induction gs with
  | nil => simp [lastValC]
  | cons g gs ih =>
    simp only [lastValC, ih, List.filterMap_cons]
    cases hs : sel g with
    | none => cases (List.filterMap sel gs).getLast? <;> simp
    | some b =>
      simp only
      cases hl : List.filterMap sel gs with
      | nil => simp
      | cons x xs =>
        have : (x :: xs).getLast? = some ((x :: xs).getLast (by simp)) := List.getLast?_eq_some_getLast (by simp)
        rw [List.getLast?_cons_cons, this]

theorem lastValC_perm {α : Type} (sel : CGroup → Option α) {gs1 gs2 : List CGroup} (hp : gs1.Perm gs2)
    (h : (gs1.filterMap sel).length ≤ 1) : lastValC sel gs1 = lastValC sel gs2 := by
  rw [lastValC_eq_getLast, lastValC_eq_getLast, perm_short_eq (hp.filterMap sel) h]

/-- **client: permutation invariance** — a vector of valid client groups in which every setting is named at
most once (one mode flag, one file name) gives the same configuration in every order -/
theorem c17_client_permutation_invariant (o : Oracles) (gs1 gs2 : List CGroup) (hp : gs1.Perm gs2)
    (h1 : ∀ g ∈ gs1, g.valid o = true)
    (hip : (gs1.filterMap cselIp).length ≤ 1) (hport : (gs1.filterMap cselPort).length ≤ 1)
    (hblk : (gs1.filterMap cselBlk).length ≤ 1) (hwin : (gs1.filterMap cselWin).length ≤ 1)
    (htmo : (gs1.filterMap cselTmo).length ≤ 1) (hrd : (gs1.filterMap cselRd).length ≤ 1)
    (hmode : (gs1.filterMap cselMode).length ≤ 1) (hk : (gs1.filterMap cselKeep).length ≤ 1)
    (hfile : (gs1.filterMap cselFile).length ≤ 1) :
    clientConfig o (gs1.flatMap CGroup.tokens) = clientConfig o (gs2.flatMap CGroup.tokens) :=
  c17_client_order_independent o gs1 gs2 h1 (fun g hg => h1 g (hp.mem_iff.mpr hg))
    (lastValC_perm _ hp hip) (lastValC_perm _ hp hport) (lastValC_perm _ hp hblk) (lastValC_perm _ hp hwin)
    (lastValC_perm _ hp htmo) (lastValC_perm _ hp hrd) (lastValC_perm _ hp hmode) (lastValC_perm _ hp hk)
    (lastValC_perm _ hp hfile)

/-! non-vacuity: `-u -b 57 file -d` against `file -d -b 57` (mode: the last of the two mode flags; same file; same blksize) -/
example : clientConfig { ipOk := fun _ => true, pathExists := fun _ => true }
    ((CGroup.up false).tokens ++ (CGroup.blk false [53, 55]).tokens ++ (CGroup.file [120]).tokens ++ (CGroup.down false).tokens) =
  clientConfig { ipOk := fun _ => true, pathExists := fun _ => true }
    ((CGroup.file [120]).tokens ++ (CGroup.down true).tokens ++ (CGroup.blk true [53, 55]).tokens) := by decide

/-! ### client: the error branches -/

/-- a value flag of the client whose value is not acceptable: unparsable address, port, block size, window
size or time-out, a receive directory that does not exist -/
def CGroup.badValue (o : Oracles) : CGroup → Bool
  | .ip _ v => !o.ipOk v
  | .port _ v => (parseUnsigned 65536 v).isNone
  | .blk _ v => (parseUnsigned Gen.usizeBound v).isNone
  | .win _ v => (parseUnsigned 65536 v).isNone
  | .tmo _ v => (parseUnsigned Gen.usizeBound v).isNone
  | .rd _ v => !o.pathExists v
  | _ => false

theorem parse_cgroup_bad (o : Oracles) (g : CGroup) (rest : List Bytes) (c : CCfg) (hbad : g.badValue o = true) :
    parseClientArgs o (g.tokens ++ rest) c = .err := by
  cases g with
  | ip l v =>
    simp only [CGroup.badValue] at hbad
    cases l <;> simp only [CGroup.tokens, pick] <;> rw [parseClientArgs.eq_def] <;> simp_all [fI]
  | port l v =>
    simp only [CGroup.badValue] at hbad
    cases l <;> simp only [CGroup.tokens, pick] <;> rw [parseClientArgs.eq_def] <;>
      simp [fI, fP] <;> (split <;> simp_all)
  | blk l v =>
    simp only [CGroup.badValue] at hbad
    cases l <;> simp only [CGroup.tokens, pick] <;> rw [parseClientArgs.eq_def] <;>
      simp [fI, fP, fB] <;> (split <;> simp_all)
  | win l v =>
    simp only [CGroup.badValue] at hbad
    cases l <;> simp only [CGroup.tokens, pick] <;> rw [parseClientArgs.eq_def] <;>
      simp [fI, fP, fB, fW] <;> (split <;> simp_all)
  | tmo l v =>
    simp only [CGroup.badValue] at hbad
    cases l <;> simp only [CGroup.tokens, pick] <;> rw [parseClientArgs.eq_def] <;>
      simp [fI, fP, fB, fW, fT] <;> (split <;> simp_all)
  | rd l v =>
    simp only [CGroup.badValue] at hbad
    cases l <;> simp only [CGroup.tokens, pick] <;> rw [parseClientArgs.eq_def] <;>
      simp_all [fI, fP, fB, fW, fT, fRD]
  | up l => simp [CGroup.badValue] at hbad
  | down l => simp [CGroup.badValue] at hbad
  | keep => simp [CGroup.badValue] at hbad
  | file a => simp [CGroup.badValue] at hbad

/-- **client error**: the first value flag with an unacceptable value (unparsable address, port, block size,
window size, time-out; non-existent receive directory) makes the whole vector fail, whatever precedes
and whatever follows it -/
theorem c17_client_invalid_value_is_error (o : Oracles) (gs : List CGroup) (g : CGroup) (rest : List Bytes) (c : CCfg)
    (h : ∀ x ∈ gs, x.valid o = true) (hg : g.badValue o = true) :
    parseClientArgs o (gs.flatMap CGroup.tokens ++ g.tokens ++ rest) c = .err := by
  induction gs generalizing c with
  | nil => simp only [List.flatMap_nil, List.nil_append]; exact parse_cgroup_bad o g rest c hg
  | cons x xs ih =>
    simp only [List.flatMap_cons, List.append_assoc]
    rw [parse_cgroup o x _ c (h x (by simp))]
    have := ih (x.apply c) (fun y hy => h y (by simp [hy]))
    simpa [List.append_assoc] using this

/-- **client error**: a value-taking flag at the end of the vector fails, whatever valid groups precede it -/
theorem c17_client_missing_value_is_error (o : Oracles) (gs : List CGroup) (a : Bytes) (c : CCfg)
    (h : ∀ x ∈ gs, x.valid o = true) (ha : a ∈ fI ++ fP ++ fB ++ fW ++ fT ++ fRD) :
    parseClientArgs o (gs.flatMap CGroup.tokens ++ [a]) c = .err := by
  induction gs generalizing c with
  | nil =>
    simp only [List.flatMap_nil, List.nil_append]
    simp only [List.mem_append] at ha
    rw [parseClientArgs.eq_def]
    rcases ha with ((((ha | ha) | ha) | ha) | ha) | ha
    · simp [ha]
    · by_cases h1 : a ∈ fI <;> simp [ha, h1]
    · by_cases h1 : a ∈ fI <;> by_cases h2 : a ∈ fP <;> simp [ha, h1, h2]
    · by_cases h1 : a ∈ fI <;> by_cases h2 : a ∈ fP <;> by_cases h3 : a ∈ fB <;> simp [ha, h1, h2, h3]
    · by_cases h1 : a ∈ fI <;> by_cases h2 : a ∈ fP <;> by_cases h3 : a ∈ fB <;> by_cases h4 : a ∈ fW <;>
        simp [ha, h1, h2, h3, h4]
    · by_cases h1 : a ∈ fI <;> by_cases h2 : a ∈ fP <;> by_cases h3 : a ∈ fB <;> by_cases h4 : a ∈ fW <;>
        by_cases h5 : a ∈ fT <;> simp [ha, h1, h2, h3, h4, h5]
  | cons x xs ih =>
    simp only [List.flatMap_cons, List.append_assoc]
    rw [parse_cgroup o x _ c (h x (by simp))]
    exact ih (x.apply c) (fun y hy => h y (by simp [hy]))

/-! non-vacuity: `-u -p 70000` and `file -b` fail -/
example : clientConfig { ipOk := fun _ => true, pathExists := fun _ => true }
    ((CGroup.up false).tokens ++ (CGroup.port false [55, 48, 48, 48, 48]).tokens) = .err := by decide
example : (CGroup.port false [55, 48, 48, 48, 48]).badValue { ipOk := fun _ => true, pathExists := fun _ => true } = true := by
  decide
example : clientConfig { ipOk := fun _ => true, pathExists := fun _ => true }
    ((CGroup.file [120]).tokens ++ [[45, 98]]) = .err := by decide

/-! ### the flag spellings of the model are those of the source -/

/-- **tie to the source**: the flag tables the model's parsers test membership in are, arm by arm and in
source order, the string patterns of the `match arg.as_str()` arms of `Config::new` (`Gen.serverFlagTable`
is regenerated from `src/config.rs` on every run) -/
theorem c17_server_flags_match_source :
    [fI, fP, fD, fRD, fSD, fS, fR, fH, fDup, fOw, fKeep] = Gen.serverFlagTable := by decide

/-- the same for `ClientConfig::new` and `src/client_config.rs` -/
theorem c17_client_flags_match_source :
    [fI, fP, fB, fW, fT, fRD, fU, fDl, fKeep, fH] = Gen.clientFlagTable := by decide

/-- client defaults: 127.0.0.1 (`ip = none`), port 69, blksize 512, windowsize 1, timeout 5 s, download,
clean-on-error -/
theorem c17_client_defaults (o : Oracles) :
    clientConfig o [] = .ok CCfg.default ∧ CCfg.default.port = 69 ∧ CCfg.default.blocksize = 512 ∧
    CCfg.default.windowsize = 1 ∧ CCfg.default.timeoutS = 5 ∧ CCfg.default.upload = false ∧
    CCfg.default.cleanOnError = true := by
  refine ⟨by simp [clientConfig, parseClientArgs], ?_, ?_, ?_, ?_, rfl, rfl⟩ <;> decide

end Tftp
