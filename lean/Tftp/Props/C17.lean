import Tftp.Model.Config
