import Tftp.Lemmas.Sender
import Tftp.Lemmas.Receiver
/-!
# C18 — Window buffer contract: ordered, bounded, loss-free chunk queue over a file
-/
namespace Tftp

/-- read side: the window holds pieces `removed .. removed+len` of the file `f`, the file cursor stands
right behind them, and once the short piece has been handed out nothing follows it -/
structure WRead (f : Bytes) (removed : Nat) (w : Window) : Prop where
  elems_eq : ∀ i, i < w.elems.length → w.elems[i]? = some (slice w.chunk f (removed + i))
  cur : w.eof = false → w.file.rest = f.drop ((removed + w.elems.length) * w.chunk)
          ∧ (removed + w.elems.length) * w.chunk ≤ f.length
  fin : w.eof = true → removed + w.elems.length = f.length / w.chunk + 1
  len_le : w.elems.length ≤ w.size
  can_read : w.file.canRead = true

/-- a window is the window of a (ghost) sender state, so the sender lemmas apply -/
theorem WRead.toSInv {f : Bytes} {r : Nat} {w : Window} (h : WRead f r w) :
    SInv { b := w.chunk, w := w.size, timeout := 0, rep := 1 } f
      { bn := (r + 1) % 65536, win := w, filled := !w.eof, retry := 0, since := 0, status := .running, base := r + 1 } :=
  ⟨by simp, rfl, by simpa using h.elems_eq, by simpa using h.cur, by simpa using h.fin, h.len_le, rfl, rfl,
    h.can_read, rfl, fun _ => by show 0 < Gen.maxRetries; decide⟩

theorem c18_new_read (size chunk : Nat) (f : Bytes) : WRead f 0 (Window.new size chunk (FileSt.openRead f)) := by
  refine ⟨?_, ?_, ?_, by simp [Window.new], rfl⟩
  · intro i hi; simp [Window.new] at hi
  · intro _; simp [Window.new, FileSt.openRead]
  · intro h; simp [Window.new] at h

/-- **fill**: succeeds on a readable file, keeps the pieces already buffered, appends the next pieces of
the file in order without gap or repetition (piece `i` of the queue is bytes
`[(removed+i)·chunk, (removed+i+1)·chunk)`), never exceeds `size`, and reports `false` exactly when the
short (final) piece has been handed out -/
theorem c18_fill_in_order (f : Bytes) (r : Nat) (w : Window) (h : WRead f r w) (hc : 0 < w.chunk)
    (hs : w.size < 65536) :
    ∃ w' fl, w.fill = (w', .ok fl) ∧ WRead f r w' ∧ fl = !w'.eof ∧
      w'.size = w.size ∧ w'.chunk = w.chunk ∧ w.elems.length ≤ w'.elems.length ∧
      (∀ i, i < w.elems.length → w'.elems[i]? = w.elems[i]?) := by
  obtain ⟨w', fl, hfill, hinv, hgrow, _, _⟩ := fill_ok (c := { b := w.chunk, w := w.size, timeout := 0, rep := 1 }) hc hs h.toSInv
  simp only at hfill hgrow
  have hsz : w'.size = w.size := hinv.size_eq
  have hch : w'.chunk = w.chunk := hinv.chunk_eq
  refine ⟨w', fl, hfill, ⟨?_, ?_, ?_, ?_, hinv.can_read⟩, by simpa using hinv.filled_eq, hsz, hch, hgrow, ?_⟩
  · have := hinv.elems_eq; simpa [hch] using this
  · have := hinv.cur; simpa [hch] using this
  · have := hinv.fin; simpa [hch] using this
  · have := hinv.len_le; simpa [hsz] using this
  · intro i hi
    have h1 := hinv.elems_eq i (by simp only; omega)
    have h2 := h.elems_eq i hi
    simp only at h1
    rw [h1, h2]
    simp

/-- after the short piece, `fill` hands out nothing more (this is what failed before the repair) -/
theorem c18_no_piece_after_short (w : Window) (h : w.eof = true) : w.fill = (w, .ok false) := by
  unfold Window.fill; simp [h]

/-- **remove(k)** discards exactly the `k` oldest pieces; it fails, changing nothing, iff `k > len` -/
theorem c18_remove (w : Window) (k : Nat) (hs : w.elems.length < 65536) :
    (k ≤ w.elems.length → w.remove k = ({ w with elems := w.elems.drop k }, .ok ())) ∧
    (w.elems.length < k → w.remove k = (w, .err)) := by
  have hl : w.len = w.elems.length := by unfold Window.len; exact Nat.mod_eq_of_lt hs
  unfold Window.remove
  rw [hl]
  constructor
  · intro h; have : ¬ k > w.elems.length := by omega
    simp [this]
  · intro h; simp [h]

theorem c18_remove_keeps_order (f : Bytes) (r : Nat) (w : Window) (h : WRead f r w) (k : Nat)
    (hk : k ≤ w.elems.length) : WRead f (r + k) { w with elems := w.elems.drop k } := by
  refine ⟨?_, ?_, ?_, ?_, h.can_read⟩
  · intro i hi
    simp at hi ⊢
    have := h.elems_eq (k + i) (by omega)
    rw [this]; congr 2; omega
  · intro he
    have ⟨a, b⟩ := h.cur he
    simp only [List.length_drop]
    have : r + k + (w.elems.length - k) = r + w.elems.length := by omega
    rw [this]; exact ⟨a, b⟩
  · intro he
    have := h.fin he
    simp only [List.length_drop]
    omega
  · have := h.len_le; simp; omega

/-- **add** fails, changing nothing, iff the buffer is full; otherwise the piece goes to the back -/
theorem c18_add (w : Window) (d : Bytes) (hs : w.elems.length < 65536) :
    (w.elems.length = w.size → w.add d = (w, .err)) ∧
    (w.elems.length ≠ w.size → w.add d = ({ w with elems := w.elems ++ [d] }, .ok ())) := by
  have hl : w.len = w.elems.length := by unfold Window.len; exact Nat.mod_eq_of_lt hs
  unfold Window.add
  rw [hl]
  constructor
  · intro h; simp [h]
  · intro h; simp [h]

/-- **bounded**: no operation makes the buffer hold more than `size` pieces -/
theorem c18_bounded_add (w : Window) (d : Bytes) (hs : w.size < 65536) (h : w.elems.length ≤ w.size) :
    (w.add d).1.elems.length ≤ (w.add d).1.size := by
  have hl : w.len = w.elems.length := by unfold Window.len; exact Nat.mod_eq_of_lt (by omega)
  unfold Window.add
  rw [hl]
  split
  · exact h
  · simp; omega

/-- **empty** on a writable file appends all buffered pieces to the file in order and clears the buffer -/
theorem c18_empty (w : Window) (h : w.file.canWrite = true) :
    ∃ w', w.empty = (w', .ok ()) ∧ w'.elems = [] ∧ w'.file.content = w.file.content ++ w.elems.flatten := by
  unfold Window.empty
  simp only [h, Bool.not_true, Bool.false_and, Bool.false_eq_true, ↓reduceIte]
  exact ⟨_, rfl, rfl, (foldl_write_content w.elems w.file).1⟩

/-- on a read-only handle `empty` fails and clears nothing as soon as a non-empty piece is buffered -/
theorem c18_empty_readonly (w : Window) (h : w.file.canWrite = false) (hne : ∃ d ∈ w.elems, d ≠ []) :
    w.empty = (w, .err) := by
  unfold Window.empty
  obtain ⟨d, hd, hdn⟩ := hne
  have : w.elems.any (fun d => !d.isEmpty) = true := by
    rw [List.any_eq_true]
    exact ⟨d, hd, by simpa using hdn⟩
  simp [h, this]

/-! operation sequences on the read side -/

inductive ROp where
  | fill
  | remove (k : Nat)
deriving Repr

def ROp.apply (w : Window) : ROp → Window
  | .fill => w.fill.1
  | .remove k => (w.remove k).1

/-- **every sequence of fill/remove operations** on a window over a readable file keeps the queue an
in-order, gap-free, repetition-free run of the file's pieces, bounded by `size` -/
theorem c18_read_sequences (size chunk : Nat) (hc : 0 < chunk) (hs : size < 65536) (f : Bytes) (ops : List ROp) :
    ∃ r, WRead f r (ops.foldl ROp.apply (Window.new size chunk (FileSt.openRead f))) ∧
      (ops.foldl ROp.apply (Window.new size chunk (FileSt.openRead f))).size = size ∧
      (ops.foldl ROp.apply (Window.new size chunk (FileSt.openRead f))).chunk = chunk := by
  have key : ∀ (ops : List ROp) (w : Window) (r : Nat), WRead f r w → w.size = size → w.chunk = chunk →
      ∃ r', WRead f r' (ops.foldl ROp.apply w) ∧ (ops.foldl ROp.apply w).size = size ∧
        (ops.foldl ROp.apply w).chunk = chunk := by
    intro ops
    induction ops with
    | nil => intro w r h h1 h2; exact ⟨r, h, h1, h2⟩
    | cons o os ih =>
      intro w r h h1 h2
      simp only [List.foldl_cons]
      cases o with
      | fill =>
        obtain ⟨w', fl, hf, hw', _, hsz, hch, _⟩ := c18_fill_in_order f r w h (by omega) (by omega)
        simp only [ROp.apply, hf]
        exact ih w' r hw' (by omega) (by omega)
      | remove k =>
        have hl : w.elems.length < 65536 := by have := h.len_le; omega
        by_cases hk : k ≤ w.elems.length
        · simp only [ROp.apply, (c18_remove w k hl).1 hk]
          exact ih _ (r + k) (c18_remove_keeps_order f r w h k hk) h1 h2
        · simp only [ROp.apply, (c18_remove w k hl).2 (by omega)]
          exact ih w r h h1 h2
  exact key ops _ 0 (c18_new_read size chunk f) rfl rfl

/-! operation sequences on the write side -/

inductive WOp where
  | add (d : Bytes)
  | empty
deriving Repr

def WOp.apply (w : Window) : WOp → Window
  | .add d => (w.add d).1
  | .empty => w.empty.1

/-- the bytes the buffer took over during a sequence of `add`/`empty` calls: the argument of every `add`
that did not fail, in call order -/
def takenOver : Window → List WOp → Bytes
  | _, [] => []
  | w, .add d :: ops => (if w.len = w.size then [] else d) ++ takenOver (w.add d).1 ops
  | w, .empty :: ops => takenOver w.empty.1 ops

/-- **every sequence of add/empty operations** on a window over a writable file: file content followed by
the buffered pieces is always exactly what was there before followed by the pieces the buffer accepted, in
order, once each (nothing lost, repeated or reordered by `empty`); the buffer never holds more than `size` -/
theorem c18_write_sequences (ops : List WOp) (w : Window) (hs : w.size < 65536) (hl : w.elems.length ≤ w.size)
    (hw : w.file.canWrite = true) :
    (ops.foldl WOp.apply w).file.content ++ (ops.foldl WOp.apply w).elems.flatten
        = w.file.content ++ w.elems.flatten ++ takenOver w ops ∧
      (ops.foldl WOp.apply w).elems.length ≤ w.size ∧ (ops.foldl WOp.apply w).size = w.size := by
  induction ops generalizing w with
  | nil => simp [takenOver, hl]
  | cons o os ih =>
    simp only [List.foldl_cons]
    cases o with
    | add d =>
      have hlen : w.len = w.elems.length := by unfold Window.len; exact Nat.mod_eq_of_lt (by omega)
      simp only [WOp.apply, takenOver]
      by_cases hf : w.len = w.size
      · have e : (w.add d).1 = w := by unfold Window.add; simp [hf]
        rw [e, if_pos hf]
        simpa using ih w hs hl hw
      · have e : (w.add d).1 = { w with elems := w.elems ++ [d] } := by unfold Window.add; simp [hf]
        rw [e, if_neg hf]
        have := ih { w with elems := w.elems ++ [d] } hs (by simp; omega) hw
        simpa [List.append_assoc] using this
    | empty =>
      simp only [WOp.apply, takenOver]
      have e : w.empty.1 = { w with elems := [], file := w.elems.foldl FileSt.write w.file } := by
        unfold Window.empty; simp [hw]
      rw [e]
      obtain ⟨h1, h2⟩ := foldl_write_content w.elems w.file
      have := ih { w with elems := [], file := w.elems.foldl FileSt.write w.file } hs (by simp) (by simpa [hw] using h2)
      simpa [h1] using this

/-- from a freshly created file: at every moment content ++ buffered pieces = everything accepted so far -/
theorem c18_write_sequences_created (size chunk : Nat) (hs : size < 65536) (ops : List WOp) :
    let w := ops.foldl WOp.apply (Window.new size chunk FileSt.create)
    w.file.content ++ w.elems.flatten = takenOver (Window.new size chunk FileSt.create) ops ∧ w.elems.length ≤ size := by
  have := c18_write_sequences ops (Window.new size chunk FileSt.create) hs (by simp [Window.new]) rfl
  simpa [Window.new, FileSt.create, FileSt.content] using this.imp id And.left

/-! non-vacuity: add, add (refused: full), empty, add on a window of size 1 -/
example : (([WOp.add [1, 2], WOp.add [3], WOp.empty, WOp.add [4]].foldl WOp.apply (Window.new 1 8 FileSt.create)).file.content,
    ([WOp.add [1, 2], WOp.add [3], WOp.empty, WOp.add [4]].foldl WOp.apply (Window.new 1 8 FileSt.create)).elems,
    takenOver (Window.new 1 8 FileSt.create) [WOp.add [1, 2], WOp.add [3], WOp.empty, WOp.add [4]]) =
    ([1, 2], [[4]], [1, 2, 4]) := by decide

/-! non-vacuity: the unit test's sequence -/
example : ((Window.new 2 5 (FileSt.openRead [72, 101, 108, 108, 111, 44, 32, 119, 111, 114, 108, 100, 33])).fill.1.remove 1).1.fill.1.elems =
    [[44, 32, 119, 111, 114], [108, 100, 33]] := by decide

end Tftp
