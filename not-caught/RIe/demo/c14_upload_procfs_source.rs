// C14 demo: the bundled client uploading to the bundled server must leave
// byte-identical files on both sides, whatever the source file is.
// Needs the `client` feature:
//   cargo test --offline --features client --test c14_upload_procfs_source
#![cfg(feature = "client")]

use std::fs;
use std::net::UdpSocket;
use std::path::{Path, PathBuf};
use std::thread;
use std::time::Duration;
use tftpd::{Client, ClientConfig, Config, Server};

fn free_port() -> u16 {
    UdpSocket::bind("127.0.0.1:0").unwrap().local_addr().unwrap().port()
}

fn start_server(dir: &Path, single_port: bool) -> u16 {
    let port = free_port();
    let mut args = vec![
        "tftpd".to_string(),
        "-i".into(),
        "127.0.0.1".into(),
        "-p".into(),
        port.to_string(),
        "-d".into(),
        dir.to_str().unwrap().into(),
        "--overwrite".into(),
    ];
    if single_port {
        args.push("-s".into());
    }
    let config = Config::new(args.into_iter()).unwrap();
    let mut server = Server::new(&config).unwrap();
    thread::spawn(move || server.listen());
    thread::sleep(Duration::from_millis(200));
    port
}

fn upload(source: &Path, port: u16, blksize: usize, windowsize: u16) {
    // the client strips leading separators from its file argument, so absolute
    // paths are given relative to "/" (every test uses the same directory)
    std::env::set_current_dir("/").unwrap();
    let args = vec![
        "tftpc".to_string(),
        source.to_str().unwrap().into(),
        "-u".into(),
        "-i".into(),
        "127.0.0.1".into(),
        "-p".into(),
        port.to_string(),
        "-b".into(),
        blksize.to_string(),
        "-w".into(),
        windowsize.to_string(),
        "-t".into(),
        "1".into(),
    ];
    let config = ClientConfig::new(args.into_iter()).unwrap();
    Client::new(&config).unwrap().run().unwrap();
    // let the server's worker thread finish writing
    thread::sleep(Duration::from_millis(300));
}

fn scratch(name: &str) -> PathBuf {
    let dir = std::env::temp_dir().join(format!("c14_procfs_{}_{}", name, std::process::id()));
    let _ = fs::remove_dir_all(&dir);
    fs::create_dir_all(dir.join("srv")).unwrap();
    fs::create_dir_all(dir.join("src/nested")).unwrap();
    dir
}

// Control: ordinary files around the block boundaries still arrive intact.
#[test]
fn regular_files_arrive_intact() {
    let dir = scratch("regular");
    let port = start_server(&dir.join("srv"), false);
    for (i, &(len, blk, win)) in [
        (0usize, 512usize, 1u16),
        (1, 8, 1),
        (7, 8, 4),
        (8, 8, 1),
        (511, 512, 1),
        (512, 512, 2),
        (513, 512, 1),
        (3000, 1000, 3),
        (100, 1428, 1),
    ]
    .iter()
    .enumerate()
    {
        let name = format!("f{i}.bin");
        let src = dir.join("src/nested").join(&name);
        let content: Vec<u8> = (0..len).map(|k| (k * 7 + i) as u8).collect();
        fs::write(&src, &content).unwrap();
        upload(&src, port, blk, win);
        let stored = fs::read(dir.join("srv").join(&name)).unwrap();
        assert_eq!(stored, content, "len {len} blksize {blk} windowsize {win}");
    }
    let _ = fs::remove_dir_all(&dir);
}

// A source whose reported length (0) says nothing about its content.
fn procfs_upload(single_port: bool) {
    let source = Path::new("/proc/version");
    let expected = fs::read(source).expect("/proc/version must be readable");
    assert!(!expected.is_empty() && expected.len() < 512);
    assert_eq!(fs::metadata(source).unwrap().len(), 0);

    let dir = scratch(if single_port { "proc_single" } else { "proc_multi" });
    let port = start_server(&dir.join("srv"), single_port);
    for &(blk, win) in &[(512usize, 1u16), (1428, 4)] {
        upload(source, port, blk, win);
        let stored = fs::read(dir.join("srv/version")).unwrap();
        assert_eq!(
            stored,
            expected,
            "upload of /proc/version with blksize {blk} windowsize {win}: stored {} of {} bytes",
            stored.len(),
            expected.len()
        );
    }
    let _ = fs::remove_dir_all(&dir);
}

#[test]
fn procfs_source_multi_port() {
    procfs_upload(false);
}

#[test]
fn procfs_source_single_port() {
    procfs_upload(true);
}
