//! C01 demo: blocks that are sent again after a partial ACK must carry the bytes that were
//! read for them the first time, even if the file is rewritten on disk in the meantime.
//!
//! No cargo feature needed:  cargo test --offline --test c01_resent_blocks_keep_their_bytes

use std::collections::BTreeMap;
use std::error::Error;
use std::fs;
use std::net::SocketAddr;
use std::path::PathBuf;
use std::sync::mpsc::{channel, Receiver, Sender};
use std::sync::Mutex;
use std::time::Duration;
use tftpd::{Packet, Socket, Worker};

struct Scripted {
    out: Mutex<Sender<Packet>>,
    inp: Mutex<Receiver<Packet>>,
}

impl Socket for Scripted {
    fn send(&self, packet: &Packet) -> Result<(), Box<dyn Error>> {
        // through the wire format, as a real socket would
        let bytes = packet.serialize()?;
        self.out.lock().unwrap().send(Packet::deserialize(&bytes)?)?;
        Ok(())
    }
    fn send_to(&self, packet: &Packet, _to: &SocketAddr) -> Result<(), Box<dyn Error>> {
        self.send(packet)
    }
    fn recv_with_size(&self, _size: usize) -> Result<Packet, Box<dyn Error>> {
        Ok(self.inp.lock().unwrap().recv_timeout(Duration::from_secs(20))?)
    }
    fn recv_from_with_size(&self, size: usize) -> Result<(Packet, SocketAddr), Box<dyn Error>> {
        Ok((self.recv_with_size(size)?, self.remote_addr()?))
    }
    fn remote_addr(&self) -> Result<SocketAddr, Box<dyn Error>> {
        Ok("127.0.0.1:40000".parse()?)
    }
    fn set_read_timeout(&mut self, _dur: Duration) -> Result<(), Box<dyn Error>> {
        Ok(())
    }
    fn set_write_timeout(&mut self, _dur: Duration) -> Result<(), Box<dyn Error>> {
        Ok(())
    }
}

fn data(rx: &Receiver<Packet>) -> (u16, Vec<u8>) {
    match rx.recv_timeout(Duration::from_secs(10)).expect("sender went quiet") {
        Packet::Data { block_num, data } => (block_num, data),
        other => panic!("unexpected {other:?}"),
    }
}

/// Downloads `old` (which fits into one window) from a real `Worker`; after the first burst the
/// file is rewritten in place with `new`, and the peer acknowledges only `acked` blocks.
fn run(name: &str, blk: usize, win: u16, old: &[u8], new: &[u8], acked: u16) {
    let dir = PathBuf::from("target/c01_resent_demo");
    fs::create_dir_all(&dir).unwrap();
    let path = dir.join(name);
    fs::write(&path, old).unwrap();

    let (out_tx, out_rx) = channel();
    let (in_tx, in_rx) = channel();
    let socket: Box<dyn Socket> = Box::new(Scripted {
        out: Mutex::new(out_tx),
        inp: Mutex::new(in_rx),
    });
    let worker = Worker::new(socket, path.clone(), false, blk, Duration::from_secs(30), win, 1);
    let handle = worker.send(false).unwrap();

    let blocks = (old.len() / blk + 1) as u16;
    assert!(blocks <= win && acked < blocks);

    // first burst: the whole file
    let mut first: BTreeMap<u16, Vec<u8>> = BTreeMap::new();
    for k in 1..=blocks {
        let (n, d) = data(&out_rx);
        assert_eq!(n, k);
        first.insert(n, d);
    }
    // a receiver that got only blocks 1..=acked keeps those
    let mut copy: Vec<u8> = Vec::new();
    for k in 1..=acked {
        copy.extend_from_slice(&first[&k]);
    }

    // the file is rewritten on disk (cp new old / a deployment script) ...
    fs::write(&path, new).unwrap();
    // ... and the peer reports the loss of everything after `acked`
    in_tx.send(Packet::Ack(acked)).unwrap();

    let mut last = 0;
    for k in acked + 1..=blocks {
        let (n, d) = data(&out_rx);
        assert_eq!(n, k, "block numbers after the partial ACK");
        assert_eq!(
            d, first[&n],
            "{name}: block {n} was sent again with other bytes than the first time"
        );
        last = d.len();
        copy.extend_from_slice(&d);
        if d.len() < blk {
            break;
        }
    }
    assert!(last < blk, "{name}: transfer must end with a short block");
    in_tx.send(Packet::Ack(blocks)).ok();
    handle.join().unwrap();
    let _ = fs::remove_file(&path);

    assert!(
        copy == old || copy == new,
        "{name}: the reassembled copy is neither the old nor the new file ({} bytes)",
        copy.len()
    );
}

fn pattern(len: usize, seed: u8) -> Vec<u8> {
    (0..len).map(|i| (i as u8).wrapping_mul(31).wrapping_add(seed)).collect()
}

#[test]
fn same_length_rewrite() {
    run("same_len.bin", 512, 8, &pattern(2100, 1), &pattern(2100, 77), 2);
}

#[test]
fn shorter_rewrite_must_not_truncate_the_copy() {
    // the new file ends inside the acknowledged part
    run("shorter.bin", 512, 8, &pattern(2100, 1), &pattern(700, 77), 2);
}

#[test]
fn longer_rewrite_with_large_blocks() {
    run("longer.bin", 1428, 16, &pattern(1428 * 6, 5), &pattern(1428 * 9 + 3, 9), 1);
}

#[test]
fn control_no_rewrite() {
    let f = pattern(2100, 1);
    run("control.bin", 512, 8, &f, &f, 3);
}
