#!/bin/sh
# Builds the framework from files on disk only (offline).
set -e
cd "$(dirname "$0")"
export CARGO_NET_OFFLINE=true
python3 tools/extract.py
(cd lean && lake build driver Tftp)
(cd harness && cargo build --offline)
echo setup done
