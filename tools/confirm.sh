#!/bin/sh
# usage: tools/confirm.sh <worktree> <outdir> <demo-file> [extra cargo args]  — confirms a seeded change in its scratch worktree
WT=$1; OUT=$2; DEMO=$3; shift 3
cd "$WT" || exit 2
git checkout -q -- . ; T=$(basename "$DEMO" .rs)
cp "$OUT/demo/$DEMO" tests/ || exit 2
echo "== demo without patch"; cargo test --offline "$@" --test "$T" -- --test-threads=1 2>&1 | grep -E "^test result|error\[" | head -3
git apply "$OUT/patch.diff" || { echo "PATCH DOES NOT APPLY"; exit 2; }
echo "== unit tests with patch"; cargo test --offline --lib 2>&1 | grep -E "^test result" | head -2
echo "== demo with patch"; cargo test --offline "$@" --test "$T" -- --test-threads=1 2>&1 | grep -E "^test result|error\[" | head -3
git checkout -q -- . ; rm -f "tests/$DEMO"; git status --short | head -3
