#!/usr/bin/env python3
"""debug helper: ./tools/dbg.py <prop> [n] — run the first n generated cases, no retry, print mismatches"""
import os, sys, random, shutil
sys.path.insert(0, os.path.dirname(os.path.dirname(os.path.abspath(__file__))))
from checklib import registry, core, runner
pid = sys.argv[1]; n = int(sys.argv[2]) if len(sys.argv) > 2 else 200
tier = sys.argv[3] if len(sys.argv) > 3 else "quick"
prop = registry.get(pid)
wd = os.path.join(core.WORK, "dbg-%s" % pid)
shutil.rmtree(wd, ignore_errors=True); os.makedirs(wd)
prop.sandbox = os.path.join(wd, "sb")
rng = random.Random(int(os.environ.get("VERIF_SEED", "1")))
lines = (prop.corpus() + prop.generate(tier, rng))
random.Random(5).shuffle(lines)
lines = lines[:n]
model = core.run_model(lines, wd)
impl = runner.run_impl_for(prop, lines, wd, prop.impl_env)
bad = 0
for l, m, i in zip(lines, model, impl):
    o = prop.oracle(l, i)
    if o or not prop.compare(l, m, i):
        bad += 1
        if bad <= int(os.environ.get("SHOW", "8")):
            print("CASE", l[:300]); print("  M:", m[:400]); print("  I:", i[:400]); print("  oracle:", o)
print("cases", len(lines), "bad", bad)
shutil.rmtree(wd, ignore_errors=True)
