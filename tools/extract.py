#!/usr/bin/env python3
"""Regenerates lean/Tftp/Generated.lean from the current /repo source text.

Deliberately syntactic and narrow: literals, enum discriminants and match tables only.
When a pattern no longer matches, the last known value is kept and the key is listed in
extract_report.json as degraded (no alarm by itself; behaviour is still compared by the
correspondence check)."""
import json, os, re, sys

REPO = os.environ.get("VERIF_REPO", "/repo")
HERE = os.path.dirname(os.path.abspath(__file__))
OUT = os.path.join(HERE, "..", "lean", "Tftp", "Generated.lean")
REPORT = os.path.join(HERE, "..", ".work", "extract_report.json")

def src(name):
    try:
        with open(os.path.join(REPO, "src", name), encoding="utf-8") as f:
            return f.read()
    except OSError:
        return ""

def strip_tests(text):
    i = text.find("#[cfg(test)]")
    return text if i < 0 else text[:i]

def num(s):
    s = s.replace("_", "")
    return int(s, 16) if s.lower().startswith("0x") else int(s)

def main():
    degraded = []
    vals = {}

    def grab(key, text, pattern, default, conv=num):
        m = re.search(pattern, text, re.S)
        if m:
            try:
                vals[key] = conv(m.group(1))
                return
            except Exception:
                pass
        vals[key] = default
        degraded.append(key)

    worker = strip_tests(src("worker.rs"))
    server = strip_tests(src("server.rs"))
    socket = strip_tests(src("socket.rs"))
    packet = strip_tests(src("packet.rs"))
    config = strip_tests(src("config.rs"))
    cconfig = strip_tests(src("client_config.rs"))

    grab("maxRetries", worker, r"const\s+MAX_RETRIES\s*:\s*\w+\s*=\s*(\w+)\s*;", 6)
    grab("timeoutBufferMs", worker, r"const\s+TIMEOUT_BUFFER\s*:\s*Duration\s*=\s*Duration::from_secs\((\w+)\)", 1000,
         lambda s: num(s) * 1000)
    grab("defaultTimeoutS", server, r"const\s+DEFAULT_TIMEOUT\s*:\s*Duration\s*=\s*Duration::from_secs\((\w+)\)", 5)
    grab("defaultBlockSize", server, r"const\s+DEFAULT_BLOCK_SIZE\s*:\s*\w+\s*=\s*(\w+)\s*;", 512)
    grab("defaultWindowSize", server, r"const\s+DEFAULT_WINDOW_SIZE\s*:\s*\w+\s*=\s*(\w+)\s*;", 1)
    grab("maxRequestPacketSize", socket, r"const\s+MAX_REQUEST_PACKET_SIZE\s*:\s*\w+\s*=\s*(\w+)\s*;", 512)
    grab("socketDefaultTimeoutS", socket, r"const\s+DEFAULT_TIMEOUT\s*:\s*Duration\s*=\s*Duration::from_secs\((\w+)\)", 5)
    grab("clientDefaultTimeoutS", cconfig, r"const\s+DEFAULT_TIMEOUT\s*:\s*Duration\s*=\s*Duration::from_secs\((\w+)\)", 5)
    grab("clientDefaultBlocksize", cconfig, r"const\s+DEFAULT_BLOCKSIZE\s*:\s*\w+\s*=\s*(\w+)\s*;", 512)
    grab("clientDefaultWindowsize", cconfig, r"const\s+DEFAULT_WINDOWSIZE\s*:\s*\w+\s*=\s*(\w+)\s*;", 1)
    grab("defaultPort", config, r"port\s*:\s*(\d+)\s*,", 69)
    grab("clientDefaultPort", cconfig, r"port\s*:\s*(\d+)\s*,", 69)

    # enum Opcode discriminants and from_u16 arms
    m = re.search(r"pub enum Opcode\s*\{(.*?)\n\}", packet, re.S)
    body = m.group(1) if m else ""
    for k, d in [("Rrq", 1), ("Wrq", 2), ("Data", 3), ("Ack", 4), ("Error", 5), ("Oack", 6)]:
        grab("opcode" + k, body, r"\b%s\s*=\s*(\w+)\s*," % k, d)
    m = re.search(r"impl Opcode\s*\{.*?pub fn from_u16.*?match val\s*\{(.*?)_\s*=>", packet, re.S)
    body = m.group(1) if m else ""
    for k, d in [("Rrq", 1), ("Wrq", 2), ("Data", 3), ("Ack", 4), ("Error", 5), ("Oack", 6)]:
        grab("fromOpcode" + k, body, r"(\w+)\s*=>\s*Ok\(Opcode::%s\)" % k, d)

    names = [("NotDefined", 0), ("FileNotFound", 1), ("AccessViolation", 2), ("DiskFull", 3),
             ("IllegalOperation", 4), ("UnknownId", 5), ("FileExists", 6), ("NoSuchUser", 7)]
    m = re.search(r"pub enum ErrorCode\s*\{(.*?)\n\}", packet, re.S)
    body = m.group(1) if m else ""
    for k, d in names:
        grab("err" + k, body, r"\b%s\s*=\s*(\w+)\s*," % k, d)
    m = re.search(r"impl ErrorCode\s*\{.*?pub fn from_u16.*?match code\s*\{(.*?)_\s*=>", packet, re.S)
    body = m.group(1) if m else ""
    for k, d in names:
        grab("fromErr" + k, body, r"(\w+)\s*=>\s*Ok\(ErrorCode::%s\)" % k, d)

    onames = [("Blksize", "BlockSize", "blksize"), ("Tsize", "TransferSize", "tsize"),
              ("Timeout", "Timeout", "timeout"), ("Windowsize", "Windowsize", "windowsize")]
    m = re.search(r"pub fn as_str\(&self\).*?match self\s*\{(.*?)\n\s*\}\n", packet, re.S)
    body = m.group(1) if m else ""
    for lk, rk, d in onames:
        grab("name" + lk, body, r"OptionType::%s\s*=>\s*\"([^\"]*)\"" % rk, d, str)
    m = re.search(r"impl FromStr for OptionType.*?match value\s*\{(.*?)_\s*=>", packet, re.S)
    body = m.group(1) if m else ""
    for lk, rk, d in onames:
        grab("fromName" + lk, body, r"\"([^\"]*)\"\s*=>\s*Ok\(OptionType::%s\)" % rk, d, str)

    # config: `if duplicate_packets == u8::MAX`
    grab("dupPacketsBound", config, r"if\s+duplicate_packets\s*==\s*(u8::MAX|\d+)", 255,
         lambda s: 255 if s == "u8::MAX" else num(s))

    # parse_options guards (server.rs)
    m = re.search(r"fn parse_options\(.*?\n\}\n", server, re.S)
    po = m.group(0) if m else ""
    m = re.search(r"OptionType::BlockSize\s*=>(.*?)OptionType::TransferSize", po, re.S)
    blk = m.group(1) if m else ""
    m2 = re.search(r"\*value\s*<\s*(\w+)\s*\|\|\s*\*value\s*>\s*(\w+)", blk)
    consts = dict((k, num(v)) for k, v in re.findall(r"const\s+(\w+)\s*:\s*\w+\s*=\s*(\w+)\s*;", server))
    def cval(tok):
        return consts[tok] if tok in consts else num(tok)
    if m2:
        try:
            vals["blksizeMin"] = cval(m2.group(1)); vals["blksizeMax"] = cval(m2.group(2)); vals["blksizeChecked"] = True
        except Exception:
            vals["blksizeMin"], vals["blksizeMax"], vals["blksizeChecked"] = 8, 65464, True
            degraded.append("blksizeGuard")
    elif "Err" not in blk and "?" not in blk and "check" not in blk and "range" not in blk.lower() and "clamp" not in blk:
        # no guard at all in the BlockSize arm: the code accepts every value
        vals["blksizeMin"], vals["blksizeMax"], vals["blksizeChecked"] = 0, 2**64 - 1, False
    else:
        vals["blksizeMin"], vals["blksizeMax"], vals["blksizeChecked"] = 8, 65464, True
        degraded.append("blksizeGuard")
    m = re.search(r"OptionType::Timeout\s*=>(.*?)OptionType::Windowsize", po, re.S)
    tmo = m.group(1) if m else ""
    m2 = re.search(r"\*value\s*==\s*0\s*\|\|\s*\*value\s*>\s*(\w+)", tmo)
    if m2:
        try:
            vals["timeoutMax"] = cval(m2.group(1))
        except Exception:
            vals["timeoutMax"] = 255; degraded.append("timeoutGuard")
    elif re.search(r"\*value\s*==\s*0", tmo):
        vals["timeoutMax"] = 2**64 - 1
    else:
        vals["timeoutMax"] = 255; degraded.append("timeoutGuard")

    # flag spellings: the string patterns of the `match arg.as_str()` arms of both argument parsers, in source order
    def flag_table(text, default, key):
        arms = re.findall(r'^\s*((?:"[^"\n]*"\s*\|\s*)*"[^"\n]*")\s*=>', text, re.M)
        table = [re.findall(r'"([^"\n]*)"', a) for a in arms]
        table = [t for t in table if all(x.startswith("-") for x in t)]
        if not table:
            degraded.append(key); table = default
        return table
    tables = {
        "serverFlagTable": flag_table(config, [["-i", "--ip-address"], ["-p", "--port"], ["-d", "--directory"],
            ["-rd", "--receive-directory"], ["-sd", "--send-directory"], ["-s", "--single-port"], ["-r", "--read-only"],
            ["-h", "--help"], ["--duplicate-packets"], ["--overwrite"], ["--keep-on-error"]], "serverFlagTable"),
        "clientFlagTable": flag_table(cconfig, [["-i", "--ip-address"], ["-p", "--port"], ["-b", "--blocksize"],
            ["-w", "--windowsize"], ["-t", "--timeout"], ["-rd", "--receive-directory"], ["-u", "--upload"],
            ["-d", "--download"], ["--keep-on-error"], ["-h", "--help"]], "clientFlagTable"),
    }

    lines = ["/-! GENERATED by tools/extract.py from /repo/src/*.rs on every check run. Do not edit. -/",
             "namespace Tftp.Gen", ""]
    for k in sorted(vals):
        v = vals[k]
        if isinstance(v, bool):
            lines.append("def %s : Bool := %s" % (k, "true" if v else "false"))
        elif isinstance(v, int):
            lines.append("def %s : Nat := %d" % (k, v))
        else:
            lines.append("def %s : List UInt8 := [%s]  -- %s" % (k, ", ".join(str(b) for b in v.encode()), json.dumps(v)))
    for k in sorted(tables):
        rows = ["[" + ", ".join("[" + ", ".join(str(b) for b in x.encode()) + "]" for x in row) + "]" for row in tables[k]]
        lines.append("def %s : List (List (List UInt8)) := [%s]  -- %s" % (k, ", ".join(rows), json.dumps(tables[k])))
    vals.update(tables)
    lines += ["def usizeBound : Nat := 18446744073709551616", "", "end Tftp.Gen", ""]
    text = "\n".join(lines)
    old = None
    try:
        with open(OUT) as f:
            old = f.read()
    except OSError:
        pass
    if old != text:
        with open(OUT, "w") as f:
            f.write(text)
    os.makedirs(os.path.dirname(REPORT), exist_ok=True)
    with open(REPORT, "w") as f:
        json.dump({"values": vals, "degraded": degraded, "changed": old != text}, f, indent=1)
    print("extract: %d values, degraded=%s, changed=%s" % (len(vals), degraded, old != text))

if __name__ == "__main__":
    main()
