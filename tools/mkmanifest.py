#!/usr/bin/env python3
"""Writes MANIFEST.json from the table below (kept as a script so the file stays schema-valid)."""
import json, os
HERE = os.path.dirname(os.path.abspath(__file__))
V = os.path.dirname(HERE)

NOTE = ("Trusted: Lean 4.33.0 kernel; axioms ⊆ {propext, Classical.choice, Quot.sound} (printed per theorem on every run); "
        "the hand-written model is tied to the Rust code by differential execution on the cases of this run only; "
        "tools/extract.py regenerates constants/tables; Rust std behaviour listed in DESIGN.md section 7 is modelled, not verified.")

CLAIMED = {
    "C10": ("Theorems c10_total/c10_stable/c10_reject_* about the slice-for-slice model of Packet::deserialize hold for every byte string; "
            "the model is compared with the real decoder (under catch_unwind) on exhaustive short strings, all u16 prefixes and mutated datagrams, "
            "and an independent RFC rejection oracle is evaluated on the implementation's own results.", "5/C10",
            "Lean 4 proof over executable model + differential correspondence + RFC oracle on implementation output"),
    "C11": ("c11_decode_encode (round trip for every well-formed packet of all six kinds), layout equations, enum inverses over all u16 and "
            "decimal round trip are kernel-checked; the implementation's encoder is compared byte-for-byte with an independent RFC encoder and with the model.", "5/C11",
            "Lean 4 proof over executable model + differential correspondence + independent RFC encoder"),
}
PENDING = {}

def main():
    props = [json.loads(l) for l in open(os.path.join(V, "properties.jsonl"))]
    checks, na = [], []
    for p in props:
        pid = p["id"]
        if pid in CLAIMED:
            text, ref, tech = CLAIMED[pid]
            checks.append({
                "property_id": pid,
                "quick_cmd": "./check %s quick" % pid,
                "thorough_cmd": "./check %s thorough" % pid,
                "evidence_file": "evidence/%s.json" % pid,
                "replay_cmd_template": "./check %s --replay {path}" % pid,
                "engine": "lean-proof+correspondence",
                "level_claimed": {"category": "proof", "text": text, "design_ref": "DESIGN.md section " + ref},
                "level_note": NOTE,
                "technique": tech,
            })
        else:
            na.append({"property_id": pid, "reason": PENDING.get(pid, "check not built yet in this round (model and theorems in progress; see DESIGN.md section 5)")})
    m = {
        "version": 1,
        "setup_cmd": "./setup.sh",
        "hooks": {
            "guard": "feature verif (cargo feature of the tftpd crate)",
            "enable": "harness/Cargo.toml depends on /repo with features=[\"client\",\"verif\"]",
            "baseline_off_cmd": "cd /repo && cargo test --workspace --no-fail-fast --offline",
            "source_commits": [],
            "add_only": True,
        },
        "engines": [{
            "name": "lean-proof+correspondence",
            "path": "check",
            "serves_properties": sorted(CLAIMED),
            "kind_free_text": "Lean 4 theorems about a hand-written executable model (lean/Tftp), constants regenerated from /repo by tools/extract.py, "
                              "model tied to the Rust code by a differential harness (harness/) driven by checklib/ generators on every run",
        }],
        "checks": checks,
        "not_applicable": na,
        "notes": "See DESIGN.md. ./check <id> quick|thorough; VERIF_SEED selects the PRNG seed.",
    }
    with open(os.path.join(V, "MANIFEST.json"), "w") as f:
        json.dump(m, f, indent=1)
        f.write("\n")

if __name__ == "__main__":
    main()
